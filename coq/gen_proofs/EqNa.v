(* gen_proofs/EqNa.v — COMMITTED proof script, compiled on every run against the freshly generated SerifGen.GenNa
   (Vector.isna and Vector.dropna of /repo's current tree).
   Part 1: generated = the model (Model/NoneOps.isna / dropna).
   Part 2: the C06 theorems that relate the two restated for the generated definitions: dropna removes exactly the positions
           isna marks, in order; what is left holds no None; the result reports itself non-nullable, same kind.
   Only [Theorem]s are obligations. *)
From Coq Require Import List Bool.
From Serif Require Import Base.PyVal Base.GenPrelude Model.Dtype Model.Elementwise Model.NoneOps Spec.NoneOps Props.C06.
From SerifGen Require GenNa.
Import ListNotations.

Section Eq.
Variable val : Type.

Theorem gen_isna_eq : forall xs : list (option val), GenNa.vec_isna val xs = isna xs.
Proof.
  intros xs. unfold GenNa.vec_isna, isna. f_equal; try reflexivity; apply map_ext; intros [v|]; reflexivity.
Qed.

Lemma filter_some : forall xs : list (option val), filter (fun x => negb (is_none x)) xs = map Some (live_values xs).
Proof. induction xs as [|[v|] t IH]; cbn; [reflexivity | rewrite IH; reflexivity | exact IH]. Qed.

Theorem gen_dropna_eq : forall dt (xs : list (option val)), GenNa.vec_dropna val dt xs = dropna dt xs.
Proof. intros dt xs. unfold GenNa.vec_dropna, dropna. rewrite filter_some. reflexivity. Qed.

Theorem C06_gen_dropna_removes_what_isna_marks : forall dt (xs : list (option val)),
  fst (GenNa.vec_dropna val dt xs) = select (map negb (fst (GenNa.vec_isna val xs))) xs /\
  existsb is_none (fst (GenNa.vec_dropna val dt xs)) = false.
Proof.
  intros dt xs. rewrite gen_dropna_eq, gen_isna_eq. split; [apply C06_dropna_isna|].
  rewrite C06_dropna_is_clean_list. induction (drop_none xs) as [|v t IH]; cbn; [reflexivity | exact IH].
Qed.

Theorem C06_gen_dropna_reports_non_nullable : forall dt (xs : list (option val)),
  snd (GenNa.vec_dropna val dt xs) = match dt with Some d => Some (mkD (dkind d) false) | None => None end.
Proof. intros. rewrite gen_dropna_eq. apply C06_dropna_schema. Qed.
End Eq.

Print Assumptions gen_isna_eq.
Print Assumptions gen_dropna_eq.
Print Assumptions C06_gen_dropna_removes_what_isna_marks.
Print Assumptions C06_gen_dropna_reports_non_nullable.
