(* gen_proofs/EqAlias.v — COMMITTED proof script, compiled on every run against the freshly generated
   SerifGen.GenAlias (alias_tracker.py of /repo's current tree: _cleanup_dead_refs, register, unregister, check_writable).

   The code keeps weak references, some of them dead; the model (Model/Heap.v: register, unregister, check_writable) keeps
   the LIVE VIEW.  [Abs alive reg R]: under every storage identity, the live references the code's registry holds are the
   handles the model's registry holds.
   Part 1: every generated operation carries Abs to Abs with the model's operation (a refinement), for every liveness
           predicate - i.e. wherever garbage collection struck before the call.
   Part 2: C15's refusal rule restated for the generated check_writable.
   Only [Theorem]s are obligations. *)
From Coq Require Import List Bool Arith Lia.
From Serif Require Import Model.Heap Proofs.HeapBase Proofs.HeapReg.
From SerifGen Require GenAlias.
Import ListNotations.

Section Eq.
Variable alive : nat -> bool.
Notation registry := (list (nat * list nat)).

Definition Abs (reg R : registry) : Prop := forall id, filter alive (rget reg id) = rget R id.

Lemma cleanup_is_filter : forall refs, GenAlias.cleanup_dead_refs alive refs = filter alive refs.
Proof.
  intros refs. unfold GenAlias.cleanup_dead_refs. apply filter_ext. intros r.
  unfold GenAlias.deref, GenAlias.is_none. destruct (alive r); reflexivity.
Qed.

Lemma filter_idem : forall (l : list nat), filter alive (filter alive l) = filter alive l.
Proof.
  induction l as [|a t IH]; cbn [filter]; [reflexivity|].
  destruct (alive a) eqn:E; cbn [filter]; [rewrite E; f_equal|]; exact IH.
Qed.

Lemma existsb_live : forall vec l, alive vec = true ->
  existsb (fun r => GenAlias.ref_is (GenAlias.deref alive r) vec) (filter alive l) = mem vec (filter alive l).
Proof.
  intros vec l Hv. unfold mem. induction l as [|a t IH]; cbn [filter existsb]; [reflexivity|].
  destruct (alive a) eqn:E; [|exact IH]. cbn [existsb]. rewrite IH. f_equal.
  unfold GenAlias.deref, GenAlias.ref_is. rewrite E. apply Nat.eqb_sym.
Qed.

Lemma rget_setdefault : forall (reg : registry) id id2,
  rget (match aget reg id with Some _ => reg | None => aset reg id [] end) id2 = rget reg id2.
Proof.
  intros reg id id2. destruct (aget reg id) eqn:E; [reflexivity|].
  destruct (Nat.eq_dec id2 id) as [->|Hne].
  - rewrite rget_aset_same. unfold rget, handle. rewrite E. reflexivity.
  - apply rget_aset_other. exact Hne.
Qed.

Theorem gen_register_refines : forall reg R vec id,
  Abs reg R -> alive vec = true -> Abs (GenAlias.register alive reg vec id) (register R vec id).
Proof.
  intros reg R vec id HA Hv id2. unfold GenAlias.register, register.
  set (reg1 := match aget reg id with Some _ => reg | None => aset reg id [] end).
  assert (H1 : forall k, rget reg1 k = rget reg k) by (intros k; apply rget_setdefault).
  rewrite cleanup_is_filter, H1, existsb_live by exact Hv. rewrite (HA id).
  destruct (mem vec (rget R id)) eqn:M.
  - rewrite H1. apply HA.
  - destruct (Nat.eq_dec id2 id) as [->|Hne].
    + rewrite !rget_aset_same, filter_app, <- (HA id), filter_idem. cbn [filter]. rewrite Hv. reflexivity.
    + rewrite !rget_aset_other, H1 by exact Hne. apply HA.
Qed.

Lemma unreg_pred : forall vec r,
  (let obj := GenAlias.deref alive r in negb (GenAlias.is_none obj) && (negb (GenAlias.ref_is obj vec) && true))
  = alive r && negb (Nat.eqb r vec).
Proof.
  intros vec r. unfold GenAlias.deref, GenAlias.is_none, GenAlias.ref_is. cbn zeta.
  destruct (alive r); cbn [negb andb]; [apply andb_true_r|reflexivity].
Qed.

Lemma filter_live_and : forall (q : nat -> bool) l,
  filter alive (filter (fun r => alive r && q r) l) = filter q (filter alive l).
Proof.
  intros q. induction l as [|a t IH]; cbn [filter]; [reflexivity|].
  destruct (alive a) eqn:E; cbn [andb filter]; [|exact IH].
  destruct (q a) eqn:Q; cbn [filter]; [rewrite E; f_equal|]; exact IH.
Qed.

Lemma unreg_filter : forall vec l,
  filter alive (filter (fun r => let obj := GenAlias.deref alive r in
                                 negb (GenAlias.is_none obj) && (negb (GenAlias.ref_is obj vec) && true)) l)
  = filter (fun x => negb (Nat.eqb x vec)) (filter alive l).
Proof.
  intros vec l. rewrite (filter_ext _ _ (unreg_pred vec)). apply filter_live_and.
Qed.

Lemma filter_nil_of_nil : forall (p : nat -> bool) l, l = [] -> filter p l = [].
Proof. intros p l ->. reflexivity. Qed.

Lemma rget_unregister : forall (R : registry) vec id id2,
  rget (unregister R vec id) id2 =
  if Nat.eqb id2 id then filter (fun x => negb (Nat.eqb x vec)) (rget R id) else rget R id2.
Proof.
  intros R vec id id2. unfold unregister.
  destruct (Nat.eqb_spec id2 id) as [->|Hne]; destruct (filter (fun x => negb (Nat.eqb x vec)) (rget R id)) eqn:F.
  - apply rget_adel_same.
  - apply rget_aset_same.
  - apply rget_adel_other. exact Hne.
  - apply rget_aset_other. exact Hne.
Qed.

Theorem gen_unregister_refines : forall reg R vec id,
  Abs reg R -> Abs (GenAlias.unregister alive reg vec id) (unregister R vec id).
Proof.
  intros reg R vec id HA id2. rewrite rget_unregister. unfold GenAlias.unregister.
  assert (Hnone : rget reg id = [] -> filter alive (rget reg id2) =
            if Nat.eqb id2 id then filter (fun x => negb (Nat.eqb x vec)) (rget R id) else rget R id2).
  { intros E. destruct (Nat.eqb_spec id2 id) as [->|Hne]; [|apply HA].
    rewrite <- (HA id), E. reflexivity. }
  destruct (aget reg id) as [refs|] eqn:G.
  2:{ apply Hnone. unfold rget, handle. rewrite G. reflexivity. }
  assert (Hr : rget reg id = refs) by (unfold rget, handle; rewrite G; reflexivity).
  destruct refs as [|r0 rs]; [apply Hnone; exact Hr|].
  set (al := filter _ (r0 :: rs)).
  assert (Hal : filter alive al = filter (fun x => negb (Nat.eqb x vec)) (rget R id)).
  { unfold al. rewrite unreg_filter, <- (HA id), Hr. reflexivity. }
  destruct (Nat.eq_dec id2 id) as [E2|Hne];
    [rewrite E2, Nat.eqb_refl | rewrite (proj2 (Nat.eqb_neq _ _) Hne)].
  - rewrite <- Hal. destruct al as [|a0 as_]; [apply (f_equal (filter alive)), rget_adel_same|].
    rewrite rget_aset_same. reflexivity.
  - destruct al as [|a0 as_]; [rewrite rget_adel_other|rewrite rget_aset_other]; try exact Hne; apply HA.
Qed.

Lemma owners_length : forall l,
  length (flat_map (fun r => match GenAlias.deref alive r with Some o => [o] | None => [] end) (filter alive l))
  = length (filter alive l).
Proof.
  induction l as [|a t IH]; cbn [filter flat_map length]; [reflexivity|].
  destruct (alive a) eqn:E; [|exact IH]. cbn [flat_map]. unfold GenAlias.deref at 1. rewrite E.
  cbn [app length]. f_equal. exact IH.
Qed.

Theorem gen_check_writable_refines : forall reg R vec id,
  Abs reg R ->
  Abs (fst (GenAlias.check_writable alive reg vec id)) R /\
  snd (GenAlias.check_writable alive reg vec id) = check_writable R id.
Proof.
  intros reg R vec id HA. unfold GenAlias.check_writable, check_writable.
  assert (Hshort : rget reg id = [] -> true = (Nat.eqb id EMPTY || Nat.leb (length (rget R id)) 1)).
  { intros E. rewrite <- (HA id), E. cbn [filter length Nat.leb]. rewrite orb_true_r. reflexivity. }
  destruct (aget reg id) as [refs|] eqn:G.
  2:{ split; [exact HA|]. apply Hshort. unfold rget, handle. rewrite G. reflexivity. }
  assert (Hr : rget reg id = refs) by (unfold rget, handle; rewrite G; reflexivity).
  destruct refs as [|r0 rs]; [split; [exact HA|apply Hshort; exact Hr]|].
  destruct (Nat.eqb id EMPTY) eqn:EE; [split; [exact HA|reflexivity]|].
  rewrite cleanup_is_filter, owners_length. cbn [orb]. rewrite <- Hr, (HA id).
  assert (HA' : Abs (aset reg id (rget R id)) R).
  { intros id2. destruct (Nat.eq_dec id2 id) as [->|Hne].
    - rewrite rget_aset_same, <- (HA id). apply filter_idem.
    - rewrite rget_aset_other by exact Hne. apply HA. }
  match goal with |- context [if ?c then _ else _] => destruct c eqn:L end; cbn [fst snd]; (split; [exact HA'|]); unfold handle in *; rewrite L; reflexivity.
Qed.

Definition live_view (reg : registry) : registry := map (fun e => (fst e, filter alive (snd e))) reg.

Lemma Abs_live_view : forall reg, Abs reg (live_view reg).
Proof.
  intros reg k. unfold rget, live_view. induction reg as [|[k' l] t IH]; cbn [map aget fst snd]; [reflexivity|].
  destruct (Nat.eqb k k'); [reflexivity|exact IH].
Qed.

(* C15 restated for the generated tracker: a write is refused exactly when the storage is not the empty tuple's and
   two or more LIVE references are registered under it - dead references never cause a refusal, whatever their number *)
Theorem C15_gen_refused_iff_two_live_owners : forall reg vec id,
  snd (GenAlias.check_writable alive reg vec id) = false <->
  id <> EMPTY /\ 2 <= length (filter alive (rget reg id)).
Proof.
  intros reg vec id.
  pose proof (Abs_live_view reg) as HA.
  destruct (gen_check_writable_refines reg _ vec id HA) as [_ ->].
  unfold check_writable. rewrite <- (HA id).
  destruct (Nat.eqb_spec id EMPTY) as [->|Hne]; cbn [orb].
  - split; [discriminate|]. intros [H _]. exfalso. apply H. reflexivity.
  - match goal with |- context [Nat.leb ?x 1] => destruct (Nat.leb x 1) eqn:L end.
    + apply Nat.leb_le in L. split; [discriminate|]. intros [_ H]. exfalso. unfold handle in *. lia.
    + apply Nat.leb_gt in L. split; [|reflexivity]. intros _. split; [exact Hne|]. unfold handle in *. lia.
Qed.

(* the registry never holds one live vector twice under one storage *)
Theorem gen_register_keeps_owners_distinct : forall reg vec id,
  alive vec = true ->
  (forall k, NoDup (filter alive (rget reg k))) ->
  forall k, NoDup (filter alive (rget (GenAlias.register alive reg vec id) k)).
Proof.
  intros reg vec id Hv HN k.
  set (R := live_view reg). pose proof (Abs_live_view reg) as HA. fold R in HA.
  rewrite (gen_register_refines reg R vec id HA Hv k).
  apply nodup_register. rewrite <- (HA k). apply HN.
Qed.
End Eq.

(* garbage collection: the code's registry does not change when objects die - only what its weak references answer does.
   The model's [collect] drops the dead handles from its live view; the abstraction follows, for the new liveness. *)
Theorem gen_collection_refines : forall (alive alive' : nat -> bool) reg s hs,
  Abs alive reg (Heap.reg s) ->
  (forall x, alive' x = alive x && negb (mem x hs)) ->
  Abs alive' reg (Heap.reg (collect s hs)).
Proof.
  intros alive alive' reg s hs HA Hl id. rewrite rget_collect, <- (HA id).
  rewrite (filter_ext _ _ Hl). generalize (rget reg id). intros l.
  induction l as [|a t IH]; cbn [filter]; [reflexivity|].
  destruct (alive a); cbn [andb filter]; [|exact IH].
  destruct (negb (mem a hs)); [f_equal|]; exact IH.
Qed.

(* the tracker starts empty, like the model *)
Theorem gen_empty_registry_refines : forall alive, Abs alive [] (Heap.reg init).
Proof. intros alive id. reflexivity. Qed.

(* ---- every history ------------------------------------------------------------------------------------------------
   any finite sequence of registrations, removals, writability checks and collections, run on the generated tracker and on
   the model's registry: the abstraction holds at the end and every check answered alike *)
Inductive aop := AReg (h id : nat) | AUnreg (h id : nat) | ACheck (h id : nat) | AGc (hs : list nat).

Definition after_gc (alive : nat -> bool) (hs : list nat) : nat -> bool := fun x => alive x && negb (mem x hs).
Definition collect_reg (R : list (nat * list nat)) (hs : list nat) : list (nat * list nat) :=
  map (fun e => (fst e, filter (fun x => negb (mem x hs)) (snd e))) R.

Fixpoint crun (alive : nat -> bool) (reg : list (nat * list nat)) (ops : list aop)
  : (nat -> bool) * list (nat * list nat) * list bool :=
  match ops with
  | [] => (alive, reg, [])
  | AReg h id :: t => crun alive (GenAlias.register alive reg h id) t
  | AUnreg h id :: t => crun alive (GenAlias.unregister alive reg h id) t
  | ACheck h id :: t =>
      let rb := GenAlias.check_writable alive reg h id in
      let '(a, r, bs) := crun alive (fst rb) t in (a, r, snd rb :: bs)
  | AGc hs :: t => crun (after_gc alive hs) reg t
  end.

Fixpoint mrun (R : list (nat * list nat)) (ops : list aop) : list (nat * list nat) * list bool :=
  match ops with
  | [] => (R, [])
  | AReg h id :: t => mrun (register R h id) t
  | AUnreg h id :: t => mrun (unregister R h id) t
  | ACheck h id :: t => let '(r, bs) := mrun R t in (r, check_writable R id :: bs)
  | AGc hs :: t => mrun (collect_reg R hs) t
  end.

(* the code registers a vector it holds: the vector is alive at that moment *)
Fixpoint well_formed (alive : nat -> bool) (ops : list aop) : Prop :=
  match ops with
  | [] => True
  | AReg h _ :: t => alive h = true /\ well_formed alive t
  | AGc hs :: t => well_formed (after_gc alive hs) t
  | _ :: t => well_formed alive t
  end.

Lemma collect_reg_refines : forall alive reg R hs,
  Abs alive reg R -> Abs (after_gc alive hs) reg (collect_reg R hs).
Proof.
  intros alive reg R hs HA id. unfold collect_reg, rget.
  rewrite (aget_map_snd (fun _ l => filter (fun x => negb (mem x hs)) l)).
  specialize (HA id). unfold rget in HA. unfold handle in *.
  transitivity (filter (fun x => negb (mem x hs)) (filter alive match aget reg id with Some l => l | None => [] end)).
  - generalize (match aget reg id with Some l => l | None => [] end). intros l. unfold after_gc.
    induction l as [|a t IH]; cbn [filter]; [reflexivity|].
    destruct (alive a); cbn [andb filter]; [|exact IH].
    destruct (negb (mem a hs)); [f_equal|]; exact IH.
  - unfold handle in *. rewrite HA. destruct (aget R id); reflexivity.
Qed.

Theorem gen_tracker_history_refines : forall ops alive reg R,
  Abs alive reg R -> well_formed alive ops ->
  Abs (fst (fst (crun alive reg ops))) (snd (fst (crun alive reg ops))) (fst (mrun R ops)) /\
  snd (crun alive reg ops) = snd (mrun R ops).
Proof.
  induction ops as [|o t IH]; intros alive reg R HA HW; cbn [crun mrun fst snd]; [split; [exact HA|reflexivity]|].
  destruct o as [h id|h id|h id|hs]; cbn [well_formed] in HW.
  - destruct HW as [Hv HW]. apply IH; [apply gen_register_refines; assumption|exact HW].
  - apply IH; [apply gen_unregister_refines; assumption|exact HW].
  - destruct (gen_check_writable_refines alive reg R h id HA) as [HA' Hb].
    specialize (IH alive (fst (GenAlias.check_writable alive reg h id)) R HA' HW).
    destruct (crun alive (fst (GenAlias.check_writable alive reg h id)) t) as [[a r] bs].
    destruct (mrun R t) as [r' bs']. cbn [fst snd] in *. destruct IH as [IH1 IH2].
    split; [exact IH1|]. rewrite Hb, IH2. reflexivity.
  - apply IH; [apply collect_reg_refines; exact HA|exact HW].
Qed.

(* from the empty tracker: what the code answers to any well-formed history of calls is what the model answers *)
Theorem C15_gen_tracker_answers_as_model_after_any_history : forall ops alive,
  well_formed alive ops -> snd (crun alive [] ops) = snd (mrun [] ops).
Proof.
  intros ops alive HW. apply (gen_tracker_history_refines ops alive [] []); [|exact HW].
  intros id. reflexivity.
Qed.

Example history_example :
  let alive := fun _ : nat => true in
  let ops := [AReg 1 5; AReg 2 5; ACheck 1 5; AGc [2]; ACheck 1 5; AReg 3 5; AUnreg 1 5; ACheck 3 5; AReg 4 0; AReg 6 0; ACheck 4 0] in
  snd (crun alive [] ops) = [false; true; true; true] /\ well_formed alive ops.
Proof. vm_compute. repeat split. Qed.

Print Assumptions gen_register_refines.
Print Assumptions gen_unregister_refines.
Print Assumptions gen_check_writable_refines.
Print Assumptions C15_gen_refused_iff_two_live_owners.
Print Assumptions gen_register_keeps_owners_distinct.
Print Assumptions gen_collection_refines.
Print Assumptions gen_empty_registry_refines.
Print Assumptions gen_tracker_history_refines.
Print Assumptions C15_gen_tracker_answers_as_model_after_any_history.
