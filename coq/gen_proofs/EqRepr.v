(* gen_proofs/EqRepr.v — COMMITTED proof script, compiled on every run against the freshly generated SerifGen.GenRepr
   (display.py of /repo's current tree: the row budget of _format_column, the column budget of _repr_table, the limits).

   Part 1: closed form of the generated row preview, for every int limit and every column.
   Part 2: generated = the model (Model/Repr.v: preview, col_indices, truncated_cols, half).
   Part 3: C20's "never misstates data" for the generated budget: what is shown are rows of the column, in order, the first h
           and the last h; a gap is shown exactly when rows are hidden; within the limit every row is shown.
   Only [Theorem]s are obligations. *)
From Coq Require Import List Bool Arith ZArith Lia.
From Serif Require Import Model.Repr.
From SerifGen Require GenRepr.
Import ListNotations.

Lemma firstn_min_len : forall A (l : list A) k, firstn (Nat.min k (length l)) l = firstn k l.
Proof.
  intros A l k. destruct (Nat.le_ge_cases k (length l)) as [H|H].
  - rewrite Nat.min_l by exact H. reflexivity.
  - rewrite Nat.min_r by exact H. rewrite firstn_all, firstn_all2 by exact H. reflexivity.
Qed.

Lemma norm_nonneg : forall A (l : list A) h, GenRepr.norm (Z.of_nat h) l = Nat.min h (length l).
Proof.
  intros A l h. unfold GenRepr.norm, GenRepr.zlen.
  destruct (Z.ltb_spec (Z.of_nat h) 0) as [H|H]; [lia|]. lia.
Qed.

Lemma norm_neg : forall A (l : list A) h, (0 < h)%nat -> GenRepr.norm (- Z.of_nat h) l = length l - h.
Proof.
  intros A l h Hh. unfold GenRepr.norm, GenRepr.zlen.
  destruct (Z.ltb_spec (- Z.of_nat h) 0) as [H|H]; [|lia]. lia.
Qed.

(* ---- Part 1 -------------------------------------------------------------------------------------------------------- *)
Theorem gen_preview_closed_form : forall A (mp : Z) (l : list A),
  let h := Z.to_nat (Z.max mp 0) in
  GenRepr.preview_rows mp l =
  if (h * 2 <? length l)%nat
  then map Some (firstn h l) ++ [None] ++ map Some (skipn (length l - h) l)
  else map Some l.
Proof.
  intros A mp l h. unfold GenRepr.preview_rows. cbv zeta.
  assert (Hm : Z.max mp 0 = Z.of_nat h) by (unfold h; lia). rewrite Hm.
  assert (Hlen : GenRepr.zlen (map Some l) = Z.of_nat (length l)) by (unfold GenRepr.zlen; rewrite map_length; reflexivity).
  rewrite Hlen.
  destruct (Nat.ltb_spec (h * 2) (length l)) as [Hlt|Hge].
  - assert (E : (Z.of_nat (length l) >? Z.of_nat h * 2)%Z = true) by (apply Z.gtb_lt; lia). rewrite E.
    unfold GenRepr.slice_to, GenRepr.slice_from. rewrite norm_nonneg, firstn_min_len, firstn_map, <- app_assoc. f_equal. f_equal.
    destruct (Z.eqb_spec (Z.of_nat h) 0) as [Z0|Z0]; cbn [negb].
    + assert (h = 0)%nat as -> by lia. rewrite Nat.sub_0_r, skipn_all. reflexivity.
    + rewrite norm_neg by lia. rewrite map_length, skipn_map. reflexivity.
  - assert (E : (Z.of_nat (length l) >? Z.of_nat h * 2)%Z = false) by (rewrite Z.gtb_ltb; apply Z.ltb_ge; lia). rewrite E. reflexivity.
Qed.

(* ---- Part 2: generated = model --------------------------------------------------------------------------------------- *)
Definition to_pitem (o : option (nat * cellv)) : pitem :=
  match o with Some iv => PVal (fst iv) (snd iv) | None => PEll end.

Theorem gen_preview_eq : forall h (vals : list cellv),
  map to_pitem (GenRepr.preview_rows (Z.of_nat h) (combine (seq 0 (length vals)) vals)) = preview h vals.
Proof.
  intros h vals. rewrite gen_preview_closed_form. cbv zeta.
  replace (Z.to_nat (Z.max (Z.of_nat h) 0)) with h by lia.
  set (rows0 := combine (seq 0 (length vals)) vals).
  assert (Hl : length rows0 = length vals) by (unfold rows0; rewrite combine_length, seq_length; apply Nat.min_id).
  unfold preview. cbv zeta. fold rows0. rewrite Hl.
  destruct (Nat.ltb (h * 2) (length vals)) eqn:T.
  - rewrite !map_app, !map_map. cbn [map to_pitem app].
    rewrite <- !firstn_map. f_equal. f_equal.
    destruct (Nat.eqb_spec h 0) as [->|Hn].
    + rewrite Nat.sub_0_r. rewrite <- Hl at 1. rewrite skipn_all. reflexivity.
    + unfold slice_last. rewrite (proj2 (Nat.eqb_neq h 0) Hn), map_length, Hl, skipn_map. reflexivity.
  - rewrite map_map. reflexivity.
Qed.

Lemma map_of_nat_seq : forall a k, map Z.of_nat (seq a k) = map (fun i => (Z.of_nat a + Z.of_nat i)%Z) (seq 0 k).
Proof.
  intros a k. revert a. induction k as [|k IH]; intros a; cbn [seq map]; [reflexivity|].
  f_equal; [lia|]. rewrite IH, <- (seq_shift k 0), map_map. apply map_ext. intros i. lia.
Qed.

Lemma zrange_nat : forall a k, GenRepr.zrange (Z.of_nat a) (Z.of_nat (a + k)) = map Z.of_nat (seq a k).
Proof.
  intros a k. unfold GenRepr.zrange. replace (Z.to_nat (Z.of_nat (a + k) - Z.of_nat a)) with k by lia.
  symmetry. apply map_of_nat_seq.
Qed.

Theorem gen_col_indices_eq : forall n : nat,
  GenRepr.col_indices (Z.of_nat n) = (truncated_cols n, map Z.of_nat (col_indices n)).
Proof.
  intros n. unfold GenRepr.col_indices, col_indices, truncated_cols, MAX_HEAD_COLS, GenRepr.MAX_HEAD_COLS. cbv zeta.
  destruct (Nat.ltb_spec (5 * 2) n) as [H|H].
  - assert (E : (Z.of_nat n >? 5 * 2)%Z = true) by (apply Z.gtb_lt; lia). rewrite E. f_equal.
    rewrite map_app.
    replace (GenRepr.zrange 0 5) with (map Z.of_nat (seq 0 5)) by (symmetry; exact (zrange_nat 0 5)).
    replace (GenRepr.zrange (Z.of_nat n - 5) (Z.of_nat n)) with (map Z.of_nat (seq (n - 5) 5)); [reflexivity|].
    symmetry. replace (Z.of_nat n - 5)%Z with (Z.of_nat (n - 5)) by lia.
    replace (Z.of_nat n) with (Z.of_nat ((n - 5) + 5)) at 1 by lia. apply zrange_nat.
  - assert (E : (Z.of_nat n >? 5 * 2)%Z = false) by (rewrite Z.gtb_ltb; apply Z.ltb_ge; lia). rewrite E. f_equal.
    exact (zrange_nat 0 n).
Qed.

(* the limits: `limit // 2`, then `max(., 0)` inside _format_column = the model's half *)
Theorem gen_limits_eq : forall L : Z,
  Z.to_nat (Z.max (GenRepr.default_max_preview L) 0) = half L /\
  Z.to_nat (Z.max (GenRepr.own_max_preview L) 0) = half L.
Proof. intros L. unfold GenRepr.default_max_preview, GenRepr.own_max_preview, half. split; reflexivity. Qed.

(* ---- Part 3: C20 for the generated budget ---------------------------------------------------------------------------- *)
Definition shown {A} (p : list (option A)) : list A := flat_map (fun o => match o with Some x => [x] | None => [] end) p.
Definition has_gap {A} (p : list (option A)) : bool := existsb (fun o => match o with None => true | Some _ => false end) p.

Lemma shown_map_Some : forall A (l : list A), shown (map Some l) = l.
Proof. induction l as [|a t IH]; cbn; [reflexivity|f_equal; exact IH]. Qed.
Lemma gap_map_Some : forall A (l : list A), has_gap (map Some l) = false.
Proof. induction l as [|a t IH]; cbn; [reflexivity|exact IH]. Qed.

(* the rows a repr shows are rows of the column, in column order: the first h and the last h when rows are hidden, all of
   them otherwise; and the gap line appears exactly when rows are hidden - for EVERY limit (negative ones count as 0) *)
Theorem C20_gen_preview_shows_rows_of_the_column : forall A (mp : Z) (l : list A),
  let h := Z.to_nat (Z.max mp 0) in
  let p := GenRepr.preview_rows mp l in
  shown p = (if (h * 2 <? length l)%nat then firstn h l ++ skipn (length l - h) l else l) /\
  has_gap p = (h * 2 <? length l)%nat.
Proof.
  intros A mp l h p. unfold p. rewrite gen_preview_closed_form. fold h.
  destruct (Nat.ltb (h * 2) (length l)).
  - split.
    + unfold shown. rewrite !flat_map_app. cbn [flat_map app]. fold (shown (map Some (firstn h l))).
      fold (shown (map Some (skipn (length l - h) l))). rewrite !shown_map_Some. reflexivity.
    + unfold has_gap. rewrite !existsb_app. cbn [existsb]. rewrite orb_true_r. reflexivity.
  - split; [apply shown_map_Some|apply gap_map_Some].
Qed.

Theorem C20_gen_within_the_limit_every_row_is_shown : forall A (mp : Z) (l : list A),
  (Z.of_nat (length l) <= 2 * mp)%Z -> GenRepr.preview_rows mp l = map Some l.
Proof.
  intros A mp l H. rewrite gen_preview_closed_form. cbv zeta.
  destruct (Nat.ltb_spec (Z.to_nat (Z.max mp 0) * 2) (length l)) as [C|C]; [lia|reflexivity].
Qed.

(* no row is shown twice: the head and the tail do not overlap *)
Theorem C20_gen_shown_rows_are_not_repeated : forall A (mp : Z) (l : list A),
  length (shown (GenRepr.preview_rows mp l)) <= length l.
Proof.
  intros A mp l. destruct (C20_gen_preview_shows_rows_of_the_column A mp l) as [-> _].
  destruct (Nat.ltb_spec (Z.to_nat (Z.max mp 0) * 2) (length l)) as [C|C]; [|lia].
  rewrite app_length, firstn_length, skipn_length. lia.
Qed.

Print Assumptions gen_preview_closed_form.
Print Assumptions gen_preview_eq.
Print Assumptions gen_col_indices_eq.
Print Assumptions gen_limits_eq.
Print Assumptions C20_gen_preview_shows_rows_of_the_column.
Print Assumptions C20_gen_within_the_limit_every_row_is_shown.
Print Assumptions C20_gen_shown_rows_are_not_repeated.
