(* gen_proofs/EqCsv.v — COMMITTED proof script, compiled on every run against the freshly generated
   SerifGen.GenCsv (csv._infer_type of /repo's current tree): the order of the conversion attempts.

   Model/Csv.v takes the cell conversion as a parameter [conv] ("evaluated by Python"); what property
   C19 SAYS about it — "None if empty or blank, else an int if int() accepts its stripped text, else a
   float if float() does, else the stripped string" — is [cell_rule] below, with the str tests and the
   acceptance of int() / float() as parameters.  Part 1: generated = that rule.  Part 2: the model of
   read_csv instantiated with the generated conversion.
   NOT translated: _read_csv_from_file (nested loops over appended lists, a comprehension, Vector/Table
   constructors) — it stays tied by the correspondence check of C19 only.
   Only [Theorem]s are obligations. *)
From Coq Require Import List Bool Arith.
From Serif Require Import Base.PyVal Base.GenPrelude Model.Dtype Spec.DtypeLattice Model.Csv Spec.Csv Props.C19.
From SerifGen Require GenCsv.
Import ListNotations.

Section Rule.
Variable T : Type.
Variable empty : T -> bool.          (* t == '' *)
Variable strip : T -> T.             (* t.strip() *)
Variables int_ok float_ok : T -> bool.

(* the property text *)
Definition cell_rule (t : T) : cellres T :=
  if empty t || empty (strip t) then CNone
  else if int_ok (strip t) then CInt (strip t)
  else if float_ok (strip t) then CFloat (strip t)
  else CStr (strip t).

Notation gen := (GenCsv.infer_type T empty strip int_ok float_ok).

Theorem gen_infer_type_eq : forall t, gen t = cell_rule t.
Proof.
  intros t. cbv beta iota zeta delta [GenCsv.infer_type cell_rule].
  destruct (empty t), (empty (strip t)), (int_ok (strip t)), (float_ok (strip t)); reflexivity.
Qed.

(* the four cases, one by one *)
Theorem C19_gen_cell_conversion : forall t,
  (empty t = true \/ empty (strip t) = true -> gen t = CNone) /\
  (empty t = false -> empty (strip t) = false -> int_ok (strip t) = true -> gen t = CInt (strip t)) /\
  (empty t = false -> empty (strip t) = false -> int_ok (strip t) = false -> float_ok (strip t) = true ->
   gen t = CFloat (strip t)) /\
  (empty t = false -> empty (strip t) = false -> int_ok (strip t) = false -> float_ok (strip t) = false ->
   gen t = CStr (strip t)).
Proof.
  intros t. rewrite gen_infer_type_eq. unfold cell_rule.
  repeat split.
  - intros [H|H]; rewrite H; [reflexivity|rewrite orb_true_r; reflexivity].
  - intros H1 H2 H3. rewrite H1, H2, H3. reflexivity.
  - intros H1 H2 H3 H4. rewrite H1, H2, H3, H4. reflexivity.
  - intros H1 H2 H3 H4. rewrite H1, H2, H3, H4. reflexivity.
Qed.

(* int() is tried BEFORE float(): a text both accept ("12") becomes an int *)
Theorem C19_gen_int_before_float : forall t,
  empty t = false -> empty (strip t) = false -> int_ok (strip t) = true -> float_ok (strip t) = true ->
  gen t = CInt (strip t).
Proof. intros t H1 H2 H3 H4. rewrite gen_infer_type_eq. unfold cell_rule. rewrite H1, H2, H3. reflexivity. Qed.

(* read_csv's model with the GENERATED conversion: [value] says which Python object (identity, class)
   each conversion result is *)
Variable value : cellres T -> cval.
Hypothesis value_none : value CNone = None.

Theorem C19_gen_cell_spec : forall hh recs t,
  read_records (fun x => value (gen x)) hh recs = Done t ->
  forall i j rec, nth_error (data_records hh recs) i = Some rec -> j < ncols t ->
  (forall x, nth_error rec j = Some x -> cell t i j = Some (value (cell_rule x))) /\
  (List.length rec <= j -> cell t i j = Some None).
Proof.
  intros hh recs t Hr i j rec Hi Hj.
  destruct (C19_cell_spec T (fun x => value (gen x)) hh recs t Hr i j rec Hi Hj) as [A B].
  split; [|exact B]. intros x Hx. rewrite (A x Hx), gen_infer_type_eq. reflexivity.
Qed.

(* a blank cell and a missing cell are both None *)
Theorem C19_gen_blank_is_none : forall hh recs t,
  read_records (fun x => value (gen x)) hh recs = Done t ->
  forall i j rec x, nth_error (data_records hh recs) i = Some rec -> j < ncols t ->
  nth_error rec j = Some x -> (empty x = true \/ empty (strip x) = true) -> cell t i j = Some None.
Proof.
  intros hh recs t Hr i j rec x Hi Hj Hx Hb.
  destruct (C19_gen_cell_spec hh recs t Hr i j rec Hi Hj) as [A _].
  rewrite (A x Hx). unfold cell_rule.
  destruct Hb as [H|H]; rewrite H, ?orb_true_r; cbn; rewrite value_none; reflexivity.
Qed.
End Rule.
Print Assumptions gen_infer_type_eq.
Print Assumptions C19_gen_cell_conversion.
Print Assumptions C19_gen_int_before_float.
Print Assumptions C19_gen_cell_spec.
Print Assumptions C19_gen_blank_is_none.
