(* gen_proofs/EqJoinIndex.v — COMMITTED proof script, compiled on every run against the freshly generated
   SerifGen.GenJoinIndex (the right-side hash index loops of inner_join, join and full_join of /repo's current tree).

   Part 1: for each join, the generated loop = Model/Join.build_index with that join's way of recording duplicates
           (inner / full: always; left: only when absent), for either value of the uniqueness flag.
   Part 2: C09's index theorem restated for the generated index: looking a key up gives exactly the right rows whose key
           equals it, in ascending order.
   Only [Theorem]s are obligations. *)
From Coq Require Import List Bool Arith.
From Serif Require Import Base.PyVal Base.GenPrelude Spec.Join Model.Join Props.C09.
From SerifGen Require GenJoinIndex.
Import ListNotations.

Section Eq.
Variable V : Type.
Variable veq : V -> V -> bool.
Notation key := (Model.Join.key V).
Notation keq := (Model.Join.keq V veq).

Lemma get_eq : forall (d : Model.Join.dict V) k, GenPrelude.dict_get keq d k = Model.Join.dict_get V veq d k.
Proof. induction d as [|[k' b] r IH]; intros k; cbn; [reflexivity | rewrite IH; reflexivity]. Qed.

Lemma set_is_add : forall (d : Model.Join.dict V) k j,
  match Model.Join.dict_get V veq d k with
  | None => GenPrelude.dict_set keq d k [j]
  | Some b => GenPrelude.dict_set keq d k (b ++ [j])
  end = Model.Join.dict_add V veq d k j.
Proof.
  induction d as [|[k' b] r IH]; intros k j; cbn [Model.Join.dict_get GenPrelude.dict_set Model.Join.dict_add]; [reflexivity|].
  destruct (keq k k') eqn:E; [reflexivity|].
  specialize (IH k j). destruct (Model.Join.dict_get V veq r k); f_equal; exact IH.
Qed.

Lemma kmem_eq : forall s k, GenJoinIndex.kmem V keq s k = Model.Join.kmem V veq s k.
Proof. reflexivity. Qed.

Definition style_step (st : dups_style) (chk : bool) (s : Model.Join.dict V * list key) (k : key) (j : nat) :=
  match Model.Join.dict_get V veq (fst s) k with
  | None => (Model.Join.dict_add V veq (fst s) k j, snd s)
  | Some _ => (Model.Join.dict_add V veq (fst s) k j, if chk then dups_update V veq st (snd s) k else snd s)
  end.

Lemma build_loop_fold : forall st chk rk js idx dups,
  build_loop V veq st chk rk js idx dups = fold_left (fun s j => style_step st chk s (rk j) j) js (idx, dups).
Proof.
  intros st chk rk js. induction js as [|j rest IH]; intros idx dups; cbn [build_loop fold_left]; [reflexivity|].
  unfold style_step at 2. cbn [fst snd]. destruct (Model.Join.dict_get V veq idx (rk j)); apply IH.
Qed.

Lemma inner_step_eq : forall chk s k j, GenJoinIndex.inner_index_step V keq chk s k j = style_step AssignAlways chk s k j.
Proof.
  intros chk [idx dups] k j. unfold GenJoinIndex.inner_index_step, style_step. cbv beta iota zeta delta [fst snd].
  rewrite get_eq. pose proof (set_is_add idx k j) as H.
  destruct (Model.Join.dict_get V veq idx k); f_equal; try exact H; destruct chk; reflexivity.
Qed.

Lemma full_step_eq : forall chk s k j, GenJoinIndex.full_index_step V keq chk s k j = style_step AssignAlways chk s k j.
Proof.
  intros chk [idx dups] k j. unfold GenJoinIndex.full_index_step, style_step. cbv beta iota zeta delta [fst snd].
  rewrite get_eq. pose proof (set_is_add idx k j) as H.
  destruct (Model.Join.dict_get V veq idx k); f_equal; try exact H; destruct chk; reflexivity.
Qed.

Lemma left_step_eq : forall chk s k j, GenJoinIndex.left_index_step V keq chk s k j = style_step AssignIfAbsent chk s k j.
Proof.
  intros chk [idx dups] k j. unfold GenJoinIndex.left_index_step, style_step. cbv beta iota zeta delta [fst snd].
  rewrite get_eq. pose proof (set_is_add idx k j) as H.
  destruct (Model.Join.dict_get V veq idx k); f_equal; try exact H.
  destruct chk; cbn [andb]; [|reflexivity].
  unfold dups_update, dups_assign. change (GenJoinIndex.kmem V keq dups k) with (Model.Join.kmem V veq dups k).
  destruct (Model.Join.kmem V veq dups k); reflexivity.
Qed.

Lemma fold_ext : forall A B (f g : A -> B -> A) l a, (forall a b, f a b = g a b) -> fold_left f l a = fold_left g l a.
Proof. intros A B f g l. induction l as [|b t IH]; intros a H; cbn; [reflexivity|]. rewrite H. apply IH. exact H. Qed.

Theorem gen_inner_index_eq : forall chk rkeys m,
  GenJoinIndex.inner_index V keq chk rkeys m = build_index V veq AssignAlways chk (GenJoinIndex.inner_index_key V rkeys) m.
Proof.
  intros. unfold GenJoinIndex.inner_index, build_index. rewrite build_loop_fold. apply fold_ext. intros s j. apply inner_step_eq.
Qed.

Theorem gen_left_index_eq : forall chk rkeys m,
  GenJoinIndex.left_index V keq chk rkeys m = build_index V veq AssignIfAbsent chk (GenJoinIndex.left_index_key V rkeys) m.
Proof.
  intros. unfold GenJoinIndex.left_index, build_index. rewrite build_loop_fold. apply fold_ext. intros s j. apply left_step_eq.
Qed.

Theorem gen_full_index_eq : forall chk rkeys m,
  GenJoinIndex.full_index V keq chk rkeys m = build_index V veq AssignAlways chk (GenJoinIndex.full_index_key V rkeys) m.
Proof.
  intros. unfold GenJoinIndex.full_index, build_index. rewrite build_loop_fold. apply fold_ext. intros s j. apply full_step_eq.
Qed.

(* the key of a right row: its cell in every key column, in key order (the model's key_at on the columns' cells) *)
Theorem gen_index_key_eq : forall (kcols : list (column V)) j,
  GenJoinIndex.inner_index_key V (map (@cvals V) kcols) j = key_at V kcols j /\
  GenJoinIndex.left_index_key V (map (@cvals V) kcols) j = key_at V kcols j /\
  GenJoinIndex.full_index_key V (map (@cvals V) kcols) j = key_at V kcols j.
Proof.
  intros. unfold GenJoinIndex.inner_index_key, GenJoinIndex.left_index_key, GenJoinIndex.full_index_key, key_at, cell_at.
  rewrite map_map. repeat split; reflexivity.
Qed.

(* C09's index theorem, restated for the generated loops: looking a key up in the index any of the three joins builds gives
   exactly the right rows whose key tuple equals it, in ascending order - whatever the uniqueness flag *)
Theorem C09_gen_index_lookup : eq_equivalence veq ->
  forall chk rkeys m q,
  let rows := filter (fun j => keq q (GenJoinIndex.inner_index_key V rkeys j)) (seq 0 m) in
  let get := fun idx => match Model.Join.dict_get V veq idx q with Some b => b | None => [] end in
  get (fst (GenJoinIndex.inner_index V keq chk rkeys m)) = rows /\
  get (fst (GenJoinIndex.left_index V keq chk rkeys m)) = rows /\
  get (fst (GenJoinIndex.full_index V keq chk rkeys m)) = rows.
Proof.
  intros E chk rkeys m q rows get. subst rows get.
  rewrite gen_inner_index_eq, gen_left_index_eq, gen_full_index_eq.
  repeat split; apply C09_index_lookup; exact E.
Qed.
End Eq.

Print Assumptions gen_inner_index_eq.
Print Assumptions gen_left_index_eq.
Print Assumptions gen_full_index_eq.
Print Assumptions gen_index_key_eq.
Print Assumptions C09_gen_index_lookup.
