(* gen_proofs/EqSlice.v — COMMITTED proof script, compiled on every run against the freshly
   generated SerifGen.GenSlice (typeutils.slice_length of /repo's current tree).
   A slice object is the triple (start, stop, step) of int-or-None; s.indices(n) is
   Spec/PySlice.adjust (GenPrelude.slice_indices).  Only [Theorem]s are obligations. *)
From Coq Require Import List Bool Arith ZArith Lia.
From Serif Require Import Base.PyVal Base.StErr Base.GenPrelude Spec.PySlice Model.Index Props.C07.
From SerifGen Require GenSlice.
Import ListNotations.
Local Open Scope Z_scope.

(* both sides are  max 0 (<linear term> / step)  once the sign test on step is decided *)
Theorem gen_slice_length_eq : forall a b s n,
  GenSlice.slice_length (a, b, s) n = slice_length a b s n.
Proof.
  intros a b s n. cbv beta iota zeta delta [GenSlice.slice_length slice_length slice_indices].
  destruct (adjust a b s n) as [[start stop] step].
  rewrite ?Z.gtb_ltb, ?Z.geb_leb.
  repeat match goal with
         | |- context [Z.ltb ?x ?y] => destruct (Z.ltb_spec x y)
         | |- context [Z.leb ?x ?y] => destruct (Z.leb_spec x y)
         | |- context [Z.eqb ?x ?y] => destruct (Z.eqb_spec x y)
         end;
    first [reflexivity | lia | (f_equal; f_equal; lia) | (f_equal; lia)].
Qed.
Print Assumptions gen_slice_length_eq.

(* property C07: slice_length(s, n) is the length of range(start, stop, step) for the adjusted triple — for the generated definition *)
Theorem C07_gen_slice_length_correct : forall a b s (n : nat), step_of s <> 0 ->
  GenSlice.slice_length (a, b, s) (Z.of_nat n) = Z.of_nat (length (slice_positions a b s n)).
Proof. intros a b s n H. rewrite gen_slice_length_eq. exact (C07_slice_length_correct a b s n H). Qed.
Print Assumptions C07_gen_slice_length_correct.

Theorem C07_gen_getslice_length : forall A (v : vec A) a b s w, step_of s <> 0 ->
  getitem v (IxSlice a b s) = Ok (GVec w) ->
  Z.of_nat (length (vals w)) = GenSlice.slice_length (a, b, s) (Z.of_nat (length (vals v))).
Proof. intros A v a b s w H G. rewrite gen_slice_length_eq. exact (C07_getslice_length A v a b s w H G). Qed.
Print Assumptions C07_gen_getslice_length.
