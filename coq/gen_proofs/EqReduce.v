(* gen_proofs/EqReduce.v — COMMITTED proof script, compiled on every run against the freshly generated
   SerifGen.GenReduce: the None-skipping reductions of /repo's current tree —
     vector.py  Vector.max / min / sum / all / any / mean / stdev (1-D branch)
     table.py   the six per-group functions of Table.aggregate and the six of Table.window.

   Part 1 (fully parametric: Python's builtins and arithmetic are arbitrary functions): every one of the 19 generated
           reductions is a function of the None-free cells — inserting or removing None changes no result (C06).
   Part 2 the generated Vector reductions = the model of C06 (Model/NoneOps.reduce) and = what the property says
           (Spec/NoneOps.reduce_clean of the None-free list), for every reduction; the arithmetic of mean / stdev is
           whatever the source computes from the None-free list (existentially quantified, exhibited).
   Part 3 the generated per-group functions of aggregate = the model of C12 (Model/Group.agg_fn), for all six kinds,
           and those of window = those of aggregate (C13).
   Only [Theorem]s are obligations. *)
From Coq Require Import List Bool Arith ZArith Lia.
From Serif Require Import Base.PyVal Base.GenPrelude Model.Elementwise Model.NoneOps Spec.NoneOps Model.Group Spec.Group
  Props.C06 Props.C12.
From SerifGen Require GenReduce.
Import ListNotations.

Ltac split_tests :=
  repeat match goal with
         | |- context [Nat.ltb ?a ?b] => destruct (Nat.ltb_spec a b)
         | |- context [Nat.leb ?a ?b] => destruct (Nat.leb_spec a b)
         end; try reflexivity; try lia.

Lemma live_values_drop_none : forall A (l : list (option A)), live_values l = drop_none l.
Proof. induction l as [|[v|] t IH]; cbn; [reflexivity | rewrite IH; reflexivity | exact IH]. Qed.

Lemma live_values_some : forall A (l : list A), live_values (map Some l) = l.
Proof. induction l as [|v t IH]; cbn; [reflexivity | rewrite IH; reflexivity]. Qed.

Lemma live_values_app : forall A (a b : list (option A)), live_values (a ++ b) = live_values a ++ live_values b.
Proof. induction a as [|[v|] t IH]; intros b; cbn; [reflexivity | rewrite IH; reflexivity | apply IH]. Qed.

(* ------------------------------------------------------------------------------------------------
   Part 1: None is skipped, whatever Python's builtins and arithmetic do *)
Section Skips.
Variables val num R : Type.
Variable o : GenReduce.ops val num R.
Notation r_none := (GenReduce.r_none val num R o).

(* the 19 generated reductions, by name *)
Inductive gred :=
| VMax | VMin | VSum | VAll | VAny | VMean | VStdev (population : bool)
| ASum' | AMean' | AMin' | AMax' | ACount' | AStdev'
| WSum | WMean | WMin | WMax | WCount | WStdev.

Definition gen (g : gred) : list (option val) -> R :=
  match g with
  | VMax => GenReduce.vec_max val num R o
  | VMin => GenReduce.vec_min val num R o
  | VSum => GenReduce.vec_sum val num R o
  | VAll => GenReduce.vec_all val num R o
  | VAny => GenReduce.vec_any val num R o
  | VMean => GenReduce.vec_mean val num R o
  | VStdev p => GenReduce.vec_stdev val num R o p
  | ASum' => GenReduce.aggregate_sum val num R o
  | AMean' => GenReduce.aggregate_mean val num R o
  | AMin' => GenReduce.aggregate_min val num R o
  | AMax' => GenReduce.aggregate_max val num R o
  | ACount' => GenReduce.aggregate_count val num R o
  | AStdev' => GenReduce.aggregate_stdev val num R o
  | WSum => GenReduce.window_sum val num R o
  | WMean => GenReduce.window_mean val num R o
  | WMin => GenReduce.window_min val num R o
  | WMax => GenReduce.window_max val num R o
  | WCount => GenReduce.window_count val num R o
  | WStdev => GenReduce.window_stdev val num R o
  end.

Ltac unfold_gen := cbv beta iota delta [gen
    GenReduce.vec_max GenReduce.vec_min GenReduce.vec_sum GenReduce.vec_all GenReduce.vec_any GenReduce.vec_mean GenReduce.vec_stdev
    GenReduce.aggregate_sum GenReduce.aggregate_mean GenReduce.aggregate_min GenReduce.aggregate_max GenReduce.aggregate_count
    GenReduce.aggregate_stdev GenReduce.window_sum GenReduce.window_mean GenReduce.window_min GenReduce.window_max
    GenReduce.window_count GenReduce.window_stdev].

(* every generated reduction is a function of the None-free cells, in order: two vectors (two groups) whose values
   differ only in where - and how many - None they hold reduce alike ... *)
Theorem gen_reduction_ignores_none :
  forall g xs ys, live_values xs = live_values ys -> gen g xs = gen g ys.
Proof. intros g xs ys H; destruct g; unfold_gen; rewrite H; reflexivity. Qed.

(* ... in particular inserting a None anywhere changes nothing, and a vector reduces like its None-free list *)
Theorem gen_reduction_insert_none :
  forall g a b, gen g (a ++ None :: b) = gen g (a ++ b).
Proof. intros g a b; apply gen_reduction_ignores_none; rewrite !live_values_app; reflexivity. Qed.

Theorem gen_reduction_of_live_values :
  forall g xs, gen g xs = gen g (map Some (live_values xs)).
Proof. intros g xs; apply gen_reduction_ignores_none; rewrite live_values_some; reflexivity. Qed.

(* with nothing (for stdev: less than two values) left the answer is None outright - except for sum / count / all / any,
   which Python defines on the empty list *)
Theorem gen_reduction_nothing_left :
  forall xs, live_values xs = [] ->
  gen VMax xs = r_none /\ gen VMin xs = r_none /\ gen VMean xs = r_none /\ (forall p, gen (VStdev p) xs = r_none) /\
  gen AMin' xs = r_none /\ gen AMax' xs = r_none /\ gen AMean' xs = r_none /\ gen AStdev' xs = r_none /\
  gen WMin xs = r_none /\ gen WMax xs = r_none /\ gen WMean xs = r_none /\ gen WStdev xs = r_none.
Proof. intros xs H; unfold_gen; rewrite H; cbn; repeat split; reflexivity. Qed.

Theorem gen_stdev_one_value_left :
  forall xs v, live_values xs = [v] ->
  (forall p, gen (VStdev p) xs = r_none) /\ gen AStdev' xs = r_none /\ gen WStdev xs = r_none.
Proof. intros xs v H; unfold_gen; rewrite H; cbn; repeat split; reflexivity. Qed.

(* window applies to each group the functions aggregate applies (C13); for stdev, whose arithmetic the two methods spell
   out separately, see gen_window_functions_are_the_model *)
Theorem gen_window_functions_are_aggregates :
  forall xs, gen WSum xs = gen ASum' xs /\ gen WMean xs = gen AMean' xs /\ gen WMin xs = gen AMin' xs /\
             gen WMax xs = gen AMax' xs /\ gen WCount xs = gen ACount' xs.
Proof. intros xs; repeat split; reflexivity. Qed.

End Skips.

(* ------------------------------------------------------------------------------------------------
   Part 2: the Vector reductions = the model of C06 = what the property says *)
Section VectorModel.
Variable val : Type.
Variable add : val -> val -> sres val.          (* Python's a + b *)
Variable zero : val.                            (* the int 0 *)
Variable truthy : val -> bool.
Variables py_max py_min : list val -> sres val.
(* arithmetic on numbers that may have raised: arbitrary *)
Variable n_of_nat : nat -> sres val.
Variable n_of_Z : Z -> sres val.
Variable n_of_bool : bool -> sres val.
Variable n_float : nat -> sres val.
Variables n_add n_sub n_mul n_div n_pow : sres val -> sres val -> sres val.

(* sum(l) over numbers that may have raised: + from 0, left to right, the first error wins *)
Fixpoint sum_s_from (acc : val) (l : list (sres val)) : sres val :=
  match l with
  | [] => SOk acc
  | SOk v :: t => match add acc v with SOk a => sum_s_from a t | e => e end
  | e :: _ => e
  end.
Definition sum_s (l : list (sres val)) : sres val := sum_s_from zero l.

Lemma sum_s_from_ok : forall l acc, sum_s_from acc (map SOk l) = py_sum_from add acc l.
Proof.
  induction l as [|v t IH]; intros acc; cbn; [reflexivity|].
  destruct (add acc v); [apply IH | reflexivity | reflexivity].
Qed.

Definition vops : GenReduce.ops val (sres val) (rres val) :=
  GenReduce.mkOps val (sres val) (rres val) NoneOps.RNone of_sres
    (fun l => of_sres (py_max l)) (fun l => of_sres (py_min l))
    (fun l => RBool (forallb truthy l)) (fun l => RBool (existsb truthy l))
    sum_s SOk n_of_nat n_of_Z n_of_bool n_float n_add n_sub n_mul n_div n_pow.
Definition vgen := gen val (sres val) (rres val) vops.

Definition gred_of (r : reduction) : gred :=
  match r with
  | RMax => VMax | RMin => VMin | RSum => VSum | RAll => VAll | RAny => VAny | RMean => VMean | RStdev p => VStdev p
  end.

(* what the source computes from a None-free list for mean and stdev: the generated definitions themselves, run on that
   list with "a number as a result" read as the number (so the theorems below do not depend on how the arithmetic
   is written, only on which cells reach it and on when the answer is None) *)
Definition sops : GenReduce.ops val (sres val) (sres val) :=
  GenReduce.mkOps val (sres val) (sres val) SRaise (fun x => x)
    py_max py_min (fun _ => SRaise) (fun _ => SRaise)
    sum_s SOk n_of_nat n_of_Z n_of_bool n_float n_add n_sub n_mul n_div n_pow.
Definition sgen := gen val (sres val) (sres val) sops.
Definition src_mean (l : list val) : sres val := sgen VMean (map Some l).
Definition src_stdev (p : bool) (l : list val) : sres val := sgen (VStdev p) (map Some l).

(* generated = the property's statement: the reduction of the None-free list, None when nothing (too little) is left *)
Theorem gen_vector_reductions_are_the_spec :
  exists py_mean py_stdev, forall r xs,
    vgen (gred_of r) xs = reduce_clean add zero truthy py_max py_min py_mean py_stdev r (drop_none xs).
Proof.
  exists src_mean, src_stdev. intros r xs. rewrite <- live_values_drop_none.
  destruct r; cbv beta iota zeta delta [vgen sgen vops sops GenReduce.r_none GenReduce.r_num GenReduce.b_max GenReduce.b_min GenReduce.b_all GenReduce.b_any GenReduce.b_sum GenReduce.inj GenReduce.n_of_nat GenReduce.n_of_Z GenReduce.n_of_bool GenReduce.n_float GenReduce.n_add GenReduce.n_sub GenReduce.n_mul GenReduce.n_div GenReduce.n_pow gred_of gen reduce_clean
    GenReduce.vec_max GenReduce.vec_min GenReduce.vec_sum GenReduce.vec_all GenReduce.vec_any GenReduce.vec_mean GenReduce.vec_stdev
    src_mean src_stdev py_sum sum_s]; rewrite ?live_values_some.
  - destruct (live_values xs); reflexivity.
  - destruct (live_values xs); reflexivity.
  - rewrite sum_s_from_ok. reflexivity.
  - reflexivity.
  - reflexivity.
  - destruct (live_values xs); reflexivity.
  - split_tests.
Qed.

(* generated = the model the other C06 theorems are about *)
Theorem gen_vector_reductions_are_the_model :
  exists py_mean py_stdev, forall r xs,
    vgen (gred_of r) xs = reduce add zero truthy py_max py_min py_mean py_stdev r xs.
Proof.
  destruct gen_vector_reductions_are_the_spec as (pm & ps & H).
  exists pm, ps. intros r xs. rewrite H. symmetry. apply C06_reduce_skips_none.
Qed.
End VectorModel.

(* ------------------------------------------------------------------------------------------------
   Part 3: the per-group functions of aggregate / window = the model of C12 *)
Section GroupModel.
Variables X T : Type.
Variable xleb : X -> X -> bool.
Variable xz : X -> Z.                           (* the integer a bool / int value adds to a sum *)

(* numbers: exact integers (sums, counts, literals) or opaque float tokens (whatever / and ** give) *)
Inductive gnum := NZ (z : Z) | NT (t : T).
Variable t_of_float : nat -> T.
Variables t_div t_pow t_sub : gnum -> gnum -> T.
Definition gz (n : gnum) : Z := match n with NZ z => z | NT _ => 0%Z end.
Definition g_res (n : gnum) : rcell X T := match n with NZ z => RInt z | NT t => RTok t end.
Definition g_sum (l : list gnum) : gnum :=
  if forallb (fun n => match n with NZ _ => true | NT _ => false end) l
  then NZ (fold_left (fun acc n => acc + gz n)%Z l 0%Z)
  else NT (t_sub (NZ 0%Z) (NZ (Z.of_nat (length l)))).     (* a float sum: opaque (never compared exactly) *)

Definition gops : GenReduce.ops X gnum (rcell X T) :=
  GenReduce.mkOps X gnum (rcell X T) Group.RNone g_res
    (fun l => rc (max_list xleb l)) (fun l => rc (min_list xleb l)) (fun _ => Group.RNone) (fun _ => Group.RNone)
    g_sum (fun x => NZ (xz x)) (fun n => NZ (Z.of_nat n)) NZ (fun b => NZ (if b then 1 else 0)%Z) (fun k => NT (t_of_float k))
    (fun a b => NT (t_sub a b)) (fun a b => NT (t_sub a b)) (fun a b => NT (t_sub a b))
    (fun a b => NT (t_div a b)) (fun a b => NT (t_pow a b)).
Definition ggen := gen X gnum (rcell X T) gops.

Definition gred_of_agg (k : aggkind) : gred :=
  match k with ASum => ASum' | AMean => AMean' | AMin => AMin' | AMax => AMax' | ACount => ACount' | AStdev => AStdev' end.
Definition gred_of_win (k : aggkind) : gred :=
  match k with ASum => WSum | AMean => WMean | AMin => WMin | AMax => WMax | ACount => WCount | AStdev => WStdev end.

Lemma live_values_clean : forall l : list (cell X), live_values l = clean l.
Proof. induction l as [|[v|] t IH]; cbn; [reflexivity | rewrite IH; reflexivity | exact IH]. Qed.

Lemma all_exact : forall l : list X, forallb (fun n => match n with NZ _ => true | NT _ => false end) (map (fun x => NZ (xz x)) l) = true.
Proof. induction l as [|v t IH]; cbn; [reflexivity | exact IH]. Qed.

Lemma fold_sum_map : forall (l : list X) a,
  fold_left (fun acc n => acc + gz n)%Z (map (fun x => NZ (xz x)) l) a = fold_left (fun acc x => acc + xz x)%Z l a.
Proof. induction l as [|v t IH]; intros a; cbn; [reflexivity | apply IH]. Qed.

Lemma fold_count : forall (l : list X) a, fold_left (fun acc _ => acc + 1)%Z l a = (a + Z.of_nat (length l))%Z.
Proof. induction l as [|v t IH]; intros a; cbn [fold_left length]; [lia | rewrite IH; lia]. Qed.

(* mean and stdev of a None-free list as the source computes them (the generated definitions run on that list) *)
Definition src_fmean (c : list X) : T :=
  match ggen AMean' (map Some c) with RTok t => t | _ => t_of_float 0 end.
Definition src_fstdev (c : list X) : T :=
  match ggen AStdev' (map Some c) with RTok t => t | _ => t_of_float 0 end.

Theorem gen_aggregate_functions_are_the_model :
  exists fmean fstdev, forall k vals,
    ggen (gred_of_agg k) vals = agg_fn xleb xz fmean fstdev k vals.
Proof.
  exists src_fmean, src_fstdev. intros k vals.
  destruct k; cbv beta iota zeta delta [ggen gops GenReduce.r_none GenReduce.r_num GenReduce.b_max GenReduce.b_min GenReduce.b_all GenReduce.b_any GenReduce.b_sum GenReduce.inj GenReduce.n_of_nat GenReduce.n_of_Z GenReduce.n_of_bool GenReduce.n_float GenReduce.n_add GenReduce.n_sub GenReduce.n_mul GenReduce.n_div GenReduce.n_pow gred_of_agg gen agg_fn src_fmean src_fstdev
    GenReduce.aggregate_sum GenReduce.aggregate_mean GenReduce.aggregate_min GenReduce.aggregate_max GenReduce.aggregate_count
    GenReduce.aggregate_stdev Group.py_sum Group.py_mean Group.py_min Group.py_max Group.py_count Group.py_stdev g_res g_sum];
    rewrite ?live_values_some, ?live_values_clean.
  - rewrite all_exact, fold_sum_map. reflexivity.
  - destruct (clean vals) as [|v t]; [reflexivity|]. rewrite ?live_values_some, ?all_exact. reflexivity.
  - destruct (clean vals); reflexivity.
  - destruct (clean vals); reflexivity.
  - rewrite fold_count. reflexivity.
  - set (c := clean vals). split_tests; rewrite ?live_values_some; split_tests.
Qed.

Definition src_fmean_w (c : list X) : T :=
  match ggen WMean (map Some c) with RTok t => t | _ => t_of_float 0 end.
Definition src_fstdev_w (c : list X) : T :=
  match ggen WStdev (map Some c) with RTok t => t | _ => t_of_float 0 end.

Theorem gen_window_functions_are_the_model :
  exists fmean fstdev, forall k vals,
    ggen (gred_of_win k) vals = agg_fn xleb xz fmean fstdev k vals.
Proof.
  exists src_fmean_w, src_fstdev_w. intros k vals.
  destruct k; cbv beta iota zeta delta [ggen gops GenReduce.r_none GenReduce.r_num GenReduce.b_max GenReduce.b_min GenReduce.b_all GenReduce.b_any GenReduce.b_sum GenReduce.inj GenReduce.n_of_nat GenReduce.n_of_Z GenReduce.n_of_bool GenReduce.n_float GenReduce.n_add GenReduce.n_sub GenReduce.n_mul GenReduce.n_div GenReduce.n_pow gred_of_win gen agg_fn src_fmean_w src_fstdev_w
    GenReduce.window_sum GenReduce.window_mean GenReduce.window_min GenReduce.window_max GenReduce.window_count
    GenReduce.window_stdev Group.py_sum Group.py_mean Group.py_min Group.py_max Group.py_count Group.py_stdev g_res g_sum];
    rewrite ?live_values_some, ?live_values_clean.
  - rewrite all_exact, fold_sum_map. reflexivity.
  - destruct (clean vals) as [|v t]; [reflexivity|]. rewrite ?live_values_some, ?all_exact. reflexivity.
  - destruct (clean vals); reflexivity.
  - destruct (clean vals); reflexivity.
  - rewrite fold_count. reflexivity.
  - set (c := clean vals). split_tests; rewrite ?live_values_some; split_tests.
Qed.

(* C12's theorems, restated for the functions the source applies: each generated per-group function is the textbook
   aggregate of the group's non-None values in row order ... *)
Theorem C12_gen_builtins_are_textbook :
  (forall x y, xleb x y = true \/ xleb y x = true) ->
  (forall x y z, xleb x y = true -> xleb y z = true -> xleb x z = true) ->
  exists fmean fstdev, forall kind vals,
    agg_ok xleb xz fmean fstdev kind vals (ggen (gred_of_agg kind) vals).
Proof.
  intros Htot Htr.
  destruct gen_aggregate_functions_are_the_model as (fm & fs & H).
  exists fm, fs. intros kind vals. rewrite H. apply C12_builtins_are_textbook; assumption.
Qed.

(* ... and so is each function window applies (C13) *)
Theorem C13_gen_window_builtins_are_textbook :
  (forall x y, xleb x y = true \/ xleb y x = true) ->
  (forall x y z, xleb x y = true -> xleb y z = true -> xleb x z = true) ->
  exists fmean fstdev, forall kind vals,
    agg_ok xleb xz fmean fstdev kind vals (ggen (gred_of_win kind) vals).
Proof.
  intros Htot Htr.
  destruct gen_window_functions_are_the_model as (fm & fs & H).
  exists fm, fs. intros kind vals. rewrite H. apply C12_builtins_are_textbook; assumption.
Qed.

(* ... and with nothing (stdev: one value) left: 0 for sum and count, None otherwise *)
Theorem C12_gen_empty_group_values :
  forall vals,
    (clean vals = [] ->
       ggen ASum' vals = RInt 0%Z /\ ggen ACount' vals = RInt 0%Z /\ ggen AMean' vals = Group.RNone /\
       ggen AMin' vals = Group.RNone /\ ggen AMax' vals = Group.RNone /\ ggen AStdev' vals = Group.RNone) /\
    (List.length (clean vals) <= 1 -> ggen AStdev' vals = Group.RNone).
Proof.
  intros vals.
  destruct gen_aggregate_functions_are_the_model as (fm & fs & H).
  pose proof (C12_empty_group_values X T xleb xz fm fs vals) as [E1 E2]. cbv zeta in E1, E2.
  rewrite <- (H ASum), <- (H ACount), <- (H AMean), <- (H AMin), <- (H AMax), <- (H AStdev) in E1.
  rewrite <- (H AStdev) in E2. split; assumption.
Qed.
End GroupModel.

Print Assumptions gen_reduction_ignores_none.
Print Assumptions gen_reduction_insert_none.
Print Assumptions gen_reduction_of_live_values.
Print Assumptions gen_reduction_nothing_left.
Print Assumptions gen_stdev_one_value_left.
Print Assumptions gen_window_functions_are_aggregates.
Print Assumptions gen_vector_reductions_are_the_spec.
Print Assumptions gen_vector_reductions_are_the_model.
Print Assumptions gen_aggregate_functions_are_the_model.
Print Assumptions gen_window_functions_are_the_model.
Print Assumptions C12_gen_builtins_are_textbook.
Print Assumptions C13_gen_window_builtins_are_textbook.
Print Assumptions C12_gen_empty_group_values.
