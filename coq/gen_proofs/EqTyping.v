(* gen_proofs/EqTyping.v — COMMITTED proof script, compiled on every run against the FRESHLY
   GENERATED SerifGen.GenTyping (harness/translate.py, from /repo's current typing.py).

   Part 1: the generated definitions EQUAL the hand-written model functions, for all inputs.
   Part 2: the C04 theorems re-stated for the generated definitions (so they hold of what the
           code says now, not only of the hand-written model).

   The proofs are finite case analyses over (kind x kind x bool ...) closed by computation, with
   [Nat.eqb] splits for [KOther n]: a semantics-preserving refactor of the Python (reordered
   independent branches, renamed locals, `in (a, b)` vs `is a or is b`) still passes, a
   semantic change makes the corresponding [gen_*_eq] fail.  Only [Theorem]s are obligations. *)
From Coq Require Import List Bool Arith Permutation.
From Serif Require Import Base.PyVal Base.GenPrelude Model.Dtype Spec.DtypeLattice Props.C04.
From SerifGen Require GenTyping.
Import ListNotations.

(* case analysis: split every kind / bool / option in sight, compute, then decide the
   [Nat.eqb] tests between two [KOther] classes *)
Ltac split_eqb :=
  repeat match goal with
         | |- context [Nat.eqb ?a ?b] =>
             destruct (Nat.eqb_spec a b); [subst|]; cbn; rewrite ?Nat.eqb_refl; cbn
         end.
Ltac close := first [reflexivity | congruence | exfalso; congruence].
Ltac cases :=
  try reflexivity;
  cbv delta [GenTyping.with_nullable GenTyping.is_numeric GenTyping.is_temporal
             GenTyping.infer_kind GenTyping.infer_kind_cls GenTyping.promote_with
             GenTyping.validate_scalar promote_with validate_scalar];
  cbn; try reflexivity; split_eqb; close.

(* ---- Part 1: generated = model --------------------------------------------------------- *)

Theorem gen_with_nullable_eq : forall d b, GenTyping.with_nullable d b = mkD (dkind d) b.
Proof. intros [k n] b. reflexivity. Qed.
Print Assumptions gen_with_nullable_eq.

Theorem gen_is_numeric_eq : forall d, GenTyping.is_numeric d = PyVal.is_numeric (dkind d).
Proof. intros [k n]. destruct k; cases. Qed.
Print Assumptions gen_is_numeric_eq.

Theorem gen_is_temporal_eq : forall d, GenTyping.is_temporal d = PyVal.is_temporal (dkind d).
Proof. intros [k n]. destruct k; cases. Qed.
Print Assumptions gen_is_temporal_eq.

(* infer_kind(value) is [base value] — this is what ties PyVal's definition of [base] to the
   order of the isinstance chain in the code (bool before int, datetime before date) *)
Theorem gen_infer_kind_eq : forall vi, GenTyping.infer_kind vi = base vi.
Proof. intros [b e]. destruct b, e; cases. Qed.
Print Assumptions gen_infer_kind_eq.

(* ... and the class the code returns is a kind already on every realisable value: the
   coercion [as_kind] in GenTyping.infer_kind never meets a [CSub] *)
Theorem gen_infer_kind_in_range : forall vi, vinfo_wf vi -> GenTyping.infer_kind_cls vi = CK (base vi).
Proof.
  intros [b e] [H|H]; cbn in H; subst; destruct b; try discriminate H; try destruct e; cases.
Qed.
Print Assumptions gen_infer_kind_in_range.

Theorem gen_promote_with_eq : forall d v, GenTyping.promote_with d v = promote_with d v.
Proof. intros [k n] [[b e]|]; [destruct k, b, n, e | destruct k, n]; cases. Qed.
Print Assumptions gen_promote_with_eq.

Theorem gen_validate_scalar_eq : forall v d, GenTyping.validate_scalar v d = validate_scalar v d.
Proof. intros [[b e]|] [k n]; [destruct k, b, n, e | destruct k, n]; cases. Qed.
Print Assumptions gen_validate_scalar_eq.

(* the loop body and the loop *)
Theorem gen_infer_step_eq : forall st v, GenTyping.infer_dtype_loop st v = infer_step st v.
Proof.
  intros [[d|] s] [vi|]; cbv beta iota zeta delta [GenTyping.infer_dtype_loop infer_step];
    rewrite ?gen_promote_with_eq, ?gen_infer_kind_eq; reflexivity.
Qed.
Print Assumptions gen_infer_step_eq.

Lemma fold_left_ext_eq {A B} (f g : A -> B -> A) (H : forall a b, f a b = g a b) l :
  forall a, fold_left f l a = fold_left g l a.
Proof. induction l as [|x t IH]; intros a; cbn; [reflexivity|]. rewrite H. apply IH. Qed.

Theorem gen_infer_dtype_eq : forall l, GenTyping.infer_dtype l = infer_dtype l.
Proof.
  intros l. cbv beta iota zeta delta [GenTyping.infer_dtype infer_dtype].
  rewrite (fold_left_ext_eq _ _ gen_infer_step_eq).
  destruct (fold_left infer_step l (None, false)) as [[[k n]|] [|]]; reflexivity.
Qed.
Print Assumptions gen_infer_dtype_eq.

(* ---- Part 2: property C04 for the generated definitions ---------------------------------- *)

Theorem C04_gen_infer_depends_only_on_support : forall l l',
  (forall k, In k (kinds l) <-> In k (kinds l')) -> (In None l <-> In None l') ->
  GenTyping.infer_dtype l = GenTyping.infer_dtype l'.
Proof. intros l l' H1 H2. rewrite !gen_infer_dtype_eq. exact (C04_infer_depends_only_on_support l l' H1 H2). Qed.
Print Assumptions C04_gen_infer_depends_only_on_support.

Theorem C04_gen_infer_order_independent : forall l l',
  Permutation l l' -> GenTyping.infer_dtype l = GenTyping.infer_dtype l'.
Proof. intros l l' H. rewrite !gen_infer_dtype_eq. exact (C04_infer_order_independent l l' H). Qed.
Print Assumptions C04_gen_infer_order_independent.

Theorem C04_gen_infer_none_position : forall l1 l2,
  GenTyping.infer_dtype (None :: l1 ++ l2) = GenTyping.infer_dtype (l1 ++ None :: l2).
Proof. intros l1 l2. rewrite !gen_infer_dtype_eq. exact (C04_infer_none_position l1 l2). Qed.
Print Assumptions C04_gen_infer_none_position.

Theorem C04_gen_infer_repetition : forall l, l <> [] ->
  GenTyping.infer_dtype (l ++ l) = GenTyping.infer_dtype l.
Proof. intros l H. rewrite !gen_infer_dtype_eq. exact (C04_infer_repetition l H). Qed.
Print Assumptions C04_gen_infer_repetition.

Theorem C04_gen_infer_closed_form : forall l, GenTyping.infer_dtype l = infer_spec l.
Proof. intros l. rewrite gen_infer_dtype_eq. exact (C04_infer_closed_form l). Qed.
Print Assumptions C04_gen_infer_closed_form.

Theorem C04_gen_promote_closed_form : forall d v,
  GenTyping.promote_with d v =
  match v with None => mkD (dkind d) true
             | Some vi => mkD (join (dkind d) (GenTyping.infer_kind vi)) (nullable d) end.
Proof.
  intros d v. rewrite gen_promote_with_eq, C04_promote_closed_form.
  destruct v as [vi|]; [rewrite gen_infer_kind_eq|]; reflexivity.
Qed.
Print Assumptions C04_gen_promote_closed_form.

Theorem C04_gen_promote_never_narrows : forall d v, dle d (GenTyping.promote_with d v).
Proof. intros d v. rewrite gen_promote_with_eq. exact (C04_promote_never_narrows d v). Qed.
Print Assumptions C04_gen_promote_never_narrows.

Theorem C04_gen_promote_keeps_nullable : forall d v,
  nullable d = true -> nullable (GenTyping.promote_with d v) = true.
Proof. intros d v H. rewrite gen_promote_with_eq. exact (C04_promote_keeps_nullable d v H). Qed.
Print Assumptions C04_gen_promote_keeps_nullable.

Theorem C04_gen_promote_idempotent : forall d v,
  GenTyping.promote_with (GenTyping.promote_with d v) v = GenTyping.promote_with d v.
Proof. intros d v. rewrite !gen_promote_with_eq. exact (C04_promote_idempotent d v). Qed.
Print Assumptions C04_gen_promote_idempotent.

Theorem C04_gen_promote_commutes : forall d a b,
  GenTyping.promote_with (GenTyping.promote_with d a) b =
  GenTyping.promote_with (GenTyping.promote_with d b) a.
Proof. intros d a b. rewrite !gen_promote_with_eq. exact (C04_promote_commutes d a b). Qed.
Print Assumptions C04_gen_promote_commutes.

(* validate_scalar and promotion agree (C05's kernel): a value is accepted by the column's own
   dtype exactly when the code's validate_scalar says so — stated through the model equality *)
Theorem C05_gen_validate_scalar_model : forall v d,
  GenTyping.validate_scalar v d = true <-> validate_scalar v d = true.
Proof. intros v d. rewrite gen_validate_scalar_eq. tauto. Qed.
Print Assumptions C05_gen_validate_scalar_model.

(* ---- Part 3: C03 (a vector's reported dtype is truthful) for the generated kernels ---------------------------------- *)
From Serif Require Import Spec.Truthful Proofs.Truthful Props.C03.

(* what the code's infer_dtype answers for a value list is a dtype EVERY element of the list belongs to (None included:
   the dtype is then nullable) - Vector(values), every arithmetic result, every column a join / aggregate / csv read builds *)
Theorem C03_gen_inferred_dtype_holds_every_element : forall l x,
  In x l -> belongs x (GenTyping.infer_dtype l) = true.
Proof. intros l x H. rewrite gen_infer_dtype_eq. exact (infer_belongs l x H). Qed.
Print Assumptions C03_gen_inferred_dtype_holds_every_element.

(* an element belongs to a dtype exactly when the code's promote_with leaves the dtype as it is: a write that does not
   change the schema stores a value the schema already covers, one that does change it widens the schema to cover it *)
Theorem C03_gen_belongs_iff_promotion_fixpoint : forall x d,
  belongs x d = true <-> GenTyping.promote_with d x = d.
Proof. intros x d. rewrite gen_promote_with_eq. exact (C03_belongs_iff_promotion_fixpoint x d). Qed.
Print Assumptions C03_gen_belongs_iff_promotion_fixpoint.

Theorem C03_gen_promoted_dtype_holds_the_value : forall x d, belongs x (GenTyping.promote_with d x) = true.
Proof.
  intros x d. apply (proj2 (C03_gen_belongs_iff_promotion_fixpoint x (GenTyping.promote_with d x))).
  apply C04_gen_promote_idempotent.
Qed.
Print Assumptions C03_gen_promoted_dtype_holds_the_value.

(* ... and keeps holding what it held: promotion never makes an element a stranger *)
Theorem C03_gen_promotion_keeps_members : forall x y d,
  belongs y d = true -> belongs y (GenTyping.promote_with d x) = true.
Proof.
  intros x y d H. apply (proj2 (C03_gen_belongs_iff_promotion_fixpoint y (GenTyping.promote_with d x))).
  rewrite C04_gen_promote_commutes. f_equal. apply (proj1 (C03_gen_belongs_iff_promotion_fixpoint y d)). exact H.
Qed.
Print Assumptions C03_gen_promotion_keeps_members.

(* the code's validate_scalar accepts only what belongs *)
Theorem C03_gen_validate_accepts_only_members : forall x d,
  GenTyping.validate_scalar x d = true -> belongs x d = true.
Proof. intros x d. rewrite gen_validate_scalar_eq. exact (proj1 (C03_belongs_iff_validate x d)). Qed.
Print Assumptions C03_gen_validate_accepts_only_members.
