(* gen_proofs/EqAggNames.v — COMMITTED proof script, compiled on every run against the freshly generated
   SerifGen.GenAggNames: the output-name helpers of Table.aggregate and Table.window (table.py) of /repo's
   current tree — uniquify (the used-name set as explicit state, the probe loop `while f"{name}{i}" in
   used: i += 1` as a fuelled probe with fuel |used| + 1), the name builder <sanitised name or "col">_<fn>
   and the key-name rule.  _sanitize_user_name is the parameter [san]; the model's reading of it is
   [fun b => sanitize reserved (lower b)].
   Part 1: generated = model (Model/Names.v: uniquify, agg_base, key_base) for BOTH methods.
   Part 2: the C18 naming theorems for the generated helpers.
   Only [Theorem]s are obligations. *)
From Coq Require Import List Bool Arith Ascii String.
From Serif Require Import Base.PyVal Base.GenPrelude Model.Naming Model.Names Spec.Names Proofs.Naming Proofs.Names Props.C18.
From SerifGen Require GenAggNames.
Import ListNotations.

(* ---- Part 1 ------------------------------------------------------------------------------------ *)

Lemma probe_is_search name used : forall fuel i,
  uniq_search fuel i name used = name ++ dec (while_probe fuel i (fun p => mem (name ++ dec p) used)).
Proof.
  induction fuel as [|f IH]; intros i; cbn [uniq_search while_probe]; [reflexivity|].
  destruct (mem (name ++ dec i) used); [apply IH|reflexivity].
Qed.

Theorem gen_aggregate_uniquify_eq : forall used name,
  GenAggNames.aggregate_uniquify used name = uniquify used name.
Proof.
  intros used name. cbv beta iota zeta delta [GenAggNames.aggregate_uniquify uniquify].
  destruct (mem name used); cbn [negb]; [rewrite probe_is_search|]; reflexivity.
Qed.
Print Assumptions gen_aggregate_uniquify_eq.

Theorem gen_window_uniquify_eq : forall used name,
  GenAggNames.window_uniquify used name = uniquify used name.
Proof.
  intros used name. cbv beta iota zeta delta [GenAggNames.window_uniquify uniquify].
  destruct (mem name used); cbn [negb]; [rewrite probe_is_search|]; reflexivity.
Qed.
Print Assumptions gen_window_uniquify_eq.

(* the key-name rule *)
Theorem gen_key_name_eq : forall n,
  GenAggNames.aggregate_key_name n = key_base n /\ GenAggNames.window_key_name n = key_base n.
Proof. intros [[|c t]|]; split; reflexivity. Qed.
Print Assumptions gen_key_name_eq.

(* _sanitize_user_name never returns the empty string (it returns None instead) *)
Lemma sanitize_not_empty reserved t : sanitize reserved t <> Some [].
Proof.
  unfold sanitize. destruct (strip (collapse false t)) as [|c x]; [discriminate|].
  intros H. inversion H as [E]. clear H.
  repeat match type of E with
         | context [if ?b then _ else _] => destruct b
         end;
    repeat match type of E with
           | (?l ++ _) = [] => apply app_eq_nil in E; destruct E as [E _]
           end; discriminate E.
Qed.

(* the name builder: <sanitised name or "col">_<suffix> *)
Theorem gen_aggregate_make_name_eq : forall reserved n fn,
  GenAggNames.aggregate_make_name (fun b => sanitize reserved (lower b)) n fn = agg_base reserved fn n.
Proof.
  intros reserved n fn. cbv beta iota zeta delta [GenAggNames.aggregate_make_name agg_base name_or].
  destruct n as [[|c t]|]; destruct (sanitize reserved _); reflexivity.
Qed.
Print Assumptions gen_aggregate_make_name_eq.

Theorem gen_window_make_name_eq : forall reserved n fn,
  GenAggNames.window_make_name (fun b => sanitize reserved (lower b)) n fn = agg_base reserved fn n.
Proof.
  intros reserved n fn. cbv beta iota zeta delta [GenAggNames.window_make_name agg_base name_or].
  destruct n as [[|c t]|];
    match goal with |- context [sanitize reserved ?b] =>
      pose proof (sanitize_not_empty reserved b) as Hne; destruct (sanitize reserved b) as [[|c' t']|] end;
    first [reflexivity | (exfalso; apply Hne; reflexivity)].
Qed.
Print Assumptions gen_window_make_name_eq.

(* ---- Part 2 ------------------------------------------------------------------------------------ *)

(* the names one call of aggregate / window hands out, in order: the generated uniquify threaded
   through the list of base names *)
Fixpoint gen_uniquify_all (uq : list str -> str -> str * list str) (used : list str) (names : list str) : list str :=
  match names with
  | [] => []
  | n :: t => let r := uq used n in fst r :: gen_uniquify_all uq (snd r) t
  end.

Lemma gen_uniquify_all_ext uq (H : forall u n, uq u n = uniquify u n) names :
  forall used, gen_uniquify_all uq used names = uniquify_all used names.
Proof. induction names as [|n t IH]; intros used; cbn; [reflexivity|]. rewrite H, IH. reflexivity. Qed.

Theorem gen_uniquify_all_eq : forall names,
  gen_uniquify_all GenAggNames.aggregate_uniquify [] names = uniquify_all [] names /\
  gen_uniquify_all GenAggNames.window_uniquify [] names = uniquify_all [] names.
Proof.
  intros names. split; apply gen_uniquify_all_ext; [exact gen_aggregate_uniquify_eq|exact gen_window_uniquify_eq].
Qed.
Print Assumptions gen_uniquify_all_eq.

(* the output names are pairwise distinct, *)
Theorem C18_gen_uniquify_NoDup : forall names,
  NoDup (gen_uniquify_all GenAggNames.aggregate_uniquify [] names) /\
  NoDup (gen_uniquify_all GenAggNames.window_uniquify [] names).
Proof.
  intros names. destruct (gen_uniquify_all_eq names) as [A W]. rewrite A, W.
  split; exact (C18_uniquify_NoDup names).
Qed.
Print Assumptions C18_gen_uniquify_NoDup.

(* each is its base or its base followed by a decimal >= 2, *)
Theorem C18_gen_uniquify_shape : forall names,
  Forall2 suffixed names (gen_uniquify_all GenAggNames.aggregate_uniquify [] names) /\
  Forall2 suffixed names (gen_uniquify_all GenAggNames.window_uniquify [] names).
Proof.
  intros names. destruct (gen_uniquify_all_eq names) as [A W]. rewrite A, W.
  split; exact (C18_uniquify_shape names).
Qed.
Print Assumptions C18_gen_uniquify_shape.

(* and exactly: a base not used before is kept, otherwise it gets the LEAST free suffix >= 2 (probing
   base2, base3, ... against the names already handed out — not a per-base counter) *)
Theorem C18_gen_uniquify_least_suffix : forall names,
  uniq_from [] names (gen_uniquify_all GenAggNames.aggregate_uniquify [] names) /\
  uniq_from [] names (gen_uniquify_all GenAggNames.window_uniquify [] names).
Proof.
  intros names. destruct (gen_uniquify_all_eq names) as [A W]. rewrite A, W.
  split; exact (C18_uniquify_least_suffix names).
Qed.
Print Assumptions C18_gen_uniquify_least_suffix.

(* the model's aggregate / window names are the generated helpers applied in the model's call order *)
Theorem C18_gen_agg_names : forall reserved keys aggs apply,
  let san b := sanitize reserved (lower b) in
  let bases mk kn :=
    map kn keys ++
    List.concat (map (fun p => map (fun n => mk san n (fst p)) (snd p)) (combine fn_names aggs)) ++ apply in
  agg_names reserved keys aggs apply =
    map Some (gen_uniquify_all GenAggNames.aggregate_uniquify []
                (bases GenAggNames.aggregate_make_name GenAggNames.aggregate_key_name)) /\
  window_names reserved keys aggs apply =
    map Some (gen_uniquify_all GenAggNames.window_uniquify []
                (bases GenAggNames.window_make_name GenAggNames.window_key_name)).
Proof.
  intros reserved keys aggs apply san bases. subst bases san. cbv beta.
  destruct (C18_agg_names reserved keys aggs apply) as [A W]. rewrite W, A.
  assert (E : forall mk kn,
             (forall n fn, mk (fun b => sanitize reserved (lower b)) n fn = agg_base reserved fn n) ->
             (forall n, kn n = key_base n) ->
             map kn keys ++
             List.concat (map (fun p => map (fun n => mk (fun b => sanitize reserved (lower b)) n (fst p)) (snd p))
                              (combine fn_names aggs)) ++ apply
             = agg_bases reserved keys aggs apply).
  { intros mk kn Hmk Hkn. unfold agg_bases. f_equal; [apply map_ext; exact Hkn|]. f_equal. f_equal.
    apply map_ext. intros p. apply map_ext. intros n. apply Hmk. }
  split.
  - rewrite (proj1 (gen_uniquify_all_eq _)).
    rewrite (E _ _ (gen_aggregate_make_name_eq reserved) (fun n => proj1 (gen_key_name_eq n))). reflexivity.
  - rewrite (proj2 (gen_uniquify_all_eq _)).
    rewrite (E _ _ (gen_window_make_name_eq reserved) (fun n => proj2 (gen_key_name_eq n))). reflexivity.
Qed.
Print Assumptions C18_gen_agg_names.
