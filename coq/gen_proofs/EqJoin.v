(* gen_proofs/EqJoin.v — COMMITTED proof script, compiled on every run against the freshly
   generated SerifGen.GenJoin: the statement-level fragments of Table.inner_join / join /
   full_join that decide what `expect` means (the validation guard and the two assignments
   check_right_unique = expect in (...), check_left_unique = expect in (...)).
   Part 1: they are the expect tuples of Model/Join.v;  Part 2: the model's row computations
   run exactly the uniqueness checks the generated flags say, and the C11 reading of the four
   names holds of the generated flags.  Only [Theorem]s are obligations. *)
From Coq Require Import List Bool Arith String.
From Serif Require Import Base.PyVal Spec.Join Model.Join Props.C11.
From SerifGen Require GenJoin.
Import ListNotations.
Open Scope string_scope.

(* boolean combinations of tests [String.eqb e "<literal>"]: decide every test; an assignment
   that makes e equal to two different literals is contradictory *)
Ltac expect_cases :=
  intros;
  cbv beta iota zeta delta
    [GenJoin.inner_join_expect_rejected GenJoin.inner_join_check_right_unique GenJoin.inner_join_check_left_unique
     GenJoin.left_join_expect_rejected GenJoin.left_join_check_right_unique GenJoin.left_join_check_left_unique
     GenJoin.full_join_expect_rejected GenJoin.full_join_check_right_unique GenJoin.full_join_check_left_unique
     expect_ok str_in existsb valid_expect needs_left_unique needs_right_unique];
  repeat match goal with
         | |- context [String.eqb ?e ?s] => destruct (String.eqb_spec e s)
         end;
  first [reflexivity | (repeat split; reflexivity) | (exfalso; congruence)].

(* ---- Part 1: generated fragments = the model's expect tuples ------------------------------ *)

Theorem gen_inner_join_expect_eq : forall e,
  GenJoin.inner_join_expect_rejected e = negb (expect_ok e) /\
  GenJoin.inner_join_check_right_unique e = str_in e ["one_to_one"; "many_to_one"] /\
  GenJoin.inner_join_check_left_unique e = str_in e ["one_to_one"; "one_to_many"].
Proof. expect_cases. Qed.
Print Assumptions gen_inner_join_expect_eq.

Theorem gen_left_join_expect_eq : forall e,
  GenJoin.left_join_expect_rejected e = negb (expect_ok e) /\
  GenJoin.left_join_check_right_unique e = str_in e ["one_to_one"; "many_to_one"] /\
  GenJoin.left_join_check_left_unique e = str_in e ["one_to_one"; "one_to_many"].
Proof. expect_cases. Qed.
Print Assumptions gen_left_join_expect_eq.

Theorem gen_full_join_expect_eq : forall e,
  GenJoin.full_join_expect_rejected e = negb (expect_ok e) /\
  GenJoin.full_join_check_right_unique e = str_in e ["one_to_one"; "many_to_one"] /\
  GenJoin.full_join_check_left_unique e = str_in e ["one_to_one"; "one_to_many"].
Proof. expect_cases. Qed.
Print Assumptions gen_full_join_expect_eq.

(* the defaults are valid expectations *)
Theorem gen_join_defaults_valid :
  GenJoin.inner_join_expect_rejected GenJoin.inner_join_expect_default = false /\
  GenJoin.left_join_expect_rejected GenJoin.left_join_expect_default = false /\
  GenJoin.full_join_expect_rejected GenJoin.full_join_expect_default = false.
Proof. repeat split; reflexivity. Qed.
Print Assumptions gen_join_defaults_valid.

(* ---- Part 2 ------------------------------------------------------------------------------- *)

(* the model's row computations, with the flags taken from the generated code *)
Theorem gen_inner_rows_flags : forall V (veq : V -> V -> bool) e n m lk rk,
  inner_rows V veq e n m lk rk =
  (let cr := GenJoin.inner_join_check_right_unique e in
   let '(idx, dups) := build_index V veq AssignAlways cr rk m in
   if cr && nonempty dups then Err EValue
   else inner_probe V veq idx (GenJoin.inner_join_check_left_unique e) lk (seq 0 n) [] []).
Proof.
  intros. destruct (gen_inner_join_expect_eq e) as [_ [Hr Hl]].
  cbv beta zeta delta [inner_rows]. rewrite Hr, Hl. reflexivity.
Qed.
Print Assumptions gen_inner_rows_flags.

Theorem gen_left_rows_flags : forall V (veq : V -> V -> bool) e n m lk rk,
  left_rows V veq e n m lk rk =
  (let cr := GenJoin.left_join_check_right_unique e in
   let '(idx, dups) := build_index V veq AssignIfAbsent cr rk m in
   if cr && nonempty dups then Err EValue
   else left_probe V veq idx (GenJoin.left_join_check_left_unique e) lk (seq 0 n) [] []).
Proof.
  intros. destruct (gen_left_join_expect_eq e) as [_ [Hr Hl]].
  cbv beta zeta delta [left_rows]. rewrite Hr, Hl. reflexivity.
Qed.
Print Assumptions gen_left_rows_flags.

Theorem gen_full_rows_flags : forall V (veq : V -> V -> bool) e n m lk rk,
  full_rows V veq e n m lk rk =
  (let cr := GenJoin.full_join_check_right_unique e in
   let '(idx, dups) := build_index V veq AssignAlways cr rk m in
   if cr && nonempty dups then Err EValue
   else match full_probe V veq idx (GenJoin.full_join_check_left_unique e) lk (seq 0 n) [] [] [] with
        | Err x => Err x
        | Ok (matched, out) => Ok (out ++ sweep matched m)%list
        end).
Proof.
  intros. destruct (gen_full_join_expect_eq e) as [_ [Hr Hl]].
  cbv beta zeta delta [full_rows]. rewrite Hr, Hl. reflexivity.
Qed.
Print Assumptions gen_full_rows_flags.

(* property C11's reading of the four names, for the generated flags of all three joins *)
Theorem C11_gen_expect_table : forall e,
  (GenJoin.inner_join_check_left_unique e, GenJoin.inner_join_check_right_unique e) = (needs_left_unique e, needs_right_unique e) /\
  (GenJoin.left_join_check_left_unique e, GenJoin.left_join_check_right_unique e) = (needs_left_unique e, needs_right_unique e) /\
  (GenJoin.full_join_check_left_unique e, GenJoin.full_join_check_right_unique e) = (needs_left_unique e, needs_right_unique e) /\
  GenJoin.inner_join_expect_rejected e = negb (valid_expect e) /\
  GenJoin.left_join_expect_rejected e = negb (valid_expect e) /\
  GenJoin.full_join_expect_rejected e = negb (valid_expect e).
Proof. expect_cases. Qed.
Print Assumptions C11_gen_expect_table.

(* an expect value the generated guard rejects makes every (model) join raise SerifValueError *)
Theorem C11_gen_bad_expect_rejected : forall V (veq : V -> V -> bool), eq_equivalence veq ->
  forall e L R lon ron,
  GenJoin.inner_join_expect_rejected e = true ->
  inner_join V veq e L R lon ron = Err EValue /\
  left_join V veq e L R lon ron = Err EValue /\
  full_join V veq e L R lon ron = Err EValue.
Proof.
  intros V veq Heq e L R lon ron H.
  apply (C11_bad_expect_rejected V veq Heq).
  destruct (C11_gen_expect_table e) as [_ [_ [_ [Hv _]]]]. rewrite Hv in H.
  destruct (valid_expect e); [discriminate H|reflexivity].
Qed.
Print Assumptions C11_gen_bad_expect_rejected.
