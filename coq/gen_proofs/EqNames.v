(* gen_proofs/EqNames.v — COMMITTED proof script, compiled on every run against the freshly
   generated SerifGen.GenNames (table._resolve_binary_name of /repo's current tree).
   The Python function returns (result_name, warning_case); the model's [resolve_binary] is its
   first component.  Only [Theorem]s are obligations. *)
From Coq Require Import List Bool Arith Ascii String.
From Serif Require Import Base.GenPrelude Model.Naming Model.Names Proofs.Naming Proofs.Names Props.C18.
From SerifGen Require GenNames.
Import ListNotations.

Lemma str_eqb_spec a b : reflect (a = b) (str_eqb a b).
Proof. destruct (str_eqb a b) eqn:E; constructor; [apply str_eqb_eq; exact E|]. intros H. apply str_eqb_eq in H. congruence. Qed.

Ltac names_cases :=
  cbv beta iota zeta delta [GenNames.resolve_binary_name resolve_binary vname_eqb pyname_eqb ostr_eqb is_None];
  repeat match goal with
         | |- context [str_eqb ?a ?b] => destruct (str_eqb_spec a b); [subst|]; rewrite ?str_eqb_refl
         end;
  cbn.

Theorem gen_resolve_binary_name_eq : forall l r,
  fst (GenNames.resolve_binary_name l r) = resolve_binary l r.
Proof. intros [x|] [y|]; names_cases; first [reflexivity | congruence | exfalso; congruence]. Qed.
Print Assumptions gen_resolve_binary_name_eq.

(* the warning tag is absent exactly when the left name is kept by rule (right absent or equal) *)
Theorem gen_resolve_binary_warning_eq : forall l r,
  snd (GenNames.resolve_binary_name l r) = None <-> (r = None \/ r = l).
Proof.
  intros [x|] [y|]; names_cases; split; intros H;
    first [reflexivity | discriminate H | (left; reflexivity) | (right; reflexivity)
          | (destruct H as [H|H]; first [discriminate H | congruence])].
Qed.
Print Assumptions gen_resolve_binary_warning_eq.

(* property C18, table (op) table: column i keeps the left name iff the right name is absent or
   equal — with the rule read off the generated definition *)
Theorem C18_gen_table_table_name_rule : forall l r i,
  i < List.length l -> List.length l = List.length r ->
  let ln := nth i l None in let rn := nth i r None in
  nth i (t_table l r) None = fst (GenNames.resolve_binary_name ln rn) /\
  (rn = None \/ rn = ln -> fst (GenNames.resolve_binary_name ln rn) = ln) /\
  (rn <> None -> rn <> ln -> fst (GenNames.resolve_binary_name ln rn) = None).
Proof.
  intros l r i Hi Hlen ln rn. rewrite gen_resolve_binary_name_eq.
  exact (C18_table_table_name_rule l r i Hi Hlen).
Qed.
Print Assumptions C18_gen_table_table_name_rule.
