(* gen_proofs/EqSort.v — COMMITTED proof script, compiled on every run against the freshly generated
   SerifGen.GenSort: step 5 of Table.sort_by (table.py: the key function key_fn with its None flag, the
   passes `indices.sort(key=key_fn, reverse=rev)` and their order `reversed(list(zip(resolved,
   rev_flags)))`) and Vector.sort_by (vector.py: the two key lambdas and `sorted(.., key=, reverse=)`)
   of /repo's current tree.  list.sort / sorted are Model/Sort.pysort over keys compared by key_leb.

   Part 1: generated = model (Model/Sort.v): the key (flag FIRST, then the value) for all eight
           (na_last, rev, is None) combinations, one pass, the pass order, Vector.sort_by.
   Part 2: the C14 theorems for the generated functions.
   Only [Theorem]s are obligations. *)
From Coq Require Import List Bool Arith Sorted Permutation.
From Serif Require Import Base.PyVal Base.GenPrelude Model.Sort Spec.Sort Proofs.Sort Props.C14.
From SerifGen Require GenSort.
Import ListNotations.

Section Gen.
Variable V : Type.
Variable vleb : V -> V -> bool.

Notation gkey := (GenSort.table_sort_indices_key_fn V vleb).
Notation gpass := (GenSort.table_sort_indices_loop V vleb).
Notation gindices := (GenSort.table_sort_indices V vleb).
Notation gvsort := (GenSort.vector_sort_by V vleb).

(* ---- Part 1 ---------------------------------------------------------------------------------- *)

(* the key of row i is (flag, value): the model's pair, for every cell and all four settings *)
Theorem gen_table_key_eq : forall data nl rv i, gkey data nl rv i = table_key nl rv data i.
Proof.
  intros data nl rv i. cbv beta iota zeta delta [GenSort.table_sort_indices_key_fn table_key cell_key table_flag cell].
  destruct (nth i data None) as [x|], nl, rv; reflexivity.
Qed.

(* the flag alone, as a boolean function of (na_last, rev, is None): all 8 inputs; it is the model's, which
   is "None-ness, flipped under reverse" (na_last) / "non-None-ness, flipped under reverse" (not na_last) *)
Theorem gen_table_flag_eq : forall data nl rv i,
  let isn := is_none (nth i data None) in
  fst (gkey data nl rv i) = table_flag nl rv isn /\
  table_flag nl rv isn = (if nl then xorb isn rv else xorb (negb isn) rv).
Proof.
  intros data nl rv i isn. rewrite gen_table_key_eq. split; [reflexivity|].
  subst isn. destruct nl, rv, (is_none (nth i data None)); reflexivity.
Qed.

(* the flag comes FIRST in the key and the value second *)
Theorem gen_table_key_shape : forall data nl rv i,
  snd (gkey data nl rv i) = nth i data None /\
  fst (gkey data nl rv i) = table_flag nl rv (is_none (nth i data None)).
Proof. intros data nl rv i. rewrite gen_table_key_eq. split; reflexivity. Qed.

(* one pass: a stable sort on that key with reverse = the key's own direction *)
Theorem gen_sort_pass_eq : forall nl idx k, gpass nl idx k = sort_pass vleb nl k idx.
Proof.
  intros nl idx [data rv]. cbv beta iota zeta delta [GenSort.table_sort_indices_loop sort_pass].
  apply pysort_ext. intros a b. rewrite !gen_table_key_eq. reflexivity.
Qed.

Lemma fold_left_ext_in {A B} (f g : A -> B -> A) (H : forall a b, f a b = g a b) l :
  forall a, fold_left f l a = fold_left g l a.
Proof. induction l as [|x t IH]; intros a; cbn; [reflexivity|]. rewrite H. apply IH. Qed.

(* the passes run over the keys from LAST to FIRST, starting from 0 .. n-1 *)
Theorem gen_sort_indices_eq : forall cols flags nl n,
  gindices cols flags nl n = sort_indices vleb nl (combine cols flags) n.
Proof.
  intros cols flags nl n. cbv beta iota zeta delta [GenSort.table_sort_indices sort_indices].
  rewrite (fold_left_ext_in _ (fun idx k => sort_pass vleb nl k idx) (gen_sort_pass_eq nl)).
  rewrite <- fold_left_rev_right. rewrite rev_involutive. reflexivity.
Qed.

(* Vector.sort_by *)
Theorem gen_vector_key_eq : forall (rv nl : bool) (x : option V),
  (if nl then (negb (Bool.eqb (is_None x) rv), x) else (negb (Bool.eqb (negb (is_None x)) rv), x))
  = vector_key rv nl x.
Proof. intros [] [] [x|]; reflexivity. Qed.

Theorem gen_vector_sort_by_eq : forall data rv nl, gvsort data rv nl = vector_sort_by vleb rv nl data.
Proof.
  intros data rv nl. cbv beta iota zeta delta [GenSort.vector_sort_by vector_sort_by].
  apply pysort_ext. intros a b. destruct nl, rv, a as [x|], b as [y|]; reflexivity.
Qed.

(* ---- Part 2: property C14 for the generated functions ------------------------------------------- *)

Hypothesis vleb_total : forall x y, vleb x y = true \/ vleb y x = true.
Hypothesis vleb_trans : forall x y z, vleb x y = true -> vleb y z = true -> vleb x z = true.

(* a permutation of the rows, lexicographic in the keys (each in its own direction, None placed by
   na_last in EITHER direction), full ties in input order *)
Theorem C14_gen_sort_indices_sorted : forall cols flags nl n,
  Permutation (seq 0 n) (gindices cols flags nl n) /\
  StronglySorted (row_before vleb nl (combine cols flags) lt) (gindices cols flags nl n).
Proof.
  intros cols flags nl n. rewrite gen_sort_indices_eq.
  exact (C14_sort_indices_sorted V vleb vleb_total vleb_trans nl (combine cols flags) n).
Qed.

(* None keys last (na_last) / first (not na_last) on the leading key, whatever its direction *)
Theorem C14_gen_none_last_any_direction : forall nl col rv cols flags n a b,
  let p := gindices (col :: cols) (rv :: flags) nl n in
  a < b -> b < n ->
  (nl = true -> nth (nth a p 0) col None = None -> nth (nth b p 0) col None = None) /\
  (nl = false -> nth (nth b p 0) col None = None -> nth (nth a p 0) col None = None).
Proof.
  intros nl col rv cols flags n a b p Hab Hbn. subst p. rewrite gen_sort_indices_eq. cbn [combine].
  exact (C14_none_last_any_direction V vleb vleb_total vleb_trans nl (col, rv) (combine cols flags) n a b Hab Hbn).
Qed.

(* sorting again with the keys permuted along changes nothing *)
Theorem C14_gen_sort_idempotent_indices : forall cols flags nl n,
  let p := gindices cols flags nl n in
  gindices (map (gather p) cols) flags nl n = seq 0 n.
Proof.
  intros cols flags nl n p. subst p. rewrite !gen_sort_indices_eq.
  rewrite combine_permuted.
  exact (C14_sort_idempotent_indices V vleb vleb_total vleb_trans nl (combine cols flags) n).
Qed.
End Gen.
Print Assumptions gen_table_key_eq.
Print Assumptions gen_table_flag_eq.
Print Assumptions gen_table_key_shape.
Print Assumptions gen_sort_pass_eq.
Print Assumptions gen_sort_indices_eq.
Print Assumptions gen_vector_key_eq.
Print Assumptions gen_vector_sort_by_eq.
Print Assumptions C14_gen_sort_indices_sorted.
Print Assumptions C14_gen_none_last_any_direction.
Print Assumptions C14_gen_sort_idempotent_indices.


Lemma combine_fst_snd {A B} (l : list (A * B)) : combine (map fst l) (map snd l) = l.
Proof. induction l as [|[a b] r IH]; cbn; [reflexivity|]. f_equal. exact IH. Qed.

(* the model of the whole method runs the generated index computation *)
Theorem C14_gen_table_sort_by_uses_generated_indices :
  forall (V : Type) (vleb : V -> V -> bool) t by_ rv nl ks,
    resolve_keys t by_ rv = Ok ks ->
    table_sort_by vleb t by_ rv nl =
    if Nat.eqb (nrows t) 0 then Ok (map (fun _ => []) t)
    else Ok (map (gather (GenSort.table_sort_indices V vleb (map fst ks) (map snd ks) nl (nrows t))) t).
Proof.
  intros V vleb t by_ rv nl ks Hk. unfold table_sort_by. rewrite Hk, gen_sort_indices_eq.
  rewrite combine_fst_snd. reflexivity.
Qed.
Print Assumptions C14_gen_table_sort_by_uses_generated_indices.

(* Vector.sort_by obeys the same contract: it is Table.sort_by on the one-column table *)
Theorem C14_gen_vector_sort_same_contract :
  forall (V : Type) (vleb : V -> V -> bool) rv nl (data : list (cell V)),
    GenSort.vector_sort_by V vleb data rv nl =
    gather (GenSort.table_sort_indices V vleb [data] [rv] nl (List.length data)) data.
Proof.
  intros V vleb rv nl data. rewrite gen_vector_sort_by_eq, gen_sort_indices_eq. cbn [combine].
  exact (C14_vector_sort_same_contract V vleb rv nl data).
Qed.
Print Assumptions C14_gen_vector_sort_same_contract.

(* ... hence a permutation of the vector with None last / first in either direction *)
Theorem C14_gen_vector_sort_permutation :
  forall (V : Type) (vleb : V -> V -> bool) rv nl (data : list (cell V)),
    Permutation data (GenSort.vector_sort_by V vleb data rv nl).
Proof.
  intros V vleb rv nl data. rewrite gen_vector_sort_by_eq. unfold vector_sort_by. apply pysort_perm.
Qed.
Print Assumptions C14_gen_vector_sort_permutation.
