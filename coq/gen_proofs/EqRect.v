(* gen_proofs/EqRect.v — COMMITTED proof script, compiled on every run against the freshly generated SerifGen.GenRect
   (the rectangularity guards of /repo's current tree, seen through column lengths: Vector.__new__'s dispatch to Table,
   Table.__init__'s length and guard, the two replacement-column guards of Table.__setattr__).

   C02: "input that would make a table ragged is rejected rather than stored" - for every list of column lengths:
   the constructor refuses exactly the ragged ones; the dispatch hands it rectangular columns only; a replacement column
   that passes the guard has the table's length, so a rectangular table stays rectangular.
   Only [Theorem]s are obligations. *)
From Coq Require Import List Bool Arith Lia.
From SerifGen Require GenRect.
Import ListNotations.

Definition rectangular (n : nat) (lens : list nat) : Prop := forall k, In k lens -> k = n.

Lemma existsb_neq_false : forall n l, existsb (fun k => negb (Nat.eqb k n)) l = false <-> rectangular n l.
Proof.
  intros n l. unfold rectangular. induction l as [|a t IH]; cbn [existsb In].
  - split; [intros _ k []|reflexivity].
  - rewrite orb_false_iff, IH. split.
    + intros [Ha Ht] k [<-|Hk]; [|exact (Ht k Hk)].
      apply negb_false_iff, Nat.eqb_eq in Ha. exact Ha.
    + intros H. split; [apply negb_false_iff, Nat.eqb_eq, H; left; reflexivity|].
      intros k Hk. apply H. right. exact Hk.
Qed.

(* Table.__init__ refuses exactly the ragged inputs; what it accepts has ONE length, the one it records as len(table) *)
Theorem gen_init_accepts_iff_rectangular : forall lens,
  GenRect.init_refuses lens = false <-> rectangular (GenRect.init_length lens) lens.
Proof.
  intros lens. unfold GenRect.init_refuses. cbv zeta. destruct lens as [|a t].
  - cbn. split; [intros _ k []|reflexivity].
  - change (GenRect.is_nil (a :: t)) with false. cbn [negb andb]. apply existsb_neq_false.
Qed.

Theorem gen_init_length_is_first_or_zero : forall lens,
  GenRect.init_length lens = match lens with [] => 0 | n :: _ => n end.
Proof. intros [|a t]; reflexivity. Qed.

Lemma nodup_one : forall (l : list nat),
  length (nodup Nat.eq_dec l) = 1 <-> l <> [] /\ rectangular (hd 0 l) l.
Proof.
  intros l. split.
  - intros H. destruct l as [|a t]; [discriminate H|]. split; [discriminate|].
    destruct (nodup Nat.eq_dec (a :: t)) as [|b [|c r]] eqn:E; try discriminate H.
    assert (Hin : forall k, In k (a :: t) -> k = b).
    { intros k Hk. apply (nodup_In Nat.eq_dec) in Hk. rewrite E in Hk. destruct Hk as [<-|[]]. reflexivity. }
    intros k Hk. cbn [hd]. rewrite (Hin k Hk). symmetry. apply Hin. left. reflexivity.
  - intros [Hne Hr]. destruct l as [|a t]; [contradiction|]. cbn [hd] in Hr. clear Hne.
    revert Hr. induction t as [|b t IH]; intros Hr; [reflexivity|].
    assert (Hb : b = a) by (apply Hr; right; left; reflexivity). subst b.
    cbn [nodup]. destruct (in_dec Nat.eq_dec a (a :: t)) as [_|N]; [|exfalso; apply N; left; reflexivity].
    apply IH. intros k Hk. apply Hr. destruct Hk as [<-|Hk]; [left; reflexivity|right; right; exact Hk].
Qed.

(* Vector(...) becomes a Table exactly for a non-empty sequence of vectors of ONE length *)
Theorem gen_new_dispatch_exact : forall all_vectors lens,
  GenRect.new_makes_table all_vectors lens = true <->
  lens <> [] /\ all_vectors = true /\ rectangular (hd 0 lens) lens.
Proof.
  intros av lens. unfold GenRect.new_makes_table. rewrite !andb_true_iff, Nat.eqb_eq, nodup_one.
  destruct lens as [|a t]; cbn [GenRect.is_nil negb].
  - split; [intros [[H _] _]; discriminate H|intros [H _]; contradiction].
  - split; [intros [[_ Hav] [Hne Hr]]; auto|intros [Hne [Hav Hr]]; auto].
Qed.

(* ... so the constructor it calls never refuses what the dispatch hands over *)
Theorem gen_dispatch_never_hands_over_ragged_columns : forall all_vectors lens,
  GenRect.new_makes_table all_vectors lens = true -> GenRect.init_refuses lens = false.
Proof.
  intros av lens H. apply gen_new_dispatch_exact in H. destruct H as [Hne [_ Hr]].
  apply gen_init_accepts_iff_rectangular. destruct lens as [|a t]; [contradiction|exact Hr].
Qed.

(* column replacement: the guard refuses exactly a value of another length (a table without columns has nothing to replace) *)
Theorem gen_setattr_refuses_iff : forall ncols len_ vlen,
  GenRect.setattr_refuses ncols len_ vlen = true <-> ncols <> 0 /\ vlen <> len_.
Proof.
  intros ncols len_ vlen. unfold GenRect.setattr_refuses.
  rewrite andb_true_iff, !negb_true_iff, !Nat.eqb_neq. tauto.
Qed.

Fixpoint replace_nth {A} (j : nat) (x : A) (l : list A) : list A :=
  match l, j with [], _ => [] | _ :: t, 0 => x :: t | a :: t, S j => a :: replace_nth j x t end.

(* C02: a rectangular table stays rectangular under every column replacement the guard lets through *)
Theorem C02_gen_replacement_keeps_the_table_rectangular : forall lens n vlen j,
  rectangular n lens -> GenRect.setattr_refuses (length lens) n vlen = false ->
  rectangular n (replace_nth j vlen lens).
Proof.
  intros lens n vlen j Hr Hg. destruct lens as [|a t]; [unfold rectangular; destruct j; cbn; intros k Hk; destruct Hk|].
  assert (Hv : vlen = n).
  { destruct (Nat.eq_dec vlen n) as [E|E]; [exact E|].
    assert (T : GenRect.setattr_refuses (length (a :: t)) n vlen = true)
      by (apply gen_setattr_refuses_iff; split; [discriminate|exact E]).
    rewrite T in Hg. discriminate Hg. }
  subst vlen. revert j. generalize (a :: t) Hr. clear.
  induction l as [|b r IH]; intros Hr j k Hk; [destruct j; cbn in Hk; destruct Hk|].
  destruct j as [|j]; cbn [replace_nth] in Hk.
  - destruct Hk as [<-|Hk]; [reflexivity|apply Hr; right; exact Hk].
  - destruct Hk as [<-|Hk]; [apply Hr; left; reflexivity|].
    apply (IH (fun q Hq => Hr q (or_intror Hq)) j k Hk).
Qed.

(* C02: whatever Table.__init__ accepts is a table whose columns all have the length it reports *)
Theorem C02_gen_accepted_columns_have_the_reported_length : forall lens,
  GenRect.init_refuses lens = false -> Forall (fun k => k = GenRect.init_length lens) lens.
Proof. intros lens H. apply Forall_forall. apply gen_init_accepts_iff_rectangular. exact H. Qed.

Example rect_examples :
  GenRect.init_refuses [2; 2; 2] = false /\ GenRect.init_refuses [2; 3] = true /\ GenRect.init_refuses [0; 2] = true /\
  GenRect.init_refuses [] = false /\ GenRect.new_makes_table true [3; 3] = true /\ GenRect.new_makes_table true [3; 2] = false /\
  GenRect.new_makes_table true [] = false /\ GenRect.setattr_refuses 2 3 4 = true /\ GenRect.setattr_refuses 0 0 4 = false.
Proof. vm_compute. repeat split. Qed.

Print Assumptions gen_init_accepts_iff_rectangular.
Print Assumptions gen_init_length_is_first_or_zero.
Print Assumptions gen_new_dispatch_exact.
Print Assumptions gen_dispatch_never_hands_over_ragged_columns.
Print Assumptions gen_setattr_refuses_iff.
Print Assumptions C02_gen_replacement_keeps_the_table_rectangular.
Print Assumptions C02_gen_accepted_columns_have_the_reported_length.
