(* gen_proofs/EqDispatch.v — COMMITTED proof script, compiled on every run against the freshly
   generated SerifGen.GenDispatch: WHICH operator and WHICH operand order each arithmetic dunder of
   Vector (vector.py) and Table (table.py) hands to _elementwise_operation /
   _table_elementwise_operation, read off the one-line method bodies, the _reverse_* helpers and the
   lambdas of /repo's current tree.
   Part 1: the generated Vector table = Model/Elementwise.dispatch_table (order-independent: by lookup).
   Part 2: C05's reading — every dunder computes the WRITTEN operand order — for the generated tables
           of Vector and Table; the model's vec_dunder runs what the generated table says; the error
           labels (op_name, op_symbol) name the dunder and its operator.
   Only [Theorem]s are obligations. *)
From Coq Require Import List Bool Arith String.
From Serif Require Import Base.PyVal Base.GenPrelude Model.Elementwise Spec.Elementwise Props.C05.
From SerifGen Require GenDispatch.
Import ListNotations.

(* a generated route as a route of the model: f(a, b) = b <o> a is what the model calls [Reverse o] *)
Definition route_of (r : groute) : option route :=
  match r with
  | GVia o false _ _ => Some (ViaElementwise (Operator o))
  | GVia o true _ _ => Some (ViaElementwise (Reverse o))
  | GOwnBody => Some OwnRadd
  | GDelegate _ => None
  end.
Definition bind_route (r : option groute) : option route :=
  match r with Some g => route_of g | None => None end.

Ltac all_dunders d := destruct d as [[]|[]].

(* ---- Part 1 ---------------------------------------------------------------------------------- *)

Theorem gen_vector_dispatch_eq : forall d,
  bind_route (groute_of GenDispatch.vector_dispatch d) = lookup_route dispatch_table d.
Proof. intros d. all_dunders d; reflexivity. Qed.
Print Assumptions gen_vector_dispatch_eq.

(* every row exists, and no row is left as a delegation *)
Theorem gen_dispatch_total : forall d,
  bind_route (groute_of GenDispatch.vector_dispatch d) <> None /\
  bind_route (groute_of GenDispatch.table_dispatch d) <> None.
Proof. intros d. all_dunders d; split; discriminate. Qed.
Print Assumptions gen_dispatch_total.

(* ---- Part 2 ---------------------------------------------------------------------------------- *)

(* Vector: every dunder passes the function that computes the written operand order
   (x = the vector's element, y = the other operand's); only __radd__ has its own body *)
Theorem C05_gen_vector_dispatch_sound : forall val (scal : bop -> val -> val -> sres val) d,
  match groute_of GenDispatch.vector_dispatch d with
  | Some (GVia o sw _ _) => forall x y, gapply scal o sw x y = written scal d x y
  | Some GOwnBody => d = Refl Add
  | _ => False
  end.
Proof. intros val scal d. all_dunders d; cbn; first [reflexivity | (intros x y; reflexivity)]. Qed.
Print Assumptions C05_gen_vector_dispatch_sound.

(* Table: the same for op_func(col, other), all fourteen dunders, reflected ones included *)
Theorem C05_gen_table_dispatch_sound : forall val (scal : bop -> val -> val -> sres val) d,
  match groute_of GenDispatch.table_dispatch d with
  | Some (GVia o sw _ _) => forall col other, gapply scal o sw col other = written scal d col other
  | _ => False
  end.
Proof. intros val scal d. all_dunders d; cbn; intros x y; reflexivity. Qed.
Print Assumptions C05_gen_table_dispatch_sound.

(* the model's vector operation is _elementwise_operation run on the function of the generated row *)
Theorem C05_gen_vec_dunder_runs_generated_row : forall val (scal : bop -> val -> val -> sres val) d xs other,
  vec_dunder scal d xs other =
  match groute_of GenDispatch.vector_dispatch d with
  | Some (GVia o sw _ _) => elementwise_operation (gapply scal o sw) xs other
  | Some GOwnBody => radd_body scal xs other
  | _ => ErrRaise
  end.
Proof. intros val scal d xs other. all_dunders d; reflexivity. Qed.
Print Assumptions C05_gen_vec_dunder_runs_generated_row.

(* in particular  s * v  computes s * x (finding NEW-C05-1 / regress F31): the generated __rmul__ row
   is the swapped multiplication, not __mul__ *)
Theorem C05_gen_rmul_written_order :
  groute_of GenDispatch.vector_dispatch (Refl Mul) <> groute_of GenDispatch.vector_dispatch (Plain Mul) /\
  forall val (scal : bop -> val -> val -> sres val) x y,
    match groute_of GenDispatch.vector_dispatch (Refl Mul) with
    | Some (GVia o sw _ _) => gapply scal o sw x y = scal Mul y x
    | _ => False
    end.
Proof. split; [discriminate|intros val scal x y; reflexivity]. Qed.
Print Assumptions C05_gen_rmul_written_order.

(* the labels used in error messages name the dunder and its operator *)
Definition labels_ok (t : list (dunder * groute)) (d : dunder) : Prop :=
  match glookup t d with
  | Some (GVia o _ name sym) => name = dunder_name d /\ sym = bop_symbol o
  | _ => True
  end.
Theorem gen_dispatch_labels : forall d,
  labels_ok GenDispatch.vector_dispatch d /\ labels_ok GenDispatch.table_dispatch d.
Proof. intros d. all_dunders d; split; cbv; first [exact I | (split; reflexivity)]. Qed.
Print Assumptions gen_dispatch_labels.
