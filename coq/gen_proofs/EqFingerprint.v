(* gen_proofs/EqFingerprint.v — COMMITTED proof script, compiled on every run against the freshly
   generated SerifGen.GenFingerprint (vector.py: Vector._FP_P, Vector._FP_B, Vector._hash_element,
   Vector._compute_fingerprint_full of /repo's current tree).

   The generated functions are generic in the element type X; what _hash_element can observe of an
   element (GenPrelude.elinfo), Python's hash(x), a nested object's own fingerprint() and the value of
   the branches the translator does not translate (sets, lists/tuples, hash(repr(x))) are parameters.

   Part 1: the constants, and the arithmetic facts the sensitivity proof needs, FOR THE GENERATED
           CONSTANTS (gcd(B, P) = 1, gcd(B - 1, P) = 1): a changed base or modulus in the Python
           breaks a named theorem here.
   Part 2: generated = model (Model/Heap.v: FP_P, FP_B, H_NONE, hash_elem, fp_step, fp_hashes, fp_vals).
   Part 3: the C16 sensitivity theorems for the generated function, proved from Part 1 and the shape
           of the generated loop alone (parametric copy of Proofs/Fingerprint.v), for every element
           type and every hash; the refuted literal statement; the model's heap-level theorems with
           the generated hash in their hypotheses.
   Only [Theorem]s are obligations. *)
From Coq Require Import List Bool ZArith Lia Znumtheory.
From Serif Require Import Base.PyVal Base.GenPrelude Model.Heap Proofs.Fingerprint Proofs.HeapFp Props.C16.
From SerifGen Require GenFingerprint.
Import ListNotations.
Local Open Scope Z_scope.

Notation gP := GenFingerprint.fp_P.
Notation gB := GenFingerprint.fp_B.

(* ---- Part 1: the generated constants -------------------------------------------------------- *)

Theorem gen_fp_P_eq : gP = FP_P.
Proof. vm_compute. reflexivity. Qed.
Print Assumptions gen_fp_P_eq.

Theorem gen_fp_B_eq : gB = FP_B.
Proof. vm_compute. reflexivity. Qed.
Print Assumptions gen_fp_B_eq.

Theorem gen_fp_P_pos : 1 < gP.
Proof. vm_compute. reflexivity. Qed.
Print Assumptions gen_fp_P_pos.

Theorem gen_fp_gcd_B_P : Z.gcd gB gP = 1.
Proof. vm_compute. reflexivity. Qed.
Print Assumptions gen_fp_gcd_B_P.

Theorem gen_fp_gcd_B1_P : Z.gcd (gB - 1) gP = 1.
Proof. vm_compute. reflexivity. Qed.
Print Assumptions gen_fp_gcd_B1_P.

(* ---- the rolling hash over any modulus P and base B with gcd(B, P) = 1 (Proofs/Fingerprint.v,
        made parametric so that it applies to whatever constants the code has) ------------------- *)
Section Rolling.
Variables P B : Z.
Hypothesis Ppos : 0 < P.
Hypothesis gcdBP : Z.gcd B P = 1.

Definition pstep (a h : Z) : Z := (a * B + h) mod P.
Definition pfrom (a : Z) (l : list Z) : Z := fold_left pstep l a.

Let Pnz : P <> 0. Proof. lia. Qed.

Lemma p_rel_prime_B_pow k : rel_prime P (B ^ Z.of_nat k).
Proof.
  induction k as [|k IH].
  - simpl. apply rel_prime_sym, rel_prime_1.
  - rewrite Nat2Z.inj_succ, Z.pow_succ_r by lia.
    apply rel_prime_mult; [|exact IH].
    apply rel_prime_sym, Zgcd_1_rel_prime. exact gcdBP.
Qed.

Lemma p_mod_mul_l x k c : ((x mod P) * k + c) mod P = (x * k + c) mod P.
Proof.
  rewrite Z.add_mod by exact Pnz. rewrite Z.mul_mod by exact Pnz. rewrite Z.mod_mod by exact Pnz.
  rewrite <- Z.mul_mod by exact Pnz. rewrite <- Z.add_mod by exact Pnz. reflexivity.
Qed.

Lemma p_affine l : forall a,
  pfrom a l mod P = (a * B ^ Z.of_nat (length l) + pfrom 0 l) mod P.
Proof.
  induction l as [|h t IH]; intros a.
  - cbn [pfrom fold_left length]. change (Z.of_nat 0) with 0. rewrite Z.pow_0_r. f_equal. lia.
  - cbn [pfrom fold_left length]. fold (pfrom (pstep a h) t). fold (pfrom (pstep 0 h) t).
    rewrite IH.
    rewrite Nat2Z.inj_succ, Z.pow_succ_r by lia.
    set (k := B ^ Z.of_nat (length t)). set (c := pfrom 0 t).
    rewrite (Z.add_mod (a * (B * k))) by exact Pnz.
    rewrite (IH (pstep 0 h)). fold k. fold c.
    rewrite <- Z.add_mod by exact Pnz.
    unfold pstep.
    rewrite p_mod_mul_l.
    rewrite Z.add_assoc.
    rewrite (Z.add_comm (a * (B * k))).
    rewrite <- (Z.add_assoc _ (a * (B * k)) c).
    rewrite p_mod_mul_l.
    f_equal. ring.
Qed.

Lemma p_suffix_cancel a b l2 : pfrom a l2 = pfrom b l2 -> (P | a - b).
Proof.
  intros Heq.
  assert (H := f_equal (fun z => z mod P) Heq). cbv beta in H.
  rewrite !p_affine in H.
  set (k := B ^ Z.of_nat (length l2)) in *. set (c := pfrom 0 l2) in *.
  assert (Hd : (P | (a - b) * k)).
  { apply Zmod_divide; [lia|].
    replace ((a - b) * k) with ((a * k + c) - (b * k + c)) by ring.
    rewrite Zminus_mod, H, Z.sub_diag. reflexivity. }
  rewrite Z.mul_comm in Hd. apply Gauss in Hd; [exact Hd|apply p_rel_prime_B_pow].
Qed.

Lemma p_write_changes l1 x y l2 :
  (x - y) mod P <> 0 -> pfrom 0 (l1 ++ x :: l2) <> pfrom 0 (l1 ++ y :: l2).
Proof.
  intros Hxy Heq. unfold pfrom in Heq. rewrite !fold_left_app in Heq. cbn [fold_left] in Heq.
  set (a := fold_left pstep l1 0) in *.
  apply (p_suffix_cancel (pstep a x) (pstep a y) l2) in Heq.
  apply Zdivide_mod in Heq. unfold pstep in Heq.
  rewrite <- Zminus_mod in Heq.
  replace (a * B + x - (a * B + y)) with (x - y) in Heq by ring. contradiction.
Qed.

Hypothesis gcdB1P : Z.gcd (B - 1) P = 1.

Lemma p_adjacent_order_matters l1 x y l2 :
  (x - y) mod P <> 0 -> pfrom 0 (l1 ++ x :: y :: l2) <> pfrom 0 (l1 ++ y :: x :: l2).
Proof.
  intros Hxy Heq. unfold pfrom in Heq. rewrite !fold_left_app in Heq. cbn [fold_left] in Heq.
  set (a := fold_left pstep l1 0) in *.
  apply (p_suffix_cancel _ _ l2) in Heq.
  apply Zdivide_mod in Heq. unfold pstep in Heq.
  rewrite Zminus_mod in Heq. rewrite !Z.mod_mod in Heq by exact Pnz.
  rewrite !p_mod_mul_l in Heq. rewrite <- Zminus_mod in Heq.
  replace ((a * B + x) * B + y - ((a * B + y) * B + x)) with ((B - 1) * (x - y)) in Heq by ring.
  apply Zmod_divide in Heq; [|exact Pnz].
  apply Gauss in Heq; [|apply rel_prime_sym, Zgcd_1_rel_prime; exact gcdB1P].
  apply Zdivide_mod in Heq. contradiction.
Qed.
End Rolling.

(* ---- the shape of the generated loop ---------------------------------------------------------- *)

Lemma fold_left_ext_step {A} (f g : A -> Z -> A) (Hfg : forall a h, f a h = g a h) l :
  forall a, fold_left f l a = fold_left g l a.
Proof. induction l as [|x t IH]; intros a; cbn; [reflexivity|]. rewrite Hfg. apply IH. Qed.

Lemma fold_left_map_step {X} (f : Z -> X -> Z) (stp : Z -> Z -> Z) (g : X -> Z)
      (Hf : forall a x, f a x = stp a (g x)) l :
  forall a, fold_left f l a = fold_left stp (map g l) a.
Proof. induction l as [|x t IH]; intros a; cbn; [reflexivity|]. rewrite Hf. apply IH. Qed.

Section Generic.
Variable X : Type.
Variable obs : X -> elinfo.
Variables H N U : X -> Z.

Notation ghash := (GenFingerprint.hash_element X obs H N U).
Notation gfull := (GenFingerprint.compute_fingerprint_full X obs H N U).

(* the generated loop is the rolling hash, with the generated constants, over the element hashes *)
Theorem gen_fp_full_shape : forall l, gfull l = pfrom gP gB 0 (map ghash l).
Proof.
  intros l. cbv beta zeta delta [GenFingerprint.compute_fingerprint_full pfrom].
  apply fold_left_map_step. intros a x.
  cbv beta zeta delta [GenFingerprint.compute_fingerprint_full_loop pstep].
  first [reflexivity | (f_equal; ring)].
Qed.

(* ... hence the model's fp_hashes over the element hashes *)
Theorem gen_fp_full_eq : forall l, gfull l = fp_hashes (map ghash l).
Proof.
  intros l. rewrite gen_fp_full_shape. unfold pfrom, fp_hashes.
  apply fold_left_ext_step. intros a h. unfold pstep, fp_step. rewrite gen_fp_P_eq, gen_fp_B_eq. reflexivity.
Qed.

(* the two constants of _hash_element the model knows, and "otherwise hash(x)" *)
Theorem gen_hash_none_eq : forall x, el_none (obs x) = true -> ghash x = H_NONE.
Proof.
  intros x Hx. cbv beta zeta delta [GenFingerprint.hash_element].
  destruct (obs x) as [a b c d e f g]; cbn in *; subst; reflexivity.
Qed.

Theorem gen_hash_nan_eq : forall x,
  el_none (obs x) = false -> el_hasfp (obs x) = false -> el_float (obs x) = true -> el_nan (obs x) = true ->
  ghash x = 16045690984503098046.                      (* 0xDEADBEEFCAFEBABE *)
Proof.
  intros x H1 H2 H3 H4. cbv beta zeta delta [GenFingerprint.hash_element].
  destruct (obs x) as [a b c d e f g]; cbn in *; subst; reflexivity.
Qed.

Theorem gen_hash_plain_eq : forall x,
  el_none (obs x) = false -> el_hasfp (obs x) = false -> el_nan (obs x) = false ->
  el_set (obs x) = false -> el_seq (obs x) = false -> el_hashable (obs x) = true ->
  ghash x = H x.
Proof.
  intros x H1 H2 H3 H4 H5 H6. cbv beta zeta delta [GenFingerprint.hash_element].
  destruct (obs x) as [a b c d e f g]; cbn in *; subst; destruct c; reflexivity.
Qed.

Theorem gen_hash_nested_eq : forall x, el_none (obs x) = false -> el_hasfp (obs x) = true -> ghash x = N x.
Proof.
  intros x H1 H2. cbv beta zeta delta [GenFingerprint.hash_element].
  destruct (obs x) as [a b c d e f g]; cbn in *; subst; reflexivity.
Qed.

(* a table: every element is a column, which has its own fingerprint() *)
Theorem gen_fp_table_eq : forall cols,
  (forall c, In c cols -> el_none (obs c) = false /\ el_hasfp (obs c) = true) ->
  gfull cols = fp_hashes (map N cols).
Proof.
  intros cols Hc. rewrite gen_fp_full_eq. f_equal. apply map_ext_in. intros c Hin.
  destruct (Hc c Hin) as [H1 H2]. apply gen_hash_nested_eq; assumption.
Qed.

(* ---- Part 3: sensitivity of the generated function, from the generated constants ------------- *)

Theorem C16_gen_write_changes_fingerprint : forall l1 a b l2,
  (ghash a - ghash b) mod gP <> 0 -> gfull (l1 ++ a :: l2) <> gfull (l1 ++ b :: l2).
Proof.
  intros l1 a b l2 Hab. rewrite !gen_fp_full_shape, !map_app. cbn [map].
  apply p_write_changes; [pose proof gen_fp_P_pos; lia|exact gen_fp_gcd_B_P|exact Hab].
Qed.

Theorem C16_gen_element_order_matters : forall l1 a b l2,
  (ghash a - ghash b) mod gP <> 0 -> gfull (l1 ++ a :: b :: l2) <> gfull (l1 ++ b :: a :: l2).
Proof.
  intros l1 a b l2 Hab. rewrite !gen_fp_full_shape, !map_app. cbn [map].
  apply p_adjacent_order_matters;
    [pose proof gen_fp_P_pos; lia|exact gen_fp_gcd_B_P|exact gen_fp_gcd_B1_P|exact Hab].
Qed.

(* the fingerprint is a residue, so for a table one changed column fingerprint changes the table's *)
Theorem C16_gen_fingerprint_range : forall l, 0 <= gfull l < gP.
Proof.
  intros l. rewrite gen_fp_full_shape. unfold pfrom.
  assert (G : forall hs a, 0 <= a < gP -> 0 <= fold_left (pstep gP gB) hs a < gP).
  { induction hs as [|h t IH]; intros a Ha; cbn [fold_left]; [exact Ha|].
    apply IH. unfold pstep. apply Z.mod_pos_bound. pose proof gen_fp_P_pos. lia. }
  apply G. pose proof gen_fp_P_pos. lia.
Qed.
End Generic.
Print Assumptions gen_fp_full_shape.
Print Assumptions gen_fp_full_eq.
Print Assumptions gen_hash_none_eq.
Print Assumptions gen_hash_nan_eq.
Print Assumptions gen_hash_plain_eq.
Print Assumptions gen_hash_nested_eq.
Print Assumptions gen_fp_table_eq.
Print Assumptions C16_gen_write_changes_fingerprint.
Print Assumptions C16_gen_element_order_matters.
Print Assumptions C16_gen_fingerprint_range.


Theorem C16_gen_table_column_changes : forall X obs H N N' U (c1 : list X) c c2,
  (forall k, In k (c1 ++ c :: c2) -> el_none (obs k) = false /\ el_hasfp (obs k) = true) ->
  (forall k, In k c1 \/ In k c2 -> N' k = N k) ->
  0 <= N c < gP -> 0 <= N' c < gP -> N' c <> N c ->
  GenFingerprint.compute_fingerprint_full X obs H N' U (c1 ++ c :: c2) <>
  GenFingerprint.compute_fingerprint_full X obs H N U (c1 ++ c :: c2).
Proof.
  intros X obs H N N' U c1 c c2 Hcols Hsame HN HN' Hne.
  rewrite !gen_fp_table_eq by exact Hcols. rewrite !map_app. cbn [map].
  rewrite (map_ext_in N' N c1) by (intros k Hk; apply Hsame; left; exact Hk).
  rewrite (map_ext_in N' N c2) by (intros k Hk; apply Hsame; right; exact Hk).
  rewrite gen_fp_P_eq in HN, HN'.
  apply fp_table_column_changes; assumption.
Qed.
Print Assumptions C16_gen_table_column_changes.

(* ---- the model's values ------------------------------------------------------------------------ *)

(* what _hash_element observes of a model value; hash(None) is left arbitrary (hn) *)
Definition obs_sval (v : sval) : elinfo :=
  match v with
  | SNone => mkEl true false false false false false true
  | SInt _ => mkEl false false false false false false true
  | SFloat _ => mkEl false false true false false false true      (* SFloat n is float(n): never NaN *)
  end.
Definition hash_sval (hn : Z) (v : sval) : Z :=
  match v with SNone => hn | SInt n => pyhash_int n | SFloat n => pyhash_int n end.

Theorem gen_hash_element_eq : forall hn N U v,
  GenFingerprint.hash_element sval obs_sval (hash_sval hn) N U v = hash_elem v.
Proof. intros hn N U v. destruct v; reflexivity. Qed.
Print Assumptions gen_hash_element_eq.

Theorem gen_fp_vals_eq : forall hn N U l,
  GenFingerprint.compute_fingerprint_full sval obs_sval (hash_sval hn) N U l = fp_vals l.
Proof.
  intros hn N U l. rewrite gen_fp_full_eq. unfold fp_vals. f_equal. apply map_ext. intros v.
  apply gen_hash_element_eq.
Qed.
Print Assumptions gen_fp_vals_eq.

(* the property as literally stated is false of the generated function too (finding KF1) *)
Theorem C16_gen_sensitivity_refuted : forall hn N U,
  let ghash := GenFingerprint.hash_element sval obs_sval (hash_sval hn) N U in
  let gfull := GenFingerprint.compute_fingerprint_full sval obs_sval (hash_sval hn) N U in
  exists a b, ghash a <> ghash b /\ gfull [SInt 5; a; SInt 7] = gfull [SInt 5; b; SInt 7].
Proof.
  intros hn N U ghash gfull. destruct C16_sensitivity_refuted as [a [b [Hne Heq]]].
  exists a, b. subst ghash gfull. rewrite !gen_hash_element_eq, !gen_fp_vals_eq. split; assumption.
Qed.
Print Assumptions C16_gen_sensitivity_refuted.

(* the heap-level theorems of Props/C16.v with the generated hash and modulus in their hypotheses *)
Theorem C16_gen_write_changes_vector_fingerprint : forall hn N U s h i b sid' s' v,
  let ghash := GenFingerprint.hash_element sval obs_sval (hash_sval hn) N U in
  getv s h = Some v -> step s (OSetV h [(i, b)] sid') = (s', Ok) ->
  (ghash (nth i (vals v) SNone) - ghash b) mod gP <> 0 ->
  fp_of s' h <> fp_of s h.
Proof.
  intros hn N U s h i b sid' s' v ghash Hv Hs Hd. subst ghash.
  rewrite !gen_hash_element_eq, gen_fp_P_eq in Hd.
  exact (C16_write_changes_vector_fingerprint s h i b sid' s' v Hv Hs Hd).
Qed.
Print Assumptions C16_gen_write_changes_vector_fingerprint.

Theorem C16_gen_write_changes_table_fingerprint : forall hn N U s h i b sid' s' v ht t c1 c2,
  let ghash := GenFingerprint.hash_element sval obs_sval (hash_sval hn) N U in
  getv s h = Some v -> gett s ht = Some t -> cols t = c1 ++ h :: c2 -> ~ In h c1 -> ~ In h c2 ->
  step s (OSetV h [(i, b)] sid') = (s', Ok) ->
  (ghash (nth i (vals v) SNone) - ghash b) mod gP <> 0 ->
  fp_of s' ht <> fp_of s ht.
Proof.
  intros hn N U s h i b sid' s' v ht t c1 c2 ghash Hv Ht Hc H1 H2 Hs Hd. subst ghash.
  rewrite !gen_hash_element_eq, gen_fp_P_eq in Hd.
  exact (C16_write_changes_table_fingerprint s h i b sid' s' v ht t c1 c2 Hv Ht Hc H1 H2 Hs Hd).
Qed.
Print Assumptions C16_gen_write_changes_table_fingerprint.

(* ---- the memo protocol: Vector.fingerprint / Table.fingerprint -------------------------------
   generated as (self._fp before, fingerprint of the current contents) -> (self._fp after, returned) *)

(* [nested] = the vector's elements are vectors (a ragged vector of vectors): then the memo is not trusted (F49) *)
Theorem gen_vector_fingerprint_memo_eq : forall m full,
  GenFingerprint.vector_fingerprint m full false =
  let x := match m with Some x => x | None => full end in (Some x, Some x).
Proof. intros [x|] full; reflexivity. Qed.
Print Assumptions gen_vector_fingerprint_memo_eq.

(* a vector of vectors never trusts its memo either: its elements are written through their own handles *)
Theorem gen_nested_vector_fingerprint_drops_memo : forall m full,
  GenFingerprint.vector_fingerprint m full true = (Some full, Some full).
Proof. intros [x|] full; reflexivity. Qed.
Print Assumptions gen_nested_vector_fingerprint_drops_memo.

(* a table never trusts its own memo: whatever was cached, the columns are recombined *)
Theorem gen_table_fingerprint_drops_memo : forall m full,
  GenFingerprint.table_fingerprint m full = (Some full, Some full).
Proof. intros [x|] full; reflexivity. Qed.
Print Assumptions gen_table_fingerprint_drops_memo.

Definition out_of (r : option Z) : outcome := match r with Some x => OkFp x | None => Stuck end.

(* the model's OFp step IS the generated protocol run on the generated loop: vectors ... *)
Theorem C16_gen_fingerprint_step_vector : forall hn N U s h v,
  aget (heap s) h = Some (OV v) ->
  let r := GenFingerprint.vector_fingerprint (vfp v)
             (GenFingerprint.compute_fingerprint_full sval obs_sval (hash_sval hn) N U (vals v)) false in
  step s (OFp h) =
  (mkSt (aset (heap s) h (OV (mkVec (vals v) (sid v) (nm v) (dt v) (fst r)))) (reg s), out_of (snd r)).
Proof.
  intros hn N U s h v Hh r. subst r. rewrite gen_fp_vals_eq, gen_vector_fingerprint_memo_eq.
  cbv beta iota zeta delta [step fst snd out_of]. rewrite Hh. reflexivity.
Qed.
Print Assumptions C16_gen_fingerprint_step_vector.

(* ... and tables (the elements are the columns; a column's own fingerprint() is the nested one) *)
Theorem C16_gen_fingerprint_step_table : forall (obs : handle -> elinfo) Hh U s h t,
  aget (heap s) h = Some (OT t) ->
  (forall c, In c (cols t) -> el_none (obs c) = false /\ el_hasfp (obs c) = true) ->
  let colfp c := match getv s c with
                 | Some v => match vfp v with Some x => x | None => fp_vals (vals v) end
                 | None => 0 end in
  let r := GenFingerprint.table_fingerprint (tfp t)
             (GenFingerprint.compute_fingerprint_full handle obs Hh colfp U (cols t)) in
  step s (OFp h) =
  (mkSt (aset (fold_left memo_col (cols t) (heap s)) h (OT (mkTab (cols t) (tsid t) (tnm t) (fst r)))) (reg s),
   out_of (snd r)).
Proof.
  intros obs Hh U s h t Ht Hc colfp r. subst r.
  rewrite (gen_fp_table_eq handle obs Hh colfp U (cols t) Hc), gen_table_fingerprint_drops_memo.
  cbv beta iota zeta delta [step fst snd out_of]. rewrite Ht. reflexivity.
Qed.
Print Assumptions C16_gen_fingerprint_step_table.
