(* gen_proofs/EqPartition.v — COMMITTED proof script, compiled on every run against the freshly generated
   SerifGen.GenPartition (the grouping loops of Table.aggregate and Table.window of /repo's current tree).

   Part 1: generated = the model (Model/Group.v: dict_add, row_key, partition, row_keys) - the step, the key of a row,
           the whole index, for both methods; window's row keys.
   Part 2: the C12 theorems about the partition restated for the generated index: one entry per distinct key in order of
           first appearance, each with its rows in ascending order; and aggregate and window build the same index.
   Only [Theorem]s are obligations. *)
From Coq Require Import List Bool Arith.
From Serif Require Import Base.GenPrelude Model.Group Spec.Group Props.C12.
From SerifGen Require GenPartition.
Import ListNotations.

Lemma map_nth_seq : forall A B (g : A -> B) (l : list A) (d : A),
  map (fun k => g (nth k l d)) (seq 0 (length l)) = map g l.
Proof.
  intros A B g l d. induction l as [|a t IH]; cbn [length seq map]; [reflexivity|].
  f_equal. rewrite <- seq_shift, map_map. exact IH.
Qed.

Section Eq.
Variable X : Type.
Notation cell := (option X).
Variable keq : list cell -> list cell -> bool.

(* one step of the loop = the model's insertion *)
Lemma step_is_dict_add : forall (d : list (list cell * list nat)) k i,
  match dict_get keq d k with
  | None => dict_set keq d k [i]
  | Some b => dict_set keq d k (b ++ [i])
  end = dict_add keq d k i.
Proof.
  induction d as [|[k' b] r IH]; intros k i; cbn [dict_get dict_set dict_add]; [reflexivity|].
  destruct (keq k k') eqn:E; [reflexivity|].
  specialize (IH k i). destruct (dict_get keq r k); f_equal; exact IH.
Qed.

Theorem gen_aggregate_step_eq : forall d k i, GenPartition.aggregate_step X keq d k i = dict_add keq d k i.
Proof. intros. unfold GenPartition.aggregate_step. apply step_is_dict_add. Qed.

Theorem gen_window_step_eq : forall d k i, GenPartition.window_step X keq d k i = dict_add keq d k i.
Proof. intros. unfold GenPartition.window_step. apply step_is_dict_add. Qed.

(* the key of row i: the i-th cell of every key column, in key order *)
Theorem gen_aggregate_key_eq : forall over i, GenPartition.aggregate_key X over i = row_key over i.
Proof. intros. unfold GenPartition.aggregate_key, row_key. apply (map_nth_seq _ _ (fun col => nth i col None)). Qed.

Theorem gen_window_key_eq : forall over i, GenPartition.window_key X over i = row_key over i.
Proof. intros. unfold GenPartition.window_key, row_key. apply (map_nth_seq _ _ (fun col => nth i col None)). Qed.

Lemma build_from_fold : forall (f : nat -> list cell) n n0 d,
  build_from keq d n0 (map f (seq n0 n)) = fold_left (fun d i => dict_add keq d (f i) i) (seq n0 n) d.
Proof.
  intros f n. induction n as [|n IH]; intros n0 d; cbn [seq map build_from fold_left]; [reflexivity|].
  apply IH.
Qed.

(* the whole index *)
Theorem gen_aggregate_group_items_eq : forall over n,
  GenPartition.aggregate_group_items X keq over n = partition keq (row_keys over n).
Proof.
  intros. unfold GenPartition.aggregate_group_items, partition, row_keys. rewrite build_from_fold.
  generalize (@nil (list cell * list nat)). generalize 0.
  induction n as [|n IH]; intros n0 d; cbn [seq fold_left]; [reflexivity|].
  rewrite gen_aggregate_step_eq, gen_aggregate_key_eq. apply IH.
Qed.

Theorem gen_window_group_items_eq : forall over n,
  GenPartition.window_group_items X keq over n = partition keq (row_keys over n).
Proof.
  intros. unfold GenPartition.window_group_items, partition, row_keys. rewrite build_from_fold.
  generalize (@nil (list cell * list nat)). generalize 0.
  induction n as [|n IH]; intros n0 d; cbn [seq fold_left]; [reflexivity|].
  rewrite gen_window_step_eq, gen_window_key_eq. apply IH.
Qed.

Theorem gen_window_row_keys_eq : forall over n, GenPartition.window_row_keys X over n = row_keys over n.
Proof.
  intros. unfold GenPartition.window_row_keys, row_keys. apply map_ext. intros i. apply gen_window_key_eq.
Qed.

(* aggregate and window group alike (C13) *)
Theorem gen_window_groups_as_aggregate : forall over n,
  GenPartition.window_group_items X keq over n = GenPartition.aggregate_group_items X keq over n.
Proof. intros. rewrite gen_window_group_items_eq, gen_aggregate_group_items_eq. reflexivity. Qed.

(* C12, restated for the generated index: one entry per distinct key tuple in order of first appearance, each with the
   rows that carry the key in ascending order *)
Theorem C12_gen_partition_first_appearance_rows_ascending :
  (forall a, keq a a = true) -> (forall a b, keq a b = keq b a) ->
  (forall a b c, keq a b = true -> keq b c = true -> keq a c = true) ->
  forall over n,
    let ks := row_keys over n in
    GenPartition.aggregate_group_items X keq over n = map (fun k => (k, group_rows keq ks k)) (first_keys keq ks) /\
    GenPartition.window_group_items X keq over n = map (fun k => (k, group_rows keq ks k)) (first_keys keq ks).
Proof.
  intros R S T over n ks. rewrite gen_window_group_items_eq, gen_aggregate_group_items_eq.
  split; apply C12_partition_rows_ascending; assumption.
Qed.
End Eq.

Print Assumptions gen_aggregate_step_eq.
Print Assumptions gen_window_step_eq.
Print Assumptions gen_aggregate_key_eq.
Print Assumptions gen_window_key_eq.
Print Assumptions gen_aggregate_group_items_eq.
Print Assumptions gen_window_group_items_eq.
Print Assumptions gen_window_row_keys_eq.
Print Assumptions gen_window_groups_as_aggregate.
Print Assumptions C12_gen_partition_first_appearance_rows_ascending.
