(* gen_proofs/EqCsvReader.v — COMMITTED proof script, compiled on every run against the freshly generated
   SerifGen.GenCsvReader (csv._read_csv_from_file of /repo's current tree, from the record list on).
   Part 1: generated = the model (Model/Csv.read_records) for every conversion, header flag and record list.
   Part 2: C19's statements restated for the generated reader through that equality.
   Only [Theorem]s are obligations. *)
From Coq Require Import List Bool Arith Lia.
From Serif Require Import Base.PyVal Model.Dtype Model.Csv Spec.DtypeLattice Spec.Csv Props.C19.
From SerifGen Require GenCsvReader.
Import ListNotations.

Section Eq.
Variable T : Type.
Variable conv : T -> cval.

Lemma map_seq_nth_combine : forall A B (f : nat -> A -> B) (l : list A) (d : A) n0,
  map (fun j => f j (nth (j - n0) l d)) (seq n0 (length l)) = map (fun jh => f (fst jh) (snd jh)) (combine (seq n0 (length l)) l).
Proof.
  intros A B f l d. induction l as [|a t IH]; intros n0; cbn [length seq map combine]; [reflexivity|].
  f_equal.
  - rewrite Nat.sub_diag. reflexivity.
  - rewrite <- IH. apply map_ext_in. intros j Hj. apply in_seq in Hj.
    replace (j - n0) with (S (j - S n0)) by lia. reflexivity.
Qed.

Theorem gen_read_records_eq : forall has_header all_rows,
  GenCsvReader.read_csv_from_file T conv has_header all_rows = read_records conv has_header all_rows.
Proof.
  intros hh all_rows. unfold GenCsvReader.read_csv_from_file, read_records.
  destruct all_rows as [|first rest]; [reflexivity|]. cbn [hd tl].
  change (fun py_i : nat => @NGen T py_i) with (@NGen T).
  set (header := if hh then map NText first else map NGen (seq 0 (length first))).
  destruct (if hh then rest else first :: rest) as [|r rs] eqn:Er; [reflexivity|].
  f_equal.
  pose proof (map_seq_nth_combine (colname T) (column T)
                (fun j h => vector_of h (map (fun row => cell_at conv row j) (r :: rs))) header (NGen 0) 0) as H.
  rewrite <- H. apply map_ext. intros j. rewrite Nat.sub_0_r. reflexivity.
Qed.

Notation gen := (GenCsvReader.read_csv_from_file T conv).

(* C19, restated for the generated reader *)
Theorem C19_gen_never_fails : forall hh recs, exists t, gen hh recs = Done t.
Proof. intros. rewrite gen_read_records_eq. apply C19_read_never_fails. Qed.

Theorem C19_gen_one_column_per_header_cell_named_verbatim : forall hh recs t,
  gen hh recs = Done t -> ncols t = List.length (header_of hh recs) /\ names t = header_of hh recs.
Proof.
  intros hh recs t H. rewrite gen_read_records_eq in H.
  split; [exact (C19_ncols_is_header_length T conv hh recs t H) | exact (C19_names_verbatim T conv hh recs t H)].
Qed.

Theorem C19_gen_one_row_per_record : forall hh recs t,
  gen hh recs = Done t ->
  (forall c, In c t -> List.length (cdata c) = List.length (data_records hh recs)) /\
  (header_of hh recs <> [] -> nrows t = List.length (data_records hh recs)).
Proof.
  intros hh recs t H. rewrite gen_read_records_eq in H. split.
  - exact (C19_every_column_has_one_cell_per_record T conv hh recs t H).
  - exact (C19_nrows_is_record_count_partial T conv hh recs t H).
Qed.

Theorem C19_gen_cell_spec : forall hh recs t,
  gen hh recs = Done t ->
  forall i j rec, nth_error (data_records hh recs) i = Some rec -> j < ncols t ->
  (forall x, nth_error rec j = Some x -> cell t i j = Some (conv x)) /\
  (List.length rec <= j -> cell t i j = Some None).
Proof. intros hh recs t H. rewrite gen_read_records_eq in H. exact (C19_cell_spec T conv hh recs t H). Qed.

Theorem C19_gen_dtype_is_inferred : forall hh recs t,
  gen hh recs = Done t ->
  forall c, In c t ->
  cdtype c = match data_records hh recs with [] => None | _ :: _ => Some (infer_spec (map pyv_of (cdata c))) end.
Proof. intros hh recs t H. rewrite gen_read_records_eq in H. exact (C19_csv_dtype_is_inferred T conv hh recs t H). Qed.

Theorem C19_gen_empty_inputs_give_empty_table :
  (forall hh, gen hh [] = Done []) /\
  (forall first, gen true [first] = Done (map (fun x => mkCol (NText x) [] None) first)).
Proof.
  split; intros; rewrite gen_read_records_eq; apply (C19_empty_inputs_give_empty_table T conv).
Qed.
End Eq.

Print Assumptions gen_read_records_eq.
Print Assumptions C19_gen_never_fails.
Print Assumptions C19_gen_one_column_per_header_cell_named_verbatim.
Print Assumptions C19_gen_one_row_per_record.
Print Assumptions C19_gen_cell_spec.
Print Assumptions C19_gen_dtype_is_inferred.
Print Assumptions C19_gen_empty_inputs_give_empty_table.
