(* gen_proofs/EqSanitize.v — COMMITTED proof script, compiled on every run against the freshly generated
   SerifGen.GenSanitize (naming._sanitize_user_name of /repo's current tree).

   Part 1: generated = the model: for every reserved set, every text and every lower-casing function,
           sanitize_user_name reserved lower t = Model/Naming.sanitize reserved (lower t)
           (which rules the function applies, to what, in which order, and what it returns).
   Part 2: the C17 theorems about the sanitiser restated for the generated function: a result is a valid identifier, not a
           reserved name, not of the indexed form name__N, and a fixed point of the sanitiser.
   Only [Theorem]s are obligations. *)
From Coq Require Import List Bool Arith Ascii String.
From Serif Require Import Base.PyVal Base.GenPrelude Model.Naming Proofs.Naming Props.C17.
From SerifGen Require GenSanitize.
Import ListNotations.

Section Eq.
Variable reserved : list str.
Variable lower : str -> str.
Notation gen := (GenSanitize.sanitize_user_name reserved lower).

Theorem gen_sanitize_eq : forall t, gen t = sanitize reserved (lower t).
Proof.
  intros t. cbv beta iota zeta delta [GenSanitize.sanitize_user_name sanitize].
  destruct (strip (collapse false (lower t))) as [|c x]; reflexivity.
Qed.

(* lower-casing commutes with the rules only through the text it returns: on a text that lower() leaves alone the generated
   function IS the model's *)
Theorem gen_sanitize_on_lowered : forall t, lower t = t -> gen t = sanitize reserved t.
Proof. intros t H. rewrite gen_sanitize_eq, H. reflexivity. Qed.

Theorem C17_gen_sanitize_valid_identifier : forall t out,
  gen t = Some out -> forallb is_ok out = true /\ exists c r, out = c :: r /\ is_lower c = true.
Proof. intros t out H. rewrite gen_sanitize_eq in H. exact (C17_sanitize_valid_identifier reserved (lower t) out H). Qed.

Theorem C17_gen_sanitize_not_reserved : forall t out,
  reserved_ok reserved = true -> gen t = Some out -> ~ In out reserved.
Proof. intros t out Hok H. rewrite gen_sanitize_eq in H. exact (C17_sanitize_not_reserved reserved (lower t) out Hok H). Qed.

Theorem C17_gen_sanitize_not_indexed_form : forall t out, gen t = Some out -> matches_indexed out = false.
Proof. intros t out H. rewrite gen_sanitize_eq in H. exact (C17_sanitize_not_indexed_form reserved (lower t) out H). Qed.

(* sanitising an accessor gives it back, provided lower() leaves the accessor (a word over [a-z0-9_]) alone *)
Theorem C17_gen_sanitize_idempotent : forall t out,
  (forall x, forallb is_ok x = true -> lower x = x) ->
  gen t = Some out -> gen out = Some out.
Proof.
  intros t out Hl H. pose proof (C17_gen_sanitize_valid_identifier t out H) as [Hok _].
  rewrite gen_sanitize_eq in H. rewrite gen_sanitize_eq, (Hl out Hok).
  exact (C17_sanitize_idempotent reserved (lower t) out H).
Qed.
End Eq.

Print Assumptions gen_sanitize_eq.
Print Assumptions gen_sanitize_on_lowered.
Print Assumptions C17_gen_sanitize_valid_identifier.
Print Assumptions C17_gen_sanitize_not_reserved.
Print Assumptions C17_gen_sanitize_not_indexed_form.
Print Assumptions C17_gen_sanitize_idempotent.
