(* Spec/DtypeLattice.v — the declarative side of C04: the kind lattice and the closed
   form of inference.  bool < int < float < complex, date < datetime, every other
   mixture joins to object; None only adds nullability. *)
From Coq Require Import List Bool Arith.
From Serif Require Import Base.PyVal.
Import ListNotations.

Definition rank (k : kind) : nat :=
  match k with KBool => 0 | KInt => 1 | KFloat => 2 | KComplex => 3 | _ => 0 end.

Definition join (a b : kind) : kind :=
  if kind_eqb a b then a
  else if is_numeric a && is_numeric b then (if rank a <? rank b then b else a)
  else if is_temporal a && is_temporal b then KDateTime
  else KObject.

(* a ⊑ b in the lattice *)
Definition kle (a b : kind) : Prop := join a b = b.
Definition dle (a b : dtype) : Prop :=
  kle (dkind a) (dkind b) /\ (nullable a = true -> nullable b = true).

Definition kinds (l : list pyv) : list kind :=
  flat_map (fun v => match v with Some vi => [base vi] | None => [] end) l.
Definition is_none (v : pyv) : bool := match v with None => true | Some _ => false end.
Definition has_none (l : list pyv) : bool := existsb is_none l.

Definition lub_kinds (ks : list kind) : option kind :=
  match ks with [] => None | k :: t => Some (fold_left join t k) end.

(* the property's statement of what inference must return *)
Definition infer_spec (l : list pyv) : dtype :=
  match lub_kinds (kinds l) with
  | None => mkD KObject true                 (* empty or all-None *)
  | Some k => mkD k (has_none l)
  end.
