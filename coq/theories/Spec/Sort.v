(* Spec/Sort.v — what C14 says, independent of how sort_by computes it.

   A sort key is a column of cells (None or a value) with a direction.  Row i comes
   before row j when, at the first key on which the two rows do not tie, row i's cell
   is "before" row j's cell in that key's own direction — None after every value
   (before every value with na_last=False) WHATEVER the direction — and, when the rows
   tie on every key, when i was before j in the input. *)
From Coq Require Import List Bool Arith Sorted.
Import ListNotations.

Section SortSpec.
  Variable V : Type.
  Variable vleb : V -> V -> bool.                     (* x <= y on the values of a column *)

  Definition vlt (x y : V) : Prop := vleb y x = false.                   (* x < y *)
  Definition veq (x y : V) : Prop := vleb x y = true /\ vleb y x = true. (* x ~ y *)

  Definition cell_before (na_last rev : bool) (a b : option V) : Prop :=
    match a, b with
    | Some x, Some y => if rev then vlt y x else vlt x y
    | Some _, None => na_last = true
    | None, Some _ => na_last = false
    | None, None => False
    end.

  Definition cell_tie (a b : option V) : Prop :=
    match a, b with
    | Some x, Some y => veq x y
    | None, None => True
    | _, _ => False
    end.

  Definition skey := (list (option V) * bool)%type.   (* key column, reverse? *)
  Definition kcell (k : skey) (i : nat) : option V := nth i (fst k) None.

  (* lexicographic over the keys, each in its own direction; [base] decides full ties *)
  Fixpoint row_before (na_last : bool) (ks : list skey) (base : nat -> nat -> Prop) (i j : nat) : Prop :=
    match ks with
    | [] => base i j
    | k :: rest =>
        cell_before na_last (snd k) (kcell k i) (kcell k j)
        \/ (cell_tie (kcell k i) (kcell k j) /\ row_before na_last rest base i j)
    end.

  (* [p] lists the input row numbers in output order *)
  Definition sorted_rows (na_last : bool) (ks : list skey) (p : list nat) : Prop :=
    StronglySorted (row_before na_last ks lt) p.

  (* the hypothesis of the property: the key values of a column are totally preordered *)
  Definition total_preorder : Prop :=
    (forall x y, vleb x y = true \/ vleb y x = true) /\
    (forall x y z, vleb x y = true -> vleb y z = true -> vleb x z = true).
End SortSpec.

Arguments vlt {V}.
Arguments veq {V}.
Arguments cell_before {V}.
Arguments cell_tie {V}.
Arguments kcell {V}.
Arguments row_before {V}.
Arguments sorted_rows {V}.
Arguments total_preorder {V}.
