(* Spec/Elementwise.v — what property C05 says, independent of how vector.py does it.

   "the result is a new vector of the same length whose i-th element is exactly what
    Python computes for the i-th operands in the written operand order" *)
From Coq Require Import List Bool Arith ZArith.
From Serif Require Import Base.PyVal Model.Elementwise.
Import ListNotations.

Section Spec.
  Variable val : Type.
  Notation elem := (option val).
  Variable scal : bop -> val -> val -> sres val.     (* Python's own  a <o> b *)

  (* The written operand order.  [x] is the vector's element, [y] the other operand's:
       v - other   is  x - y          (plain)
       other - v   is  y - x          (reflected: the vector stands on the right) *)
  Definition written (d : dunder) (x y : val) : sres val :=
    match d with
    | Plain o => scal o x y
    | Refl o => scal o y x
    end.

  (* the i-th operand on the other side: element i of a vector / sequence, or the scalar *)
  Definition operand_nth (other : operand val) (i : nat) : elem :=
    match other with
    | OVec ys => nth i ys None
    | OSeq ys => nth i ys None
    | OScalar s => Some s
    end.

  (* the other operand is a scalar, or has exactly n elements *)
  Definition operand_fits (n : nat) (other : operand val) : Prop :=
    match other with
    | OVec ys => length ys = n
    | OSeq ys => length ys = n
    | OScalar _ => True
    end.

  (* what Python computes at position i: None if either side is None, else x <o> y *)
  Definition at_position (d : dunder) (xs : list elem) (other : operand val) (i : nat) : sres elem :=
    lift2 (written d) (nth i xs None) (operand_nth other i).

  (* "all values for which Python itself defines the scalar operation" *)
  Definition defined_everywhere (d : dunder) (xs : list elem) (other : operand val) : Prop :=
    forall i, i < length xs -> exists r, at_position d xs other i = SOk r.

  (* THE elementwise rule: same length, element i is what Python computes at position i *)
  Definition elementwise_result (d : dunder) (xs : list elem) (other : operand val)
                                (l : list elem) : Prop :=
    length l = length xs /\
    forall i, i < length xs -> at_position d xs other i = SOk (nth i l None).

  (* the rule for a one-argument scalar function (unary operator, method, property) *)
  Definition mapped_result (f : val -> sres elem) (xs l : list elem) : Prop :=
    length l = length xs /\
    forall i, i < length xs ->
      match nth i xs None with
      | None => nth i l None = None                  (* None stays None *)
      | Some a => f a = SOk (nth i l None)           (* f applied to element i *)
      end.
  Definition defined_on (f : val -> sres elem) (xs : list elem) : Prop :=
    forall i a, nth_error xs i = Some (Some a) -> exists r, f a = SOk r.

  (* a table is rectangular when all its columns have the same length *)
  Definition rectangular (cols : list (list elem)) (n : nat) : Prop :=
    forall c, In c cols -> length c = n.
End Spec.

Arguments written {val} scal d x y.
Arguments operand_nth {val} other i.
Arguments operand_fits {val} n other.
Arguments at_position {val} scal d xs other i.
Arguments defined_everywhere {val} scal d xs other.
Arguments elementwise_result {val} scal d xs other l.
Arguments mapped_result {val} f xs l.
Arguments defined_on {val} f xs.
Arguments rectangular {val} cols n.

(* dates + days, on ordinals: None stays None, otherwise ordinal + days *)
Definition plus_days (s y : option Z) : option Z :=
  match s, y with Some a, Some b => Some (a + b)%Z | _, _ => None end.
Definition valid_ordinal (n : Z) : Prop := (1 <= n <= max_ordinal)%Z.
