(* Spec/NoneOps.v — what property C06 says:
     a None element propagates through arithmetic, makes every comparison at its position
     False, is skipped by every reduction while still counting towards len();
     isna / dropna / fillna agree with one another. *)
From Coq Require Import List Bool Arith.
From Serif Require Import Base.PyVal Model.Dtype Model.Elementwise Model.NoneOps Spec.Elementwise.
Import ListNotations.

(* the None-free list of a vector's values, in order *)
Definition drop_none {A} (xs : list (option A)) : list A :=
  flat_map (fun x => match x with Some v => [v] | None => [] end) xs.

Definition count_none {A} (xs : list (option A)) : nat := length (filter is_none xs).
Definition has_none {A} (xs : list (option A)) : bool := existsb is_none xs.

(* the elements at the positions a boolean mask marks *)
Fixpoint select {A} (mask : list bool) (xs : list A) : list A :=
  match mask, xs with
  | m :: mt, x :: xt => if m then x :: select mt xt else select mt xt
  | _, _ => []
  end.

Section ReduceSpec.
  Variable val : Type.
  Variable add : val -> val -> sres val.
  Variable zero : val.
  Variable truthy : val -> bool.
  Variable py_max py_min : list val -> sres val.
  Variable py_mean : list val -> sres val.
  Variable py_stdev : bool -> list val -> sres val.

  (* Python's sum(l): 0 + l[0] + l[1] + ... *)
  Fixpoint py_sum_from (acc : val) (l : list val) : sres val :=
    match l with
    | [] => SOk acc
    | v :: t => match add acc v with SOk a => py_sum_from a t | e => e end
    end.
  Definition py_sum (l : list val) : sres val := py_sum_from zero l.

  (* the reduction of a None-FREE list, with the results the property fixes for the cases where
     nothing (or too little) is left *)
  Definition reduce_clean (r : reduction) (clean : list val) : rres val :=
    match r with
    | RSum => of_sres (py_sum clean)                                  (* [] -> 0 *)
    | RMax => match clean with [] => RNone | _ => of_sres (py_max clean) end
    | RMin => match clean with [] => RNone | _ => of_sres (py_min clean) end
    | RMean => match clean with [] => RNone | _ => of_sres (py_mean clean) end
    | RStdev p => if length clean <? 2 then RNone else of_sres (py_stdev p clean)
    | RAll => RBool (forallb truthy clean)
    | RAny => RBool (existsb truthy clean)
    end.
End ReduceSpec.

Arguments py_sum_from {val} add acc l.
Arguments py_sum {val} add zero l.
Arguments reduce_clean {val} add zero truthy py_max py_min py_mean py_stdev r clean.

Section CompareSpec.
  Variable val : Type.
  Variable cmp cmp_iso cmp_dt : val -> val -> sres bool.

  (* which scalar comparison a date vector applies to which operand *)
  Definition date_cmp_of (other : date_coperand val) : val -> val -> sres bool :=
    match other with
    | DCVec (Some KStr) _ => cmp_iso          (* strings are parsed as ISO dates *)
    | DCStr _ => cmp_iso
    | DCVec (Some KDateTime) _ => cmp_dt      (* the date is lifted to midnight *)
    | DCDatetime _ => cmp_dt
    | _ => cmp
    end.
  Definition date_operand_nth (other : date_coperand val) (i : nat) : option val :=
    match other with
    | DCVec _ ys => nth i ys None
    | DCSeq ys => nth i ys None
    | DCStr s => Some s
    | DCDatetime s => Some s
    | DCScalar s => Some s
    end.
  Definition date_operand_fits (n : nat) (other : date_coperand val) : Prop :=
    match other with
    | DCVec _ ys => length ys = n
    | DCSeq ys => length ys = n
    | _ => True
    end.

  (* THE comparison rule: same length; False where either side is None; Python's answer elsewhere *)
  Definition compare_result (c : val -> val -> sres bool) (xs : list (option val))
                            (ys_at : nat -> option val) (l : list bool) : Prop :=
    length l = length xs /\
    forall i, i < length xs ->
      match nth i xs None, ys_at i with
      | Some a, Some b => c a b = SOk (nth i l true)
      | _, _ => nth i l true = false
      end.

  (* the comparison is defined wherever both sides hold a value *)
  Definition compare_defined (c : val -> val -> sres bool) (xs : list (option val))
                             (ys_at : nat -> option val) : Prop :=
    forall i a b, i < length xs -> nth i xs None = Some a -> ys_at i = Some b -> exists r, c a b = SOk r.
End CompareSpec.

Arguments date_cmp_of {val} cmp cmp_iso cmp_dt other.
Arguments date_operand_nth {val} other i.
Arguments date_operand_fits {val} n other.
Arguments compare_result {val} c xs ys_at l.
Arguments compare_defined {val} c xs ys_at.

Section NASpec.
  Variable val : Type.
  Variable cls : val -> vinfo.

  (* Some k when fillna has to convert the existing values to kind k first (value of a wider
     class on the promotion ladder); None when the values are left as they are *)
  Definition fill_target (value : option val) (dt : option dtype) : option kind :=
    match dt, value with
    | Some d, Some v =>
        if validate_scalar (Some (cls v)) d then None
        else if kind_eqb (dkind d) (base (cls v)) then None
        else Some (base (cls v))
    | _, _ => None
    end.
End NASpec.
Arguments fill_target {val} cls value dt.
