(* Spec/Group.v — what C12 / C13 say, independent of how aggregate / window compute it.

   Rows are grouped by their key (any type K with an equality [keq]; for a table the key of
   a row is the tuple of its key cells, None being a cell like any other).
   * the groups are the distinct keys in order of first appearance;
   * the rows of a group are the rows carrying an equal key, ascending;
   * each built-in aggregate is the textbook function of the group's non-None values in row
     order; a custom function is called on each group's raw values, once, in group order;
   * window gives row i the value aggregate computes for the group of row i's key. *)
From Coq Require Import List Bool Arith ZArith.
From Serif Require Import Model.Group.
Import ListNotations.

Section GroupSpec.
  Variable K : Type.
  Variable keq : K -> K -> bool.

  (* distinct keys, first appearance first: k, then the later keys different from k *)
  Fixpoint first_keys (ks : list K) : list K :=
    match ks with
    | [] => []
    | k :: t => k :: filter (fun k' => negb (keq k k')) (first_keys t)
    end.

  (* the rows whose key equals k: a filter over 0 .. n-1, hence ascending *)
  Definition group_rows (ks : list K) (k : K) : list nat :=
    filter (fun i => match nth_error ks i with Some k' => keq k k' | None => false end)
           (seq 0 (List.length ks)).

  Definition spec_groups (ks : list K) : list (K * list nat) :=
    map (fun k => (k, group_rows ks k)) (first_keys ks).

  Definition has (ks : list K) (k : K) : bool := existsb (fun k' => keq k k') ks.

  (* the hypothesis on key equality: an equivalence (Python == on hashable keys whose hash
     agrees with it; NaN is excluded) *)
  Definition equivalence : Prop :=
    (forall a, keq a a = true) /\ (forall a b, keq a b = keq b a) /\
    (forall a b c, keq a b = true -> keq b c = true -> keq a c = true).
End GroupSpec.

Arguments first_keys {K}.
Arguments group_rows {K}.
Arguments spec_groups {K}.
Arguments has {K}.
Arguments equivalence {K}.

Section AggSpec.
  Variable X T : Type.
  Variable xeq : X -> X -> bool.
  Variable xleb : X -> X -> bool.
  Variable xz : X -> Z.
  Variable fmean fstdev : list X -> T.
  Variable F : nat -> list (cell X) -> rcell X T.

  Definition zsum (l : list Z) : Z := fold_right Z.add 0%Z l.

  (* r is what the textbook aggregate [kind] gives on the raw group values [vals] *)
  Definition agg_ok (kind : aggkind) (vals : list (cell X)) (r : rcell X T) : Prop :=
    let c := clean vals in                                (* the non-None values, in row order *)
    match kind with
    | ASum => r = RInt (zsum (map xz c))
    | ACount => r = RInt (Z.of_nat (List.length c))
    | AMean => (c = [] -> r = RNone) /\ (c <> [] -> r = RTok (fmean c))
    | AStdev => (List.length c <= 1 -> r = RNone) /\ (2 <= List.length c -> r = RTok (fstdev c))
    | AMin => (c = [] -> r = RNone) /\
              (c <> [] -> exists x, r = RElem x /\ In x c /\ forall y, In y c -> xleb x y = true)
    | AMax => (c = [] -> r = RNone) /\
              (c <> [] -> exists x, r = RElem x /\ In x c /\ forall y, In y c -> xleb y x = true)
    end.

  (* the table aggregate must return, and the calls it must make.
     ov: key columns; bs: built-in aggregates (kind, data column) in result order;
     aps: custom aggregates (data column, function number) in dict order. *)
  Definition group_vals (ks : list (key X)) (data : list (cell X)) (k : key X) : list (cell X) :=
    gather data (group_rows (keq xeq) ks k).

  Definition spec_key_cols (ov : list (list (cell X))) (fk : list (key X)) : list (list (rcell X T)) :=
    map (fun idx => map (fun k => rc (nth idx k None)) fk) (seq 0 (List.length ov)).

  Definition spec_builtin_cols (f : aggkind -> list (cell X) -> rcell X T)
             (ks fk : list (key X)) (bs : list (aggkind * list (cell X))) : list (list (rcell X T)) :=
    map (fun b => map (fun k => f (fst b) (group_vals ks (snd b) k)) fk) bs.

  Definition spec_apply_cols (ks fk : list (key X)) (aps : list (list (cell X) * nat))
    : list (list (rcell X T)) :=
    map (fun a => map (fun k => F (snd a) (group_vals ks (fst a) k)) fk) aps.

  (* each custom function is called once per group, in group order, on the raw values
     (None included) in row order *)
  Definition spec_calls (ks fk : list (key X)) (aps : list (list (cell X) * nat))
    : list (nat * list (cell X)) :=
    flat_map (fun a => map (fun k => (snd a, group_vals ks (fst a) k)) fk) aps.

  (* the custom entries {name: (column, function)} name these data columns, of the table's length *)
  Definition apply_resolved (t : table X) (n : nat) (aps : list (colspec X * nat))
             (raps : list (list (cell X) * nat)) : Prop :=
    Forall2 (fun sp ra => resolve_col t (fst sp) = Ok (fst ra) /\ snd sp = snd ra
                          /\ List.length (fst ra) = n) aps raps.

  (* aggregate's result joined back to the rows on the partition key *)
  Definition join_back (fk : list (key X)) (col : list (rcell X T)) (k : key X) : rcell X T :=
    match assoc_get (keq xeq) (combine fk col) k with Some v => v | None => RNone end.
End AggSpec.

Arguments agg_ok {X T}.
Arguments group_vals {X}.
Arguments spec_key_cols {X T}.
Arguments spec_builtin_cols {X T}.
Arguments spec_apply_cols {X T}.
Arguments spec_calls {X}.
Arguments join_back {X T}.
Arguments apply_resolved {X}.
