(* Spec/Join.v — the declarative side of C09 / C10 / C11: what a join must return,
   stated as nested loops over row positions, with no hash index anywhere.

   Part 1: the data the joins work on (cells, columns, tables, errors).
   Part 2: row pairs.  A result row is identified by the pair (left row, right row) it
           was built from; ⊥ (None) stands for "no row on that side, pad with None".
   Part 3: what the output table holds for a list of row pairs.
   Part 4: what [expect] demands. *)
From Coq Require Import List Bool Arith String.
From Serif Require Import Base.PyVal.
Import ListNotations.

(* ------------------------------------------------------------------ 1. data *)

Inductive err := EValue | EType | EKey.      (* SerifValueError / SerifTypeError / SerifKeyError *)
Inductive result (A : Type) := Ok (a : A) | Err (e : err).
Arguments Ok {A} a.
Arguments Err {A} e.

Section Data.
Variable V : Type.                           (* the non-None Python values *)

Definition cell := option V.                 (* None = Python None *)

Record column := mkCol {
  cname : option string;                     (* Vector._name *)
  ckind : option kind;                       (* schema().kind, None = untyped (empty) vector *)
  cvals : list cell }.

Definition table := list column.             (* Table._underlying *)

(* the result of a join as far as C09-C11 observe it: names and cells, column by column *)
Definition out_table := list (option string * list cell).

(* len(table): 0 without columns, else the length of the columns *)
Definition nrows (t : table) : nat :=
  match t with [] => 0 | c :: _ => List.length (cvals c) end.

(* col[i]; rows are only ever read at positions < len(col) *)
Definition cell_at (c : column) (i : nat) : cell := nth i (cvals c) None.
End Data.

Arguments mkCol {V} _ _ _.
Arguments cname {V} _.
Arguments ckind {V} _.
Arguments cvals {V} _.
Arguments nrows {V} _.
Arguments cell_at {V} _ _.

(* ------------------------------------------------------------------ 2. row pairs *)

Definition rowpair := (option nat * option nat)%type.
Definition swap_pair (p : rowpair) : rowpair := (snd p, fst p).

Section Pairs.
Variable K : Type.                           (* key tuples *)
Variable keq : K -> K -> bool.               (* Python's == on them *)
Variables (n m : nat).                       (* number of left / right rows *)
Variables (lk rk : nat -> K).                (* key tuple of the i-th left / j-th right row *)

(* right rows whose key equals left row i's key, ascending *)
Definition matches_of (i : nat) : list nat :=
  filter (fun j => keq (lk i) (rk j)) (seq 0 m).

Definition pair_with (i : nat) (js : list nat) : list rowpair :=
  map (fun j => (Some i, Some j)) js.

(* C09: one row per key-equal (left, right) pair, by left position then right position *)
Definition inner_pairs : list rowpair :=
  flat_map (fun i => pair_with i (matches_of i)) (seq 0 n).

(* C10: a left row without a match contributes (i, ⊥) at its own position *)
Definition left_rows_of (i : nat) : list rowpair :=
  match matches_of i with
  | [] => [(Some i, None)]
  | js => pair_with i js
  end.
Definition left_pairs : list rowpair := flat_map left_rows_of (seq 0 n).

(* C10: right rows matched by no left row are appended as (⊥, j), in right order *)
Definition right_matched (j : nat) : bool :=
  existsb (fun i => keq (lk i) (rk j)) (seq 0 n).
Definition right_unmatched : list nat :=
  filter (fun j => negb (right_matched j)) (seq 0 m).
Definition full_pairs : list rowpair :=
  left_pairs ++ map (fun j => (None, Some j)) right_unmatched.
End Pairs.

Arguments matches_of {K} _ _ _ _ _.
Arguments inner_pairs {K} _ _ _ _ _.
Arguments left_rows_of {K} _ _ _ _ _.
Arguments left_pairs {K} _ _ _ _ _.
Arguments right_matched {K} _ _ _ _ _.
Arguments right_unmatched {K} _ _ _ _ _.
Arguments full_pairs {K} _ _ _ _ _.

(* C11: "the keys of a side are not unique" *)
Definition has_duplicate {K} (keq : K -> K -> bool) (n : nat) (k : nat -> K) : Prop :=
  exists i j, i < j /\ j < n /\ keq (k i) (k j) = true.

(* order-preserving containment *)
Inductive sublist {A} : list A -> list A -> Prop :=
| sub_nil : sublist [] []
| sub_skip x l1 l2 : sublist l1 l2 -> sublist l1 (x :: l2)
| sub_keep x l1 l2 : sublist l1 l2 -> sublist (x :: l1) (x :: l2).

(* ------------------------------------------------------------------ 3. the output table *)

Section Output.
Variable V : Type.
Variables (L R : table V).

(* the cell column [c] contributes to a row built from row [oi] of its table *)
Definition pad_get (c : column V) (oi : option nat) : cell V :=
  match oi with Some i => cell_at c i | None => None end.

(* all left cells, then all right cells *)
Definition out_row (p : rowpair) : list (cell V) :=
  map (fun c => pad_get c (fst p)) L ++ map (fun c => pad_get c (snd p)) R.

(* all left names, then all right names, unchanged *)
Definition out_names : list (option string) := map cname L ++ map cname R.

(* the r-th row of an output table *)
Definition row_of (T : out_table V) (r : nat) : list (cell V) :=
  map (fun nc => nth r (snd nc) None) T.

(* [T] holds exactly the rows [ps], in that order, under the source names;
   with no rows at all it is the 0 x 0 table (there is nothing to carry columns) *)
Definition holds_rows (T : out_table V) (ps : list rowpair) : Prop :=
  match ps with
  | [] => T = []
  | _ => map fst T = out_names /\
         Forall (fun nc => List.length (snd nc) = List.length ps) T /\
         forall r, r < List.length ps -> row_of T r = out_row (nth r ps (None, None))
  end.
End Output.

Arguments pad_get {V} _ _.
Arguments out_row {V} _ _ _.
Arguments out_names {V} _ _.
Arguments row_of {V} _ _.
Arguments holds_rows {V} _ _ _ _.

(* ------------------------------------------------------------------ 4. expect *)

Open Scope string_scope.
Definition valid_expect (e : string) : bool :=
  String.eqb e "one_to_one" || String.eqb e "many_to_one" ||
  String.eqb e "one_to_many" || String.eqb e "many_to_many".
Definition needs_right_unique (e : string) : bool :=
  String.eqb e "one_to_one" || String.eqb e "many_to_one".
Definition needs_left_unique (e : string) : bool :=
  String.eqb e "one_to_one" || String.eqb e "one_to_many".
Close Scope string_scope.

(* Python's == on the values that occur as keys: an equivalence (no NaN) *)
Definition eq_equivalence {V} (veq : V -> V -> bool) : Prop :=
  (forall a, veq a a = true) /\ (forall a b, veq a b = veq b a) /\
  (forall a b c, veq a b = true -> veq b c = true -> veq a c = true).

(* "ordered by left row position and then right row position" *)
Definition pair_before (p q : rowpair) : Prop :=
  match p, q with
  | (Some i, Some j), (Some i', Some j') => i < i' \/ (i = i' /\ j < j')
  | _, _ => False
  end.
