(* Spec/PySlice.v — what "Python sequence semantics" means (C07, C08).

   [adjust]    = slice.indices(n)  (CPython: PySlice_Unpack + PySlice_AdjustIndices /
                 _PySlice_GetLongIndices), on unbounded integers.
   [py_range]  = list(range(start, stop, step)) stated as the WHILE loop it abbreviates
                 (x = start; while x before stop: yield x; x += step) — deliberately not the
                 closed-form length, which is what [slice_length] is proved against.
   [py_index]  = tuple[i] for an int i (negative counts from the end, out of range = error).
   [gather]    = [l[i] for i in idx], defined only when every index is a valid position.
   [sel]       = which positions a key selects from a sequence of length n — the single
                 declarative reading of every key form of Vector.__getitem__.
   This transcription is itself validated against CPython (list(range(n))[s]) by the
   correspondence check of C07 on the whole box n<=7, start/stop in {None,-9..9},
   step in {None,-4..4}\{0}. *)
From Coq Require Import List Bool Arith ZArith.
From Serif Require Import Base.StErr.
Import ListNotations.
Local Open Scope Z_scope.

(* ---- slices ---------------------------------------------------------------- *)

Definition step_of (s : option Z) : Z := match s with None => 1 | Some x => x end.

(* one bound of slice.indices: lower/upper are the clamps for this step sign *)
Definition clamp (x : option Z) (dflt lower upper n : Z) : Z :=
  match x with
  | None => dflt
  | Some v => if v <? 0 then (if v + n <? lower then lower else v + n)
              else (if upper <? v then upper else v)
  end.

Definition adjust (a b s : option Z) (n : Z) : Z * Z * Z :=
  let step := step_of s in
  let lower := if step <? 0 then -1 else 0 in
  let upper := if step <? 0 then n - 1 else n in
  (clamp a (if step <? 0 then upper else lower) lower upper n,
   clamp b (if step <? 0 then lower else upper) lower upper n,
   step).

(* range(start, stop, step) as a loop with fuel; |stop - start| iterations always suffice *)
Fixpoint range_from (fuel : nat) (x stop step : Z) : list Z :=
  match fuel with
  | O => []
  | S f => if (if 0 <? step then x <? stop else stop <? x)
           then x :: range_from f (x + step) stop step else []
  end.

Definition py_range (r : Z * Z * Z) : list Z :=
  let '(start, stop, step) := r in
  range_from (Z.to_nat (Z.abs (stop - start))) start stop step.

(* ---- indexing --------------------------------------------------------------- *)

(* the position an int index denotes in a sequence of length n, if any *)
Definition norm_index (n : nat) (i : Z) : option nat :=
  let j := if i <? 0 then i + Z.of_nat n else i in
  if (j <? 0) || (Z.of_nat n <=? j) then None else Some (Z.to_nat j).

Definition py_index {A} (l : list A) (i : Z) : option A :=
  match norm_index (length l) i with Some p => nth_error l p | None => None end.

(* [l[i] for i in idx] for non-negative in-range positions *)
Fixpoint gather {A} (l : list A) (idx : list nat) : option (list A) :=
  match idx with
  | [] => Some []
  | i :: t => match nth_error l i, gather l t with
              | Some x, Some r => Some (x :: r)
              | _, _ => None
              end
  end.

Fixpoint norm_all (n : nat) (idx : list Z) : option (list nat) :=
  match idx with
  | [] => Some []
  | i :: t => match norm_index n i, norm_all n t with
              | Some p, Some r => Some (p :: r)
              | _, _ => None
              end
  end.

(* positions where a mask is True, in increasing order *)
Definition true_positions (m : list bool) : list nat :=
  filter (fun i => nth i m false) (seq 0 (length m)).

(* l[a:b:s] *)
Definition slice_positions (a b s : option Z) (n : nat) : list nat :=
  map Z.to_nat (py_range (adjust a b s (Z.of_nat n))).

Definition py_slice {A} (l : list A) (a b s : option Z) : option (list A) :=
  gather l (slice_positions a b s (length l)).

(* ---- keys -------------------------------------------------------------------- *)

(* an element of a list key, as the type tests of __getitem__ see it *)
Inductive lelt :=
| LB (b : bool)      (* type(e) is bool *)
| LI (i : Z)         (* type(e) is int  *)
| LJ (i : Z)         (* an instance of a proper subclass of int other than bool (IntEnum, ...) *)
| LX.                (* any other class (None, str, float, ...) *)

Inductive key :=
| IxInt (i : Z)                    (* isinstance(key, int): ints and bools *)
| IxTup1 (k : key)                 (* a 1-tuple (k,) *)
| IxTupN (n : nat)                 (* a tuple of length n <> 1 *)
| IxMaskV (m : list bool)          (* Vector whose schema is bool, non-nullable *)
| IxList (l : list lelt)           (* list *)
| IxSlice (a b s : option Z)       (* slice with int-or-None fields *)
| IxIdxV (l : list Z)              (* Vector whose schema is int, non-nullable *)
| IxUntypedV                      (* a Vector without dtype (Vector([])): key.schema() is None *)
| IxBad.                           (* anything else: str, float, None, nullable vectors, ... *)

Definition is_LB (e : lelt) : bool := match e with LB _ => true | _ => false end.
Definition is_LI (e : lelt) : bool := match e with LI _ => true | _ => false end.
Definition lb_val (e : lelt) : bool := match e with LB b => b | _ => false end.
Definition li_val (e : lelt) : Z := match e with LI i => i | _ => 0 end.

(* {type(e) for e in key} == {bool}  /  == {int} *)
Definition all_bool (l : list lelt) : bool := negb (Nat.eqb (length l) 0) && forallb is_LB l.
Definition all_int (l : list lelt) : bool := negb (Nat.eqb (length l) 0) && forallb is_LI l.

(* What a key selects from a sequence of length n:
   one position (the result is the element), a list of positions (the result is a
   vector), or an error.  Only the error's existence is part of the property; the class
   recorded here is the one the code raises today. *)
Inductive selection := SOne (p : nat) | SMany (ps : list nat).

Definition sel_mask (m : list bool) (n : nat) : res selection :=
  if Nat.eqb n (length m) then Ok (SMany (true_positions m)) else Err EOther.

Definition sel_idx (l : list Z) (n : nat) : res selection :=
  match norm_all n l with Some ps => Ok (SMany ps) | None => Err EOther end.

Fixpoint sel (k : key) (n : nat) : res selection :=
  match k with
  | IxInt i => match norm_index n i with Some p => Ok (SOne p) | None => Err EOther end
  | IxTup1 k' => if Nat.eqb n 0 then Err EKey else sel k' n
  | IxTupN t =>                     (* one index per dimension; () has no last index *)
      if Nat.eqb t (if Nat.eqb n 0 then 0 else 1)%nat then Err EOther else Err EKey
  | IxMaskV m => sel_mask m n
  | IxList l => if all_bool l then sel_mask (map lb_val l) n
               else if all_int l then sel_idx (map li_val l) n
               else Err EType
  | IxSlice a b s => if step_of s =? 0 then Err EOther else Ok (SMany (slice_positions a b s n))
  | IxIdxV l => sel_idx l n
  | IxUntypedV => Err EOther
  | IxBad => Err EType
  end.

(* ---- list assignment (C08) ---------------------------------------------------- *)

(* l[p] = x *)
Fixpoint set_nth {A} (l : list A) (p : nat) (x : A) : list A :=
  match l, p with
  | [], _ => []
  | _ :: t, O => x :: t
  | h :: t, S p' => h :: set_nth t p' x
  end.

(* for p, x in updates: l[p] = x   (sequential: a later write to the same position wins) *)
Definition py_assign {A} (l : list A) (ups : list (nat * A)) : list A :=
  fold_left (fun acc u => set_nth acc (fst u) (snd u)) ups l.
