(* Spec/Csv.v — what property C19 says about read_csv, in terms of the records that
   csv.reader delivers: which record is the header, which records are data, what the
   column names are.  (The cell rule itself is stated in Props/C19.v.) *)
From Coq Require Import List Bool Arith.
From Serif Require Import Base.PyVal Model.Csv.
Import ListNotations.

Section Spec.
Variable T : Type.

(* one column per header cell, named verbatim; header-less files: col_0, col_1, ...
   as many as the first record has cells *)
Definition header_of (has_header : bool) (recs : list (list T)) : list (colname T) :=
  match recs with
  | [] => []
  | first :: _ => if has_header then map NText first
                  else map NGen (seq 0 (List.length first))
  end.

(* one row per data record *)
Definition data_records (has_header : bool) (recs : list (list T)) : list (list T) :=
  if has_header then tl recs else recs.

End Spec.
Arguments header_of {T} _ _.
Arguments data_records {T} _ _.
