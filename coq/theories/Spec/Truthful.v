(* Spec/Truthful.v — the declarative side of C03: "a vector's reported dtype is truthful".

   A non-None element BELONGS to a reported kind when its class is that kind, or lies below
   it on one of the two documented widening ladders
        bool -> int -> float -> complex          date -> datetime
   or the reported kind is object.  (Python's isinstance would also say "a datetime is a
   date" and "a bool is an int"; the property counts the WIDENINGS as belonging, so a bool
   belongs to <int> but a datetime does NOT belong to <date>.)
   None belongs exactly when the schema says nullable.

   A typed vector is TRUTHFUL when every element belongs to the reported dtype; a vector
   without a dtype (schema() is None — the library's "empty, not typed yet" state) is
   truthful only if it is empty. *)
From Coq Require Import List Bool Arith ZArith.
From Serif Require Import Base.PyVal Model.Index Model.SetItem.
Import ListNotations.

Definition kind_belongs (k dk : kind) : bool :=
  match dk with
  | KObject => true
  | KInt => match k with KBool | KInt => true | _ => false end
  | KFloat => match k with KBool | KInt | KFloat => true | _ => false end
  | KComplex => match k with KBool | KInt | KFloat | KComplex => true | _ => false end
  | KDateTime => match k with KDate | KDateTime => true | _ => false end
  | _ => kind_eqb k dk                      (* bool, str, bytes, date, list, dict, tuple, other classes *)
  end.

(* [v] is what the typing code can see of one element: None, or (isinstance-class, exact?) *)
Definition belongs (v : pyv) (d : dtype) : bool :=
  match v with
  | None => nullable d
  | Some vi => kind_belongs (base vi) (dkind d)
  end.

(* the schema [dt] does not lie about the elements [l] *)
Definition truthful_at (dt : option dtype) (l : list pyv) : Prop :=
  match dt with
  | Some d => Forall (fun x => belongs x d = true) l
  | None => l = []
  end.

(* a typed vector: Model.Index.vec over Model.SetItem.elt = (storage, dtype, name) *)
Definition tvec := vec elt.
Definition infos_of (l : list elt) : list pyv := map el_info l.

Definition truthful (v : tvec) : Prop := truthful_at (vdt v) (infos_of (vals v)).

(* the same as a boolean, for the correspondence checker and for [vm_compute] witnesses *)
Definition truthfulb (v : tvec) : bool :=
  match vdt v with
  | Some d => forallb (fun x => belongs x d) (infos_of (vals v))
  | None => match vals v with [] => true | _ => false end
  end.
