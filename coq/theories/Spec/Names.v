(* Spec/Names.v — what property C18 SAYS, as a function from programs to names.
   "Binary arithmetic and comparisons between vectors give unnamed results, while copy, slicing,
   masking, sorting, in-place writes and promotion keep a vector's name; table-with-scalar
   arithmetic keeps every column name and table-with-table arithmetic keeps a left name only when
   the right name is absent or equal.  Tables built from vectors, stacked with >>, filtered,
   sliced, sorted or joined keep each source column's stored name in order, and aggregate and
   window name their outputs after the key names and <sanitised column>_<function>, made unique
   by numeric suffixes." *)
From Coq Require Import List Bool Arith Ascii String.
From Serif Require Import Model.Naming Model.Names.
Import ListNotations.

(* table (op) table: the left name survives iff the right name is absent or equal *)
Definition keep_left_iff (l r : vname) : vname :=
  match r with
  | None => l
  | Some _ => if vname_eqb r l then l else None
  end.

(* "made unique by numeric suffixes": the outputs are pairwise distinct, each is its base or
   its base followed by a decimal >= 2, a base not seen before is kept as it is, and the
   suffix is the least one that is free *)
Definition suffixed (base out : str) : Prop := out = base \/ exists k, 2 <= k /\ out = base ++ dec k.
Inductive uniq_from : list str -> list str -> list str -> Prop :=
| UNil used : uniq_from used [] []
| UKeep used b bs outs : ~ In b used -> uniq_from (b :: used) bs outs -> uniq_from used (b :: bs) (b :: outs)
| USuffix used b bs outs k :
    In b used -> 2 <= k -> ~ In (b ++ dec k) used ->
    (forall j, 2 <= j < k -> In (b ++ dec j) used) ->
    uniq_from ((b ++ dec k) :: used) bs outs -> uniq_from used (b :: bs) ((b ++ dec k) :: outs).

Section WithReserved.
Variable reserved : list str.
(* The property demands that scalar (op) table keeps the names like table (op) scalar
   ([routed] = true).  On the pinned tree the reflected operators drop them ([routed] = false). *)
Variable routed : bool.

Fixpoint rule_v (e : vexpr) : vname :=
  match e with
  | VLit n => n
  | VBin _ _ | VBinS _ | VCmp _ _ | VCmpS _ => None        (* math drops the name *)
  | VKeep _ a => rule_v a                                   (* structure keeps it *)
  | VCopyAs n _ => n
  | VDrop _ => None
  | VCol i t => nth i (rule_t t) None
  end
with rule_t (e : texpr) : tnames :=
  match e with
  | TLit ns => ns
  | TOfVecs vs => map rule_v vs
  | TAppendT t u => rule_t t ++ rule_t u
  | TAppendV t v => rule_t t ++ [rule_v v]
  | TAppendD t keys => rule_t t ++ map Some keys
  | TKeep _ t => rule_t t
  | TColSlice a b t => firstn (b - a) (skipn a (rule_t t))
  | TJoin j no_match t u =>
      match j with
      | JInner => if no_match then [] else rule_t t ++ rule_t u   (* 0x0 result: observation kept in DESIGN.md *)
      | _ => rule_t t ++ rule_t u
      end
  | TScalar t => rule_t t
  | TRScalar t => if routed then rule_t t else map (fun _ => None) (rule_t t)
  | TTable t u => map (fun p => keep_left_iff (fst p) (snd p)) (combine (rule_t t) (rule_t u))
  | TCmpS t => map (fun _ => None) (rule_t t)
  | TAgg _ keys aggs apply t =>
      let ns := rule_t t in
      map Some (uniquify_all [] (agg_bases reserved (pick ns keys) (map (pick ns) aggs) apply))
  end.
End WithReserved.
