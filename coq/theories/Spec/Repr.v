(* Spec/Repr.v — the declarative side of C20: which rows and columns the property says a
   repr must show, when a column's data is within the formatter's domain, and what the
   row budget means. *)
From Coq Require Import List Bool Arith ZArith.
From Serif Require Import Base.PyVal Model.Repr.
Import ListNotations.

(* "data longer than the preview limit shows exactly its first and last rows around an
   ellipsis while shorter data shows every row": n rows, h rows allowed at each end.
   [None] is the ellipsis line. *)
Definition expected_rows (h n : nat) : list (option nat) :=
  if h * 2 <? n then map Some (seq 0 h) ++ [None] ++ map Some (seq (n - h) h)
  else map Some (seq 0 n).

(* the column budget: more than 2 * MAX_HEAD_COLS columns show the first and last MAX_HEAD_COLS *)
Definition cols_truncated (ncols : nat) : bool := MAX_HEAD_COLS * 2 <? ncols.
Definition expected_cols (ncols : nat) : list nat :=
  if cols_truncated ncols then seq 0 MAX_HEAD_COLS ++ seq (ncols - MAX_HEAD_COLS) MAX_HEAD_COLS
  else seq 0 ncols.

(* which row a body line shows *)
Definition row_of (it : item) : option nat :=
  match it with IEll => None | IRow i _ => Some i end.

(* the row budget in force for a table: its own override, else the global setting *)
Definition table_half (glob : Z) (t : tbl) : nat :=
  match trepr_rows t with Some r => half r | None => half glob end.

(* C03's invariant as far as the formatter depends on it: in a float column every non-None
   element is a real number, in a date column every non-None element is a date *)
Definition fits (dt : option dtype) (s : vshape) : Prop :=
  match dt with
  | Some d =>
      match dkind d with
      | KFloat => match s with VFloat _ | VIntLike _ => True | _ => False end
      | KDate => match s with VDateLike => True | _ => False end
      | _ => True
      end
  | None => True
  end.
Definition well_typed_vec (v : vec) : Prop :=
  forall s, In (Some s) (vdata v) -> fits (vdtype v) s.

(* a column has a name to show: not None and not text-empty *)
Definition has_shown_name (v : vec) : Prop :=
  exists o, vname v = Some o /\ n_text_empty o = false.

(* C02's invariant: all columns have the table's row count *)
Definition rectangular (t : tbl) : Prop :=
  forall c, In c (tcols t) -> List.length (vdata c) = t_nrows t.

Definition col (t : tbl) (j : nat) : vec := nth j (tcols t) (mkVec None None []).

(* rows of a body column; the "..." column shows an ellipsis on every line *)
Definition body_rows (c : colbody) : list (option nat) :=
  match c with CItems l => map row_of l | CDots n => repeat None n end.

(* ---- what the header and footer of a table must state ---- *)

(* the dtype token of every shown column, with [None] for the cell that stands for the hidden columns *)
Definition shown_types (t : tbl) : list (option dtype) :=
  let l := map (fun j => Some (tok_of (vdtype (col t j)))) (expected_cols (t_ncols t)) in
  if cols_truncated (t_ncols t) then insert_at MAX_HEAD_COLS None l else l.

(* a footer that lists dtypes lists every column's, or the first and last MAX_HEAD_COLS around a gap *)
Definition listed_types (t : tbl) : list (option dtype) :=
  let all := map (fun c => tok_of (vdtype c)) (tcols t) in
  if cols_truncated (t_ncols t)
  then map Some (firstn MAX_HEAD_COLS all) ++ [None]
       ++ map Some (skipn (List.length all - MAX_HEAD_COLS) all)
  else map Some all.

(* the row of names: the stored name of every shown column, "..." for the hidden ones *)
Definition shown_names (t : tbl) : list hitem :=
  let l := map HName (expected_cols (t_ncols t)) in
  if cols_truncated (t_ncols t) then insert_at MAX_HEAD_COLS HEll l else l.
