(* Props/C13.v — property C13: window keeps every row in place and agrees with aggregate.
   Statements only; every proof is [exact <lemma>].  Notation as in Props/C12.v;
   [join_back xeq fk col k] (Spec/Group.v) looks key k up in aggregate's result: the value
   in column [col] of the row whose key (one of the first-appearance keys [fk]) equals k. *)
From Coq Require Import List Bool Arith ZArith.
From Serif Require Import Model.Group Spec.Group Proofs.Group.
Import ListNotations.

(* Same number of rows: every result column has the table's length. *)
Theorem C13_window_length :
  forall (X T : Type) (xeq xleb : X -> X -> bool) (xz : X -> Z) (fmean fstdev : list X -> T)
         (F : nat -> list (cell X) -> rcell X T),
    (forall a, xeq a a = true) -> (forall a b, xeq a b = xeq b a) ->
    (forall a b c, xeq a b = true -> xeq b c = true -> xeq a c = true) ->
    forall t over a cols lg,
      window xeq xleb xz fmean fstdev F t over a = (Ok cols, lg) ->
      Forall (fun c => List.length c = nrows t) cols.
Proof. exact window_length. Qed.
Print Assumptions C13_window_length.

(* The partition key columns are reproduced unchanged (same cells, same order), first. *)
Theorem C13_window_keys_unchanged :
  forall (X T : Type) (xeq xleb : X -> X -> bool) (xz : X -> Z) (fmean fstdev : list X -> T)
         (F : nat -> list (cell X) -> rcell X T),
    (forall a, xeq a a = true) -> (forall a b, xeq a b = xeq b a) ->
    (forall a b c, xeq a b = true -> xeq b c = true -> xeq a c = true) ->
    forall t n ov bs aps cols lg,
      window_core xeq xleb xz fmean fstdev F t n ov bs aps = (Ok cols, lg) ->
      firstn (List.length ov) cols = map (map rc) ov.
Proof. exact window_keys_unchanged. Qed.
Print Assumptions C13_window_keys_unchanged.

(* window = aggregate joined back to the rows on the partition key — for ALL arguments:
   it fails exactly when aggregate fails, makes the same calls to the custom functions, and
   otherwise row i of every aggregated column holds aggregate's value for the key of row i. *)
Theorem C13_window_is_aggregate_expanded :
  forall (X T : Type) (xeq xleb : X -> X -> bool) (xz : X -> Z) (fmean fstdev : list X -> T)
         (F : nat -> list (cell X) -> rcell X T),
    (forall a, xeq a a = true) -> (forall a b, xeq a b = xeq b a) ->
    (forall a b c, xeq a b = true -> xeq b c = true -> xeq a c = true) ->
    forall t over a,
      window xeq xleb xz fmean fstdev F t over a
      = match resolve_args t over a with
        | Err e => (Err e, [])
        | Ok (ov, bs) =>
            let ks := row_keys ov (nrows t) in
            match aggregate xeq xleb xz fmean fstdev F t over a with
            | (Err e, lg) => (Err e, lg)
            | (Ok acols, lg) =>
                (Ok (map (map rc) ov
                     ++ map (fun col => map (join_back xeq (first_keys (keq xeq) ks) col) ks)
                            (skipn (List.length ov) acols)), lg)
            end
        end.
Proof. exact window_is_aggregate_expanded. Qed.
Print Assumptions C13_window_is_aggregate_expanded.

(* Spelled out: every row receives the aggregate function applied to the raw values of the
   rows carrying a key equal to its own (its group), in ascending row order. *)
Theorem C13_window_row_gets_its_group_value :
  forall (X T : Type) (xeq xleb : X -> X -> bool) (xz : X -> Z) (fmean fstdev : list X -> T)
         (F : nat -> list (cell X) -> rcell X T),
    (forall a, xeq a a = true) -> (forall a b, xeq a b = xeq b a) ->
    (forall a b c, xeq a b = true -> xeq b c = true -> xeq a c = true) ->
    forall t n ov bs aps raps,
      Forall (fun b => List.length (snd b) = n) bs -> apply_resolved t n aps raps ->
      let ks := row_keys ov n in
      let fk := first_keys (keq xeq) ks in
      window_core xeq xleb xz fmean fstdev F t n ov bs aps
      = (Ok (map (map rc) ov
             ++ map (fun b => map (fun k => agg_fn xleb xz fmean fstdev (fst b)
                                                   (group_vals xeq ks (snd b) k)) ks) bs
             ++ map (fun a => map (fun k => F (snd a) (group_vals xeq ks (fst a) k)) ks) raps),
         spec_calls xeq ks fk raps).
Proof. exact window_core_refines. Qed.
Print Assumptions C13_window_row_gets_its_group_value.

(* Rows of one group receive identical values in every aggregated column. *)
Theorem C13_window_same_group_same_value :
  forall (X T : Type) (xeq xleb : X -> X -> bool) (xz : X -> Z) (fmean fstdev : list X -> T)
         (F : nat -> list (cell X) -> rcell X T),
    (forall a, xeq a a = true) -> (forall a b, xeq a b = xeq b a) ->
    (forall a b c, xeq a b = true -> xeq b c = true -> xeq a c = true) ->
    forall t n ov bs aps cols lg i j,
      window_core xeq xleb xz fmean fstdev F t n ov bs aps = (Ok cols, lg) ->
      i < n -> j < n -> keq xeq (row_key ov i) (row_key ov j) = true ->
      forall c, In c (skipn (List.length ov) cols) -> nth i c RNone = nth j c RNone.
Proof. exact window_same_group_same_value. Qed.
Print Assumptions C13_window_same_group_same_value.

(* Non-vacuity: interleaved groups with a None key and unequal group values. *)
Example C13_example :
  let k := [Some 1; None; Some 2; Some 1; None]%Z in
  let d := [Some 5; Some 4; None; Some 3; None]%Z in
  let F := fun (fid : nat) (vals : list (cell Z)) => @RRaw Z (list Z) vals in
  window Z.eqb Z.leb (fun z => z) (fun l => l) (fun l => l) F [k; d] [KCol 0]
         (mkArgs (Some [KCol 1]) None (Some [KCol 1]) None None (Some [KCol 1]) (Some [(KVec d, 0)]))
  = (Ok [[RElem 1; RNone; RElem 2; RElem 1; RNone]%Z;
         [RInt 8; RInt 4; RInt 0; RInt 8; RInt 4]%Z;
         [RElem 3; RElem 4; RNone; RElem 3; RElem 4]%Z;
         [RInt 2; RInt 1; RInt 0; RInt 2; RInt 1]%Z;
         [RRaw [Some 5; Some 3]%Z; RRaw [Some 4; None]%Z; RRaw [None]; RRaw [Some 5; Some 3]%Z;
          RRaw [Some 4; None]%Z]],
     [(0, [Some 5; Some 3]%Z); (0, [Some 4; None]%Z); (0, [None])]).
Proof. vm_compute. reflexivity. Qed.
