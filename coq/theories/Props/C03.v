(* Props/C03.v — property C03: a vector's reported dtype is always truthful.
   Statements only; every proof is [exact <lemma>].

   Reading guide.  Spec/Truthful.v: [belongs x d] — the element x (None, or a value seen through
   its isinstance-class) belongs to the reported dtype d: same kind, or below it on bool < int <
   float < complex / date < datetime, or d is object; None iff d is nullable.  [truthful v] — every
   element of v belongs to v's dtype (an untyped vector, schema() None, must be empty).
   Model/Typed.v: the operations, following the code of the current tree; a typed vector is
   (vals, vdt, vname).  Where Python computes element VALUES (other + x, -x, s.upper(), sorted order)
   the results are a parameter ([res], [idx], [bs]): the theorems hold for all of them.
   [conv] = Python's int()/float()/complex()/datetime.combine, assumed ([conv_ok]) to return an
   instance of exactly the class asked for.

   The five call sites that used to label values with a dtype they did not honour (findings
   NEW-C03-1..5: to_object, Vector.new, vector >> ragged table, copy(new_values), cast on a vector of
   vectors) are repaired in /repo (fix commits F40-F44; /verif/regress/F40..F44.patch re-introduce
   them); the model follows the repaired code, every preservation theorem is unconditional, and the
   invariant over programs holds at full strength for EVERY program of the alphabet. *)
From Coq Require Import List Bool Arith ZArith.
From Serif Require Import Base.PyVal Base.StErr Spec.PySlice Spec.DtypeLattice Model.Dtype Model.Index
  Model.SetItem Spec.Truthful Model.Typed Proofs.Truthful.
Import ListNotations.

(* ---- what "belongs" is ------------------------------------------------------------------------ *)

(* belongs = the order of C04's kind lattice *)
Theorem C03_belongs_is_lattice_order : forall vi d, belongs (Some vi) d = true <-> kle (base vi) (dkind d).
Proof. exact belongs_kle. Qed.
Print Assumptions C03_belongs_is_lattice_order.

(* an element belongs to a dtype exactly when promoting the dtype by it changes nothing *)
Theorem C03_belongs_iff_promotion_fixpoint : forall x d, belongs x d = true <-> promote_with d x = d.
Proof. exact belongs_promote_fix. Qed.
Print Assumptions C03_belongs_iff_promotion_fixpoint.

(* belongs vs typing.validate_scalar: validate_scalar accepts only what belongs; it is STRICTER (it
   refuses instances of subclasses: class F(float) in a <float>); on instances of the classes
   themselves the two coincide *)
Theorem C03_belongs_iff_validate : forall x d,
  (validate_scalar x d = true -> belongs x d = true) /\
  ((forall vi, x = Some vi -> exact vi = true) -> (belongs x d = true <-> validate_scalar x d = true)).
Proof. exact belongs_iff_validate. Qed.
Print Assumptions C03_belongs_iff_validate.

Theorem C03_validate_is_stricter : exists x d, belongs x d = true /\ validate_scalar x d = false.
Proof. exact validate_stricter. Qed.
Print Assumptions C03_validate_is_stricter.

(* ---- vectors built by inference ---------------------------------------------------------------- *)

(* Vector(values): for ALL value lists *)
Theorem C03_infer_truthful : forall l nm, truthful (mk_vector l None nm).
Proof. exact infer_truthful. Qed.
Print Assumptions C03_infer_truthful.

(* Vector(vals, dtype=infer_dtype(vals)): __radd__ and every binary arithmetic operator re-infer *)
Theorem C03_radd_truthful : forall res nm, truthful (mk_inferred res nm).
Proof. exact mk_inferred_truthful. Qed.
Print Assumptions C03_radd_truthful.

(* the columns of join, aggregate, window, sort and CSV results *)
Theorem C03_result_columns_truthful : forall cols : list (list elt * option nat),
  Forall truthful (map (fun c => mk_vector (fst c) None (snd c)) cols).
Proof. exact result_columns_truthful. Qed.
Print Assumptions C03_result_columns_truthful.

(* ---- one preservation theorem per operation that does not (only) re-infer ------------------------- *)

(* v[k] = x, any key form, any value, success or failure: promotion converts the old elements and
   renames the dtype together; None makes the dtype nullable *)
Theorem C03_setitem_truthful : forall conv, conv_ok conv -> forall k x v v' r,
  truthful v -> t_setitem conv k x v = (v', r) -> truthful v'.
Proof. exact setitem_truthful. Qed.
Print Assumptions C03_setitem_truthful.

Theorem C03_promote_truthful : forall conv, conv_ok conv -> forall k v v' r,
  truthful v -> t_promote conv k v = (v', r) -> truthful v'.
Proof. exact promote_truthful. Qed.
Print Assumptions C03_promote_truthful.

(* -v, +v, abs(v): typed by the results (the dtype is kept only when there are none) *)
Theorem C03_unary_truthful : forall v res, truthful v -> truthful (unary v res).
Proof. exact unary_truthful. Qed.
Print Assumptions C03_unary_truthful.

(* ~v: logical not on a bool vector keeps <bool> / <bool?> over bools *)
Theorem C03_invert_truthful : forall v res, truthful v -> truthful (invert v res).
Proof. exact invert_truthful. Qed.
Print Assumptions C03_invert_truthful.

(* v << anything (vector, table, iterable, scalar): the left dtype is widened by every appended value *)
Theorem C03_lshift_truthful : forall v o r, truthful v -> lshift v o = Ok r -> truthful r.
Proof. exact lshift_truthful. Qed.
Print Assumptions C03_lshift_truthful.

(* v >> other (vector, table, iterable): the table's columns, or for operands of unequal length the
   vector of vector objects, typed by inference *)
Theorem C03_rshift_truthful : forall v o r,
  truthful v -> operand_truthful o -> rshift v o = Ok r -> rresult_truthful r.
Proof. exact rshift_truthful. Qed.
Print Assumptions C03_rshift_truthful.

(* cast: (target, some-result-is-None) is honoured by the date / datetime interceptors and by target(x);
   a callable target, and a vector of vectors (cast recursively), is typed by inference.  No hypothesis
   on the operand at all. *)
Theorem C03_cast_truthful : forall t res v, truthful (cast t res v).
Proof. exact cast_truthful. Qed.
Print Assumptions C03_cast_truthful.

Theorem C03_fillna_truthful : forall conv, conv_ok conv -> forall value v r,
  truthful v -> fillna conv value v = Ok r -> truthful r.
Proof. exact fillna_truthful. Qed.
Print Assumptions C03_fillna_truthful.

Theorem C03_dropna_truthful : forall v, truthful v -> truthful (dropna v).
Proof. exact dropna_truthful. Qed.
Print Assumptions C03_dropna_truthful.

(* isna, isinstance and every comparison operator build <bool> over bools *)
Theorem C03_isna_compare_truthful : (forall v, truthful (isna v)) /\ (forall bs, truthful (bools bs)).
Proof. exact (conj isna_truthful bools_truthful). Qed.
Print Assumptions C03_isna_compare_truthful.

(* binary arithmetic between incompatible vectors: raw tuples under <object> *)
Theorem C03_fallback_truthful : forall n, truthful (fallback n).
Proof. exact fallback_truthful. Qed.
Print Assumptions C03_fallback_truthful.

(* slices, masks, index lists, index vectors: keeping the dtype over a selection of own elements is sound
   (the selection of Model/Index.v; the code builds it with self.copy(<selected>), see C03_copy_new_truthful) *)
Theorem C03_getitem_truthful : forall v k r, truthful v -> getitem v k = Ok (GVec r) -> truthful r.
Proof. exact getitem_truthful. Qed.
Print Assumptions C03_getitem_truthful.

(* sort_by keeps the dtype over the same elements in another order (any order) *)
Theorem C03_sort_truthful : forall v idx r, truthful v -> take v idx = Ok r -> truthful r.
Proof. exact take_truthful. Qed.
Print Assumptions C03_sort_truthful.

(* copy() and .T keep the dtype over the same elements; copy(new_values) widens the declared dtype by
   every new value, so it is truthful for ANY new values (and any receiver) *)
Theorem C03_copy_truthful : forall v, truthful v -> truthful (copy v).
Proof. exact copy_truthful. Qed.
Print Assumptions C03_copy_truthful.

Theorem C03_copy_new_truthful : forall v l nm, truthful (copy_new v l nm).
Proof. exact copy_new_truthful. Qed.
Print Assumptions C03_copy_new_truthful.

(* to_object: <object>, nullable exactly when a None is carried over *)
Theorem C03_to_object_truthful : forall v, truthful (to_object v).
Proof. exact to_object_truthful. Qed.
Print Assumptions C03_to_object_truthful.

(* Vector.new(element, length, typesafe): typed by the element; typesafe drops nullability unless the
   element is None *)
Theorem C03_new_truthful : forall x n ts r, vector_new x n ts = Ok r -> truthful r.
Proof. exact new_truthful. Qed.
Print Assumptions C03_new_truthful.

(* tables: the columns kept by the constructors (copies), the row views, the rows of T *)
Theorem C03_table_columns_truthful : forall cs r, Forall truthful cs -> table_of cs = Ok r -> Forall truthful r.
Proof. exact table_of_truthful. Qed.
Print Assumptions C03_table_columns_truthful.

Theorem C03_row_truthful : forall cs r v, Forall truthful cs -> row_view cs r = Ok v -> truthful v.
Proof. exact row_truthful. Qed.
Print Assumptions C03_row_truthful.

Theorem C03_transpose_truthful : forall cs r, table_T cs = Ok r -> Forall truthful r.
Proof. exact table_T_truthful. Qed.
Print Assumptions C03_transpose_truthful.

(* ---- the equivalent formulation: write-back ------------------------------------------------------ *)

(* writing any element of a truthful vector back into its own position is accepted and changes
   neither the dtype nor the values ... *)
Theorem C03_writeback : forall conv v i x val,
  truthful v -> nth_error (vals v) i = Some x -> value_self val = x ->
  t_setitem conv (SKInt (Z.of_nat i)) val v = (v, Ok tt).
Proof. exact writeback. Qed.
Print Assumptions C03_writeback.

(* ... and a typed vector on which every write-back is accepted without moving the dtype is truthful *)
Theorem C03_writeback_converse : forall conv v d, vdt v = Some d ->
  (forall i x, nth_error (vals v) i = Some x ->
     exists v', t_setitem conv (SKInt (Z.of_nat i)) (VScalar x) v = (v', Ok tt) /\ vdt v' = Some d) ->
  truthful v.
Proof. exact writeback_converse. Qed.
Print Assumptions C03_writeback_converse.

(* ---- the invariant over programs ------------------------------------------------------------------ *)

(* one step of any program over the alphabet keeps a heap of truthful vectors truthful *)
Theorem C03_step_truthful : forall conv, conv_ok conv -> forall h o,
  Forall truthful h -> Forall truthful (fst (step conv h o)).
Proof. exact step_truthful. Qed.
Print Assumptions C03_step_truthful.

(* FULL STRENGTH: every vector reachable by any composition of the operations of the alphabet, applied to
   vectors built by inference, is truthful — by induction over the program; no bound on its length, on the
   lengths of the vectors or on the values, and no side condition on the program *)
Theorem C03_reachable_truthful : forall conv, conv_ok conv -> forall ops, Forall truthful (run conv ops).
Proof. exact reachable_truthful. Qed.
Print Assumptions C03_reachable_truthful.

(* ---- non-vacuity --------------------------------------------------------------------------------- *)

Definition ex_conv : kind -> elt -> option elt :=
  fun k x => match x with None => None | Some (_, p) => Some (Some (mkV k true, p)) end.
Lemma ex_conv_ok : conv_ok ex_conv.
Proof. intros k [[vi p]|] y H; cbn in H; [inversion H; eauto|discriminate]. Qed.

(* a program that promotes (int -> float by assignment), makes a vector nullable, concatenates across
   kinds, casts datetimes to dates, fills, drops, sorts, stacks columns and takes a row view is covered
   by the theorem; its final heap is non-trivial *)
Example C03_example_program :
  let i (n : Z) : elt := Some (mkV KInt true, n) in let f (n : Z) : elt := Some (mkV KFloat true, n) in
  let dt (n : Z) : elt := Some (mkV KDateTime true, n) in let s (n : Z) : elt := Some (mkV KStr true, n) in
  let prog := [ OpVector [i 1%Z; i 2%Z; i 3%Z] None;                      (* 0: <int>   *)
                OpSet 0 (SKInt 0%Z) (VScalar (f 9%Z));                  (*    promoted to <float> *)
                OpSet 0 (SKInt 1%Z) (VScalar None);                   (*    now <float?> *)
                OpVector [dt 1%Z; None] None;                         (* 1: <datetime?> *)
                OpCast 1 TDate [];                                  (* 2: <date?> *)
                OpLshift 0 (ASeq [s 5%Z]);                            (* 3: <object?> *)
                OpFillna 0 (i 7%Z);                                   (* 4: <float> *)
                OpDropna 0;                                         (* 5 *)
                OpTake 0 [2; 0; 1];                                 (* 6 *)
                OpTable [0; 4];                                     (* 7, 8 *)
                OpRow [7; 8] 1 ] in                                 (* 9 *)
  map (@vdt elt) (run ex_conv prog) =
    [ Some (mkD KFloat true); Some (mkD KDateTime true); Some (mkD KDate true); Some (mkD KObject true);
      Some (mkD KFloat false); Some (mkD KFloat false); Some (mkD KFloat true); Some (mkD KFloat true);
      Some (mkD KFloat false); Some (mkD KFloat true) ].
Proof. vm_compute. reflexivity. Qed.

(* write-back on a promoted, nullable vector: accepted, nothing changes *)
Example C03_example_writeback :
  let v := mkVec [Some (mkV KInt true, 1%Z); None; Some (mkV KFloat false, 2%Z)] (Some (mkD KFloat true)) None in
  truthfulb v = true /\ t_setitem ex_conv (SKInt 2%Z) (VScalar (Some (mkV KFloat false, 2%Z))) v = (v, Ok tt).
Proof. vm_compute. split; reflexivity. Qed.
