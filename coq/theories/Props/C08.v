(* Props/C08.v — property C08: in-place assignment matches list assignment, promotes or
   rejects, and is atomic.  Statements only; every proof is [exact <lemma>].

   Reading guide.  Model/SetItem.v models Vector.__setitem__ as micro-steps in a state-and-error
   monad ([M S A := S -> S * res A], Base/StErr.v): running [setitem conv k v] on a state [s]
   returns the state at the point where it stopped and [Ok] or [Err e].  A [vstate] is
   (s_vals, s_dt, s_name, s_memo, s_shared) = storage, dtype, name, fingerprint memo, "another live
   Vector shares the storage".  [conv] = Python's int()/float()/complex()/datetime.combine on one
   element (None = Python raises); the theorems hold for EVERY [conv].  [build_updates n k v] is the
   pending update list (position, value); [py_assign l ups] is "for p, x in ups: l[p] = x". *)
From Coq Require Import List Bool Arith ZArith.
From Serif Require Import Base.PyVal Base.StErr Spec.PySlice Spec.DtypeLattice Model.Dtype Model.Index
  Model.SetItem Proofs.SetItem.
Import ListNotations.

(* ATOMICITY, for every failure point: AliasError, bad key type, an index out of range at any
   position of an index list, mask / slice / index-list length mismatch, the value iterable raising
   after any number of items, len(value) raising, an incompatible value at any position, a failed
   conversion during promotion.  The state at the failure point IS the initial state — storage,
   dtype, name, fingerprint memo and registration. *)
Theorem C08_setitem_atomic : forall conv k v s s' e,
  setitem conv k v s = (s', Err e) -> s' = s.
Proof. exact setitem_atomic. Qed.
Print Assumptions C08_setitem_atomic.

(* A successful assignment leaves exactly the contents Python list assignment produces (on the
   existing elements, converted if the column was promoted); length and name never change; the
   fingerprint memo is dropped. *)
Theorem C08_setitem_ok_spec : forall conv k v s s' u, setitem conv k v s = (s', Ok u) ->
  exists ups base,
    build_updates (length (s_vals s)) k v = Ok ups /\
    (base = s_vals s \/ exists t, convert_all conv t (s_vals s) = Some base) /\
    s_vals s' = py_assign base ups /\
    length (s_vals s') = length (s_vals s) /\ s_name s' = s_name s /\
    s_memo s' = None /\ s_shared s' = false.
Proof. exact setitem_ok. Qed.
Print Assumptions C08_setitem_ok_spec.

(* what [py_assign] means: positions nobody writes keep their element, the last write wins *)
Theorem C08_py_assign_untouched : forall A ups (l : list A) q,
  ~ In q (map fst ups) -> nth_error (py_assign l ups) q = nth_error l q.
Proof. exact @py_assign_untouched. Qed.
Print Assumptions C08_py_assign_untouched.

Theorem C08_py_assign_last : forall A ups1 p x ups2 (l : list A),
  p < length l -> ~ In p (map fst ups2) ->
  nth_error (py_assign l (ups1 ++ (p, x) :: ups2)) p = Some x.
Proof. exact @py_assign_last. Qed.
Print Assumptions C08_py_assign_last.

(* every pending update addresses a valid position (all index validation precedes the write) *)
Theorem C08_updates_valid : forall n k v ups, build_updates n k v = Ok ups ->
  forall p, In p (map fst ups) -> p < n.
Proof. exact build_updates_valid. Qed.
Print Assumptions C08_updates_valid.

(* v[i] = x writes position i (negative i from the end) *)
Theorem C08_setitem_int : forall conv i x s s' u, setitem conv (SKInt i) (VScalar x) s = (s', Ok u) ->
  exists p, norm_index (length (s_vals s)) i = Some p /\
            nth_error (s_vals s') p = Some x /\ length (s_vals s') = length (s_vals s).
Proof. exact setitem_int_spec. Qed.
Print Assumptions C08_setitem_int.

(* existing elements are converted one by one when the column is promoted; None stays None *)
Theorem C08_conversion_elementwise : forall conv k l r, convert_all conv k l = Some r ->
  forall i x, nth_error l i = Some x ->
  exists y, nth_error r i = Some y /\ match x with None => y = None | Some _ => conv k x = Some y end.
Proof. exact convert_all_nth. Qed.
Print Assumptions C08_conversion_elementwise.

(* the dtype afterwards = the fold of promotion (C04's lattice) over ALL written values: a wider
   compatible kind promotes the column, None makes it nullable *)
Theorem C08_setitem_dtype : forall conv k v s s' u d ups, setitem conv k v s = (s', Ok u) ->
  s_dt s = Some d -> build_updates (length (s_vals s)) k v = Ok ups ->
  s_dt s' = Some (fold_left promote_with (infos (map snd ups)) d).
Proof. exact setitem_dtype. Qed.
Print Assumptions C08_setitem_dtype.

(* an incompatible value is rejected with SerifTypeError wherever it stands in the value, and
   nothing changes *)
Theorem C08_setitem_reject : forall conv k v s d ups x vi,
  s_shared s && negb (is_nil (s_vals s)) = false ->
  build_updates (length (s_vals s)) k v = Ok ups ->
  s_dt s = Some d -> dkind d <> KObject ->
  In x (map snd ups) -> el_info x = Some vi -> join (dkind d) (base vi) = KObject ->
  setitem conv k v s = (s, Err EType).
Proof. exact setitem_reject. Qed.
Print Assumptions C08_setitem_reject.

(* Table cell / row / column / region assignment: nothing is written, or it is exactly the
   per-column vector assignments on the resolved target columns ... *)
Theorem C08_table_setitem_delegates : forall conv cmap row_int k c v cols cols' r,
  tsetitem conv cmap row_int k c v cols = (cols', r) ->
  cols' = cols \/
  exists targets work,
    resolve_cols cmap (map s_name cols) c = Ok targets /\ map fst work = targets /\
    set_cols conv k work cols = (cols', r).
Proof. exact tsetitem_delegates. Qed.
Print Assumptions C08_table_setitem_delegates.

(* ... and those leave every column either exactly as it was or as ONE successful vector assignment
   made it (addressed cells only; columns not addressed untouched), also when a later column fails.
   (The table-level write is not atomic across columns: see DESIGN.md, C08 reading note.) *)
Theorem C08_table_columns_atomic : forall conv k work, NoDup (map fst work) -> forall cols cols' r,
  set_cols conv k work cols = (cols', r) ->
  length cols' = length cols /\
  (forall i, ~ In i (map fst work) -> nth_error cols' i = nth_error cols i) /\
  (forall i c c', nth_error cols i = Some c -> nth_error cols' i = Some c' ->
     c' = c \/ exists v u, In (i, v) work /\ setitem conv k v c = (c', Ok u)) /\
  (forall u, r = Ok u -> forall i v, In (i, v) work ->
     exists c c' u', nth_error cols i = Some c /\ setitem conv k v c = (c', Ok u') /\ nth_error cols' i = Some c').
Proof. exact set_cols_spec. Qed.
Print Assumptions C08_table_columns_atomic.

(* rename_columns: the simulation and the real pass agree, so a rename is all or nothing *)
Theorem C08_rename_sim_eq_apply : forall pairs names r,
  simulate names pairs = Ok r -> apply_all names pairs = r.
Proof. exact rename_sim_eq_apply. Qed.
Print Assumptions C08_rename_sim_eq_apply.

Theorem C08_rename_atomic : forall olds news names names' e,
  rename_columns olds news names = (names', Err e) -> names' = names.
Proof. exact rename_atomic. Qed.
Print Assumptions C08_rename_atomic.

Theorem C08_rename_ok : forall olds news names names' u,
  rename_columns olds news names = (names', Ok u) ->
  length olds = length news /\ simulate names (combine olds news) = Ok names'.
Proof. exact rename_ok. Qed.
Print Assumptions C08_rename_ok.

(* a name that matches no column at any position of the list makes the whole rename fail *)
Theorem C08_rename_missing_fails : forall names pairs1 old new pairs2 r,
  simulate names pairs1 = Ok r -> rename_first r old new = None ->
  simulate names (pairs1 ++ (old, new) :: pairs2) = Err EKey.
Proof. exact rename_missing_fails. Qed.
Print Assumptions C08_rename_missing_fails.

(* ---- non-vacuity ------------------------------------------------------------------------------ *)
Local Open Scope Z_scope.
Definition iv (i : Z) : elt := Some (mkV KInt true, i).
Definition fv (i : Z) : elt := Some (mkV KFloat true, i).
Definition sv (i : Z) : elt := Some (mkV KStr true, i).
(* float(x): int id i -> float id 100+i *)
Definition ex_conv (k : kind) (x : elt) : option elt :=
  match k, x with KFloat, Some (_, i) => Some (fv (100 + i)) | _, _ => None end.
Definition ex_s : vstate :=
  mkS [iv 1; iv 2; iv 3] (Some (mkD KInt false)) (Some 0%nat) (Some [iv 1; iv 2; iv 3]) false.
Definition lst (l : list elt) : value := VSeq None (Some (length l)) l false.

Example C08_example :
  (* v[0:2] = [2.5, None]: promotes to float, converts 3 -> 3.0, becomes nullable, memo dropped *)
  setitem ex_conv (SKSlice (Some 0) (Some 2) None) (lst [fv 50; None]) ex_s =
    (mkS [fv 50; None; fv 103] (Some (mkD KFloat true)) (Some 0%nat) None false, Ok tt) /\
  (* v[0:2] = [2.5, 'a']: the SECOND value is incompatible (F08 looked at the first only):
     rejected with SerifTypeError, and although 2.5 alone would have promoted, nothing changed *)
  setitem ex_conv (SKSlice (Some 0) (Some 2) None) (lst [fv 50; sv 60]) ex_s = (ex_s, Err EType) /\
  (* the value iterable raises after one item: nothing changed *)
  setitem ex_conv (SKSlice None None None) (VSeq None (Some 3%nat) [iv 7] true) ex_s = (ex_s, Err EOther) /\
  (* index list with a bad index in second position *)
  setitem ex_conv (SKList false [LI 0; LI 3]) (lst [iv 7; iv 8]) ex_s = (ex_s, Err EIndex) /\
  (* repeated index: the later write wins *)
  fst (setitem ex_conv (SKList false [LI 0; LI (-3)]) (lst [iv 7; iv 8]) ex_s) =
    mkS [iv 8; iv 2; iv 3] (Some (mkD KInt false)) (Some 0%nat) None false /\
  (* bool <- int promotes (F28 rejected it) *)
  snd (setitem (fun _ _ => Some (iv 9)) (SKInt 0) (VScalar (iv 5))
         (mkS [Some (mkV KBool true, 1)] (Some (mkD KBool false)) None None false)) = Ok tt /\
  (* rename a->b, b->c is a chain on ONE column; a missing name anywhere leaves all names alone *)
  rename_columns [Some 0; Some 1]%nat [Some 1; Some 2]%nat [Some 0; Some 5]%nat = ([Some 2; Some 5]%nat, Ok tt) /\
  rename_columns [Some 0; Some 7]%nat [Some 1; Some 2]%nat [Some 0; Some 5]%nat = ([Some 0; Some 5]%nat, Err EKey).
Proof. vm_compute. repeat split. Qed.
