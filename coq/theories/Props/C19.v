(* Props/C19.v — property C19: CSV ingestion is faithful to the file.
   Statements only; every proof is [exact <lemma>].

   [T] is the type of cell texts, [conv] the conversion of one cell text
   (blank -> None, else int(), else float(), else the stripped text; evaluated by Python).
   [recs] is what csv.reader delivers (delimiters, quotes and embedded newlines are the
   csv module's business).  [header_of]/[data_records] (Spec/Csv.v) say which record names
   the columns and which records are data, for both has_header settings. *)
From Coq Require Import List Bool Arith.
From Serif Require Import Base.PyVal Model.Dtype Spec.DtypeLattice Model.Csv Spec.Csv Proofs.Csv.
Import ListNotations.

(* read_csv never raises, whatever the records (jagged, empty, header only ...) *)
Theorem C19_read_never_fails : forall (T : Type) (conv : T -> cval) hh recs,
  exists t, read_records conv hh recs = Done t.
Proof. exact read_total. Qed.
Print Assumptions C19_read_never_fails.

(* one column per header cell *)
Theorem C19_ncols_is_header_length : forall (T : Type) (conv : T -> cval) hh recs t,
  read_records conv hh recs = Done t -> ncols t = List.length (header_of hh recs).
Proof. exact read_ncols. Qed.
Print Assumptions C19_ncols_is_header_length.

(* named verbatim, in order, repeats allowed; header-less: col_0, col_1, ... *)
Theorem C19_names_verbatim : forall (T : Type) (conv : T -> cval) hh recs t,
  read_records conv hh recs = Done t -> names t = header_of hh recs.
Proof. exact read_names. Qed.
Print Assumptions C19_names_verbatim.

(* one row per data record: every column has exactly that many cells ... *)
Theorem C19_every_column_has_one_cell_per_record : forall (T : Type) (conv : T -> cval) hh recs t,
  read_records conv hh recs = Done t ->
  forall c, In c t -> List.length (cdata c) = List.length (data_records hh recs).
Proof. exact read_rectangular. Qed.
Print Assumptions C19_every_column_has_one_cell_per_record.

(* ... and the table reports that many rows — provided there is at least one column.
   The full statement (no side condition) is false of the code: see C19_nrows_statement_refuted. *)
Definition C19_nrows_statement : Prop := forall (T : Type) (conv : T -> cval) hh recs t,
  read_records conv hh recs = Done t -> nrows t = List.length (data_records hh recs).

Theorem C19_nrows_is_record_count_partial : forall (T : Type) (conv : T -> cval) hh recs t,
  read_records conv hh recs = Done t -> header_of hh recs <> [] ->
  nrows t = List.length (data_records hh recs).
Proof. exact read_nrows. Qed.
Print Assumptions C19_nrows_is_record_count_partial.

(* a header record without cells (a file that starts with a blank line) gives a table
   without columns, which in serif cannot have rows: the data records are dropped *)
Theorem C19_nrows_statement_refuted : ~ C19_nrows_statement.
Proof.
  intros H.
  specialize (H nat (fun _ => None) true [[]; [1; 2]] [] eq_refl).
  discriminate H.
Qed.
Print Assumptions C19_nrows_statement_refuted.

(* each cell is the conversion of the record's cell, None where the record is too short *)
Theorem C19_cell_spec : forall (T : Type) (conv : T -> cval) hh recs t,
  read_records conv hh recs = Done t ->
  forall i j rec, nth_error (data_records hh recs) i = Some rec -> j < ncols t ->
  (forall x, nth_error rec j = Some x -> cell t i j = Some (conv x)) /\
  (List.length rec <= j -> cell t i j = Some None).
Proof. exact read_cell. Qed.
Print Assumptions C19_cell_spec.

(* column dtypes follow the ordinary inference rule (C04's closed form) for the cell
   values; with no data record the columns are untyped empty vectors *)
Theorem C19_csv_dtype_is_inferred : forall (T : Type) (conv : T -> cval) hh recs t,
  read_records conv hh recs = Done t ->
  forall c, In c t ->
  cdtype c = match data_records hh recs with
             | [] => None
             | _ :: _ => Some (infer_spec (map pyv_of (cdata c)))
             end.
Proof. exact read_dtype. Qed.
Print Assumptions C19_csv_dtype_is_inferred.

(* empty input and header-only input give an empty table, not an error *)
Theorem C19_empty_inputs_give_empty_table : forall (T : Type) (conv : T -> cval),
  (forall hh, read_records conv hh [] = Done []) /\
  (forall first, read_records conv true [first] =
                 Done (map (fun x => mkCol (NText x) [] None) first)).
Proof. intros T conv. exact (conj (read_empty T conv) (read_header_only T conv)). Qed.
Print Assumptions C19_empty_inputs_give_empty_table.

(* what the code does with records LONGER than the header: the excess cells are never
   looked at (the property text fixes the columns by the header, so nothing else is possible) *)
Theorem C19_excess_cells_are_ignored : forall (T : Type) (conv : T -> cval) hh first rest,
  read_records conv hh (first :: map (firstn (List.length first)) rest) =
  read_records conv hh (first :: rest).
Proof. exact read_ignores_excess. Qed.
Print Assumptions C19_excess_cells_are_ignored.

(* Non-vacuity: a jagged file with a repeated header name, a blank cell and a long record. *)
Example C19_example :
  let i n := Some (n, mkV KInt true) in
  let conv (t : nat) : cval := match t with 0 => None | S n => i n end in
  read_records conv true [[7; 7; 9]; [1; 0]; []; [2; 3; 4; 5]] =
  Done [ mkCol (NText 7) [i 0; None; i 1] (Some (mkD KInt true));
         mkCol (NText 7) [None; None; i 2] (Some (mkD KInt true));
         mkCol (NText 9) [None; None; i 3] (Some (mkD KInt true)) ] /\
  read_records conv false [[1; 2]; [3]] =
  Done [ mkCol (NGen 0) [i 0; i 2] (Some (mkD KInt false));
         mkCol (NGen 1) [i 1; None] (Some (mkD KInt true)) ].
Proof. vm_compute. split; reflexivity. Qed.
