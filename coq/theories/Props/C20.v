(* Props/C20.v — property C20 (work in progress: vector part) *)
From Coq Require Import List Bool Arith ZArith.
From Serif Require Import Base.PyVal Model.Repr Spec.Repr Proofs.Repr.
Import ListNotations.

Theorem C20_vector_footer_truthful : forall glob v r,
  repr_vector glob v = Ret r ->
  match r with
  | VREmpty => vdata v = []
  | VRLines _ _ count dt => count = List.length (vdata v) /\ dt = tok_of (vdtype v)
  end.
Proof. exact vector_footer. Qed.
Print Assumptions C20_vector_footer_truthful.
