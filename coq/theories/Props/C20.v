(* Props/C20.v — property C20: repr never fails and never misstates shape, dtype or data.
   Statements only; every proof is [exact <lemma>] .

   [repr_vector glob v] / [repr_table glob t] (Model/Repr.v) return [Exn] when display.py would
   raise, else the structured repr.  [glob] is the global row budget (set_repr_rows), [trepr_rows]
   the per-table override; [half] is the number of rows allowed at each end; the column budget is
   MAX_HEAD_COLS at each end.  Spec/Repr.v says what must be shown ([expected_rows],
   [expected_cols], [shown_types], [listed_types], [shown_names]) and states the two invariants the
   formatter relies on: C03 (elements belong to the column's dtype: [well_typed_vec]) and C02
   (tables are rectangular).

   Since display.py marks the row gap and the hidden columns with private objects compared by
   identity, the statements below range over EVERY value and EVERY name: elements that are
   themselves serif Vectors ([VVector _]), cells equal to the string '...' ([VStr true]) and
   columns named '...' ([NStr false true]) need no side condition any more. *)
From Coq Require Import List Bool Arith ZArith.
From Serif Require Import Base.PyVal Model.Repr Spec.Repr Proofs.Repr.
Import ListNotations.

(* ------------------------------------------------------------------ totality *)

(* The full statement: repr never raises on a well-typed vector / rectangular well-typed table,
   whatever the values and the budgets. *)
Definition C20_repr_total_statement : Prop :=
  (forall glob v, well_typed_vec v -> repr_vector glob v <> Exn) /\
  (forall glob t, rectangular t -> (forall c, In c (tcols t) -> well_typed_vec c) ->
                  repr_table glob t <> Exn).

(* It holds: for NaN, +-inf, ints beyond the float range inside float columns, None, nested
   Vectors, cells equal to '...', empty, any length, any width, any names (str or not, '...'
   included), any budget (negative, zero, odd). *)
Theorem C20_repr_total : C20_repr_total_statement.
Proof. exact (conj vector_total table_total). Qed.
Print Assumptions C20_repr_total.

(* ------------------------------------------------------------------ purity *)

(* repr, as an operation on (global budget, object), hands the state back unchanged *)
Theorem C20_repr_pure :
  (forall st, fst (repr_vector_st st) = st) /\ (forall st, fst (repr_table_st st) = st).
Proof. exact (conj repr_vector_pure repr_table_pure). Qed.
Print Assumptions C20_repr_pure.

(* ------------------------------------------------------------------ footer *)

(* vectors: the footer states the true element count and the true dtype token (kind name, and
   "?" iff nullable: the token IS the schema); "# empty" is only said of an empty vector *)
Theorem C20_footer_truthful_vector : forall glob v r,
  repr_vector glob v = Ret r ->
  match r with
  | VREmpty => vdata v = []
  | VRLines _ _ count dt => count = List.length (vdata v) /\ dt = tok_of (vdtype v)
  end.
Proof. exact vector_footer. Qed.
Print Assumptions C20_footer_truthful_vector.

(* tables: rows x cols are the true ones; a [dtype] header row, when present, carries the true
   dtype of every shown column; "<mixed>" only when that row is present; a single token only when
   every column has it; a list is the true list (first and last 5 around a gap when wide) *)
Theorem C20_footer_truthful_table : forall glob t r,
  repr_table glob t = Ret r ->
  match r with
  | TREmpty => tcols t = []
  | TRTensor => first_cell_has_shape (tcols t) = true
  | TRTable _ types _ frows fcols ftys =>
      frows = t_nrows t /\ fcols = t_ncols t /\
      (forall tr, types = Some tr -> tr = shown_types t) /\
      match ftys with
      | FMixed => types = Some (shown_types t)
      | FOne d => forall c, In c (tcols t) -> tok_of (vdtype c) = d
      | FList l => l = listed_types t
      end
  end.
Proof. exact table_footer. Qed.
Print Assumptions C20_footer_truthful_table.

(* ------------------------------------------------------------------ preview *)

(* The full statement: the body shows exactly the first and last [half] rows around one
   ellipsis when the data is longer than 2 * half, and every row otherwise — for every value
   (a cell equal to '...' is a row like any other) and every budget, incl. negative, 0, 1, odd. *)
Definition C20_preview_exact_statement : Prop :=
  forall glob v hdr body count dt,
    repr_vector glob v = Ret (VRLines hdr body count dt) ->
    map row_of body = expected_rows (half glob) (List.length (vdata v)).

Theorem C20_preview_exact_vector : C20_preview_exact_statement.
Proof. exact vector_preview. Qed.
Print Assumptions C20_preview_exact_vector.

(* tables: one body column per column of the column budget (the "..." column in the middle when
   wider than 2 * MAX_HEAD_COLS), each showing exactly the expected rows under the budget in
   force (the per-table override when set, else the global one) *)
Theorem C20_preview_exact_table : forall glob t disp types body fr fc ft,
  repr_table glob t = Ret (TRTable disp types body fr fc ft) ->
  rectangular t ->
  exists ls,
    body = (if cols_truncated (t_ncols t)
            then insert_at MAX_HEAD_COLS
                           (CDots (List.length (expected_rows (table_half glob t) (t_nrows t))))
                           (map CItems ls)
            else map CItems ls) /\
    List.length ls = List.length (expected_cols (t_ncols t)) /\
    Forall (fun l => map row_of l = expected_rows (table_half glob t) (t_nrows t)) ls.
Proof. exact table_preview. Qed.
Print Assumptions C20_preview_exact_table.

(* what the budget means: never more than `limit` rows are shown; data longer than the limit is
   cut; data shorter than the limit is shown whole; set_repr_rows(None) restores 12 = 6 + 6 *)
Theorem C20_limit_semantics : forall (L : Z) (n : nat),
  ((Z.max L 0 < Z.of_nat n)%Z -> half L * 2 < n) /\
  ((Z.of_nat n < L)%Z -> n <= half L * 2) /\
  (Z.of_nat (half L * 2) <= Z.max L 0)%Z.
Proof. exact limit_semantics. Qed.
Print Assumptions C20_limit_semantics.

(* ------------------------------------------------------------------ headers *)

(* a vector shows its name line iff it has a name other than "" *)
Theorem C20_headers_are_stored_names_vector : forall glob v hdr body count dt,
  repr_vector glob v = Ret (VRLines hdr body count dt) ->
  (hdr = true <-> exists o, vname v = Some o /\ n_is_empty_str o = false).
Proof. exact vector_header. Qed.
Print Assumptions C20_headers_are_stored_names_vector.

(* The full statement for tables: the row of names shows the stored name of every shown column
   (whatever its text: a column named '...' is a name like any other), and is left out only when
   no shown column has a name to show. *)
Definition C20_headers_statement : Prop :=
  forall glob t disp types body fr fc ft,
    repr_table glob t = Ret (TRTable disp types body fr fc ft) ->
    match disp with
    | Some row => row = shown_names t
    | None => forall j, In j (expected_cols (t_ncols t)) -> ~ has_shown_name (col t j)
    end.

Theorem C20_headers_are_stored_names_table : C20_headers_statement.
Proof. exact table_headers. Qed.
Print Assumptions C20_headers_are_stored_names_table.

(* ------------------------------------------------------------------ non-vacuity *)

Example C20_example_vector :
  let f x := Some (VFloat x) in
  let v := mkVec (Some (NNonStr false false)) (Some (mkD KFloat true))
                 [f (FFinite true); f FNan; None; f FPosInf; f (FFinite false); f FNegInf; Some (VIntLike false)] in
  well_typed_vec v /\
  repr_vector 5%Z v =
    Ret (VRLines true [IRow 0 FmtFix1; IRow 1 FmtG; IEll; IRow 5 FmtG; IRow 6 FmtFix1] 7 (mkD KFloat true)) /\
  repr_vector 1%Z v = Ret (VRLines true [IEll] 7 (mkD KFloat true)) /\
  repr_vector (-3)%Z v = Ret (VRLines true [IEll] 7 (mkD KFloat true)) /\
  half (set_repr_rows None) = 6.
Proof.
  cbv zeta. split.
  - intros s Hs. simpl in Hs. unfold fits. simpl.
    repeat (destruct Hs as [Hs|Hs]; [inversion Hs; exact I|]). destruct Hs.
  - vm_compute. repeat split.
Qed.

(* elements that are themselves serif Vectors, and a cell equal to the string '...' (quoted by
   repr() in an object column): rows like any other, around the one marker line.  (A vector named
   '...': the name line is shown.) *)
Example C20_example_nested_and_dots :
  let v := mkVec (Some (NStr false true)) (Some (mkD KObject true))
                 [Some (VVector true); Some (VStr true); Some (VIntLike false); None; Some (VStr true); Some (VVector false)] in
  well_typed_vec v /\
  repr_vector 4%Z v =
    Ret (VRLines true [IRow 0 FmtStr; IRow 1 FmtRepr; IEll; IRow 4 FmtRepr; IRow 5 FmtStr] 6 (mkD KObject true)) /\
  repr_vector 12%Z v =
    Ret (VRLines true [IRow 0 FmtStr; IRow 1 FmtRepr; IRow 2 FmtStr; IRow 3 FmtNone; IRow 4 FmtRepr; IRow 5 FmtStr]
                 6 (mkD KObject true)).
Proof.
  cbv zeta. split.
  - intros s _. exact I.
  - vm_compute. split; reflexivity.
Qed.

Example C20_example_table :
  let c k n := mkVec (Some (NStr false false)) (Some (mkD k n)) [Some (VIntLike false); None; Some (VIntLike false)] in
  let t := mkTbl (map (fun j => c (if Nat.eqb j 7 then KFloat else KInt) false) (seq 0 12)) (Some 2%Z) in
  rectangular t /\
  repr_table 12%Z t =
    Ret (TRTable (Some (map HName [0;1;2;3;4] ++ [HEll] ++ map HName [7;8;9;10;11]))
                 (Some (map (fun _ => Some (mkD KInt false)) [0;1;2;3;4] ++ [None; Some (mkD KFloat false)]
                        ++ map (fun _ => Some (mkD KInt false)) [8;9;10;11]))
                 (map (fun _ => CItems [IRow 0 FmtStr; IEll; IRow 2 FmtStr]) [0;1;2;3;4] ++ [CDots 3]
                  ++ [CItems [IRow 0 FmtFix1; IEll; IRow 2 FmtFix1]]
                  ++ map (fun _ => CItems [IRow 0 FmtStr; IEll; IRow 2 FmtStr]) [8;9;10;11])
                 3 12 FMixed).
Proof.
  cbv zeta. split.
  - intros c Hc. simpl in Hc. repeat (destruct Hc as [Hc|Hc]; [subst c; reflexivity|]). destruct Hc.
  - vm_compute. reflexivity.
Qed.

(* columns NAMED '...' holding cells equal to '...' (and a Vector that is not the first cell):
   every name has its header cell, every cell its row.  Twelve columns all named '...': eleven
   name cells would be wrong, the row shows ten names around the one hidden-columns cell. *)
Example C20_example_dots_table :
  let dots := Some (NStr false true) in
  let t := mkTbl [mkVec dots (Some (mkD KObject false)) [Some (VStr true); Some (VVector true); Some (VIntLike false)];
                  mkVec dots (Some (mkD KStr false)) [Some (VStr true); Some (VStr false); Some (VStr true)]] None in
  let w := mkTbl (map (fun _ => mkVec dots (Some (mkD KStr false)) [Some (VStr true)]) (seq 0 12)) None in
  rectangular t /\
  repr_table 12%Z t =
    Ret (TRTable (Some [HName 0; HName 1])
                 (Some [Some (mkD KObject false); Some (mkD KStr false)])
                 [CItems [IRow 0 FmtRepr; IRow 1 FmtStr; IRow 2 FmtStr]; CItems [IRow 0 FmtStr; IRow 1 FmtStr; IRow 2 FmtStr]]
                 3 2 FMixed) /\
  repr_table 12%Z w =
    Ret (TRTable (Some (map HName [0;1;2;3;4] ++ [HEll] ++ map HName [7;8;9;10;11]))
                 None
                 (map (fun _ => CItems [IRow 0 FmtStr]) [0;1;2;3;4] ++ [CDots 1]
                  ++ map (fun _ => CItems [IRow 0 FmtStr]) [7;8;9;10;11])
                 1 12 (FOne (mkD KStr false))).
Proof.
  cbv zeta. split; [|split].
  - intros c Hc. simpl in Hc. repeat (destruct Hc as [Hc|Hc]; [subst c; reflexivity|]). destruct Hc.
  - vm_compute. reflexivity.
  - vm_compute. reflexivity.
Qed.

(* a table whose FIRST cell is a non-empty Vector has a third dimension (footer only); an empty
   Vector there, or a Vector anywhere else, is a cell like any other *)
Example C20_example_first_cell :
  let t ne := mkTbl [mkVec None (Some (mkD KObject false)) [Some (VVector ne); Some (VIntLike false)]] None in
  repr_table 12%Z (t true) = Ret TRTensor /\
  repr_table 12%Z (t false) =
    Ret (TRTable None None [CItems [IRow 0 FmtStr; IRow 1 FmtStr]] 2 1 (FOne (mkD KObject false))).
Proof. cbv zeta. split; vm_compute; reflexivity. Qed.

(* Vector([1.5, 10**400]): a float column may hold an int beyond the float range; it is shown by
   its digits (str) *)
Example C20_example_huge_int_in_float_column :
  let v := mkVec None (Some (mkD KFloat false)) [Some (VFloat (FFinite false)); Some (VIntLike true)] in
  well_typed_vec v /\
  repr_vector 12%Z v = Ret (VRLines false [IRow 0 FmtG; IRow 1 FmtStr] 2 (mkD KFloat false)).
Proof.
  cbv zeta. split.
  - intros s Hs. simpl in Hs. destruct Hs as [Hs|[Hs|[]]]; inversion Hs; exact I.
  - reflexivity.
Qed.
