(* Props/C07.v — property C07: masks and indexing follow Python sequence semantics and
   compose.  Statements only; every proof is [exact <lemma>].

   Reading guide.  Spec/PySlice.v says what Python does: [adjust] = slice.indices,
   [py_range] = range as a loop, [py_slice l a b s] = l[a:b:s], [py_index l i] = l[i],
   [gather l ps] = [l[p] for p in ps], [true_positions m] = where m is True, [sel k n] = the
   positions key k selects from a sequence of length n.  Model/Index.v is serif's code.
   A [vec] is (vals, vdt, vname) = (storage, dtype, name). *)
From Coq Require Import List Bool Arith ZArith.
From Serif Require Import Base.PyVal Base.StErr Spec.PySlice Model.Index
  Proofs.PySlice Proofs.Index Proofs.TableIndex.
Import ListNotations.

(* v[i] is the i-th element (negative i counts from the end); out of range is an error. *)
Theorem C07_getitem_int : forall A (v : vec A) i,
  getitem v (IxInt i) = match py_index (vals v) i with Some x => Ok (GElt x) | None => Err EOther end.
Proof. exact getitem_int. Qed.
Print Assumptions C07_getitem_int.

(* v[a:b:s] equals list slicing for every start/stop/step (empty, out-of-range and reversed
   slices included); the result keeps dtype and name.  No bound on n or on the slice fields. *)
Theorem C07_getslice_spec : forall A (v : vec A) a b s, step_of s <> 0%Z ->
  exists l, py_slice (vals v) a b s = Some l /\
            getitem v (IxSlice a b s) = Ok (GVec (mkVec l (vdt v) (vname v))).
Proof. exact getslice_spec. Qed.
Print Assumptions C07_getslice_spec.

(* a slice only ever reads valid positions (so list slicing is total, as in Python) *)
Theorem C07_slice_positions_valid : forall a b s n p, step_of s <> 0%Z ->
  In p (slice_positions a b s n) -> p < n.
Proof. exact slice_positions_valid. Qed.
Print Assumptions C07_slice_positions_valid.

(* typeutils.slice_length(s, n) = len(range(start, stop, step)) for the adjusted triple — for all integers (floor division
   reasoning; range is specified as the loop, not by its closed form) *)
Theorem C07_slice_length_correct : forall a b s (n : nat), step_of s <> 0%Z ->
  slice_length a b s (Z.of_nat n) = Z.of_nat (length (slice_positions a b s n)).
Proof. exact slice_length_correct. Qed.
Print Assumptions C07_slice_length_correct.

Theorem C07_getslice_length : forall A (v : vec A) a b s w, step_of s <> 0%Z ->
  getitem v (IxSlice a b s) = Ok (GVec w) ->
  Z.of_nat (length (vals w)) = slice_length a b s (Z.of_nat (length (vals v))).
Proof. exact getslice_length. Qed.
Print Assumptions C07_getslice_length.

(* v[mask] keeps exactly the positions where the mask is True, in order, with dtype and name *)
Theorem C07_getmask_spec : forall A (v : vec A) m, length m = length (vals v) ->
  exists l, gather (vals v) (true_positions m) = Some l /\
            getitem v (IxMaskV m) = Ok (GVec (mkVec l (vdt v) (vname v))).
Proof. exact getmask_spec. Qed.
Print Assumptions C07_getmask_spec.

(* [true_positions] really is "where the mask is True" *)
Theorem C07_true_positions : forall m p, In p (true_positions m) <-> nth_error m p = Some true.
Proof. exact true_positions_true. Qed.
Print Assumptions C07_true_positions.

(* a mask of the wrong length is an error (Vector mask and list-of-bool mask) *)
Theorem C07_mask_wrong_length_is_error : forall A (v : vec A) m, length m <> length (vals v) ->
  exists e, getitem v (IxMaskV m) = Err e.
Proof. exact getmask_wrong_length. Qed.
Print Assumptions C07_mask_wrong_length_is_error.

Theorem C07_getmask_list : forall A (v : vec A) l, all_bool l = true ->
  if Nat.eqb (length (vals v)) (length l)
  then exists r, gather (vals v) (true_positions (map lb_val l)) = Some r /\
                 getitem v (IxList l) = Ok (GVec (mkVec r (vdt v) (vname v)))
  else exists e, getitem v (IxList l) = Err e.
Proof. exact getmask_list_spec. Qed.
Print Assumptions C07_getmask_list.

(* v[[i, j, ...]] = [v[i], v[j], ...]; one bad index makes the whole access an error *)
Theorem C07_getidx_spec : forall A (v : vec A) idx,
  match norm_all (length (vals v)) idx with
  | Some ps => exists l, gather (vals v) ps = Some l /\
                         getitem v (IxIdxV idx) = Ok (GVec (mkVec l (vdt v) (vname v)))
  | None => exists e, getitem v (IxIdxV idx) = Err e
  end.
Proof. exact getidx_spec. Qed.
Print Assumptions C07_getidx_spec.

(* every key form at once: the result is decided by [sel], the declarative reading of the key *)
Theorem C07_getitem_spec : forall A (v : vec A) k,
  match sel k (length (vals v)) with
  | Err _ => exists e, getitem v k = Err e
  | Ok (SOne p) => exists x, nth_error (vals v) p = Some x /\ getitem v k = Ok (GElt x)
  | Ok (SMany ps) => exists l, gather (vals v) ps = Some l /\
                               getitem v k = Ok (GVec (mkVec l (vdt v) (vname v)))
  end.
Proof. exact getitem_spec. Qed.
Print Assumptions C07_getitem_spec.

(* Comparison / logical operators: one bool per position, computed from that position's pair
   by Python's own operator ([cmp]); a None on either side gives False; the result is a list of
   bools (no None can occur: the vector is typed bool, non-nullable); unequal lengths are an error.
   Holds for every scalar semantics [cmp] and every None test. *)
Theorem C07_compare_elementwise : forall A (is_none : A -> bool) (cmp : A -> A -> option bool) xs ys bs,
  compare is_none cmp xs (OpVec ys) = Ok bs ->
  length ys = length xs /\ length bs = length xs /\
  forall i x y, nth_error xs i = Some x -> nth_error ys i = Some y ->
                exists b, nth_error bs i = Some b /\
                          (if is_none x || is_none y then b = false else cmp x y = Some b).
Proof. exact compare_elementwise. Qed.
Print Assumptions C07_compare_elementwise.

Theorem C07_compare_length_mismatch : forall A (is_none : A -> bool) (cmp : A -> A -> option bool) xs ys,
  length ys <> length xs -> exists e, compare is_none cmp xs (OpVec ys) = Err e.
Proof. exact compare_length_mismatch. Qed.
Print Assumptions C07_compare_length_mismatch.

Theorem C07_compare_scalar : forall A (is_none : A -> bool) (cmp : A -> A -> option bool) xs y bs,
  compare is_none cmp xs (OpScalar y) = Ok bs ->
  length bs = length xs /\
  forall i x, nth_error xs i = Some x ->
              exists b, nth_error bs i = Some b /\ (if is_none x then b = false else cmp x y = Some b).
Proof. exact compare_scalar. Qed.
Print Assumptions C07_compare_scalar.

(* Tables.  [wf t]: rectangular.  [rowkey k]: slice, bool mask (Vector or list), int Vector.
   One list of positions — fixed by the key and the table's length — is applied to every column
   alike; each column keeps dtype and name. *)
Theorem C07_rowsel_uniform : forall A (t : table A) k t', wf A t -> rowkey k = true ->
  select_rows t k = Ok (TTab t') ->
  exists ps, sel k (nrows t) = Ok (SMany ps) /\
             (forall p, In p ps -> p < nrows t) /\
             cols t' = map (fun c => mkVec (take (vals c) ps) (vdt c) (vname c)) (cols t) /\
             Forall2 (fun c c' => gather (vals c) ps = Some (vals c')) (cols t) (cols t').
Proof. exact rowsel_uniform. Qed.
Print Assumptions C07_rowsel_uniform.

(* a requested column that does not exist is an error, wherever it stands in the tuple;
   [fb1], [fbN] = the sanitised-name passes of the lookup (any functions of the column names) *)
Theorem C07_colsel_missing_is_error : forall A fb1 fbN (t : table A) l s,
  In s l -> find_exact (cols t) s = None -> fbN (col_names t) s = None ->
  tgetitem fb1 fbN t (TKNames l) = Err EKey.
Proof. exact colsel_missing_is_error. Qed.
Print Assumptions C07_colsel_missing_is_error.

(* existing names: exactly those columns, in the requested order, repeats allowed *)
Theorem C07_colsel_spec : forall A fb1 fbN (t : table A) l cs, wf A t ->
  Forall2 (fun s c => find_exact (cols t) s = Some c) l cs ->
  tgetitem fb1 fbN t (TKNames l) = Ok (TTab (mkTab cs)).
Proof. exact colsel_spec. Qed.
Print Assumptions C07_colsel_spec.

(* t[rows][cols] = t[cols][rows]: defined together, and equal when defined *)
Theorem C07_rows_cols_commute : forall A fbN (t : table A) k l,
  wf A t -> cols t <> [] -> l <> [] -> rowkey k = true ->
  match then_names A fbN (select_rows t k) l, then_rows A (select_names fbN t l) k with
  | Ok r1, Ok r2 => r1 = r2
  | Err _, Err _ => True
  | _, _ => False
  end.
Proof. exact rows_cols_commute. Qed.
Print Assumptions C07_rows_cols_commute.

(* ---- non-vacuity ---------------------------------------------------------------------- *)
Local Open Scope Z_scope.
Definition ex_v : vec Z := mkVec [10; 11; 12; 13; 14] (Some (mkD KInt false)) (Some 7%nat).

Example C07_example_slices :
  (* v[5:9] and v[2:2] are EMPTY (F01 returned the whole vector), v[::-2] is reversed *)
  getitem ex_v (IxSlice (Some 5) (Some 9) None) = Ok (GVec (mkVec [] (Some (mkD KInt false)) (Some 7%nat))) /\
  getitem ex_v (IxSlice (Some 2) (Some 2) None) = Ok (GVec (mkVec [] (Some (mkD KInt false)) (Some 7%nat))) /\
  getitem ex_v (IxSlice None None (Some (-2))) = Ok (GVec (mkVec [14; 12; 10] (Some (mkD KInt false)) (Some 7%nat))) /\
  getitem ex_v (IxSlice (Some (-9)) (Some 99) (Some 3)) = Ok (GVec (mkVec [10; 13] (Some (mkD KInt false)) (Some 7%nat))) /\
  slice_length (Some (-9)) (Some 99) (Some 3) 5 = 2 /\
  getitem ex_v (IxMaskV [true; false; false; true; false]) = Ok (GVec (mkVec [10; 13] (Some (mkD KInt false)) (Some 7%nat))) /\
  getitem ex_v (IxMaskV [true; false]) = Err EOther /\
  getitem ex_v (IxIdxV [-1; 0; 0]) = Ok (GVec (mkVec [14; 10; 10] (Some (mkD KInt false)) (Some 7%nat))) /\
  getitem ex_v (IxInt (-5)) = Ok (GElt 10) /\ getitem ex_v (IxInt 5) = Err EOther.
Proof. vm_compute. repeat split. Qed.

Definition ex_t : table Z :=
  mkTab [mkVec [1; 2; 3] (Some (mkD KInt false)) (Some 0%nat);
         mkVec [4; 5; 6] (Some (mkD KFloat true)) (Some 1%nat)].
Definition nofb (_ : list (option nat)) (_ : nat) : option nat := None.

Example C07_example_table :
  wf Z ex_t /\
  (* rows 1: then columns (b, a)  =  columns (b, a) then rows 1: — a non-trivial instance *)
  then_names Z nofb (select_rows ex_t (IxSlice (Some 1) None None)) [1%nat; 0%nat] =
    Ok (TTab (mkTab [mkVec [5; 6] (Some (mkD KFloat true)) (Some 1%nat);
                     mkVec [2; 3] (Some (mkD KInt false)) (Some 0%nat)])) /\
  then_rows Z (select_names nofb ex_t [1%nat; 0%nat]) (IxSlice (Some 1) None None) =
    then_names Z nofb (select_rows ex_t (IxSlice (Some 1) None None)) [1%nat; 0%nat] /\
  (* a missing name is an error even after a present one (F02 dropped it silently) *)
  tgetitem nofb nofb ex_t (TKNames [0%nat; 9%nat]) = Err EKey /\
  (* t[5:9] has no rows (F01 returned the whole table) *)
  tgetitem nofb nofb ex_t (TKRows (IxSlice (Some 5) (Some 9) None)) =
    Ok (TTab (mkTab [mkVec [] (Some (mkD KInt false)) (Some 0%nat);
                     mkVec [] (Some (mkD KFloat true)) (Some 1%nat)])).
Proof.
  split; [intros c [<-|[<-|[]]]; reflexivity|]. vm_compute. repeat split.
Qed.
