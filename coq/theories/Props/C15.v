(* Props/C15.v — alias tracking is exact: no leaked write, no spurious refusal.
   The identity every new storage tuple receives is an INPUT of each operation, unconstrained:
   the theorems hold for every choice the allocator can make, including re-use of the identity
   of freed storage, and for every placement of [OCollect] (garbage collection) in a history. *)
From Coq Require Import List Bool ZArith.
From Serif Require Import Base.PyVal Model.Heap Proofs.HeapBase Proofs.HeapReg Proofs.HeapFrame Proofs.HeapDerived.
Import ListNotations.

(* In every reachable state the registry's live view IS the sharing relation: every live
   object is registered under its current storage, and whatever is registered under a storage
   identity is a live object currently holding exactly that storage (no stale entry). *)
Theorem C15_registry_exact_in_every_reachable_state : forall os, Inv_reg (run init os).
Proof. exact (fun os => reachable_Inv_reg os init Inv_reg_init). Qed.
Print Assumptions C15_registry_exact_in_every_reachable_state.

Theorem C15_registry_invariant_preserved : forall s o s' out,
  step s o = (s', out) -> Inv_reg s -> Inv_reg s'.
Proof. exact step_preserves_Inv_reg. Qed.
Print Assumptions C15_registry_invariant_preserved.

(* A write is refused with AliasError only while ANOTHER live object really has the same,
   non-empty storage. *)
Theorem C15_refusal_only_while_really_shared : forall s h us sid' s',
  Inv_reg s -> step s (OSetV h us sid') = (s', ErrAlias) ->
  exists v h' o', getv s h = Some v /\ h' <> h /\ aget (heap s) h' = Some o' /\
                  sid_of o' = sid v /\ sid v <> EMPTY.
Proof. exact refusal_sound. Qed.
Print Assumptions C15_refusal_only_while_really_shared.

(* A vector that shares its storage with no other live object is always writable — no matter
   what was created, reassigned, promoted, dropped or collected before. *)
Theorem C15_sole_owner_always_writable : forall s h v us sid',
  Inv_reg s -> getv s h = Some v ->
  (forall h' o', h' <> h -> aget (heap s) h' = Some o' -> sid_of o' <> sid v) ->
  snd (step s (OSetV h us sid')) <> ErrAlias.
Proof. exact sole_owner_never_refused. Qed.
Print Assumptions C15_sole_owner_always_writable.

Theorem C15_sole_owner_writable_after_any_history : forall os h v us sid',
  getv (run init os) h = Some v ->
  (forall h' o', h' <> h -> aget (heap (run init os)) h' = Some o' -> sid_of o' <> sid v) ->
  snd (step (run init os) (OSetV h us sid')) <> ErrAlias.
Proof.
  exact (fun os h v us sid' => sole_owner_never_refused (run init os) h v us sid'
           (reachable_Inv_reg os init Inv_reg_init)).
Qed.
Print Assumptions C15_sole_owner_writable_after_any_history.

Theorem C15_empty_storage_never_refused : forall s h v us sid',
  getv s h = Some v -> sid v = EMPTY -> snd (step s (OSetV h us sid')) <> ErrAlias.
Proof. exact empty_storage_never_refused. Qed.
Print Assumptions C15_empty_storage_never_refused.

(* What the library builds itself owns its storage ("fresh vectors, copies, slices, operation results
   ... always writable").  [step_d] is [step] under the rule that only Vector(T) over a caller-supplied
   tuple may take a storage identity some live object holds; the correspondence check runs every other
   operation of every history through [step_d], so an implementation whose slice or concatenation
   returns the operand's own tuple (CPython: t[:] is t, t + () is t) is [Stuck] where the code says Ok.
   Under that rule a derived vector shares with nobody and is writable at once, whatever else is alive. *)
Theorem C15_derived_vector_is_sole_owner : forall s h c rn i s',
  step_d s (ONewVec h c rn i) = (s', Ok) -> i <> EMPTY ->
  forall h' o', h' <> h -> aget (heap s') h' = Some o' -> sid_of o' <> i.
Proof. exact derived_vector_sole_owner. Qed.
Print Assumptions C15_derived_vector_is_sole_owner.

Theorem C15_derived_vector_writable_at_once : forall s h c rn i s' us sid',
  Inv_reg s -> step_d s (ONewVec h c rn i) = (s', Ok) ->
  snd (step s' (OSetV h us sid')) <> ErrAlias.
Proof. exact derived_vector_writable_at_once. Qed.
Print Assumptions C15_derived_vector_writable_at_once.

(* the same for the columns of every table the library builds (constructors, selections, stacking,
   joins, sorts, aggregates ...): each column owns storage that no other live object - no earlier
   object, no sibling column, not the table itself - holds; with C15_sole_owner_always_writable it is
   writable, whatever else is alive *)
Theorem C15_new_table_columns_are_sole_owners : forall s ht cs chs sids tsid' s' k h i,
  step_d s (ONewTab ht cs chs sids tsid') = (s', Ok) ->
  nth_error chs k = Some h -> nth_error sids k = Some i -> i <> EMPTY ->
  forall h' o', h' <> h -> aget (heap s') h' = Some o' -> sid_of o' <> i.
Proof. exact derived_table_column_sole_owner. Qed.
Print Assumptions C15_new_table_columns_are_sole_owners.

(* exact characterisation of the refusals *)
Theorem C15_refusal_iff : forall s h v us sid',
  Inv_reg s -> getv s h = Some v ->
  (snd (step s (OSetV h us sid')) = ErrAlias <->
   sid v <> EMPTY /\ exists h' o', h' <> h /\ aget (heap s) h' = Some o' /\ sid_of o' = sid v).
Proof. exact refusal_iff. Qed.
Print Assumptions C15_refusal_iff.

(* No leaked write: a successful or failed write through h leaves every other object —
   in particular a vector built over the same caller-supplied tuple — exactly as it was. *)
Theorem C15_no_leaked_write : forall s h us sid' s' out h2 o2,
  step s (OSetV h us sid') = (s', out) -> h2 <> h -> aget (heap s) h2 = Some o2 ->
  option_map strip (aget (heap s') h2) = Some (strip o2).
Proof.
  exact (fun s h us sid' s' out h2 o2 H Hne Hg =>
    step_frame s (OSetV h us sid') s' out h2 o2 H Hg
      (fun Hin => match Hin with or_introl E => Hne (eq_sym E) | or_intror F => F end) (fun F => F)).
Qed.
Print Assumptions C15_no_leaked_write.

(* Non-vacuity: sharing, refusal, release by writing the partner, release by collection, and
   re-use of a freed identity. *)
Example C15_example :
  let os := [ ONewVec 1 (CLit [SInt 1; SInt 2] None) None 5;
              ONewVec 2 (CLit [SInt 1; SInt 2] None) None 5 ] in
  let s := run init os in
  snd (step s (OSetV 1 [(0, SInt 7)] 6)) = ErrAlias /\
  (* partner collected -> writable again *)
  snd (step (run s [OCollect [2]]) (OSetV 1 [(0, SInt 7)] 6)) = Ok /\
  (* partner written (moved to storage 6) -> writable, even if the new vector 3 re-uses identity 5's slot later *)
  snd (step (run s [OSetV 2 [(0, SInt 7)] 6; OCollect [2]; ONewVec 3 (CLit [SInt 0] None) None 6])
            (OSetV 3 [(0, SInt 1)] 7)) = Ok.
Proof. vm_compute. repeat split. Qed.

(* the fresh-storage rule at work: a slice that came back with its source's storage identity (5) is
   not an admissible derivation step; with an identity of its own (6) it is, and is writable at once *)
Example C15_example_derived :
  let s := run init [ONewVec 1 (CLit [SInt 1; SInt 2] None) None 5] in
  step_d s (ONewVec 2 (CFrom 1 (Some [0; 1])) None 5) = (s, Stuck) /\
  snd (step_d s (ONewVec 2 (CFrom 1 (Some [0; 1])) None 6)) = Ok /\
  snd (step (fst (step_d s (ONewVec 2 (CFrom 1 (Some [0; 1])) None 6))) (OSetV 2 [(0, SInt 9)] 7)) = Ok.
Proof. vm_compute. repeat split. Qed.
