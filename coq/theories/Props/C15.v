From Serif Require Import Base.PyVal Model.Heap.
Theorem C15_placeholder : True. Proof. exact I. Qed.
Print Assumptions C15_placeholder.
