(* Props/C15.v — alias tracking is exact: no leaked write, no spurious refusal.
   The identity every new storage tuple receives is an INPUT of each operation, unconstrained:
   the theorems hold for every choice the allocator can make, including re-use of the identity
   of freed storage, and for every placement of [OCollect] (garbage collection) in a history. *)
From Coq Require Import List Bool ZArith.
From Serif Require Import Base.PyVal Model.Heap Proofs.HeapBase Proofs.HeapReg Proofs.HeapFrame.
Import ListNotations.

(* In every reachable state the registry's live view IS the sharing relation: every live
   object is registered under its current storage, and whatever is registered under a storage
   identity is a live object currently holding exactly that storage (no stale entry). *)
Theorem C15_registry_exact_in_every_reachable_state : forall os, Inv_reg (run init os).
Proof. exact (fun os => reachable_Inv_reg os init Inv_reg_init). Qed.
Print Assumptions C15_registry_exact_in_every_reachable_state.

Theorem C15_registry_invariant_preserved : forall s o s' out,
  step s o = (s', out) -> Inv_reg s -> Inv_reg s'.
Proof. exact step_preserves_Inv_reg. Qed.
Print Assumptions C15_registry_invariant_preserved.

(* A write is refused with AliasError only while ANOTHER live object really has the same,
   non-empty storage. *)
Theorem C15_refusal_only_while_really_shared : forall s h us sid' s',
  Inv_reg s -> step s (OSetV h us sid') = (s', ErrAlias) ->
  exists v h' o', getv s h = Some v /\ h' <> h /\ aget (heap s) h' = Some o' /\
                  sid_of o' = sid v /\ sid v <> EMPTY.
Proof. exact refusal_sound. Qed.
Print Assumptions C15_refusal_only_while_really_shared.

(* A vector that shares its storage with no other live object is always writable — no matter
   what was created, reassigned, promoted, dropped or collected before. *)
Theorem C15_sole_owner_always_writable : forall s h v us sid',
  Inv_reg s -> getv s h = Some v ->
  (forall h' o', h' <> h -> aget (heap s) h' = Some o' -> sid_of o' <> sid v) ->
  snd (step s (OSetV h us sid')) <> ErrAlias.
Proof. exact sole_owner_never_refused. Qed.
Print Assumptions C15_sole_owner_always_writable.

Theorem C15_sole_owner_writable_after_any_history : forall os h v us sid',
  getv (run init os) h = Some v ->
  (forall h' o', h' <> h -> aget (heap (run init os)) h' = Some o' -> sid_of o' <> sid v) ->
  snd (step (run init os) (OSetV h us sid')) <> ErrAlias.
Proof.
  exact (fun os h v us sid' => sole_owner_never_refused (run init os) h v us sid'
           (reachable_Inv_reg os init Inv_reg_init)).
Qed.
Print Assumptions C15_sole_owner_writable_after_any_history.

Theorem C15_empty_storage_never_refused : forall s h v us sid',
  getv s h = Some v -> sid v = EMPTY -> snd (step s (OSetV h us sid')) <> ErrAlias.
Proof. exact empty_storage_never_refused. Qed.
Print Assumptions C15_empty_storage_never_refused.

(* exact characterisation of the refusals *)
Theorem C15_refusal_iff : forall s h v us sid',
  Inv_reg s -> getv s h = Some v ->
  (snd (step s (OSetV h us sid')) = ErrAlias <->
   sid v <> EMPTY /\ exists h' o', h' <> h /\ aget (heap s) h' = Some o' /\ sid_of o' = sid v).
Proof. exact refusal_iff. Qed.
Print Assumptions C15_refusal_iff.

(* No leaked write: a successful or failed write through h leaves every other object —
   in particular a vector built over the same caller-supplied tuple — exactly as it was. *)
Theorem C15_no_leaked_write : forall s h us sid' s' out h2 o2,
  step s (OSetV h us sid') = (s', out) -> h2 <> h -> aget (heap s) h2 = Some o2 ->
  option_map strip (aget (heap s') h2) = Some (strip o2).
Proof.
  exact (fun s h us sid' s' out h2 o2 H Hne Hg =>
    step_frame s (OSetV h us sid') s' out h2 o2 H Hg
      (fun Hin => match Hin with or_introl E => Hne (eq_sym E) | or_intror F => F end) (fun F => F)).
Qed.
Print Assumptions C15_no_leaked_write.

(* Non-vacuity: sharing, refusal, release by writing the partner, release by collection, and
   re-use of a freed identity. *)
Example C15_example :
  let os := [ ONewVec 1 (CLit [SInt 1; SInt 2] None) None 5;
              ONewVec 2 (CLit [SInt 1; SInt 2] None) None 5 ] in
  let s := run init os in
  snd (step s (OSetV 1 [(0, SInt 7)] 6)) = ErrAlias /\
  (* partner collected -> writable again *)
  snd (step (run s [OCollect [2]]) (OSetV 1 [(0, SInt 7)] 6)) = Ok /\
  (* partner written (moved to storage 6) -> writable, even if the new vector 3 re-uses identity 5's slot later *)
  snd (step (run s [OSetV 2 [(0, SInt 7)] 6; OCollect [2]; ONewVec 3 (CLit [SInt 0] None) None 6])
            (OSetV 3 [(0, SInt 1)] 7)) = Ok.
Proof. vm_compute. repeat split. Qed.
