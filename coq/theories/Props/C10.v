(* Props/C10.v — property C10: left and full outer joins keep every row and pad with None.
   Statements only; every proof is [exact <lemma>].  Row pairs: (Some i, Some j) = left row i
   joined with right row j, (Some i, None) = left row i padded, (None, Some j) = right row j
   padded.  K is any key type, keq any boolean relation (symmetry is needed for the last
   theorem only); the table-level theorems instantiate K with tuples of cells. *)
From Coq Require Import List Bool Arith String Permutation.
From Serif Require Import Base.PyVal Spec.Join Model.Join Proofs.Join.
Import ListNotations.

(* join (the left join) returns the rows of the inner join plus (i, ⊥) in place for every
   unmatched left row i: the model's table holds exactly [left_pairs] *)
Theorem C10_left_join_refines : forall V (veq : V -> V -> bool), eq_equivalence veq ->
  forall e L R lon ron prs,
  valid_expect e = true -> validate_join_keys V L R lon ron = Ok prs ->
  expectation_met V veq e L R prs ->
  exists T, left_join V veq e L R lon ron = Ok T /\
    holds_rows L R T (left_pairs (keq V veq) (nrows L) (nrows R) (keys_l V prs) (keys_r V prs)).
Proof. exact left_join_refines_closed. Qed.
Print Assumptions C10_left_join_refines.

(* full_join additionally appends (⊥, j) for every right row matched by nothing, in right order *)
Theorem C10_full_join_refines : forall V (veq : V -> V -> bool), eq_equivalence veq ->
  forall e L R lon ron prs,
  valid_expect e = true -> validate_join_keys V L R lon ron = Ok prs ->
  expectation_met V veq e L R prs ->
  exists T, full_join V veq e L R lon ron = Ok T /\
    holds_rows L R T (full_pairs (keq V veq) (nrows L) (nrows R) (keys_l V prs) (keys_r V prs)).
Proof. exact full_join_refines_closed. Qed.
Print Assumptions C10_full_join_refines.

(* padding: the cells of a one-sided row *)
Theorem C10_unmatched_rows_padded : forall V (L R : table V),
  (forall i, out_row L R (Some i, None) = map (fun c => cell_at c i) L ++ repeat None (List.length R)) /\
  (forall j, out_row L R (None, Some j) = repeat None (List.length L) ++ map (fun c => cell_at c j) R).
Proof. exact (fun V L R => conj (out_row_left_only L R) (out_row_right_only L R)). Qed.
Print Assumptions C10_unmatched_rows_padded.

(* the left join's rows with a right partner are exactly the inner join's rows *)
Theorem C10_left_minus_padding_is_inner : forall K (keq : K -> K -> bool) n m lk rk,
  filter (fun p => match snd p with None => false | Some _ => true end) (left_pairs keq n m lk rk)
  = inner_pairs keq n m lk rk.
Proof. exact left_minus_inner. Qed.
Print Assumptions C10_left_minus_padding_is_inner.

(* every left row appears at least once in a left join *)
Theorem C10_left_keeps_every_left_row : forall K (keq : K -> K -> bool) n m lk rk i,
  i < n -> exists oj, In (Some i, oj) (left_pairs keq n m lk rk).
Proof. exact left_keeps_every_left_row. Qed.
Print Assumptions C10_left_keeps_every_left_row.

(* every row of both tables appears at least once in a full join *)
Theorem C10_full_keeps_every_row : forall K (keq : K -> K -> bool) n m lk rk,
  (forall i, i < n -> exists oj, In (Some i, oj) (full_pairs keq n m lk rk)) /\
  (forall j, j < m -> exists oi, In (oi, Some j) (full_pairs keq n m lk rk)).
Proof. exact full_keeps_every_row. Qed.
Print Assumptions C10_full_keeps_every_row.

(* no row pair is ever produced twice *)
Theorem C10_no_row_duplicated : forall K (keq : K -> K -> bool) n m lk rk,
  NoDup (full_pairs keq n m lk rk).
Proof. exact NoDup_full_pairs. Qed.
Print Assumptions C10_no_row_duplicated.

(* inner is contained in left is contained in full, order preserved *)
Theorem C10_inner_sub_left_sub_full : forall K (keq : K -> K -> bool) n m lk rk,
  sublist (inner_pairs keq n m lk rk) (left_pairs keq n m lk rk) /\
  sublist (left_pairs keq n m lk rk) (full_pairs keq n m lk rk).
Proof. exact inner_sub_left_sub_full. Qed.
Print Assumptions C10_inner_sub_left_sub_full.

(* swapping the tables of a full join gives the same row pairs up to row order (and each
   row's cells are the same two halves in the other order: [out_row] of a swapped pair) *)
Theorem C10_full_join_symmetric : forall K (keq : K -> K -> bool),
  (forall a b, keq a b = keq b a) ->
  forall n m lk rk,
  Permutation (map swap_pair (full_pairs keq n m lk rk)) (full_pairs keq m n rk lk).
Proof. exact full_join_symmetric. Qed.
Print Assumptions C10_full_join_symmetric.

Theorem C10_swapped_row_cells : forall V (L R : table V) p,
  out_row R L (swap_pair p) = map (fun c => pad_get c (snd p)) R ++ map (fun c => pad_get c (fst p)) L.
Proof. exact (fun V L R p => eq_refl). Qed.
Print Assumptions C10_swapped_row_cells.

(* Non-vacuity: first left row unmatched, an unmatched right key that occurs twice, a right row
   matched by two left rows. *)
Open Scope string_scope.
Example C10_example :
  let c n vs := mkCol (Some n) (Some KInt) (map (fun x => match x with 0 => None | S v => Some v end) vs) in
  let L := [c "k" [9; 1; 1; 0]; c "a" [10; 11; 12; 13]] in
  let R := [c "k" [5; 1; 5; 0]; c "b" [20; 21; 22; 23]] in
  left_join nat Nat.eqb "many_to_one" L R [ByName nat "k"] [ByName nat "k"] = Err EValue /\
  left_join nat Nat.eqb "many_to_many" L R [ByName nat "k"] [ByName nat "k"]
  = Ok [(Some "k", [Some 8; Some 0; Some 0; None]); (Some "a", [Some 9; Some 10; Some 11; Some 12]);
        (Some "k", [None; Some 0; Some 0; None]); (Some "b", [None; Some 20; Some 20; Some 22])] /\
  full_join nat Nat.eqb "many_to_many" L R [ByName nat "k"] [ByName nat "k"]
  = Ok [(Some "k", [Some 8; Some 0; Some 0; None; None; None]);
        (Some "a", [Some 9; Some 10; Some 11; Some 12; None; None]);
        (Some "k", [None; Some 0; Some 0; None; Some 4; Some 4]);
        (Some "b", [None; Some 20; Some 20; Some 22; Some 19; Some 21])] /\
  left_join nat Nat.eqb "many_to_many" [c "k" []] R [ByName nat "k"] [ByName nat "k"] = Ok [].
Proof. repeat split; vm_compute; reflexivity. Qed.
