(* Props/C02.v — tables stay rectangular. *)
From Coq Require Import List Bool ZArith.
From Serif Require Import Base.PyVal Model.Heap Proofs.HeapBase Proofs.HeapReg Proofs.HeapFrame Proofs.HeapRect.
Import ListNotations.

(* In every state reachable by any finite sequence of constructions and in-place updates —
   including sequences containing failed operations — all columns of every table have one
   common length. *)
Theorem C02_rectangular_in_every_reachable_state : forall os, Inv_rect (run init os).
Proof. exact (fun os => reachable_rect os init Inv_own_init Inv_rect_init). Qed.
Print Assumptions C02_rectangular_in_every_reachable_state.

Theorem C02_rectangularity_preserved : forall s o s' out,
  step s o = (s', out) -> Inv_own s -> Inv_rect s -> Inv_rect s'.
Proof. exact step_preserves_Inv_rect. Qed.
Print Assumptions C02_rectangularity_preserved.

(* Input that would make a table ragged is rejected rather than stored. *)
Theorem C02_ragged_construction_rejected : forall s ht cs chs sids tsid' built,
  build_all s cs = Some built -> all_same_len built = false ->
  step s (ONewTab ht cs chs sids tsid') = (s, ErrOther).
Proof. exact ragged_rejected. Qed.
Print Assumptions C02_ragged_construction_rejected.

Theorem C02_wrong_length_column_rejected : forall s ht ci c h' sid' tsid' t l n d old vold,
  gett s ht = Some t -> build_col s c = Some (l, n, d) -> nth_error (cols t) ci = Some old ->
  getv s old = Some vold -> List.length l <> List.length (vals vold) ->
  step s (OSetAttr ht ci c h' sid' tsid') = (s, ErrOther).
Proof. exact wrong_length_column_rejected. Qed.
Print Assumptions C02_wrong_length_column_rejected.

(* In-place writes never change a column's length. *)
Theorem C02_writes_keep_lengths : forall s h us sid' s' out,
  set_vec s h us sid' = (s', out) ->
  (forall ht, gett s' ht = gett s ht) /\
  (forall c v', getv s' c = Some v' -> exists v, getv s c = Some v /\ List.length (vals v') = List.length (vals v)).
Proof. exact set_vec_len. Qed.
Print Assumptions C02_writes_keep_lengths.

(* Structural operations preserve cells. The k-th column of a freshly produced table holds:
   a copy of the source column (>> leaves existing columns untouched; column selection; copy),
   the SAME row selection applied to the source column (slices and masks are uniform over the
   columns), the source column followed by the appended rows (<<), or the given list. *)
Theorem C02_new_table_cells : forall s ht cs chs sids tsid' s' k c h,
  step s (ONewTab ht cs chs sids tsid') = (s', Ok) ->
  nth_error cs k = Some c -> nth_error chs k = Some h ->
  exists v, getv s' h = Some v /\
    match c with
    | CFrom src None => exists vs, getv s src = Some vs /\ vals v = vals vs /\ nm v = nm vs
    | CFrom src (Some idx) => exists vs, getv s src = Some vs /\ vals v = select (vals vs) idx SNone /\ nm v = nm vs
    | CFromAs src n => exists vs, getv s src = Some vs /\ vals v = vals vs /\ nm v = n
    | CCat src extra => exists vs, getv s src = Some vs /\ vals v = vals vs ++ extra
    | CLit l n => vals v = l /\ nm v = n
    | CRes l n => vals v = l /\ nm v = n
    end.
Proof. exact new_table_cells. Qed.
Print Assumptions C02_new_table_cells.

(* The i-th row is the tuple of the i-th values of the columns (the row view of the model),
   and transposing twice gives back the original cells, for every rectangular cell matrix. *)
Definition row_view (s : state) (t : tab) (i : nat) : list sval :=
  map (fun c => match getv s c with Some v => nth i (vals v) SNone | None => SNone end) (cols t).

Theorem C02_transpose_involutive : forall (m : list (list sval)) nrows,
  Forall (fun col => List.length col = nrows) m ->
  transpose SNone (transpose SNone m nrows) (List.length m) = m.
Proof. exact (transpose_involutive SNone). Qed.
Print Assumptions C02_transpose_involutive.

Example C02_example :
  let s := run init [ONewVec 1 (CLit [SInt 1; SInt 2] None) None 5] in
  snd (step s (ONewTab 4 [CFrom 1 None; CLit [SInt 1; SInt 2; SInt 3] None] [2; 3] [6; 7] 8)) = ErrOther /\
  snd (step s (ONewTab 4 [CFrom 1 None; CLit [SInt 1; SNone] None] [2; 3] [6; 7] 8)) = Ok.
Proof. vm_compute. repeat split. Qed.
