From Serif Require Import Base.PyVal Model.Heap.
Theorem C02_placeholder : True. Proof. exact I. Qed.
Print Assumptions C02_placeholder.
