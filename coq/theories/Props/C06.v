(* Props/C06.v — property C06: None is handled uniformly: it propagates through arithmetic,
   compares False, is skipped by reductions (while counting towards len), and isna / dropna /
   fillna agree with one another.  Statements only; every proof is [exact <lemma>].

   All statements hold for every value type and every scalar semantics (what Python computes
   for x <o> y, bool(x < y), max(l), sum(l)/len(l) ... are parameters).  The per-group
   aggregates (group_agg_skips_none) are proved with C12 (Props/C12.v). *)
From Coq Require Import List Bool Arith.
From Serif Require Import Base.PyVal Model.Dtype Model.Elementwise Model.NoneOps
                          Spec.Elementwise Spec.NoneOps Proofs.Elementwise Proofs.NoneOps.
Import ListNotations.

(* ---- arithmetic ---------------------------------------------------------------------------- *)

(* A None on either side gives None at that position — all 14 dunders, vector / sequence /
   scalar operands. *)
Theorem C06_binop_none : forall val (scal : bop -> val -> val -> sres val) d xs other l i,
  vec_dunder scal d xs other = Ok l -> i < length xs ->
  nth i xs None = None \/ operand_nth other i = None -> nth i l None = None.
Proof. exact binop_none. Qed.
Print Assumptions C06_binop_none.

(* ... and a None never makes the operation fail: it succeeds as soon as Python defines the
   scalar operation on the pairs where BOTH sides hold a value. *)
Theorem C06_binop_none_never_raises : forall val (scal : bop -> val -> val -> sres val) d xs other,
  operand_fits (length xs) other ->
  (forall i a b, i < length xs -> nth i xs None = Some a -> operand_nth other i = Some b ->
                 exists r, written scal d a b = SOk r) ->
  exists l, vec_dunder scal d xs other = Ok l.
Proof. exact binop_none_never_raises. Qed.
Print Assumptions C06_binop_none_never_raises.

Theorem C06_unop_none : forall val (f : val -> sres (option val)) xs l i,
  unary_operation f xs = Ok l -> i < length xs -> nth i xs None = None -> nth i l None = None.
Proof. exact unop_none. Qed.
Print Assumptions C06_unop_none.

Theorem C06_unop_none_never_raises : forall val (f : val -> sres (option val)) xs,
  (forall a, In (Some a) xs -> exists r, f a = SOk r) -> exists l, unary_operation f xs = Ok l.
Proof. exact unop_none_never_raises. Qed.
Print Assumptions C06_unop_none_never_raises.

(* ---- comparisons --------------------------------------------------------------------------- *)

(* A None on either side makes the comparison False at that position (== and != included). *)
Theorem C06_compare_none_false : forall val (c : val -> val -> sres bool) xs other l d i,
  elementwise_compare c xs other = COk l d -> i < length xs ->
  nth i xs None = None \/ operand_nth other i = None -> nth i l true = false.
Proof. exact compare_none_false. Qed.
Print Assumptions C06_compare_none_false.

(* The result is a bool, non-nullable vector of the operand's length; elsewhere it holds
   Python's own answer. *)
Theorem C06_compare_result_dtype : forall val (c : val -> val -> sres bool) xs other l d,
  elementwise_compare c xs other = COk l d ->
  d = mkD KBool false /\ operand_fits (length xs) other /\
  length l = length xs /\
  forall i, i < length xs ->
    match nth i xs None, operand_nth other i with
    | Some a, Some b => c a b = SOk (nth i l true)
    | _, _ => nth i l true = false
    end.
Proof. exact compare_ok. Qed.
Print Assumptions C06_compare_result_dtype.

(* A None never makes a comparison raise. *)
Theorem C06_compare_none_never_raises : forall val (c : val -> val -> sres bool) xs other,
  operand_fits (length xs) other ->
  (forall i a b, i < length xs -> nth i xs None = Some a -> operand_nth other i = Some b ->
                 exists r, c a b = SOk r) ->
  exists l, elementwise_compare c xs other = COk l (mkD KBool false).
Proof. exact compare_total. Qed.
Print Assumptions C06_compare_none_never_raises.

(* The typed date paths (vector of ISO strings, vector of datetimes, list, ISO string,
   datetime, anything else), which bypass the generic code: same three facts. *)
Theorem C06_date_compare_none_false :
  forall val (cmp cmp_iso cmp_dt : val -> val -> sres bool) xs other l d i,
  date_compare cmp cmp_iso cmp_dt xs other = COk l d -> i < length xs ->
  nth i xs None = None \/ date_operand_nth other i = None -> nth i l true = false.
Proof. exact date_compare_none_false. Qed.
Print Assumptions C06_date_compare_none_false.

Theorem C06_date_compare_result_dtype :
  forall val (cmp cmp_iso cmp_dt : val -> val -> sres bool) xs other l d,
  date_compare cmp cmp_iso cmp_dt xs other = COk l d ->
  d = mkD KBool false /\ date_operand_fits (length xs) other /\
  compare_result (date_cmp_of cmp cmp_iso cmp_dt other) xs (date_operand_nth other) l.
Proof. exact date_compare_ok. Qed.
Print Assumptions C06_date_compare_result_dtype.

Theorem C06_date_compare_none_never_raises :
  forall val (cmp cmp_iso cmp_dt : val -> val -> sres bool) xs other,
  date_operand_fits (length xs) other ->
  compare_defined (date_cmp_of cmp cmp_iso cmp_dt other) xs (date_operand_nth other) ->
  exists l, date_compare cmp cmp_iso cmp_dt xs other = COk l (mkD KBool false).
Proof. exact date_compare_total. Qed.
Print Assumptions C06_date_compare_none_never_raises.

(* ---- reductions ---------------------------------------------------------------------------- *)

(* sum, mean, min, max, stdev (both flavours), any, all: the reduction of a vector is the
   reduction of its None-free list ... *)
Theorem C06_reduce_skips_none :
  forall val add zero truthy py_max py_min py_mean py_stdev r (xs : list (option val)),
  reduce add zero truthy py_max py_min py_mean py_stdev r xs
  = reduce_clean add zero truthy py_max py_min py_mean py_stdev r (drop_none xs).
Proof. exact reduce_skips_none. Qed.
Print Assumptions C06_reduce_skips_none.

(* ... so inserting a None anywhere changes no reduction ... *)
Theorem C06_reduce_insert_none :
  forall val add zero truthy py_max py_min py_mean py_stdev r (l1 l2 : list (option val)),
  reduce add zero truthy py_max py_min py_mean py_stdev r (l1 ++ None :: l2)
  = reduce add zero truthy py_max py_min py_mean py_stdev r (l1 ++ l2).
Proof. exact reduce_insert_none. Qed.
Print Assumptions C06_reduce_insert_none.

(* ... and when nothing is left: 0 for sum, None for mean / min / max / stdev, False for any,
   True for all; *)
Theorem C06_reduce_nothing_left :
  forall val add zero truthy py_max py_min py_mean py_stdev (xs : list (option val)),
  drop_none xs = [] ->
  let red := reduce add zero truthy py_max py_min py_mean py_stdev in
  red RSum xs = RVal zero /\ red RMean xs = RNone /\ red RMax xs = RNone /\ red RMin xs = RNone /\
  (forall p, red (RStdev p) xs = RNone) /\ red RAny xs = RBool false /\ red RAll xs = RBool true.
Proof. exact reduce_nothing_left. Qed.
Print Assumptions C06_reduce_nothing_left.

(* stdev of fewer than two values is None. *)
Theorem C06_stdev_below_two :
  forall val add zero truthy py_max py_min py_mean py_stdev p (xs : list (option val)),
  length (drop_none xs) < 2 ->
  reduce add zero truthy py_max py_min py_mean py_stdev (RStdev p) xs = RNone.
Proof. exact stdev_below_two. Qed.
Print Assumptions C06_stdev_below_two.

(* None still counts towards len(). *)
Theorem C06_len_counts_none : forall val (xs : list (option val)),
  vlen xs = length (drop_none xs) + count_none xs.
Proof. exact len_counts_none. Qed.
Print Assumptions C06_len_counts_none.

(* ---- isna / dropna / fillna ---------------------------------------------------------------- *)

Theorem C06_isna_marks_none : forall val (xs : list (option val)),
  fst (isna xs) = map is_none xs /\ snd (isna xs) = mkD KBool false /\
  length (fst (isna xs)) = length xs /\
  forall i, i < length xs -> nth i (fst (isna xs)) false = is_none (nth i xs None).
Proof. exact isna_spec. Qed.
Print Assumptions C06_isna_marks_none.

(* dropna removes exactly the positions isna marks (and keeps the order). *)
Theorem C06_dropna_isna : forall val dt (xs : list (option val)),
  fst (dropna dt xs) = select (map negb (fst (isna xs))) xs.
Proof. exact dropna_isna. Qed.
Print Assumptions C06_dropna_isna.

Theorem C06_dropna_is_clean_list : forall val dt (xs : list (option val)),
  fst (dropna dt xs) = map Some (drop_none xs).
Proof. exact dropna_clean. Qed.
Print Assumptions C06_dropna_is_clean_list.

(* fillna(x) replaces exactly the isna positions and nothing else (when x forces a promotion
   along bool < int < float < complex / date < datetime the other values are converted to the
   new kind, as in assignment). *)
Theorem C06_fillna_isna : forall val cls conv value (xs : list (option val)) dt l d,
  fillna cls conv value xs dt = FOk l d ->
  length l = length xs /\
  forall i, i < length xs ->
    nth i l None =
    match nth i xs None with
    | None => value
    | Some a => Some (match fill_target cls value dt with None => a | Some k => conv k a end)
    end.
Proof. exact fillna_isna. Qed.
Print Assumptions C06_fillna_isna.

(* a fill value the dtype accepts: every other value untouched, kind kept, non-nullable *)
Theorem C06_fillna_accepted : forall val cls conv v (xs : list (option val)) d0,
  validate_scalar (Some (cls v)) d0 = true ->
  fillna cls conv (Some v) xs (Some d0) = FOk (fill (Some v) xs) (Some (mkD (dkind d0) false)).
Proof. exact fillna_accepted. Qed.
Print Assumptions C06_fillna_accepted.

(* fillna(x) for x other than None reports itself non-nullable and holds no None ... *)
Theorem C06_fillna_nonnull : forall val cls conv v (xs : list (option val)) dt l d,
  fillna cls conv (Some v) xs dt = FOk l (Some d) -> nullable d = false.
Proof. exact fillna_nonnull. Qed.
Print Assumptions C06_fillna_nonnull.

Theorem C06_fillna_no_none_left : forall val cls conv v (xs : list (option val)) dt l d,
  fillna cls conv (Some v) xs dt = FOk l d -> existsb is_none l = false.
Proof. exact fillna_no_none_left. Qed.
Print Assumptions C06_fillna_no_none_left.

(* ... fillna(None) is the identity and keeps the truthful flag ... *)
Theorem C06_fillna_none : forall val cls conv (xs : list (option val)) dt,
  fillna cls conv None xs dt
  = FOk xs (match dt with Some d => Some (mkD (dkind d) (has_none xs)) | None => None end).
Proof. exact fillna_none. Qed.
Print Assumptions C06_fillna_none.

(* ... and so does dropna: same kind, non-nullable. *)
Theorem C06_dropna_nonnull : forall val dt (xs : list (option val)) d',
  snd (dropna dt xs) = Some d' -> nullable d' = false.
Proof. exact dropna_nonnull. Qed.
Print Assumptions C06_dropna_nonnull.

Theorem C06_dropna_schema : forall val dt (xs : list (option val)),
  snd (dropna dt xs) = match dt with Some d => Some (mkD (dkind d) false) | None => None end.
Proof. exact dropna_schema. Qed.
Print Assumptions C06_dropna_schema.

(* Non-vacuity: a small world (values are numbers, + is +, max is the last element ...). *)
Definition ex_add (a b : nat) : sres nat := SOk (a + b).
Definition ex_last (l : list nat) : sres nat := SOk (last l 0).
Definition ex_cls (v : nat) : vinfo := if v <? 100 then mkV KInt true else mkV KFloat true.
Definition ex_conv (k : kind) (v : nat) : nat := v + 1000.
Example C06_example :
  let red := reduce ex_add 0 (fun v => negb (v =? 0)) ex_last ex_last ex_last (fun _ => ex_last) in
  red RSum [Some 1; None; Some 2] = RVal 3 /\
  red RSum [None; None] = RVal 0 /\
  red RMax [None; Some 4; None] = RVal 4 /\
  red RMax [None] = RNone /\
  red (RStdev false) [Some 1; None] = RNone /\
  red RAll [Some 1; None; Some 0] = RBool false /\
  red RAny [None; Some 0] = RBool false /\
  elementwise_compare (fun a b => SOk (a <? b)) [Some 1; None; Some 5] (OVec [Some 2; Some 3; None])
    = COk [true; false; false] (mkD KBool false) /\
  elementwise_compare (fun a b => SOk (negb (a =? b))) [Some 1; None] (OScalar 2)
    = COk [true; false] (mkD KBool false) /\
  dropna (Some (mkD KInt true)) [Some 1; None; Some 2] = ([Some 1; Some 2], Some (mkD KInt false)) /\
  fillna ex_cls ex_conv (Some 7) [Some 1; None] (Some (mkD KInt true))
    = FOk [Some 1; Some 7] (Some (mkD KInt false)) /\
  fillna ex_cls ex_conv (Some 150) [Some 1; None] (Some (mkD KInt true))
    = FOk [Some 1001; Some 150] (Some (mkD KFloat false)) /\
  fillna ex_cls ex_conv (Some 7) [None; None] (Some (mkD KObject true))
    = FOk [Some 7; Some 7] (Some (mkD KObject false)) /\
  fillna ex_cls ex_conv (Some 7) [Some 200; None] (Some (mkD KStr true)) = FErr.
Proof. vm_compute. repeat split. Qed.
