(* Props/C12.v — property C12: group-by aggregation gives one row per key in
   first-appearance order, with the textbook values.  Statements only; every proof is
   [exact <lemma>].

   Reading guide.  [xeq] is Python's == on the non-None values (hypothesis: an equivalence
   with which hash agrees — the dict model of DESIGN.md §3), [xleb] their order (a total
   preorder, used by min/max only), [xz] the integer a value adds to a sum, [fmean]/[fstdev]
   the float results of mean/stdev as functions of the cleaned value list, [F] the custom
   functions.  A row's key is the tuple [row_key ov i] of its key cells, None being a cell
   like any other; [keq xeq] is tuple equality.  Spec/Group.v defines [first_keys] (distinct
   keys, first appearance first), [group_rows] (a filter over 0..n-1), [group_vals] (the raw
   values of a group's rows), [agg_ok] (the textbook aggregates), [spec_*] (the result). *)
From Coq Require Import List Bool Arith ZArith.
From Serif Require Import Model.Group Spec.Group Proofs.Group.
Import ListNotations.

(* The partition index: one entry per distinct key, in order of first appearance (keeping
   the key object that appeared first), each with exactly the rows carrying an equal key, in
   ascending order — for any key type with an equivalence. *)
Theorem C12_partition_keys_first_appearance :
  forall (K : Type) (keq : K -> K -> bool),
    (forall a, keq a a = true) -> (forall a b, keq a b = keq b a) ->
    (forall a b c, keq a b = true -> keq b c = true -> keq a c = true) ->
    forall ks, map fst (partition keq ks) = first_keys keq ks.
Proof. exact partition_keys. Qed.
Print Assumptions C12_partition_keys_first_appearance.

Theorem C12_partition_rows_ascending :
  forall (K : Type) (keq : K -> K -> bool),
    (forall a, keq a a = true) -> (forall a b, keq a b = keq b a) ->
    (forall a b c, keq a b = true -> keq b c = true -> keq a c = true) ->
    forall ks, partition keq ks = map (fun k => (k, group_rows keq ks k)) (first_keys keq ks).
Proof. exact partition_spec. Qed.
Print Assumptions C12_partition_rows_ascending.

(* [first_keys] and [group_rows] mean what they should: the listed keys are pairwise
   different, come from the rows, represent every row's key; row i is in the group of key k
   exactly when its key equals k. *)
Theorem C12_groups_are_the_distinct_keys :
  forall (K : Type) (keq : K -> K -> bool),
    (forall a, keq a a = true) -> (forall a b, keq a b = keq b a) ->
    (forall a b c, keq a b = true -> keq b c = true -> keq a c = true) ->
    forall ks,
      distinct K keq (first_keys keq ks) /\
      (forall k, In k (first_keys keq ks) -> In k ks) /\
      (forall k, In k ks -> exists k', In k' (first_keys keq ks) /\ keq k k' = true) /\
      (forall k i, In i (group_rows keq ks k) <->
                   exists k', nth_error ks i = Some k' /\ keq k k' = true).
Proof.
  exact (fun K keq r s t ks =>
           conj (first_keys_distinct K keq ks)
             (conj (first_keys_in K keq ks)
                (conj (first_keys_complete K keq r s t ks) (group_rows_in K keq ks)))).
Qed.
Print Assumptions C12_groups_are_the_distinct_keys.

(* Tuple equality of key cells is such an equivalence when == on values is. *)
Theorem C12_key_tuple_equality_is_equivalence :
  forall (X : Type) (xeq : X -> X -> bool),
    (forall a, xeq a a = true) -> (forall a b, xeq a b = xeq b a) ->
    (forall a b c, xeq a b = true -> xeq b c = true -> xeq a c = true) ->
    equivalence (keq xeq).
Proof. exact keq_equivalence. Qed.
Print Assumptions C12_key_tuple_equality_is_equivalence.

(* aggregate = the specification, for every table, any number of key columns, any list of
   aggregates (bs, in the order sum, mean, min, max, count, stdev — the same column may
   occur any number of times) and custom functions: key columns first, one row per distinct
   key in first-appearance order; each value the aggregate function applied to the raw
   values of the key's rows in ascending row order; and the custom functions were called
   exactly on each group's raw values (None included), once per group, in group order. *)
Theorem C12_aggregate_refines :
  forall (X T : Type) (xeq xleb : X -> X -> bool) (xz : X -> Z) (fmean fstdev : list X -> T)
         (F : nat -> list (cell X) -> rcell X T),
    (forall a, xeq a a = true) -> (forall a b, xeq a b = xeq b a) ->
    (forall a b c, xeq a b = true -> xeq b c = true -> xeq a c = true) ->
    forall t over a ov bs raps,
      resolve_args t over a = Ok (ov, bs) ->
      Forall (fun c => List.length c = nrows t) ov ->
      Forall (fun b => List.length (snd b) = nrows t) bs ->
      apply_resolved t (nrows t) (apply_entries a) raps ->
      let ks := row_keys ov (nrows t) in
      let fk := first_keys (keq xeq) ks in
      aggregate xeq xleb xz fmean fstdev F t over a
      = (Ok (spec_key_cols ov fk
             ++ spec_builtin_cols xeq (agg_fn xleb xz fmean fstdev) ks fk bs
             ++ spec_apply_cols xeq F ks fk raps),
         spec_calls xeq ks fk raps).
Proof. exact aggregate_refines. Qed.
Print Assumptions C12_aggregate_refines.

(* ... where each built-in is the textbook function of the group's non-None values in row
   order: sum and count exactly (over Z), min/max least/greatest for the order, mean/stdev
   the float functions of the cleaned list, None for an empty (stdev: one-element) list. *)
Theorem C12_builtins_are_textbook :
  forall (X T : Type) (xleb : X -> X -> bool) (xz : X -> Z) (fmean fstdev : list X -> T),
    (forall x y, xleb x y = true \/ xleb y x = true) ->
    (forall x y z, xleb x y = true -> xleb y z = true -> xleb x z = true) ->
    forall kind vals, agg_ok xleb xz fmean fstdev kind vals (agg_fn xleb xz fmean fstdev kind vals).
Proof. exact agg_fn_textbook. Qed.
Print Assumptions C12_builtins_are_textbook.

(* The custom functions: the call log, stated on its own (same hypotheses). *)
Theorem C12_apply_called_once_per_group_in_row_order :
  forall (X T : Type) (xeq xleb : X -> X -> bool) (xz : X -> Z) (fmean fstdev : list X -> T)
         (F : nat -> list (cell X) -> rcell X T),
    (forall a, xeq a a = true) -> (forall a b, xeq a b = xeq b a) ->
    (forall a b c, xeq a b = true -> xeq b c = true -> xeq a c = true) ->
    forall t over a ov bs raps,
      resolve_args t over a = Ok (ov, bs) ->
      Forall (fun c => List.length c = nrows t) ov ->
      Forall (fun b => List.length (snd b) = nrows t) bs ->
      apply_resolved t (nrows t) (apply_entries a) raps ->
      let ks := row_keys ov (nrows t) in
      snd (aggregate xeq xleb xz fmean fstdev F t over a)
      = flat_map (fun entry =>
                    map (fun k => (snd entry, gather (fst entry) (group_rows (keq xeq) ks k)))
                        (first_keys (keq xeq) ks)) raps.
Proof. exact apply_call_log. Qed.
Print Assumptions C12_apply_called_once_per_group_in_row_order.

(* Groups without a non-None value: 0 for sum and count, None otherwise; stdev of fewer
   than two values is None. *)
Theorem C12_empty_group_values :
  forall (X T : Type) (xleb : X -> X -> bool) (xz : X -> Z) (fmean fstdev : list X -> T) vals,
    let agg := agg_fn xleb xz fmean fstdev in
    (clean vals = [] ->
       agg ASum vals = RInt 0%Z /\ agg ACount vals = RInt 0%Z /\ agg AMean vals = RNone /\
       agg AMin vals = RNone /\ agg AMax vals = RNone /\ agg AStdev vals = RNone) /\
    (List.length (clean vals) <= 1 -> agg AStdev vals = RNone).
Proof. exact empty_group_values. Qed.
Print Assumptions C12_empty_group_values.

(* Key columns first (a projection of C12_aggregate_refines, for any result). *)
Theorem C12_key_columns_first :
  forall (X T : Type) (xeq xleb : X -> X -> bool) (xz : X -> Z) (fmean fstdev : list X -> T)
         (F : nat -> list (cell X) -> rcell X T),
    (forall a, xeq a a = true) -> (forall a b, xeq a b = xeq b a) ->
    (forall a b c, xeq a b = true -> xeq b c = true -> xeq a c = true) ->
    forall t n ov bs aps cols lg,
      aggregate_core xeq xleb xz fmean fstdev F t n ov bs aps = (Ok cols, lg) ->
      firstn (List.length ov) cols
      = spec_key_cols ov (first_keys (keq xeq) (row_keys ov n)).
Proof. exact aggregate_key_columns_first. Qed.
Print Assumptions C12_key_columns_first.

(* A whole-column reduction of a non-empty vector (in particular: one holding a non-None
   value) is the aggregate of that column over a constant key: a single group. *)
Theorem C12_reduction_is_single_group :
  forall (X T : Type) (xeq xleb : X -> X -> bool) (xz : X -> Z) (fmean fstdev : list X -> T)
         (F : nat -> list (cell X) -> rcell X T),
    (forall a, xeq a a = true) -> (forall a b, xeq a b = xeq b a) ->
    (forall a b c, xeq a b = true -> xeq b c = true -> xeq a c = true) ->
    forall t kind (data : list (cell X)) c,
      data <> [] ->
      aggregate_core xeq xleb xz fmean fstdev F t (List.length data)
                     [repeat c (List.length data)] [(kind, data)] []
      = (Ok [[rc c]; [vec_reduce xleb xz fmean fstdev kind data]], []).
Proof. exact reduction_is_single_group. Qed.
Print Assumptions C12_reduction_is_single_group.

(* Non-vacuity: interleaved groups, a None key, an all-None group, a composite key agreeing
   on one component; Z values with xeq = Z.eqb, tokens = the cleaned list itself. *)
Example C12_example :
  let k1 := [Some 1; None; Some 1; Some 2; None]%Z in
  let k2 := [Some 7; Some 7; Some 8; Some 7; Some 7]%Z in
  let d  := [Some 5; None; Some 3; None; None]%Z in
  let F := fun (fid : nat) (vals : list (cell Z)) => @RRaw Z (list Z) vals in
  let args := mkArgs (Some [KCol 2]) (Some [KCol 2]) None (Some [KCol 2; KCol 2]) None (Some [KCol 2])
                     (Some [(KCol 2, 0)]) in
  aggregate Z.eqb Z.leb (fun z => z) (fun l => l) (fun l => l) F [k1; k2; d] [KCol 0] args
  = (Ok [[RElem 1; RNone; RElem 2]%Z;
         [RInt 8; RInt 0; RInt 0]%Z;
         [RTok [5; 3]%Z; RNone; RNone];
         [RElem 5; RNone; RNone]%Z; [RElem 5; RNone; RNone]%Z;
         [RInt 2; RInt 0; RInt 0]%Z;
         [RRaw [Some 5; Some 3]%Z; RRaw [None; None]; RRaw [None]]],
     [(0, [Some 5; Some 3]%Z); (0, [None; None]); (0, [None])]) /\
  fst (aggregate Z.eqb Z.leb (fun z => z) (fun l => l) (fun l => l) F [k1; k2; d] [KCol 0; KVec k2]
                 (mkArgs (Some [KCol 2]) None None None None None None))
  = Ok [[RElem 1; RNone; RElem 1; RElem 2]%Z; [RElem 7; RElem 7; RElem 8; RElem 7]%Z;
        [RInt 5; RInt 0; RInt 3; RInt 0]%Z].
Proof. vm_compute. split; reflexivity. Qed.
