(* Props/C05.v — property C05: elementwise operations equal the Python scalar operation,
   shape preserved.  Statements only; every proof is [exact <lemma>].

   Everything holds for EVERY value type [val] and EVERY scalar semantics
   [scal : bop -> val -> val -> sres val] ("what Python computes for a <o> b": a value, a
   TypeError or another exception).  [vec_dunder scal d xs other] is the model of
   v.__X__(other) / v.__rX__(other) (Model/Elementwise.v); [elementwise_result] is the rule of
   the property text (Spec/Elementwise.v). *)
From Coq Require Import List Bool Arith ZArith.
From Serif Require Import Base.PyVal Model.Elementwise Spec.Elementwise Proofs.Elementwise.
Import ListNotations.

(* The result has the operand's length. *)
Theorem C05_binop_length : forall val (scal : bop -> val -> val -> sres val) d xs other l,
  vec_dunder scal d xs other = Ok l -> length l = length xs.
Proof. exact binop_length. Qed.
Print Assumptions C05_binop_length.

(* Element i is what Python computes for the i-th operands in the written order (None if
   either is None) — for all 14 dunders, for a vector, a plain sequence or a scalar on the
   other side. *)
Theorem C05_binop_nth : forall val (scal : bop -> val -> val -> sres val) d xs other l,
  vec_dunder scal d xs other = Ok l ->
  length l = length xs /\
  forall i, i < length xs ->
    lift2 (written scal d) (nth i xs None) (operand_nth other i) = SOk (nth i l None).
Proof. exact binop_nth. Qed.
Print Assumptions C05_binop_nth.

(* ... and whenever Python defines the scalar operation at every position and the lengths
   agree, the operation does return such a vector (no spurious error). *)
Theorem C05_binop_total : forall val (scal : bop -> val -> val -> sres val) d xs other,
  operand_fits (length xs) other ->
  defined_everywhere scal d xs other ->
  exists l, vec_dunder scal d xs other = Ok l /\ elementwise_result scal d xs other l.
Proof. exact binop_total. Qed.
Print Assumptions C05_binop_total.

(* Lengths that differ raise: nothing is truncated, recycled or broadcast — every dunder,
   vector and sequence operands alike. *)
Theorem C05_binop_len_mismatch_is_error :
  forall val (scal : bop -> val -> val -> sres val) d xs other,
  ~ operand_fits (length xs) other -> vec_dunder scal d xs other = ErrLen.
Proof. exact binop_len_mismatch_is_error. Qed.
Print Assumptions C05_binop_len_mismatch_is_error.

(* Reflected forms compute  s <o> x : the scalar stands on the left ... *)
Theorem C05_rbinop_operand_order : forall val (scal : bop -> val -> val -> sres val) o xs s l,
  vec_dunder scal (Refl o) xs (OScalar s) = Ok l ->
  length l = length xs /\
  forall i, i < length xs ->
    match nth i xs None with
    | Some a => sres_map Some (scal o s a)
    | None => SOk None
    end = SOk (nth i l None).
Proof. exact rbinop_operand_order_scalar. Qed.
Print Assumptions C05_rbinop_operand_order.

(* ... and so does the sequence element for  [..] <o> v . *)
Theorem C05_rbinop_operand_order_seq : forall val (scal : bop -> val -> val -> sres val) o xs ys l,
  vec_dunder scal (Refl o) xs (OSeq ys) = Ok l ->
  length l = length xs /\
  forall i, i < length xs -> lift2 (scal o) (nth i ys None) (nth i xs None) = SOk (nth i l None).
Proof. exact rbinop_operand_order_seq. Qed.
Print Assumptions C05_rbinop_operand_order_seq.

(* The dispatch table (data in Model/Elementwise.v): every dunder has a row, and every row
   passes a function that is the written operand order — each __rX__ is X with the operands
   swapped, __rmul__ included; __radd__ has its own body (covered by C05_binop_nth). *)
Theorem C05_dispatch_table_sound : forall val (scal : bop -> val -> val -> sres val) d,
  match lookup_route dispatch_table d with
  | Some (ViaElementwise g) => forall x y, apply_opfunc scal g x y = written scal d x y
  | Some OwnRadd => d = Refl Add
  | None => False
  end.
Proof. exact dispatch_table_sound. Qed.
Print Assumptions C05_dispatch_table_sound.

(* In particular  s * v  computes s * x even when Python's * does not commute on the operands
   (finding NEW-C05-1 of this check, repaired by /repo 4e17276; regress/F31.patch). *)
Theorem C05_rmul_written_order : forall val (scal : bop -> val -> val -> sres val) xs s l,
  vec_dunder scal (Refl Mul) xs (OScalar s) = Ok l ->
  elementwise_result scal (Refl Mul) xs (OScalar s) l.
Proof. exact rmul_written_order. Qed.
Print Assumptions C05_rmul_written_order.

(* Unary -, +, abs: element i is the operator applied to element i, None staying None;
   defined everywhere => a result. *)
Theorem C05_unop_nth : forall val (f : val -> sres (option val)) xs l,
  unary_operation f xs = Ok l ->
  length l = length xs /\
  forall i, i < length xs ->
    match nth i xs None with
    | None => nth i l None = None
    | Some a => f a = SOk (nth i l None)
    end.
Proof. exact unop_ok. Qed.
Print Assumptions C05_unop_nth.

Theorem C05_unop_total : forall val (f : val -> sres (option val)) xs,
  defined_on f xs -> exists l, unary_operation f xs = Ok l /\ mapped_result f xs l.
Proof. exact unop_total. Qed.
Print Assumptions C05_unop_total.

(* Table with a non-table right operand = the vector operation on every column ... *)
Theorem C05_table_scalar_is_map :
  forall val (scal : bop -> val -> val -> sres val) o cols x outs,
  table_operation scal o cols (TOther x) = TOk outs ->
  length outs = length cols /\
  forall j, j < length cols -> nth j outs ErrRaise = vec_dunder scal (Plain o) (nth j cols []) x.
Proof. exact table_other_is_map. Qed.
Print Assumptions C05_table_scalar_is_map.

(* ... which does succeed on a rectangular table whose column operations succeed ... *)
Theorem C05_table_scalar_total :
  forall val (scal : bop -> val -> val -> sres val) o cols x n,
  rectangular cols n ->
  (forall c, In c cols -> exists l, vec_dunder scal (Plain o) c x = Ok l) ->
  exists outs, table_operation scal o cols (TOther x) = TOk outs.
Proof. exact table_other_total. Qed.
Print Assumptions C05_table_scalar_total.

(* ... table with table = the vector operation on the zip of the columns ... *)
Theorem C05_table_table_is_zip :
  forall val (scal : bop -> val -> val -> sres val) o cols rcols outs,
  table_operation scal o cols (TTable rcols) = TOk outs ->
  length cols = length rcols /\ length outs = length cols /\
  forall j, j < length cols ->
    nth j outs ErrRaise = vec_dunder scal (Plain o) (nth j cols []) (OVec (nth j rcols [])).
Proof. exact table_table_is_zip. Qed.
Print Assumptions C05_table_table_is_zip.

(* ... and a width mismatch is an error. *)
Theorem C05_table_width_mismatch_is_error :
  forall val (scal : bop -> val -> val -> sres val) o cols rcols,
  length cols <> length rcols -> table_operation scal o cols (TTable rcols) = TErr.
Proof. exact table_width_mismatch. Qed.
Print Assumptions C05_table_width_mismatch_is_error.

(* Broadcast methods and properties — explicit wrapper, MethodProxy loop or property
   generator alike: element i of the result is the method applied to element i, None staying
   None, at every length. *)
Theorem C05_broadcast_nth : forall val r (m : val -> sres (option val)) xs l,
  broadcast r m xs = Ok l ->
  length l = length xs /\
  forall i, i < length xs ->
    match nth i xs None with
    | None => nth i l None = None
    | Some a => m a = SOk (nth i l None)
    end.
Proof. exact broadcast_ok. Qed.
Print Assumptions C05_broadcast_nth.

Theorem C05_broadcast_total : forall val r (m : val -> sres (option val)) xs,
  r <> RAttributeError -> defined_on m xs ->
  exists l, broadcast r m xs = Ok l /\ mapped_result m xs l.
Proof. exact broadcast_total. Qed.
Print Assumptions C05_broadcast_total.

(* which names broadcast: an explicit wrapper, or any attribute of the element class of a
   typed, non-object vector *)
Theorem C05_broadcast_reachable : forall explicit k a,
  resolve explicit k a <> RAttributeError <->
  explicit = true \/ (exists kd, k = Some kd /\ kd <> KObject /\ a <> AMissing).
Proof. exact resolve_broadcasts. Qed.
Print Assumptions C05_broadcast_reachable.

(* dates + days: ordinal + days, None staying None; the result is a valid date. *)
Theorem C05_date_add_days : forall xs n l,
  date_add xs (DInt n) = DOk l ->
  length l = length xs /\
  forall i, i < length xs ->
    nth i l None = plus_days (nth i xs None) (Some n) /\
    (forall m, nth i l None = Some m -> valid_ordinal m).
Proof. exact date_add_int_ok. Qed.
Print Assumptions C05_date_add_days.

Theorem C05_date_add_days_vector : forall xs ys l,
  date_add xs (DVec (Some KInt) ys) = DOk l ->
  length xs = length ys /\ length l = length xs /\
  forall i, i < length xs ->
    nth i l None = plus_days (nth i xs None) (nth i ys None) /\
    (forall m, nth i l None = Some m -> valid_ordinal m).
Proof. exact date_add_vec_ok. Qed.
Print Assumptions C05_date_add_days_vector.

Theorem C05_date_add_len_mismatch_is_error : forall xs ys,
  length xs <> length ys -> date_add xs (DVec (Some KInt) ys) = DErrLen.
Proof. exact date_add_vec_mismatch. Qed.
Print Assumptions C05_date_add_len_mismatch_is_error.

Theorem C05_date_add_days_total : forall xs n,
  (forall a, In (Some a) xs -> valid_ordinal (a + n)) -> exists l, date_add xs (DInt n) = DOk l.
Proof. exact date_add_int_total. Qed.
Print Assumptions C05_date_add_days_total.

(* Non-vacuity: a concrete non-commutative world (a - b on small numbers, "raise" below 0). *)
Definition ex_scal (o : bop) (a b : nat) : sres nat :=
  match o with
  | Sub => if b <=? a then SOk (a - b) else SRaise
  | Add => SOk (a + b)
  | _ => STypeErr
  end.
Example C05_example_operand_order :
  vec_dunder ex_scal (Plain Sub) [Some 5; None; Some 7] (OScalar 2) = Ok [Some 3; None; Some 5] /\
  vec_dunder ex_scal (Refl Sub) [Some 5; None; Some 7] (OScalar 9) = Ok [Some 4; None; Some 2] /\
  vec_dunder ex_scal (Refl Sub) [Some 1; Some 2] (OSeq [Some 5; None]) = Ok [Some 4; None] /\
  vec_dunder ex_scal (Plain Sub) [Some 1; Some 2] (OVec [Some 5]) = ErrLen /\
  vec_dunder ex_scal (Plain Sub) [Some 1] (OScalar 2) = ErrRaise /\
  vec_dunder ex_scal (Plain Mul) [Some 1; None] (OVec [Some 2; Some 3])
    = OkPairs [(Some 1, Some 2); (None, Some 3)] /\
  vec_dunder ex_scal (Plain Mul) [Some 1] (OScalar 2) = ErrType /\
  table_operation ex_scal Add [[Some 1; None]; [Some 3; Some 4]] (TOther (OScalar 10))
    = TOk [Ok [Some 11; None]; Ok [Some 13; Some 14]] /\
  table_operation ex_scal Add [[Some 1]; [Some 3]] (TTable [[Some 1]]) = TErr /\
  vec_dunder left_biased (Refl Mul) [Some true; None] (OScalar false) = Ok [Some false; None] /\
  vec_dunder left_biased (Plain Mul) [Some true; None] (OScalar false) = Ok [Some true; None] /\
  date_add [Some 737425%Z; None] (DInt 31) = DOk [Some 737456%Z; None] /\
  date_add [] (DVec None []) = DSuper /\
  date_add [Some 3652059%Z] (DInt 1) = DErrRaise.
Proof. vm_compute. repeat split. Qed.
