(* Props/C11.v — property C11: join cardinality expectations are enforced exactly.
   Statements only; every proof is [exact <lemma>].

   [expectation_broken e L R prs]: e needs unique right keys and two right rows have == key
   tuples, or e needs unique left keys and two left rows have == key tuples (over ALL rows,
   matched or not).  needs_right_unique = {one_to_one, many_to_one},
   needs_left_unique = {one_to_one, one_to_many}  (Spec/Join.v). *)
From Coq Require Import List Bool Arith String.
From Serif Require Import Base.PyVal Spec.Join Model.Join Proofs.Join.
Import ListNotations.
Open Scope string_scope.

(* For a valid expect value and an accepted key specification, each join raises
   SerifValueError if and only if a required uniqueness fails. *)
Theorem C11_expect_raises_iff : forall V (veq : V -> V -> bool), eq_equivalence veq ->
  forall e L R lon ron prs,
  valid_expect e = true -> validate_join_keys V L R lon ron = Ok prs ->
  (inner_join V veq e L R lon ron = Err EValue <-> expectation_broken V veq e L R prs) /\
  (left_join V veq e L R lon ron = Err EValue <-> expectation_broken V veq e L R prs) /\
  (full_join V veq e L R lon ron = Err EValue <-> expectation_broken V veq e L R prs).
Proof. exact expect_raises_iff_closed. Qed.
Print Assumptions C11_expect_raises_iff.

(* Any other expect value is always rejected (before anything else is looked at). *)
Theorem C11_bad_expect_rejected : forall V (veq : V -> V -> bool), eq_equivalence veq ->
  forall e L R lon ron,
  valid_expect e = false ->
  inner_join V veq e L R lon ron = Err EValue /\
  left_join V veq e L R lon ron = Err EValue /\
  full_join V veq e L R lon ron = Err EValue.
Proof. exact bad_expect_rejected_closed. Qed.
Print Assumptions C11_bad_expect_rejected.

(* When the expectation holds, the result is identical to the 'many_to_many' result
   (also when the key specification is refused: the same error). *)
Theorem C11_expect_ok_same_as_many_to_many : forall V (veq : V -> V -> bool), eq_equivalence veq ->
  forall e L R lon ron,
  valid_expect e = true ->
  (forall prs, validate_join_keys V L R lon ron = Ok prs -> expectation_met V veq e L R prs) ->
  inner_join V veq e L R lon ron = inner_join V veq "many_to_many" L R lon ron /\
  left_join V veq e L R lon ron = left_join V veq "many_to_many" L R lon ron /\
  full_join V veq e L R lon ron = full_join V veq "many_to_many" L R lon ron.
Proof. exact expect_ok_same_closed. Qed.
Print Assumptions C11_expect_ok_same_as_many_to_many.

(* 'many_to_many' demands nothing, and the four names mean what they say. *)
Theorem C11_expect_table :
  (needs_left_unique "one_to_one", needs_right_unique "one_to_one") = (true, true) /\
  (needs_left_unique "many_to_one", needs_right_unique "many_to_one") = (false, true) /\
  (needs_left_unique "one_to_many", needs_right_unique "one_to_many") = (true, false) /\
  (needs_left_unique "many_to_many", needs_right_unique "many_to_many") = (false, false) /\
  forall e, valid_expect e = true <->
            e = "one_to_one" \/ e = "many_to_one" \/ e = "one_to_many" \/ e = "many_to_many".
Proof. exact expect_table. Qed.
Print Assumptions C11_expect_table.

(* Non-vacuity: the README's lookup example (repeated left keys, default many_to_one) is
   accepted by the left join, one_to_many rejects it, duplicates among unmatched right rows
   only are still duplicates. *)
Example C11_example :
  let c n vs := mkCol (Some n) (Some KInt) (map (fun x => match x with 0 => None | S v => Some v end) vs) in
  let L := [c "k" [1; 1; 2]; c "a" [10; 11; 12]] in
  let R := [c "k" [1; 2; 5]; c "b" [20; 21; 22]] in
  let R2 := [c "k" [1; 2; 5; 5]; c "b" [20; 21; 22; 23]] in
  let on := [ByName nat "k"] in
  (exists T, left_join nat Nat.eqb "many_to_one" L R on on = Ok T) /\
  left_join nat Nat.eqb "one_to_many" L R on on = Err EValue /\
  left_join nat Nat.eqb "one_to_one" L R on on = Err EValue /\
  (exists T, left_join nat Nat.eqb "one_to_many" R L on on = Ok T) /\
  inner_join nat Nat.eqb "many_to_one" L R2 on on = Err EValue /\
  (exists T, inner_join nat Nat.eqb "one_to_many" R L on on = Ok T) /\
  full_join nat Nat.eqb "Many_to_many" L R on on = Err EValue.
Proof. repeat split; try (vm_compute; reflexivity); eexists; vm_compute; reflexivity. Qed.
