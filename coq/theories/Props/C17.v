(* Props/C17.v — property C17: every column is reachable by exactly one advertised,
   valid accessor name.  Statements only; every proof is [exact <lemma>] (plus the
   unpacking of the executable side condition on the reserved set).

   [reserved] is the set read from dir(Vector), dir(Table) at run time; the side condition
   [reserved_ok reserved = true] (no reserved r with r ++ "_" reserved or of the form colN_)
   is evaluated on that very set by the correspondence check (Corr/C17.v, [CReserved]). *)
From Coq Require Import List Bool Arith Ascii String.
From Serif Require Import Model.Naming Proofs.Naming.
Import ListNotations.

(* ---- the sanitizer ---------------------------------------------------------- *)
(* A sanitized name is a non-empty word over [a-z0-9_] that starts with a letter. *)
Theorem C17_sanitize_valid_identifier : forall reserved t out,
  sanitize reserved t = Some out ->
  forallb is_ok out = true /\ exists c r, out = c :: r /\ is_lower c = true.
Proof. exact sanitize_valid. Qed.
Print Assumptions C17_sanitize_valid_identifier.

(* ... never a public Vector/Table method or property, *)
Theorem C17_sanitize_not_reserved : forall reserved t out,
  reserved_ok reserved = true -> sanitize reserved t = Some out -> ~ In out reserved.
Proof.
  intros reserved t out Hok. exact (sanitize_not_reserved reserved t out (proj1 (reserved_ok_spec _ Hok))).
Qed.
Print Assumptions C17_sanitize_not_reserved.

(* ... never of the name__N form that attribute access reads as an indexed accessor, *)
Theorem C17_sanitize_not_indexed_form : forall reserved t out,
  sanitize reserved t = Some out -> matches_indexed out = false.
Proof. exact sanitize_not_indexed. Qed.
Print Assumptions C17_sanitize_not_indexed_form.

(* ... and a fixed point of the sanitizer (sanitizing an accessor gives it back). *)
Theorem C17_sanitize_idempotent : forall reserved t out,
  sanitize reserved t = Some out -> sanitize reserved out = Some out.
Proof. exact sanitize_idem. Qed.
Print Assumptions C17_sanitize_idempotent.

(* Documented rules.  (a) A name that is already a clean identifier — [a-z0-9_] only, first
   character a letter, no trailing underscore, not of the name__N form, not reserved — is kept. *)
Theorem C17_rule_clean_name_kept : forall reserved x,
  core x -> matches_indexed x = false -> ~ In x reserved -> sanitize reserved x = Some x.
Proof. exact sanitize_clean_identity. Qed.
Print Assumptions C17_rule_clean_name_kept.

(* (b) The sanitizer gives up (and the column becomes colN_) exactly when the lowered name has
   no ASCII letter or digit: empty, only symbols, only underscores, only non-ASCII. *)
Theorem C17_rule_none_iff_no_alnum : forall reserved t,
  sanitize reserved t = None <-> forallb (fun c => negb (alnum c)) t = true.
Proof. exact sanitize_none_iff. Qed.
Print Assumptions C17_rule_none_iff_no_alnum.

(* (c) Shape: the output is a body — every run of other characters collapsed to one "_", outer
   underscores stripped, "c" put before a leading digit — followed by at most the two "_" of
   the name__N rule and the reserved-name rule. *)
Theorem C17_rule_shape : forall reserved t out,
  sanitize reserved t = Some out ->
  exists body, core body /\ out = suffix_rules reserved body /\
    exists u, out = body ++ u /\ forallb is_us u = true.
Proof.
  intros reserved t out H. destruct (sanitize_view _ _ _ H) as [x1 [Hc Ho]].
  exists x1. split; [exact Hc|]. split; [exact Ho|].
  destruct (suffix_rules_shape reserved x1) as [u [Hs Hu]]. exists u. rewrite Ho. auto.
Qed.
Print Assumptions C17_rule_shape.

(* ---- the accessors of a table ------------------------------------------------ *)
(* The accessor of column i is colN_ for an unnamed / unsanitizable name, else the sanitized
   name, or sanitized name + "__i" ("_i" after a trailing underscore) for a repeat. *)
Theorem C17_accessor_shape : forall reserved names i, i < List.length names ->
  let a := nth i (headers reserved names) [] in
  match nth i names None with
  | None => a = colN i
  | Some tx => match sanitize reserved tx with
               | None => a = colN i
               | Some base => a = base \/ a = dup_name base i
               end
  end.
Proof. exact headers_nth. Qed.
Print Assumptions C17_accessor_shape.

(* Pairwise distinct, for every name list (reserved words, names that look like generated
   accessors, any duplication pattern, any width). *)
Theorem C17_accessors_NoDup : forall reserved names,
  reserved_ok reserved = true -> NoDup (headers reserved names).
Proof.
  intros reserved names Hok. exact (headers_NoDup reserved (proj2 (reserved_ok_spec _ Hok)) names).
Qed.
Print Assumptions C17_accessors_NoDup.

(* The column map of table.py has exactly one entry per column: accessor i -> i. *)
Theorem C17_map_is_accessors : forall reserved names,
  reserved_ok reserved = true ->
  build_map reserved names = combine (headers reserved names) (seq 0 (List.length names)).
Proof.
  intros reserved names Hok. exact (build_map_combine reserved (proj2 (reserved_ok_spec _ Hok)) names).
Qed.
Print Assumptions C17_map_is_accessors.

(* dir(t) advertises exactly the accessors (table.py's map and display.py's header walk agree). *)
Theorem C17_dir_is_accessors : forall reserved names,
  reserved_ok reserved = true -> dir_cols reserved names = headers reserved names.
Proof.
  intros reserved names Hok. exact (dir_is_headers reserved (proj2 (reserved_ok_spec _ Hok)) names).
Qed.
Print Assumptions C17_dir_is_accessors.

(* The dot row of the repr shows, for each displayed column, "." + that column's accessor. *)
Theorem C17_repr_dot_row_is_accessors : forall reserved names row,
  reserved_ok reserved = true ->
  repr_dot_row reserved names = Some row ->
  let n := List.length names in
  let cells := map (fun i => "."%char :: nth i (dir_cols reserved names) []) (shown_indices n) in
  row = if 10 <? n then firstn 5 cells ++ [dots] ++ skipn 5 cells else cells.
Proof.
  intros reserved names row Hok.
  exact (repr_dot_row_cells reserved (proj2 (reserved_ok_spec _ Hok)) names row).
Qed.
Print Assumptions C17_repr_dot_row_is_accessors.

(* Each advertised accessor resolves by attribute access to the column at its own position *)
Theorem C17_accessor_resolves_to_own_position : forall reserved names i,
  reserved_ok reserved = true -> i < List.length names ->
  resolve reserved names (nth i (headers reserved names) []) = Some i.
Proof.
  intros reserved names i Hok. exact (resolve_own reserved (proj2 (reserved_ok_spec _ Hok)) names i).
Qed.
Print Assumptions C17_accessor_resolves_to_own_position.

(* ... and as a column key in item assignment / as a Row attribute. *)
Theorem C17_setitem_key_resolves_same : forall reserved names i,
  reserved_ok reserved = true -> i < List.length names ->
  setitem_key reserved names (nth i (headers reserved names) []) = Some i /\
  row_attr reserved names (nth i (headers reserved names) []) = Some i.
Proof.
  intros reserved names i Hok Hi.
  split; exact (map_lookup_own reserved (proj2 (reserved_ok_spec _ Hok)) names i Hi).
Qed.
Print Assumptions C17_setitem_key_resolves_same.

(* String indexing by a stored name resolves to its first occurrence. *)
Theorem C17_getitem_str_first_occurrence : forall reserved cs i klow,
  i < List.length cs ->
  (forall j, j < i -> nid (nth j cs (mkN 0 None)) <> nid (nth i cs (mkN 0 None))) ->
  getitem_str reserved cs (nid (nth i cs (mkN 0 None))) klow = Some i.
Proof. exact getitem_first. Qed.
Print Assumptions C17_getitem_str_first_occurrence.

(* ---- histories ----------------------------------------------------------------- *)
(* After any sequence of rename_column / rename_columns / renames through live views /
   column replacements / >> appends / lookups / repr — and dir() provided __dir__ stores the
   map it builds — the map a consumer obtains equals build_map of the current names. *)
Theorem C17_cmap_fresh_on_use : forall reserved dir_stores ns h,
  (In ODir h -> dir_stores = true) ->
  let st := run reserved dir_stores (init reserved ns) h in
  consulted reserved st = build_map reserved (names_of st).
Proof. intros reserved ds ns h Hd. exact (cmap_fresh reserved ds ns h Hd). Qed.
Print Assumptions C17_cmap_fresh_on_use.

(* Hence every consumer — getattr, Row attribute, item assignment, attribute assignment —
   sends each accessor advertised for the current names to its own column. *)
Theorem C17_history_accessor_resolves : forall reserved dir_stores ns h i,
  reserved_ok reserved = true -> (In ODir h -> dir_stores = true) ->
  let st := run reserved dir_stores (init reserved ns) h in
  i < List.length (cols st) ->
  let a := nth i (headers reserved (names_of st)) [] in
  snd (step reserved dir_stores st (OGetattr a)) = RIdx i /\
  snd (step reserved dir_stores st (ORow a)) = RIdx i /\
  snd (step reserved dir_stores st (OSetitem a)) = RIdx i /\
  snd (step reserved dir_stores st (OReplace a)) = RIdx i.
Proof.
  intros reserved ds ns h i Hok Hd st Hi.
  apply (probes_own reserved (proj2 (reserved_ok_spec _ Hok)) ds st i); [|exact Hi].
  apply run_inv; [exact Hd|apply init_inv].
Qed.
Print Assumptions C17_history_accessor_resolves.

(* FALSE of the current tree when dir() is in the history: __dir__ calls _build_column_map(),
   which marks every column tame, and drops the map it built; the wild flag — the only signal
   to refresh — is lost.  Witness: t.a.name = 'z'; dir(t); then t.z raises. *)
Theorem C17_cmap_fresh_after_dir_refuted : exists reserved ns h,
  let st := run reserved false (init reserved ns) h in
  consulted reserved st <> build_map reserved (names_of st) /\
  snd (step reserved false st (OGetattr (nth 0 (headers reserved (names_of st)) []))) = RFail.
Proof.
  exists [], [mkN 0 (Some (s "a")); mkN 1 (Some (s "b"))], [OView 0 (mkN 2 (Some (s "z"))); ODir].
  exact dir_breaks_freshness.
Qed.
Print Assumptions C17_cmap_fresh_after_dir_refuted.

(* Lookups, dir, repr and column replacement never alter the stored names. *)
Theorem C17_lookups_keep_stored_names : forall reserved dir_stores st o,
  match o with ORename _ _ | ORenames _ _ | OView _ _ | OAppend _ => False | _ => True end ->
  cnames_of (fst (step reserved dir_stores st o)) = cnames_of st.
Proof. intros reserved ds st o. exact (probe_keeps_names reserved ds st o). Qed.
Print Assumptions C17_lookups_keep_stored_names.

(* ---- non-vacuity ------------------------------------------------------------------ *)
Local Open Scope string_scope.
Definition ex_reserved : list str := map s ["copy"; "sum"; "name"; "t"; "cols"; "column_names"].
Example C17_example_reserved_ok : reserved_ok ex_reserved = true.
Proof. vm_compute. reflexivity. Qed.
Example C17_example_sanitize :
  map (sanitize ex_reserved) (map s ["total sales"; "__a__"; "3d"; "a__2"; "copy"; "$$"; "cols"; "col3_"; "t"])
  = map (fun x => match x with "" => None | _ => Some (s x) end)
        ["total_sales"; "a"; "c3d"; "a__2_"; "copy_"; ""; "cols_"; "col3"; "t_"].
Proof. vm_compute. reflexivity. Qed.
Example C17_example_accessors :
  let names := [Some (s "a"); Some (s "a"); None; Some (s "a__1"); Some (s "copy"); Some (s "copy"); Some (s "$")] in
  headers ex_reserved names = map s ["a"; "a__1"; "col2_"; "a__1_"; "copy_"; "copy__5"; "col6_"] /\
  map (resolve ex_reserved names) (headers ex_reserved names) = map Some (seq 0 7).
Proof. vm_compute. split; reflexivity. Qed.
