From Serif Require Import Base.PyVal Model.Heap.
Theorem C16_placeholder : True. Proof. exact I. Qed.
Print Assumptions C16_placeholder.
