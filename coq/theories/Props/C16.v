(* Props/C16.v — fingerprints track content: never stale, and they notice every change. *)
From Coq Require Import List Bool ZArith.
From Serif Require Import Base.PyVal Model.Heap Proofs.HeapBase Proofs.HeapReg Proofs.HeapFrame
                          Proofs.Fingerprint Proofs.HeapFp.
Import ListNotations.

(* Memo coherence in every reachable state: a cached vector fingerprint always equals the
   fingerprint of the current contents (every write path resets it). *)
Theorem C16_memo_never_stale : forall os, Inv_fp (run init os).
Proof. exact (fun os => reachable_Inv_fp os init Inv_fp_init). Qed.
Print Assumptions C16_memo_never_stale.

Theorem C16_memo_invariant_preserved : forall s o s' out, step s o = (s', out) -> Inv_fp s -> Inv_fp s'.
Proof. exact step_preserves_Inv_fp. Qed.
Print Assumptions C16_memo_invariant_preserved.

(* fingerprint() is a function of current contents only, for vectors and for tables, whether or
   not it had been called (and cached) earlier ... *)
Theorem C16_fingerprint_is_function_of_contents : forall s h s' x,
  Inv_fp s -> step s (OFp h) = (s', OkFp x) -> fp_of s h = Some x.
Proof. exact fingerprint_is_function_of_contents. Qed.
Print Assumptions C16_fingerprint_is_function_of_contents.

(* ... so it equals the fingerprint of ANY object with the same contents in ANY state — in
   particular of a freshly built vector or table. *)
Theorem C16_same_contents_same_fingerprint : forall s1 h1 s2 h2,
  contents s1 h1 = contents s2 h2 -> is_table s1 h1 = is_table s2 h2 -> contents s1 h1 <> None ->
  fp_of s1 h1 = fp_of s2 h2.
Proof. exact same_contents_same_fingerprint. Qed.
Print Assumptions C16_same_contents_same_fingerprint.

(* read-only operations never change it *)
Theorem C16_readonly_keeps_fingerprint : forall s o s' out h,
  Inv_own s -> step s o = (s', out) -> touched s o = [] -> collected o = [] ->
  aget (heap s) h <> None -> fp_of s' h = fp_of s h.
Proof. exact readonly_keeps_fingerprint. Qed.
Print Assumptions C16_readonly_keeps_fingerprint.

(* Sensitivity (the part that is true): changing one element to a value whose hash differs
   MODULO 2^61-1 changes the fingerprint of the vector ... *)
Theorem C16_write_changes_vector_fingerprint : forall s h i b sid' s' v,
  getv s h = Some v -> step s (OSetV h [(i, b)] sid') = (s', Ok) ->
  ((hash_elem (nth i (vals v) SNone) - hash_elem b) mod FP_P <> 0)%Z ->
  fp_of s' h <> fp_of s h.
Proof. exact write_changes_vector_fingerprint. Qed.
Print Assumptions C16_write_changes_vector_fingerprint.

(* ... and of every table containing it, *)
Theorem C16_write_changes_table_fingerprint : forall s h i b sid' s' v ht t c1 c2,
  getv s h = Some v -> gett s ht = Some t -> cols t = c1 ++ h :: c2 -> ~ In h c1 -> ~ In h c2 ->
  step s (OSetV h [(i, b)] sid') = (s', Ok) ->
  ((hash_elem (nth i (vals v) SNone) - hash_elem b) mod FP_P <> 0)%Z ->
  fp_of s' ht <> fp_of s ht.
Proof. exact write_changes_table_fingerprint. Qed.
Print Assumptions C16_write_changes_table_fingerprint.

(* ... and element order matters. *)
Theorem C16_element_order_matters : forall l1 a b l2,
  ((hash_elem a - hash_elem b) mod FP_P <> 0)%Z ->
  fp_vals (l1 ++ a :: b :: l2) <> fp_vals (l1 ++ b :: a :: l2).
Proof. exact fp_vals_order_matters. Qed.
Print Assumptions C16_element_order_matters.

(* The property as literally stated — every change between values that hash() tells apart is
   noticed — is FALSE of the faithful model (and of the code: known finding KF1): the
   fingerprint only sees element hashes modulo 2^61-1. *)
Definition C16_sensitivity_statement : Prop :=
  forall l1 a b l2, hash_elem a <> hash_elem b -> fp_vals (l1 ++ a :: l2) <> fp_vals (l1 ++ b :: l2).
Theorem C16_sensitivity_refuted :
  exists a b, hash_elem a <> hash_elem b /\ fp_vals [SInt 5; a; SInt 7] = fp_vals [SInt 5; b; SInt 7].
Proof. exact fp_hash_distinct_refuted. Qed.
Print Assumptions C16_sensitivity_refuted.

Example C16_example :
  let os := [ ONewTab 3 [CLit [SInt 1; SInt 2] (Some 1); CLit [SNone; SInt 4] (Some 2)] [1; 2] [5; 6] 7;
              OFp 3; OSetV 1 [(0, SInt 99)] 8 ] in
  let s := run init os in
  (* the table memo is stale-proof: the next call recombines the columns *)
  snd (step s (OFp 3)) = OkFp (fp_hashes [fp_vals [SInt 99; SInt 2]; fp_vals [SNone; SInt 4]]) /\
  option_map vfp (getv s 1) = Some None /\ option_map vfp (getv s 2) = Some (Some (fp_vals [SNone; SInt 4])).
Proof. vm_compute. repeat split. Qed.
