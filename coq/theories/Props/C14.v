(* Props/C14.v — property C14: sorting is a stable permutation with direction-independent
   None placement.  Statements only; every proof is [exact <lemma>].

   Reading guide.  [vleb] is Python's order on the non-None values of one key column
   (hypothesis: a total preorder).  [table_sort_by] / [vector_sort_by] are the models of
   Table.sort_by / Vector.sort_by (Model/Sort.v); [sort_indices] is the index list the
   method builds; [gather p c] = [c[i] for i in p].  [row_before nl ks lt i j]
   (Spec/Sort.v): row i precedes row j lexicographically over the keys [ks], each in its
   own direction, None after every value (before, when nl = false) in EITHER direction,
   full ties by input position. *)
From Coq Require Import List Bool Arith ZArith Sorted Permutation.
From Serif Require Import Model.Sort Spec.Sort Proofs.Sort.
Import ListNotations.

(* Every row exactly once, cells kept together: one permutation p of the row numbers
   rebuilds every column. *)
Theorem C14_sort_permutation :
  forall (V : Type) (vleb : V -> V -> bool) t by_ rv nl out,
    table_sort_by vleb t by_ rv nl = Ok out ->
    exists p, Permutation (seq 0 (nrows t)) p /\ out = map (gather p) t.
Proof. exact table_sort_permutation. Qed.
Print Assumptions C14_sort_permutation.

(* Lexicographic in the keys, each in its own direction; rows tying on all keys keep
   their input order — for ascending and descending keys alike, any number of keys. *)
Theorem C14_sort_lexicographic_stable :
  forall (V : Type) (vleb : V -> V -> bool),
    (forall x y, vleb x y = true \/ vleb y x = true) ->
    (forall x y z, vleb x y = true -> vleb y z = true -> vleb x z = true) ->
    forall t by_ rv nl out,
      table_sort_by vleb t by_ rv nl = Ok out ->
      exists ks p, resolve_keys t by_ rv = Ok ks /\ out = map (gather p) t /\
                   Permutation (seq 0 (nrows t)) p /\
                   StronglySorted (row_before vleb nl ks lt) p.
Proof. exact table_sort_lex_stable. Qed.
Print Assumptions C14_sort_lexicographic_stable.

(* The same for the index list itself, for any key list. *)
Theorem C14_sort_indices_sorted :
  forall (V : Type) (vleb : V -> V -> bool),
    (forall x y, vleb x y = true \/ vleb y x = true) ->
    (forall x y z, vleb x y = true -> vleb y z = true -> vleb x z = true) ->
    forall nl ks n,
      Permutation (seq 0 n) (sort_indices vleb nl ks n) /\
      StronglySorted (row_before vleb nl ks lt) (sort_indices vleb nl ks n).
Proof.
  exact (fun V vleb tot tr nl ks n =>
           conj (sort_indices_perm V vleb nl ks n) (sort_indices_sorted V vleb tot tr nl ks n)).
Qed.
Print Assumptions C14_sort_indices_sorted.

(* The resolved keys are the named columns / the given vectors (so the order above is an
   order on the caller's data), each of the table's length, paired with its own flag. *)
Theorem C14_resolved_keys_are_the_given_columns :
  forall (V : Type) (t : table V) n by_ cols,
    resolve t n by_ = Ok cols ->
    Forall2 (fun spec col =>
               match spec with KCol j => nth_error t j = Some col | KVec d => col = d end
               /\ List.length col = n) by_ cols.
Proof. exact resolve_spec. Qed.
Print Assumptions C14_resolved_keys_are_the_given_columns.

(* The property determines the output: any arrangement that is a permutation and is
   ordered as stated IS what sort_by returns. *)
Theorem C14_sort_unique :
  forall (V : Type) (vleb : V -> V -> bool),
    (forall x y, vleb x y = true \/ vleb y x = true) ->
    (forall x y z, vleb x y = true -> vleb y z = true -> vleb x z = true) ->
    forall t by_ rv nl out ks p,
      table_sort_by vleb t by_ rv nl = Ok out -> resolve_keys t by_ rv = Ok ks ->
      Permutation (seq 0 (nrows t)) p -> StronglySorted (row_before vleb nl ks lt) p ->
      out = map (gather p) t.
Proof. exact table_sort_unique. Qed.
Print Assumptions C14_sort_unique.

(* None keys come last (na_last) / first (not na_last) on the leading key, whatever its
   direction [snd k]: in the output, once a None key has appeared only None keys follow
   (resp. a None key is preceded only by None keys). *)
Theorem C14_none_last_any_direction :
  forall (V : Type) (vleb : V -> V -> bool),
    (forall x y, vleb x y = true \/ vleb y x = true) ->
    (forall x y z, vleb x y = true -> vleb y z = true -> vleb x z = true) ->
    forall nl k ks n a b,
      let p := sort_indices vleb nl (k :: ks) n in
      a < b -> b < n ->
      (nl = true -> kcell k (nth a p 0) = None -> kcell k (nth b p 0) = None) /\
      (nl = false -> kcell k (nth b p 0) = None -> kcell k (nth a p 0) = None).
Proof. exact none_placement. Qed.
Print Assumptions C14_none_last_any_direction.

(* Sorting a sorted table changes nothing (keys given by column name, so that the second
   call sees the permuted key columns). *)
Theorem C14_sort_idempotent :
  forall (V : Type) (vleb : V -> V -> bool),
    (forall x y, vleb x y = true \/ vleb y x = true) ->
    (forall x y z, vleb x y = true -> vleb y z = true -> vleb x z = true) ->
    forall t by_ rv nl out,
      (forall spec, In spec by_ -> exists j, spec = KCol j) ->
      table_sort_by vleb t by_ rv nl = Ok out -> table_sort_by vleb out by_ rv nl = Ok out.
Proof. exact table_sort_idempotent. Qed.
Print Assumptions C14_sort_idempotent.

(* ... and for keys of any origin: once the keys are permuted along with the rows, the
   index list the method computes is the identity. *)
Theorem C14_sort_idempotent_indices :
  forall (V : Type) (vleb : V -> V -> bool),
    (forall x y, vleb x y = true \/ vleb y x = true) ->
    (forall x y z, vleb x y = true -> vleb y z = true -> vleb x z = true) ->
    forall nl ks n,
      let p := sort_indices vleb nl ks n in
      sort_indices vleb nl (permute_keys V p ks) n = seq 0 n.
Proof. exact sort_idempotent. Qed.
Print Assumptions C14_sort_idempotent_indices.

(* The input is not modified: the method only reads self and the key vectors.  (In the
   functional model this is by construction; that the implementation agrees is checked by
   the correspondence run, which observes the table and the key vectors after the call.) *)
Theorem C14_sort_input_unchanged :
  forall (V : Type) (vleb : V -> V -> bool) t by_ rv nl,
    self_after (table_sort_by_call vleb t by_ rv nl) = t /\
    by_after (table_sort_by_call vleb t by_ rv nl) = by_ /\
    result (table_sort_by_call vleb t by_ rv nl) = table_sort_by vleb t by_ rv nl.
Proof. exact sort_by_reads_only. Qed.
Print Assumptions C14_sort_input_unchanged.

(* Vector.sort_by obeys the same contract: it returns exactly what Table.sort_by returns
   for the one-column table holding the vector, sorted by that column — hence all of the
   above (permutation, order, stability, None placement, idempotence) transfer. *)
Theorem C14_vector_sort_same_contract :
  forall (V : Type) (vleb : V -> V -> bool) rv nl (data : list (cell V)),
    vector_sort_by vleb rv nl data =
    gather (sort_indices vleb nl [(data, rv)] (List.length data)) data.
Proof. exact vector_sort_is_table_sort. Qed.
Print Assumptions C14_vector_sort_same_contract.

(* Non-vacuity: Z keys with ties and None, three keys in mixed directions. *)
Example C14_example :
  let k1 := [Some 2; None; Some 1; Some 2; None; Some 1]%Z in
  let k2 := [Some 0; Some 5; Some 7; Some 0; Some 5; Some 7]%Z in
  let ids := [Some 0; Some 1; Some 2; Some 3; Some 4; Some 5]%Z in
  (* descending on k1 with None still last; ties (rows 0,3 / 2,5 / 1,4) in input order *)
  table_sort_by Z.leb [k1; k2; ids] [KCol 0] (RAll true) true
    = Ok [[Some 2; Some 2; Some 1; Some 1; None; None]%Z;
          [Some 0; Some 0; Some 7; Some 7; Some 5; Some 5]%Z;
          [Some 0; Some 3; Some 2; Some 5; Some 1; Some 4]%Z] /\
  (* na_last = false, ascending, then k2 descending by an external vector *)
  table_sort_by Z.leb [k1; ids] [KCol 0; KVec k2] (RList [false; true]) false
    = Ok [[None; None; Some 1; Some 1; Some 2; Some 2]%Z;
          [Some 1; Some 4; Some 2; Some 5; Some 0; Some 3]%Z] /\
  vector_sort_by Z.leb true true k1 = [Some 2; Some 2; Some 1; Some 1; None; None]%Z /\
  table_sort_by Z.leb [k1] [] (RAll false) true = Err EValue /\
  table_sort_by Z.leb [k1] [KCol 0] (RList [true; false]) true = Err EValue.
Proof. vm_compute. repeat split. Qed.
