(* Props/C18.v — property C18: names propagate by fixed rules: math drops them, structure
   keeps them.  Statements only; every proof is [exact <lemma>]. *)
From Coq Require Import List Bool Arith Ascii String.
From Serif Require Import Model.Naming Model.Names Spec.Names Proofs.Naming Proofs.Names.
Import ListNotations.

(* Binary arithmetic and comparisons give unnamed results, whatever the operands are called. *)
Theorem C18_binop_unnamed : forall a b, v_binop a b = None /\ v_binop_scalar a = None.
Proof. exact binop_unnamed. Qed.
Print Assumptions C18_binop_unnamed.

Theorem C18_compare_unnamed : forall a b, v_compare a b = None /\ v_compare_scalar a = None.
Proof. exact compare_unnamed. Qed.
Print Assumptions C18_compare_unnamed.

(* copy / slice / mask / index / sort / in-place write / promotion (and unary minus, T, cast,
   fillna) keep the vector's name. *)
Theorem C18_keep_name : forall k a, v_keep k a = a.
Proof. exact keep_name. Qed.
Print Assumptions C18_keep_name.

(* A table built from vectors keeps each vector's name, in order. *)
Theorem C18_table_of_vectors_keeps_names : forall vs, t_of vs = vs.
Proof. exact t_of_id. Qed.
Print Assumptions C18_table_of_vectors_keeps_names.

(* table (op) scalar keeps every column name *)
Theorem C18_table_scalar_keeps_names : forall ns, t_scalar ns = ns.
Proof. exact t_scalar_id. Qed.
Print Assumptions C18_table_scalar_keeps_names.

(* scalar (op) table keeps every column name once the reflected operators are routed through
   _table_elementwise_operation ... *)
Theorem C18_scalar_table_keeps_names_when_routed : forall ns, t_rscalar true ns = ns.
Proof. exact t_rscalar_routed. Qed.
Print Assumptions C18_scalar_table_keeps_names_when_routed.

(* ... but FALSE of the pinned tree: 2 * t runs Vector.__rmul__, whose column results are unnamed. *)
Theorem C18_scalar_table_keeps_names_refuted : exists ns, t_rscalar false ns <> ns.
Proof. exists [Some (s "a")]. vm_compute. discriminate. Qed.
Print Assumptions C18_scalar_table_keeps_names_refuted.

(* table (op) table: column i keeps the left name iff the right name is absent or equal *)
Theorem C18_table_table_name_rule : forall l r i,
  i < List.length l -> List.length l = List.length r ->
  let ln := nth i l None in let rn := nth i r None in
  nth i (t_table l r) None = resolve_binary ln rn /\
  (rn = None \/ rn = ln -> resolve_binary ln rn = ln) /\
  (rn <> None -> rn <> ln -> resolve_binary ln rn = None).
Proof.
  intros l r i Hi Hlen ln rn. split; [exact (t_table_nth l r i Hi Hlen)|].
  split; [exact (resolve_binary_keep ln rn)|exact (resolve_binary_drop ln rn)].
Qed.
Print Assumptions C18_table_table_name_rule.

(* >> : the names of the left operand, then those of the right *)
Theorem C18_append_names : forall l r, t_append l r = l ++ r.
Proof. exact t_append_spec. Qed.
Print Assumptions C18_append_names.

(* masks, slices, index vectors, sort_by, copy keep the names in order; a column slice keeps
   the names of the selected columns in order *)
Theorem C18_selections_keep_names : forall k ns a b,
  t_keep k ns = ns /\ t_colslice a b ns = firstn (b - a) (skipn a ns).
Proof. intros k ns a b. exact (conj (t_keep_id k ns) (t_colslice_spec a b ns)). Qed.
Print Assumptions C18_selections_keep_names.

(* joins: left names then right names (an inner join without any match is the 0x0 table) *)
Theorem C18_join_names : forall j no_match l r,
  join_names j no_match l r =
  match j with JInner => if no_match then [] else l ++ r | _ => l ++ r end.
Proof. exact join_names_spec. Qed.
Print Assumptions C18_join_names.

(* aggregate / window: key names (or "key"), then sanitize(name or "col") ++ "_" ++ fn, then the
   apply names — passed through uniquify — and window uses the same names *)
Theorem C18_agg_names : forall reserved keys aggs apply,
  agg_names reserved keys aggs apply = map Some (uniquify_all [] (agg_bases reserved keys aggs apply)) /\
  window_names reserved keys aggs apply = agg_names reserved keys aggs apply.
Proof. intros. split; [apply agg_names_spec|reflexivity]. Qed.
Print Assumptions C18_agg_names.

(* uniquify: the outputs are pairwise distinct (the fuelled while-loop never runs dry), *)
Theorem C18_uniquify_NoDup : forall names, NoDup (uniquify_all [] names).
Proof. exact uniquify_all_NoDup. Qed.
Print Assumptions C18_uniquify_NoDup.

(* each is its base or its base followed by a decimal >= 2, *)
Theorem C18_uniquify_shape : forall names, Forall2 suffixed names (uniquify_all [] names).
Proof. exact uniquify_all_shape. Qed.
Print Assumptions C18_uniquify_shape.

(* and exactly: a base not used before is kept, otherwise it gets the least free suffix >= 2. *)
Theorem C18_uniquify_least_suffix : forall names, uniq_from [] names (uniquify_all [] names).
Proof. intros names. exact (uniquify_all_from names []). Qed.
Print Assumptions C18_uniquify_least_suffix.

(* All compositions: for every expression over the operations, the model's evaluation gives
   the names the rules (Spec/Names.v) dictate. *)
Theorem C18_eval_name_agrees : forall reserved routed,
  (forall e, eval_v reserved routed e = rule_v reserved routed e) /\
  (forall e, eval_t reserved routed e = rule_t reserved routed e).
Proof. intros reserved routed. exact (conj (eval_agrees_v reserved routed) (eval_agrees_t reserved routed)). Qed.
Print Assumptions C18_eval_name_agrees.

(* ---- non-vacuity ---- *)
Local Open Scope string_scope.
Example C18_example_uniquify :
  uniquify_all [] (map s ["k"; "a_sum"; "a_sum"; "a_sum2"; "a_sum"; "k"]) =
  map s ["k"; "a_sum"; "a_sum2"; "a_sum22"; "a_sum3"; "k2"].
Proof. vm_compute. reflexivity. Qed.
Example C18_example_expr :
  let t := TLit [Some (s "Total Sales"); None; Some (s "x")] in
  let u := TLit [Some (s "Total Sales"); Some (s "y"); Some (s "z")] in
  eval_t [] true (TTable t u) = [Some (s "Total Sales"); None; None] /\
  eval_t [] true (TKeep TKSort (TAppendV (TScalar t) (VKeep KSlice (VCol 2 u)))) =
    [Some (s "Total Sales"); None; Some (s "x"); Some (s "z")] /\
  eval_t [] true (TAgg false [0] [[0; 0]; []; [2]] [] t) =
    map (fun x => Some (s x)) ["Total Sales"; "total_sales_sum"; "total_sales_sum2"; "x_min"].
Proof. vm_compute. repeat split. Qed.
