(* Props/C01.v — value semantics: writes stay local, read-only operations are pure.
   Model: Model/Heap.v (objects, storage identities, registry, memos; every public
   operation is one [op]).  Statements only. *)
From Coq Require Import List Bool ZArith.
From Serif Require Import Base.PyVal Model.Heap Proofs.HeapBase Proofs.HeapReg Proofs.HeapFrame.
Import ListNotations.

(* THE FRAME THEOREM. For every operation of the alphabet and every state: an object that the
   operation is not aimed at ([touched]) and that is not garbage-collected by it shows exactly
   its previous contents, name, dtype, storage and (for tables) column list afterwards.
   [touched] is empty for every producer — copy, slice, mask, selection, stacking, join, sort,
   aggregate, window, arithmetic, transpose (ONewVec / ONewTab) — and for fingerprint(), repr,
   iteration and failed writes: these never change their operands. *)
Theorem C01_frame : forall s o s' out h2 o2,
  step s o = (s', out) ->
  aget (heap s) h2 = Some o2 -> ~ In h2 (touched s o) -> ~ In h2 (collected o) ->
  option_map strip (aget (heap s') h2) = Some (strip o2).
Proof. exact step_frame. Qed.
Print Assumptions C01_frame.

(* Ownership invariant: in every reachable state a vector is a column of at most one table and
   every column of a live table is live (tables only hold vectors they allocated themselves —
   also after t.col = v, which stores a snapshot). *)
Theorem C01_ownership_invariant : forall os, Inv_own (run init os).
Proof. exact (fun os => reachable_Inv_own os init Inv_own_init). Qed.
Print Assumptions C01_ownership_invariant.

Theorem C01_ownership_preserved : forall s o s' out, step s o = (s', out) -> Inv_own s -> Inv_own s'.
Proof. exact step_preserves_Inv_own. Qed.
Print Assumptions C01_ownership_preserved.

(* A write through a vector handle h changes what is seen through h and through the one table
   (if any) holding h as a column; every other vector and every table not holding h shows
   exactly its previous contents, names and dtypes (deep view: the table's own fields and the
   views of all its columns). *)
Theorem C01_write_stays_local : forall s h us sid' s' out h2,
  Inv_own s -> step s (OSetV h us sid') = (s', out) ->
  h2 <> h -> (forall t, gett s h2 = Some t -> ~ In h (cols t)) ->
  deep_view s' h2 = deep_view s h2.
Proof. exact write_stays_local. Qed.
Print Assumptions C01_write_stays_local.

Theorem C01_only_one_table_sees_a_column_write : forall s h t1 t2 h1 h2,
  Inv_own s -> gett s h1 = Some t1 -> gett s h2 = Some t2 -> In h (cols t1) -> In h (cols t2) -> h1 = h2.
Proof. exact at_most_one_table_sees_a_write. Qed.
Print Assumptions C01_only_one_table_sees_a_column_write.

(* A write that cannot be kept local is refused with AliasError and changes nothing; more
   generally every failed operation other than a multi-column table write leaves the whole
   state (every object, the registry, every memo) exactly as it was. *)
Theorem C01_alias_refusal_changes_nothing : forall s h us sid' s',
  step s (OSetV h us sid') = (s', ErrAlias) -> s' = s.
Proof. exact alias_refusal_changes_nothing. Qed.
Print Assumptions C01_alias_refusal_changes_nothing.

Theorem C01_failed_operation_changes_nothing : forall s o s' out,
  step s o = (s', out) -> (forall ht ws, o <> OSetT ht ws) ->
  out <> Ok -> (forall x, out <> OkFp x) -> s' = s.
Proof. exact failed_op_changes_nothing. Qed.
Print Assumptions C01_failed_operation_changes_nothing.

(* Non-vacuity: a history that builds two vectors over one shared tuple, a table from one of
   them, writes through a live column view, and is refused on the sharer. *)
Example C01_example :
  let os := [ ONewVec 1 (CLit [SInt 1; SInt 2] (Some 1)) None 5;
              ONewVec 2 (CLit [SInt 1; SInt 2] None) None 5;           (* shares storage 5 *)
              ONewTab 5 [CFrom 1 None; CLit [SNone; SInt 9] (Some 2)] [3; 4] [6; 7] 8;
              OSetV 3 [(0, SInt 42)] 9 ] in
  let s := run init os in
  getv s 1 = Some (mkVec [SInt 1; SInt 2] 5 (Some 1) (Some (mkD KInt false)) None) /\
  option_map vals (getv s 3) = Some [SInt 42; SInt 2] /\
  snd (step s (OSetV 1 [(0, SInt 7)] 10)) = ErrAlias /\
  snd (step s (OSetV 4 [(1, SFloat 3)] 10)) = Ok.
Proof. vm_compute. repeat split. Qed.
