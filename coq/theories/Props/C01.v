(* Props/C01.v — placeholder until Proofs/Heap.v lands (theorems added below as they are proved). *)
From Serif Require Import Base.PyVal Model.Heap.
Theorem C01_placeholder : True. Proof. exact I. Qed.
Print Assumptions C01_placeholder.
