(* Props/C09.v — property C09: inner_join returns exactly the key-equal row pairs, in
   left-major order.  Statements only; every proof is [exact <lemma>].

   V is any type of non-None values and veq Python's == on them, assumed to be an
   equivalence (no NaN keys); the theorems hold for all tables, any number of key columns
   (key = the tuple of the key columns' cells), keys given by name or by vector.
   "Identically under every hash seed": the model of the dict has no hash in it (an
   insertion-ordered association list, DESIGN.md section 3), the check runs the
   implementation under several PYTHONHASHSEED values.  "Neither input is modified": the
   model is a pure function of its inputs (the Python only reads col[i] of the inputs and
   appends to fresh lists); the harness observes the inputs before and after each call. *)
From Coq Require Import List Bool Arith String Sorted.
From Serif Require Import Base.PyVal Spec.Join Model.Join Proofs.Join.
Import ListNotations.

(* The bucket the hash index holds for a key = the right rows with an equal key, ascending. *)
Theorem C09_index_lookup : forall V (veq : V -> V -> bool), eq_equivalence veq ->
  forall st chk (rk : nat -> key V) m q,
  match dict_get V veq (fst (build_index V veq st chk rk m)) q with
  | Some b => b
  | None => []
  end = filter (fun j => keq V veq q (rk j)) (seq 0 m).
Proof. exact index_lookup_closed. Qed.
Print Assumptions C09_index_lookup.

(* Whenever the probe loops return row pairs, they are the nested-loop row pairs
   (for all three joins; Model row-pair list = Spec row-pair list). *)
Theorem C09_rows_refine : forall V (veq : V -> V -> bool), eq_equivalence veq ->
  forall e n m lk rk ps,
  (inner_rows V veq e n m lk rk = Ok ps -> ps = inner_pairs (keq V veq) n m lk rk) /\
  (left_rows V veq e n m lk rk = Ok ps -> ps = left_pairs (keq V veq) n m lk rk) /\
  (full_rows V veq e n m lk rk = Ok ps -> ps = full_pairs (keq V veq) n m lk rk).
Proof. exact rows_refine_closed. Qed.
Print Assumptions C09_rows_refine.

(* The table inner_join returns: for a valid expectation that the keys meet and a key
   specification the library accepts, it returns a table that holds exactly the rows
   (left cells ++ right cells) of the key-equal pairs, ordered by left then right position,
   under the names left ++ right (0 x 0 when there is no such pair). *)
Theorem C09_inner_join_refines : forall V (veq : V -> V -> bool), eq_equivalence veq ->
  forall e L R lon ron prs,
  valid_expect e = true -> validate_join_keys V L R lon ron = Ok prs ->
  expectation_met V veq e L R prs ->
  exists T, inner_join V veq e L R lon ron = Ok T /\
    holds_rows L R T (inner_pairs (keq V veq) (nrows L) (nrows R) (keys_l V prs) (keys_r V prs)).
Proof. exact inner_join_refines_closed. Qed.
Print Assumptions C09_inner_join_refines.

(* [holds_rows] leaves no freedom: names, row count, order and every cell are determined. *)
Theorem C09_result_determined : forall V (L R : table V) ps T T',
  holds_rows L R T ps -> holds_rows L R T' ps -> T = T'.
Proof. exact @holds_rows_unique. Qed.
Print Assumptions C09_result_determined.

(* join_row_cells: a row built from left row i and right row j carries all left cells of
   row i followed by all right cells of row j. *)
Theorem C09_join_row_cells : forall V (L R : table V) i j,
  out_row L R (Some i, Some j) = map (fun c => cell_at c i) L ++ map (fun c => cell_at c j) R.
Proof. exact @out_row_matched. Qed.
Print Assumptions C09_join_row_cells.

(* join_names: all left names, then all right names, unchanged (whenever there is a row). *)
Theorem C09_join_names : forall V (L R : table V) T p ps,
  holds_rows L R T (p :: ps) -> map fst T = map cname L ++ map cname R.
Proof. exact @holds_rows_names. Qed.
Print Assumptions C09_join_names.

(* Rows are ordered by left row position and then by right row position (strictly: no pair twice). *)
Theorem C09_rows_left_major : forall K (keq : K -> K -> bool) n m lk rk,
  StronglySorted pair_before (inner_pairs keq n m lk rk).
Proof. exact @inner_pairs_sorted. Qed.
Print Assumptions C09_rows_left_major.

(* A key specification that is refused is refused with the same error by all three joins. *)
Theorem C09_invalid_keys_refused : forall V (veq : V -> V -> bool), eq_equivalence veq ->
  forall e L R lon ron x,
  valid_expect e = true -> validate_join_keys V L R lon ron = Err x ->
  inner_join V veq e L R lon ron = Err x /\
  left_join V veq e L R lon ron = Err x /\
  full_join V veq e L R lon ron = Err x.
Proof. exact invalid_keys_closed. Qed.
Print Assumptions C09_invalid_keys_refused.

(* Non-vacuity: a concrete many-to-many join on a two-column key with partial agreement,
   a None key, duplicates on both sides; key given by name on one side, by vector on the other. *)
Open Scope string_scope.
Example C09_example :
  let c n vs := mkCol (Some n) (Some KInt) (map (fun x => match x with 0 => None | S v => Some v end) vs) in
  let L := [c "k" [1; 2; 2; 0; 3]; c "j" [7; 7; 8; 0; 7]; c "a" [10; 11; 12; 13; 14]] in
  let R := [c "b" [20; 21; 22; 23; 24]; c "j" [7; 8; 7; 0; 7]] in
  let kv := ByVec nat (c "" [2; 2; 2; 0; 9]) in
  eq_equivalence Nat.eqb /\
  valid_expect "many_to_many" = true /\
  (exists prs, validate_join_keys nat L R [ByName nat "k"; ByName nat "j"] [kv; ByName nat "j"] = Ok prs) /\
  inner_join nat Nat.eqb "many_to_many" L R [ByName nat "k"; ByName nat "j"] [kv; ByName nat "j"]
  = Ok [(Some "k", [Some 1; Some 1; Some 1; None]); (Some "j", [Some 6; Some 6; Some 7; None]);
        (Some "a", [Some 10; Some 10; Some 11; Some 12]);
        (Some "b", [Some 19; Some 21; Some 20; Some 22]); (Some "j", [Some 6; Some 6; Some 7; None])] /\
  inner_join nat Nat.eqb "one_to_one" L R [ByName nat "k"; ByName nat "j"] [kv; ByName nat "j"] = Err EValue /\
  inner_join nat Nat.eqb "many_to_many" L R [ByName nat "a"] [ByName nat "zz"] = Err EKey.
Proof.
  repeat split; try (vm_compute; reflexivity).
  - intros a. apply Nat.eqb_refl.
  - intros a b. apply Nat.eqb_sym.
  - intros a b c H1 H2. apply Nat.eqb_eq in H1. apply Nat.eqb_eq in H2. subst. apply Nat.eqb_refl.
  - eexists. vm_compute. reflexivity.
Qed.
