(* Props/C04.v — property C04: dtype inference and promotion form an
   order-independent lattice.  Statements only; every proof is [exact <lemma>]. *)
From Coq Require Import List Bool Permutation.
From Serif Require Import Base.PyVal Model.Dtype Spec.DtypeLattice Proofs.Dtype.
Import ListNotations.

(* The inferred dtype depends only on which classes occur and on whether None occurs. *)
Theorem C04_infer_depends_only_on_support : forall l l',
  (forall k, In k (kinds l) <-> In k (kinds l')) -> (In None l <-> In None l') ->
  infer_dtype l = infer_dtype l'.
Proof. exact infer_depends_on_support. Qed.
Print Assumptions C04_infer_depends_only_on_support.

(* ... hence never on element order, *)
Theorem C04_infer_order_independent : forall l l', Permutation l l' -> infer_dtype l = infer_dtype l'.
Proof. exact infer_perm. Qed.
Print Assumptions C04_infer_order_independent.

(* ... on the position of the first None, *)
Theorem C04_infer_none_position : forall l1 l2,
  infer_dtype (None :: l1 ++ l2) = infer_dtype (l1 ++ None :: l2).
Proof. exact infer_none_position. Qed.
Print Assumptions C04_infer_none_position.

(* ... or on length / repetition. *)
Theorem C04_infer_repetition : forall l, l <> [] -> infer_dtype (l ++ l) = infer_dtype l.
Proof. exact infer_repeat. Qed.
Print Assumptions C04_infer_repetition.

(* Closed form: the lattice join of the kinds that occur; None only adds nullability;
   empty / all-None gives object?. *)
Theorem C04_infer_closed_form : forall l, infer_dtype l = infer_spec l.
Proof. exact infer_closed_form. Qed.
Print Assumptions C04_infer_closed_form.

(* The join is a semilattice operation (so "the join of the kinds that occur" is well defined). *)
Theorem C04_join_semilattice :
  (forall a, join a a = a) /\ (forall a b, join a b = join b a) /\
  (forall a b c, join (join a b) c = join a (join b c)).
Proof. exact (conj join_idem (conj join_comm join_assoc)). Qed.
Print Assumptions C04_join_semilattice.

(* Promotion: closed form, never narrows, never drops nullability, idempotent, commutes. *)
Theorem C04_promote_closed_form : forall d v,
  promote_with d v =
  match v with None => mkD (dkind d) true
             | Some vi => mkD (join (dkind d) (base vi)) (nullable d) end.
Proof. exact promote_closed. Qed.
Print Assumptions C04_promote_closed_form.

Theorem C04_promote_never_narrows : forall d v, dle d (promote_with d v).
Proof. exact promote_widens. Qed.
Print Assumptions C04_promote_never_narrows.

Theorem C04_promote_keeps_nullable : forall d v,
  nullable d = true -> nullable (promote_with d v) = true.
Proof. exact promote_keeps_nullable. Qed.
Print Assumptions C04_promote_keeps_nullable.

Theorem C04_promote_idempotent : forall d v,
  promote_with (promote_with d v) v = promote_with d v.
Proof. exact promote_idempotent. Qed.
Print Assumptions C04_promote_idempotent.

Theorem C04_promote_commutes : forall d a b,
  promote_with (promote_with d a) b = promote_with (promote_with d b) a.
Proof. exact promote_commute. Qed.
Print Assumptions C04_promote_commutes.

(* Non-vacuity: concrete mixed sequences meet the hypotheses and give the expected joins. *)
Example C04_example_mixed :
  let i := Some (mkV KInt true) in let f := Some (mkV KFloat false) in
  let b := Some (mkV KBool true) in
  infer_dtype [None; i; f; b] = mkD KFloat true /\
  infer_dtype [b; f; None; i] = mkD KFloat true /\
  infer_dtype [Some (mkV KDate true); Some (mkV KDateTime true)] = mkD KDateTime false /\
  infer_dtype [i; Some (mkV KStr true)] = mkD KObject false /\
  infer_dtype [Some (mkV (KOther 1) true); Some (mkV (KOther 1) true)] = mkD (KOther 1) false /\
  infer_dtype [Some (mkV (KOther 1) true); Some (mkV (KOther 2) true)] = mkD KObject false.
Proof. vm_compute. repeat split. Qed.
