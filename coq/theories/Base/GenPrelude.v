(* Base/GenPrelude.v — the vocabulary of the GENERATED definitions (harness/translate.py).

   The translator turns the small decision kernels of serif (typing.py, typeutils.py,
   table._resolve_binary_name) into plain Gallina on every run; the terms it emits use only
   the names defined here and in Base/PyVal.v, Spec/PySlice.v, Model/Naming.v.  This file is
   the whole "semantics of Python" the translated kernels rely on; it is small on purpose.

   Class-valued Python expressions.  [kind] (PyVal.v) is the set of classes a DataType may
   carry: the classes of infer_kind's isinstance chain, [object], and any further class
   [KOther n].  A class-valued expression denotes a [cls]:
       CK k    the class k itself
       CSub k  a proper subclass of the chain class k that is identical to no kind
               (class F(float), IntEnum members, ...).
   [type(value)] is [CK (base vi)] when the value's class is exactly its base and
   [CSub (base vi)] otherwise.  [a is b], [a == b], [a != b] on classes compare identities:
   a [CSub] is identical to nothing that can be named in the kernels. *)
From Coq Require Import List Bool Arith ZArith String.
From Serif Require Import Base.PyVal Spec.PySlice Model.Naming Model.Elementwise.
Import ListNotations.

Inductive cls := CK (k : kind) | CSub (k : kind).

Definition cls_eqb (a b : cls) : bool :=
  match a, b with CK x, CK y => kind_eqb x y | _, _ => false end.

(* type(value) *)
Definition type_of (vi : vinfo) : cls := if exact vi then CK (base vi) else CSub (base vi).

(* Python's subclass relation between kinds: reflexive, bool <= int, datetime <= date,
   everything <= object.  (CPython rules out a class below two different chain classes:
   "multiple bases have instance lay-out conflict"; bool cannot be subclassed.) *)
Definition kind_sub (a b : kind) : bool :=
  match b with
  | KObject => true
  | _ => kind_eqb a b ||
         match a, b with KBool, KInt => true | KDateTime, KDate => true | _, _ => false end
  end.

(* issubclass(c, K) for a class-valued expression c and a class K named in the code *)
Definition cls_sub (c : cls) (b : kind) : bool :=
  match c with CK a => kind_sub a b | CSub a => kind_sub a b end.

(* the kind a class is stored as.  Used ONLY for the value returned by infer_kind (whose
   result is by definition [base]); EqTyping.gen_infer_kind_in_range proves that on every
   realisable value the class returned by the translated code is a [CK] already, so that
   this coercion is the identity there. *)
Definition as_kind (c : cls) : kind := match c with CK k => k | CSub k => k end.

(* chain classes: the ones infer_kind tests with isinstance *)
Definition is_chain (k : kind) : bool :=
  match k with KOther _ | KObject => false | _ => true end.
(* realisable [vinfo]s: a value whose class is not exactly its base has a chain base
   (for every other class, base IS the value's class) *)
Definition vinfo_wf (vi : vinfo) : Prop := exact vi = true \/ is_chain (base vi) = true.

(* x is None *)
Definition is_None {A} (o : option A) : bool := match o with None => true | Some _ => false end.

(* slice objects: (start, stop, step), each an int or None; s.indices(n) *)
Definition pyslice := (option Z * option Z * option Z)%type.
Definition slice_indices (s : pyslice) (n : Z) : Z * Z * Z :=
  let '(a, b, st) := s in adjust a b st n.

(* column names: str or None; == on them *)
Definition pyname := option str.
Definition pyname_eqb (a b : pyname) : bool := ostr_eqb a b.

(* ---- fingerprint kernels (vector.py _hash_element, _compute_fingerprint_full) --------------
   What _hash_element's tests can see of an element x, as independent observations:
     el_none      x is None
     el_hasfp     hasattr(x, "fingerprint") and callable(getattr(x, "fingerprint"))
     el_float     isinstance(x, float)          el_nan   math.isnan(x)  (asked of floats only)
     el_set       isinstance(x, set)            el_seq   isinstance(x, (list, tuple))
     el_hashable  _is_hashable(x)  (hash(x) does not raise)
   The generated functions take the element type X and, as parameters,
     el_obs : X -> elinfo, el_hash : X -> Z (Python's hash(x)), el_nested_fp : X -> Z
     (int(x.fingerprint()) of an element that has one), el_untranslated : X -> Z (the value computed
     by a branch the translator recognises but does NOT translate: sets, lists/tuples, hash(repr(x))). *)
Record elinfo := mkEl { el_none : bool; el_hasfp : bool; el_float : bool; el_nan : bool;
                        el_set : bool; el_seq : bool; el_hashable : bool }.

(* ---- operator dispatch (vector.py / table.py arithmetic dunders) ---------------------------
   What a dunder does, read off its one-line body:
     GVia o swapped name sym   return self._elementwise_operation(other, f, name, sym) where
                               f(a, b) is  a <o> b  (swapped = false)  or  b <o> a  (swapped = true)
     GOwnBody                  any other body (Vector.__radd__)
     GDelegate d               return self.<dunder d>(other) *)
Inductive groute :=
| GVia (o : bop) (swapped : bool) (name sym : string)
| GOwnBody
| GDelegate (d : dunder).

Fixpoint glookup (t : list (dunder * groute)) (d : dunder) : option groute :=
  match t with
  | [] => None
  | (d', r) :: t' => if dunder_eqb d d' then Some r else glookup t' d
  end.
(* the route a dunder ends at (one delegation step is followed) *)
Definition groute_of (t : list (dunder * groute)) (d : dunder) : option groute :=
  match glookup t d with
  | Some (GDelegate d') => glookup t d'
  | r => r
  end.
(* op_func(x, y) of a GVia row, over the scalar semantics [scal] *)
Definition gapply {val R} (scal : bop -> val -> val -> R) (o : bop) (swapped : bool) (x y : val) : R :=
  if swapped then scal o y x else scal o x y.
Definition dunder_name (d : dunder) : string :=
  let base o := match o with Add => "add" | Sub => "sub" | Mul => "mul" | TrueDiv => "truediv"
                           | FloorDiv => "floordiv" | Mod => "mod" | Pow => "pow" end%string in
  match d with Plain o => ("__" ++ base o ++ "__")%string | Refl o => ("__r" ++ base o ++ "__")%string end.
Definition bop_symbol (o : bop) : string :=
  match o with Add => "+" | Sub => "-" | Mul => "*" | TrueDiv => "/" | FloorDiv => "//" | Mod => "%" | Pow => "**" end%string.

(* ---- csv._infer_type ------------------------------------------------------------------------
   what one cell text becomes: None, int(t), float(t) or the text t itself.  The generated function
   takes the text type T and, as parameters, txt_empty (t == ''), txt_strip (t.strip()), int_ok /
   float_ok (int(t) / float(t) does not raise ValueError). *)
Inductive cellres (T : Type) := CNone | CInt (t : T) | CFloat (t : T) | CStr (t : T).
Arguments CNone {T}.
Arguments CInt {T} t.
Arguments CFloat {T} t.
Arguments CStr {T} t.

(* ---- aggregate / window output names (table.py) ------------------------------------------------
   `x or "lit"` on a name that is None / a str: falsy = None or the empty string *)
Definition name_or (n : option str) (d : str) : str :=
  match n with Some (c :: t) => c :: t | _ => d end.
(* `while <test i>: i += 1` for a probe that must stop within |used| + 1 steps (each failed probe names a
   different member of `used`); fuelled like Model/Names.uniq_search *)
Fixpoint while_probe (fuel i : nat) (test : nat -> bool) : nat :=
  match fuel with
  | 0 => i
  | S f => if test i then while_probe f (S i) test else i
  end.

(* ---- None-skipping reductions (vector.py, table.py: GenReduce.v) --------------------------------
   [v for v in cells if v is not None] *)
Fixpoint live_values {A} (l : list (option A)) : list A :=
  match l with
  | [] => []
  | None :: t => live_values t
  | Some v :: t => v :: live_values t
  end.
(* ---- dicts as association lists in insertion order (table.py: GenPartition.v) -------------------
   d.get(k): the value of the first entry whose key is == to k *)
Fixpoint dict_get {K V} (keq : K -> K -> bool) (d : list (K * V)) (k : K) : option V :=
  match d with
  | [] => None
  | (k', v) :: r => if keq k k' then Some v else dict_get keq r k
  end.
(* d[k] = v: the entry whose key is == to k keeps its place (and its stored key object) and gets the value v;
   a new key is appended at the end *)
Fixpoint dict_set {K V} (keq : K -> K -> bool) (d : list (K * V)) (k : K) (v : V) : list (K * V) :=
  match d with
  | [] => [(k, v)]
  | (k', v') :: r => if keq k k' then (k', v) :: r else (k', v') :: dict_set keq r k v
  end.
