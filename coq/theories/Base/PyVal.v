(* Base/PyVal.v — the value abstraction shared by all models (DESIGN.md §3).

   A Python scalar is seen by serif's *typing* code only through its class, and by
   the structural code (joins, sorts, groups, slices ...) only through equality /
   order / hash.  [kind] is the range of serif.typing.infer_kind; [vinfo] is what
   the typing code can observe of a non-None value. *)
From Coq Require Import List Bool Arith ZArith.
Import ListNotations.

Inductive kind :=
| KBool | KInt | KFloat | KComplex | KStr | KBytes | KDateTime | KDate
| KList | KDict | KTuple
| KOther (n : nat)          (* any further class: Decimal, Fraction, timedelta, user classes *)
| KObject.                  (* the class [object] itself *)

Definition kind_eqb (a b : kind) : bool :=
  match a, b with
  | KBool, KBool | KInt, KInt | KFloat, KFloat | KComplex, KComplex
  | KStr, KStr | KBytes, KBytes | KDateTime, KDateTime | KDate, KDate
  | KList, KList | KDict, KDict | KTuple, KTuple | KObject, KObject => true
  | KOther n, KOther m => Nat.eqb n m
  | _, _ => false
  end.

Lemma kind_eqb_eq a b : kind_eqb a b = true <-> a = b.
Proof.
  destruct a, b; simpl; split; intros H; try reflexivity; try discriminate; try congruence.
  - apply Nat.eqb_eq in H. congruence.
  - inversion H. apply Nat.eqb_refl.
Qed.

Lemma kind_eqb_refl a : kind_eqb a a = true.
Proof. apply kind_eqb_eq. reflexivity. Qed.

Lemma kind_eqb_sym a b : kind_eqb a b = kind_eqb b a.
Proof.
  destruct (kind_eqb a b) eqn:E.
  - apply kind_eqb_eq in E. subst. symmetry. apply kind_eqb_refl.
  - destruct (kind_eqb b a) eqn:E2; [|reflexivity].
    apply kind_eqb_eq in E2. subst. rewrite kind_eqb_refl in E. discriminate.
Qed.

Lemma kind_eq_dec (a b : kind) : {a = b} + {a <> b}.
Proof. decide equality. apply Nat.eq_dec. Defined.

(* DataType(kind, nullable) *)
Record dtype := mkD { dkind : kind; nullable : bool }.

Definition dtype_eqb (a b : dtype) : bool :=
  kind_eqb (dkind a) (dkind b) && Bool.eqb (nullable a) (nullable b).

Lemma dtype_eqb_eq a b : dtype_eqb a b = true <-> a = b.
Proof.
  destruct a as [ka na], b as [kb nb]; unfold dtype_eqb; simpl.
  rewrite andb_true_iff, kind_eqb_eq, Bool.eqb_true_iff. split.
  - intros [-> ->]. reflexivity.
  - intros H. inversion H. auto.
Qed.

(* What typing code can see of a non-None value:
   [base]  = infer_kind(value)  (isinstance chain),
   [exact] = type(value) is that class itself (False for class F(float), IntEnum ...). *)
Record vinfo := mkV { base : kind; exact : bool }.

(* A Python element: None or a non-None value. *)
Definition pyv := option vinfo.

Definition is_numeric (k : kind) : bool :=
  match k with KBool | KInt | KFloat | KComplex => true | _ => false end.
Definition is_temporal (k : kind) : bool :=
  match k with KDate | KDateTime => true | _ => false end.

(* generic helper used by every Corr file: indices of the cases a checker rejects *)
Fixpoint failing_from {A} (chk : A -> bool) (n : nat) (cs : list A) : list nat :=
  match cs with
  | [] => []
  | c :: t => if chk c then failing_from chk (S n) t else n :: failing_from chk (S n) t
  end.
Definition failing {A} (chk : A -> bool) (cs : list A) : list nat := failing_from chk 0 cs.

Lemma failing_from_nil {A} (chk : A -> bool) cs : forall n,
  failing_from chk n cs = [] <-> forallb chk cs = true.
Proof.
  induction cs as [|c t IH]; intros n; simpl; [tauto|].
  destruct (chk c); simpl; [apply IH|]. split; discriminate.
Qed.
