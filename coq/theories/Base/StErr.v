(* Base/StErr.v — errors, results and the state-and-error monad used by the models of
   indexing (C07) and in-place assignment (C08).

   [M S A := S -> S * res A]: a failing computation returns the state AT THE FAILURE
   POINT, so "a failed operation leaves the object as it was" is a theorem about the
   model (a model that wrote before validating would falsify it), not a convention. *)
From Coq Require Import List.
Import ListNotations.

(* the error classes the harness can tell apart (harness.core.err_name) *)
Inductive err := EAlias | EType | EValue | EIndex | EKey | EOther.

Definition err_eqb (a b : err) : bool :=
  match a, b with
  | EAlias, EAlias | EType, EType | EValue, EValue | EIndex, EIndex | EKey, EKey | EOther, EOther => true
  | _, _ => false
  end.

Inductive res (A : Type) := Ok (a : A) | Err (e : err).
Arguments Ok {A} a.
Arguments Err {A} e.

Definition is_ok {A} (r : res A) : bool := match r with Ok _ => true | Err _ => false end.

Definition rbind {A B} (r : res A) (f : A -> res B) : res B :=
  match r with Ok a => f a | Err e => Err e end.

(* map a fallible function over a list; the first failure wins (left to right) *)
Fixpoint map_res {A B} (f : A -> res B) (l : list A) : res (list B) :=
  match l with
  | [] => Ok []
  | x :: t => match f x with
              | Err e => Err e
              | Ok y => match map_res f t with Err e => Err e | Ok r => Ok (y :: r) end
              end
  end.

(* ---- state and error ---- *)
Definition M (S A : Type) := S -> S * res A.

Definition ret {S A} (a : A) : M S A := fun s => (s, Ok a).
Definition fail {S A} (e : err) : M S A := fun s => (s, Err e).
Definition bind {S A B} (m : M S A) (f : A -> M S B) : M S B :=
  fun s => match m s with
           | (s', Ok a) => f a s'
           | (s', Err e) => (s', Err e)
           end.
Definition get {S} : M S S := fun s => (s, Ok s).
Definition put {S} (s' : S) : M S unit := fun _ => (s', Ok tt).
(* a pure, possibly failing computation lifted into the monad: never touches the state *)
Definition lift {S A} (r : res A) : M S A := fun s => (s, r).

Declare Scope sterr_scope.
Delimit Scope sterr_scope with sterr.
Notation "x <- m ;; f" := (bind m (fun x => f)) (at level 61, m at next level, right associativity) : sterr_scope.
Notation "m ;;; f" := (bind m (fun _ => f)) (at level 61, right associativity) : sterr_scope.
