(* Corr/C03.v — correspondence checker for C03.  A dedicated case is a PROGRAM over the alphabet of
   Model/Typed.v, executed by the implementation; after every operation the harness records what
   the implementation returned or mutated: the reported dtype (schema()) and the classes of the
   elements.  [check] runs the model on the same program and compares, step by step.  Operations whose
   VALUES Python computes carry those values (observed) as their [res] parameter; the dtype the model
   derives for them is what is compared.
   A foreign case (another module's case executed under the global monitor) is summarised by the
   number of monitor hits: the model (reachable_truthful) says 0. *)
From Coq Require Import List Bool Arith ZArith.
From Serif Require Import Base.PyVal Base.StErr Spec.PySlice Model.Dtype Model.Index Model.SetItem
  Spec.Truthful Model.Typed.
Import ListNotations.

Definition vinfo_eqb (a b : vinfo) : bool := kind_eqb (base a) (base b) && Bool.eqb (exact a) (exact b).
Definition pyv_eqb (a b : pyv) : bool :=
  match a, b with None, None => true | Some x, Some y => vinfo_eqb x y | _, _ => false end.
Fixpoint list_eqb {X} (eqb : X -> X -> bool) (a b : list X) : bool :=
  match a, b with
  | [], [] => true
  | x :: a', y :: b' => eqb x y && list_eqb eqb a' b'
  | _, _ => false
  end.
Definition odt_eqb (a b : option dtype) : bool :=
  match a, b with None, None => true | Some x, Some y => dtype_eqb x y | _, _ => false end.

(* what the harness observes of one vector *)
Inductive vobs := VO (dt : option dtype) (infos : list pyv).
Definition view (v : tvec) : vobs := VO (vdt v) (infos_of (vals v)).
Definition vobs_eqb (a b : vobs) : bool :=
  match a, b with VO d1 l1, VO d2 l2 => odt_eqb d1 d2 && list_eqb pyv_eqb l1 l2 end.

(* Python's int() / float() / complex() / datetime.combine: an instance of exactly that class
   (generators keep clear of values Python cannot convert) *)
Definition conv0 : kind -> elt -> option elt :=
  fun k x => match x with None => None | Some (_, p) => Some (Some (mkV k true, p)) end.

Inductive cstep :=
| SOp (o : op) (obs : option (list vobs))     (* None: the implementation raised *)
| SCastRaised (i : nat) (t : target).         (* cast raised: some element must pass through a constructor / parser *)

Fixpoint views (h : heap) (is : list nat) : option (list vobs) :=
  match is with
  | [] => Some []
  | i :: t => match nth_error h i, views h t with
              | Some v, Some r => Some (view v :: r)
              | _, _ => None
              end
  end.

Fixpoint run_check (h : heap) (steps : list cstep) : bool :=
  match steps with
  | [] => true
  | SOp o obs :: rest =>
      let '(h', r) := step conv0 h o in
      (match r, obs with
       | None, None => true
       | Some is, Some vs => match views h' is with
                             | Some ms => list_eqb vobs_eqb ms vs
                             | None => false
                             end
       | _, _ => false
       end) && run_check h' rest
  | SCastRaised i t :: rest =>
      (match nth_error h i with
       | Some v => existsb (cast_may_raise t) (vals v)
       | None => false
       end) && run_check h rest
  end.

Inductive case :=
| CProg (steps : list cstep)
| CForeign (hits : nat)
| CSkip
| CBad.

Definition check (c : case) : bool :=
  match c with
  | CProg steps => run_check [] steps
  | CForeign hits => Nat.eqb hits 0
  | CSkip => true
  | CBad => false
  end.

Definition failing (cs : list case) : list nat := PyVal.failing check cs.
