(* Corr/C13.v — correspondence checker for C13 (window): the cases and the checker are
   those of Corr/GroupCase.v (shared with C12); C13's cases are [CAgg true ...]. *)
From Coq Require Import List.
From Serif Require Import Base.PyVal Model.Group Corr.GroupCase.

Definition case := GroupCase.case.
Definition check : case -> bool := GroupCase.check.
Definition failing (cs : list case) : list nat := PyVal.failing check cs.
