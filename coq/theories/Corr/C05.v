(* Corr/C05.v — correspondence checker for C05: the implementation's observed results are
   compared with the model's, case by case, inside Coq (vm_compute).

   Values are opaque ids (nat) handed out by the implementation-side observer: one id per
   distinct Python value (class + repr) occurring in a case.  "What Python computes" is a
   finite lookup table over the operands that occur, filled in by Python itself. *)
From Coq Require Import List Bool Arith ZArith.
From Serif Require Import Base.PyVal Model.Elementwise.
Import ListNotations.

(* x <o> y for the pairs that occur (both orders are shipped); a missing entry = raises *)
Definition tab2 := list ((nat * nat) * sres nat).
Fixpoint look2 (t : tab2) (x y : nat) : sres nat :=
  match t with
  | [] => SRaise
  | ((a, b), r) :: t' => if (a =? x) && (b =? y) then r else look2 t' x y
  end.

(* f(x) for the elements that occur; the result may be None *)
Definition tab1 := list (nat * sres (option nat)).
Fixpoint look1 (t : tab1) (x : nat) : sres (option nat) :=
  match t with
  | [] => SRaise
  | (a, r) :: t' => if a =? x then r else look1 t' x
  end.

(* what the implementation did *)
Inductive obs :=
| OOk (l : list (option nat))                     (* returned a vector holding l *)
| OPairs (l : list (option nat * option nat))     (* returned a vector of (x, y) tuples *)
| OErr.                                           (* raised *)
Inductive tobs := TObsOk (cols : list obs) | TObsErr.
Inductive dobs := DObsOk (l : list (option Z)) | DObsErr | DObsOther.

Definition onat_eqb (a b : option nat) : bool :=
  match a, b with
  | Some x, Some y => x =? y
  | None, None => true
  | _, _ => false
  end.
Definition oz_eqb (a b : option Z) : bool :=
  match a, b with
  | Some x, Some y => (x =? y)%Z
  | None, None => true
  | _, _ => false
  end.
Fixpoint list_eqb {A B} (eqb : A -> B -> bool) (l1 : list A) (l2 : list B) : bool :=
  match l1, l2 with
  | [], [] => true
  | a :: t1, b :: t2 => eqb a b && list_eqb eqb t1 t2
  | _, _ => false
  end.
Definition pair_eqb (p q : option nat * option nat) : bool :=
  onat_eqb (fst p) (fst q) && onat_eqb (snd p) (snd q).

Definition matches (out : outcome nat) (o : obs) : bool :=
  match out, o with
  | Ok l, OOk l' => list_eqb onat_eqb l l'
  | OkPairs l, OPairs l' => list_eqb pair_eqb l l'
  | ErrLen, OErr | ErrType, OErr | ErrRaise, OErr => true
  | _, _ => false
  end.

Definition tmatches (out : toutcome nat) (o : tobs) : bool :=
  match out, o with
  | TOk cols, TObsOk cols' => list_eqb matches cols cols'
  | TErr, TObsErr => true
  | _, _ => false
  end.

Inductive case :=
| CVec (d : dunder) (tab : tab2) (xs : list (option nat)) (other : operand nat) (o : obs)
| CUnary (tab : tab1) (xs : list (option nat)) (o : obs)
| CBroadcast (explicit : bool) (k : option kind) (a : attr_class) (tab : tab1)
             (xs : list (option nat)) (o : obs)
| CTable (op : bop) (tab : tab2) (cols : list (list (option nat))) (other : toperand nat) (o : tobs)
| CDateAdd (xs : list (option Z)) (other : date_operand) (o : dobs) (generic : case)
             (* dates + other; when _Date.__add__ defers to Vector.__add__, [generic] decides *)
| CSkip                                           (* input outside the property's domain *)
| CBad.                                           (* unusable observation: never matches *)

Fixpoint check (c : case) : bool :=
  match c with
  | CVec d tab xs other o => matches (vec_dunder (fun _ => look2 tab) d xs other) o
  | CUnary tab xs o => matches (unary_operation (look1 tab) xs) o
  | CBroadcast explicit k a tab xs o => matches (broadcast (resolve explicit k a) (look1 tab) xs) o
  | CTable op tab cols other o => tmatches (table_operation (fun _ => look2 tab) op cols other) o
  | CDateAdd xs other o generic =>
      match date_add xs other, o with
      | DOk l, DObsOk l' => list_eqb oz_eqb l l'
      | DErrLen, DObsErr | DErrRaise, DObsErr => true
      | DSuper, _ => check generic
      | _, _ => false
      end
  | CSkip => true
  | CBad => false
  end.

Definition failing (cs : list case) : list nat := PyVal.failing check cs.
