(* Corr/JoinCase.v — shared by Corr/C09.v, C10.v, C11.v: one observed join call of the
   implementation (inputs + what it returned or raised), compared with the model's answer.

   Values travel as pairs (identity, rank): two cells hold "the same object" iff the
   identities agree (True and 1 differ), two keys are == iff the ranks agree (True == 1).
   Both numbers are computed by Python itself in the implementation process. *)
From Coq Require Import List Bool Arith String.
From Serif Require Import Base.PyVal Spec.Join Model.Join.
Import ListNotations.

Definition val := (nat * nat)%type.
Definition veq (a b : val) : bool := Nat.eqb (snd a) (snd b).
Definition v (i r : nat) : cell val := Some (i, r).
Definition NN : cell val := None.
Definition col (s : string) (k : option kind) (vs : list (cell val)) : column val := mkCol (Some s) k vs.
Definition ucol (k : option kind) (vs : list (cell val)) : column val := mkCol None k vs.
Definition bn (s : string) : kspec val := ByName val s.
Definition bv (c : column val) : kspec val := ByVec val c.

Inductive oerr := OValue | OType | OKey | OOther.
Inductive obs :=
| OErr (c : oerr)                          (* the call raised *)
| OTab (t : out_table val).                (* column_names() and the cells of the result *)
Inductive how := HInner | HLeft | HFull.

Inductive case :=
| CJoin (h : how) (e : string) (L R : table val) (lon ron : list (kspec val)) (o : obs)
| CSkip                                    (* input outside the property's domain *)
| CBad.                                    (* the observer itself failed: never matches *)

Definition run (h : how) (e : string) (L R : table val) (lon ron : list (kspec val))
  : result (out_table val) :=
  match h with
  | HInner => inner_join val veq e L R lon ron
  | HLeft => left_join val veq e L R lon ron
  | HFull => full_join val veq e L R lon ron
  end.

Definition cell_eqb (a b : cell val) : bool :=
  match a, b with
  | None, None => true
  | Some (i, r), Some (i', r') => Nat.eqb i i' && Nat.eqb r r'
  | _, _ => false
  end.
Definition name_eqb (a b : option string) : bool :=
  match a, b with
  | None, None => true
  | Some s, Some s' => String.eqb s s'
  | _, _ => false
  end.
Fixpoint list_eqb {A} (eqb : A -> A -> bool) (a b : list A) : bool :=
  match a, b with
  | [], [] => true
  | x :: a', y :: b' => eqb x y && list_eqb eqb a' b'
  | _, _ => false
  end.
Definition ocol_eqb (a b : option string * list (cell val)) : bool :=
  name_eqb (fst a) (fst b) && list_eqb cell_eqb (snd a) (snd b).

(* An expectation failure / bad expect / malformed key spec is SerifValueError by the code
   and by C11's text: the class must agree.  Other refusals (dtype, missing column) are
   compared only as "an error". *)
Definition check (c : case) : bool :=
  match c with
  | CJoin h e L R lon ron o =>
      match run h e L R lon ron, o with
      | Err EValue, OErr OValue => true
      | Err EValue, OErr _ => false
      | Err _, OErr _ => true
      | Ok T, OTab T' => list_eqb ocol_eqb T T'
      | _, _ => false
      end
  | CSkip => true
  | CBad => false
  end.

Definition failing (cs : list case) : list nat := PyVal.failing check cs.
