(* Corr/C17.v — correspondence checker for C17: what the implementation advertised and
   resolved is compared with the model's answers, case by case, inside Coq (vm_compute). *)
From Coq Require Import List Bool Arith Ascii String.
From Serif Require Import Base.PyVal Model.Naming.
Import ListNotations.

(* short constructors for the case files *)
Definition ss (l : list string) : list str := map s l.
Definition nm (id : nat) (t : string) : cname := mkN id (Some (s t)).   (* a named column *)
Definition un (id : nat) : cname := mkN id None.                        (* name is None *)

Fixpoint list_eqb {A} (eqb : A -> A -> bool) (a b : list A) : bool :=
  match a, b with
  | [], [] => true
  | x :: a', y :: b' => eqb x y && list_eqb eqb a' b'
  | _, _ => false
  end.
Definition strs_eqb := list_eqb str_eqb.
Definition set_eqb (a b : list str) : bool :=
  forallb (fun x => mem x b) a && forallb (fun x => mem x a) b.
Definition ores_eqb (a b : ores) : bool :=
  match a, b with
  | ROk, ROk | RFail, RFail => true
  | RIdx i, RIdx j => i =? j
  | RKeys k, RKeys l => set_eqb k l          (* dir() is a set *)
  | RRow None, RRow None => true
  | RRow (Some r), RRow (Some q) => strs_eqb r q
  | _, _ => false                              (* ROther never matches *)
  end.
Definition item_eqb (a b : str * nat) : bool := str_eqb (fst a) (fst b) && (snd a =? snd b).

Inductive case :=
| CReserved                                     (* the side condition of the theorems *)
| CSan (t : str) (obs : option str)             (* _sanitize_user_name(name) *)
| CTable (names : list cname)
         (items : list (str * nat))             (* t._build_column_map().items() *)
         (dircols : list str)                   (* dir(t) minus the object's own attributes *)
         (hdr : list str)                       (* display._compute_headers over all columns *)
         (dot : option (list str))              (* the dot row parsed back from repr(t) *)
         (ga ra si : list (str * ores))         (* getattr(t,a) / getattr(t[0],a) / t[0,a]=v *)
         (gi : list (nat * str * ores))         (* t[key]: key's equality id, key.lower() *)
| CHist (names : list cname) (ops : list (op * ores * list nat))
| CSkip
| CBad.

Section Check.
Variable reserved : list str.
(* Which of the two modelled __dir__ variants the tree implements: does __dir__ store the map it
   builds?  (On the pinned tree it does not: finding NEW-C17-1.)  Probed once by the harness,
   then validated by every history case that calls dir(). *)
Variable impl_dir_stores : bool.

Definition texts (ns : list cname) : list oname := map ntext ns.

Fixpoint check_hist (st : tstate) (ops : list (op * ores * list nat)) : bool :=
  match ops with
  | [] => true
  | (o, obs, after) :: t =>
      let r := step reserved impl_dir_stores st o in
      ores_eqb (snd r) obs &&
      list_eqb Nat.eqb (map nid (cnames_of (fst r))) after &&
      check_hist (fst r) t
  end.

Definition check (c : case) : bool :=
  match c with
  | CReserved => reserved_ok reserved
  | CSan t obs => ostr_eqb (sanitize reserved t) obs
  | CTable names items dircols hdr dot ga ra si gi =>
      let ns := texts names in
      list_eqb item_eqb (build_map reserved ns) items &&
      set_eqb (dir_cols reserved ns) dircols &&
      strs_eqb (headers reserved ns) hdr &&
      ores_eqb (RRow (repr_dot_row reserved ns)) (RRow dot) &&
      forallb (fun p => ores_eqb (oidx (resolve reserved ns (fst p))) (snd p)) ga &&
      forallb (fun p => ores_eqb (oidx (row_attr reserved ns (fst p))) (snd p)) ra &&
      forallb (fun p => ores_eqb (oidx (setitem_key reserved ns (fst p))) (snd p)) si &&
      forallb (fun p => match p with (kid, klow, r) =>
                          ores_eqb (oidx (getitem_str reserved names kid klow)) r end) gi
  | CHist names ops => check_hist (init reserved names) ops
  | CSkip => true
  | CBad => false
  end.

Definition failing (cs : list case) : list nat := PyVal.failing check cs.
End Check.
