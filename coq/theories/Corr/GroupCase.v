(* Corr/GroupCase.v — case type and checker shared by Corr/C12.v and Corr/C13.v.

   A non-None Python value of a column is shipped as (eqclass, rank, int value, id):
   eqclass under Python's == within its column, rank under < (0 where the column is not
   ordered), the integer it adds to a sum (0 for non-integers), and an id telling apart
   distinct objects (1, True, 1.0).  mean / stdev are per-case lookup tables from the list
   of ids of the cleaned values to a token: the token of the float Python computes for
   that list; floats observed in the result are mapped to the token of the table value
   they agree with (relative tolerance), or to a fresh token. *)
From Coq Require Import List Bool Arith ZArith.
From Serif Require Import Base.PyVal Model.Group.
Import ListNotations.

Definition X := (nat * Z * Z * nat)%type.
Definition x_eqc (x : X) : nat := fst (fst (fst x)).
Definition x_rank (x : X) : Z := snd (fst (fst x)).
Definition x_z (x : X) : Z := snd (fst x).
Definition x_id (x : X) : nat := snd x.

Definition xeq (a b : X) : bool := Nat.eqb (x_eqc a) (x_eqc b).
Definition xleb (a b : X) : bool := Z.leb (x_rank a) (x_rank b).
Definition ccell := option X.
Definition rcellc := rcell X nat.

Definition ftab := list (list nat * nat).

Fixpoint ids_eqb (a b : list nat) : bool :=
  match a, b with
  | [], [] => true
  | x :: s, y :: t => Nat.eqb x y && ids_eqb s t
  | _, _ => false
  end.

Fixpoint ftab_get (tab : ftab) (ids : list nat) : nat :=
  match tab with
  | [] => 4000                                   (* not tabulated: matches nothing observed *)
  | (k, v) :: r => if ids_eqb ids k then v else ftab_get r ids
  end.

Definition ffun (tab : ftab) (l : list X) : nat := ftab_get tab (map x_id l).

(* the custom functions the harness passes to `apply` *)
Definition F (fid : nat) (vals : list ccell) : rcellc :=
  match Nat.modulo fid 3 with                    (* number = 3 * (apply entry index) + behaviour *)
  | 0 => RRaw vals                               (* lambda vals: tuple(vals) *)
  | 1 => RInt (Z.of_nat (List.length vals))      (* len *)
  | _ => RNone                                   (* lambda vals: None *)
  end.

Definition x_eqb (a b : X) : bool :=
  Nat.eqb (x_eqc a) (x_eqc b) && Z.eqb (x_rank a) (x_rank b) && Z.eqb (x_z a) (x_z b)
  && Nat.eqb (x_id a) (x_id b).

Definition cell_eqb (a b : ccell) : bool :=
  match a, b with
  | None, None => true
  | Some x, Some y => x_eqb x y
  | _, _ => false
  end.

Fixpoint list_eqb {A} (eqb : A -> A -> bool) (l l' : list A) : bool :=
  match l, l' with
  | [], [] => true
  | x :: t, y :: t' => eqb x y && list_eqb eqb t t'
  | _, _ => false
  end.

Definition rcell_eqb (a b : rcellc) : bool :=
  match a, b with
  | RNone, RNone => true
  | RInt x, RInt y => Z.eqb x y
  | RElem x, RElem y => x_eqb x y
  | RTok x, RTok y => Nat.eqb x y
  | RRaw x, RRaw y => list_eqb cell_eqb x y
  | _, _ => false
  end.

Definition cols_eqb := list_eqb (list_eqb rcell_eqb).
Definition log_eqb := list_eqb (fun (a b : nat * list ccell) =>
                                  Nat.eqb (fst a) (fst b) && list_eqb cell_eqb (snd a) (snd b)).

Inductive case :=
| CAgg (window : bool) (t : list (list ccell)) (over : list (colspec X)) (a : aggargs X)
       (mtab stab : ftab)
       (obs : option (list (list rcellc)))       (* the result's columns; None = raised *)
       (log : list (nat * list ccell))           (* the calls the custom functions received *)
| CReduce (kind : aggkind) (data : list ccell) (mtab stab : ftab)
          (obs : option rcellc)                  (* Vector.sum() ...; None = raised *)
| CSkip
| CBad.

Definition check (c : case) : bool :=
  match c with
  | CAgg w t over a mtab stab obs log =>
      let run := if w then window xeq xleb x_z (ffun mtab) (ffun stab) F
                 else aggregate xeq xleb x_z (ffun mtab) (ffun stab) F in
      match run t over a, obs with
      | (Ok cols, lg), Some o => cols_eqb cols o && log_eqb lg log
      | (Err _, lg), None => log_eqb lg log
      | _, _ => false
      end
  | CReduce kind data mtab stab obs =>
      match obs with
      | Some r => rcell_eqb (vec_reduce xleb x_z (ffun mtab) (ffun stab) kind data) r
      | None => false
      end
  | CSkip => true
  | CBad => false
  end.

Definition failing (cs : list case) : list nat := PyVal.failing check cs.
