(* Corr/C14.v — correspondence checker for C14: the implementation's observed result of
   Table.sort_by / Vector.sort_by is compared with the model's, case by case (vm_compute).
   A value is shipped as (rank, id): rank under Python's own == / < within its column,
   id telling apart distinct objects of equal rank (1, True, 1.0). *)
From Coq Require Import List Bool Arith ZArith.
From Serif Require Import Base.PyVal Model.Sort.
Import ListNotations.

Definition V := (Z * nat)%type.
Definition vleb (a b : V) : bool := Z.leb (fst a) (fst b).
Definition ccell := option V.

Definition cell_eqb (a b : ccell) : bool :=
  match a, b with
  | None, None => true
  | Some (r, i), Some (r', i') => Z.eqb r r' && Nat.eqb i i'
  | _, _ => false
  end.

Fixpoint list_eqb {A} (eqb : A -> A -> bool) (l l' : list A) : bool :=
  match l, l' with
  | [], [] => true
  | x :: t, y :: t' => eqb x y && list_eqb eqb t t'
  | _, _ => false
  end.

Definition col_eqb := list_eqb cell_eqb.
Definition table_eqb := list_eqb col_eqb.

Definition vecs_of (by_ : list (keyspec V)) : list (list ccell) :=
  flat_map (fun s => match s with KVec d => [d] | KCol _ => [] end) by_.

Inductive case :=
| CTable (t : list (list ccell)) (by_ : list (keyspec V)) (rv : revspec) (na_last : bool)
         (obs : option (list (list ccell)))          (* the result's columns; None = raised *)
         (t_after : list (list ccell))               (* self after the call *)
         (vecs_after : list (list ccell))            (* the external key vectors after the call *)
| CVector (reverse na_last : bool) (data : list ccell)
          (obs : list ccell) (data_after : list ccell)
| CSkip                                              (* outside the domain (unordered key values) *)
| CBad.                                              (* Vector.sort_by raised *)

Definition check (c : case) : bool :=
  match c with
  | CTable t by_ rv nl obs t_after vecs_after =>
      let o := table_sort_by_call vleb t by_ rv nl in
      (match result o, obs with
       | Ok out, Some r => table_eqb out r
       | Err _, None => true
       | _, _ => false
       end)
      && table_eqb (self_after o) t_after
      && table_eqb (vecs_of (by_after o)) vecs_after
  | CVector rv nl data obs data_after =>
      col_eqb (vector_sort_by vleb rv nl data) obs && col_eqb data data_after
  | CSkip => true
  | CBad => false
  end.

Definition failing (cs : list case) : list nat := PyVal.failing check cs.
