(* Corr/C04.v — correspondence checker for C04: the implementation's observed answers
   are compared with the model's, case by case, inside Coq (vm_compute). *)
From Coq Require Import List Bool Arith.
From Serif Require Import Base.PyVal Model.Dtype.
Import ListNotations.

Inductive case :=
| CPromote (d : dtype) (v : pyv) (obs : dtype)     (* d.promote_with(v) == obs *)
| CValidate (v : pyv) (d : dtype) (obs : bool)     (* validate_scalar accepted? *)
| CInfer (l : list pyv) (obs : dtype)              (* infer_dtype(l) / a result column's schema *)
| CAll (cs : list case)                            (* every column of one result *)
| CSkip                                            (* input outside the property's domain *)
| CBad.                                            (* the implementation raised: never matches *)

Fixpoint check (c : case) : bool :=
  match c with
  | CPromote d v obs => dtype_eqb (promote_with d v) obs
  | CValidate v d obs => Bool.eqb (validate_scalar v d) obs
  | CInfer l obs => dtype_eqb (infer_dtype l) obs
  | CAll cs => forallb check cs
  | CSkip => true
  | CBad => false
  end.

Definition failing (cs : list case) : list nat := PyVal.failing check cs.
