(* Corr/C08.v — correspondence checker for C08: the implementation's observed state after an
   attempted assignment (values, dtype, name, fingerprint memo, sharing) and the error it raised
   are compared with the model's, inside Coq.  Error classes: the property names SerifTypeError
   (incompatible value), so "is it SerifTypeError" is compared; otherwise only error vs success. *)
From Coq Require Import List Bool Arith ZArith.
From Serif Require Import Base.PyVal Base.StErr Spec.PySlice Model.Dtype Model.Index Model.SetItem.
Import ListNotations.

Definition vinfo_eqb (a b : vinfo) : bool := kind_eqb (base a) (base b) && Bool.eqb (exact a) (exact b).
Definition elt_eqb (a b : elt) : bool :=
  match a, b with
  | None, None => true
  | Some (va, ia), Some (vb, ib) => vinfo_eqb va vb && Z.eqb ia ib
  | _, _ => false
  end.
Fixpoint list_eqb {X} (eqb : X -> X -> bool) (a b : list X) : bool :=
  match a, b with
  | [], [] => true
  | x :: a', y :: b' => eqb x y && list_eqb eqb a' b'
  | _, _ => false
  end.
Definition opt_eqb {X} (eqb : X -> X -> bool) (a b : option X) : bool :=
  match a, b with None, None => true | Some x, Some y => eqb x y | _, _ => false end.

Definition vstate_eqb (a b : vstate) : bool :=
  list_eqb elt_eqb (s_vals a) (s_vals b) && opt_eqb dtype_eqb (s_dt a) (s_dt b)
  && opt_eqb Nat.eqb (s_name a) (s_name b) && opt_eqb (list_eqb elt_eqb) (s_memo a) (s_memo b)
  (* every empty vector holds the one empty tuple: sharing is not tracked for it *)
  && (match s_vals a with [] => true | _ => Bool.eqb (s_shared a) (s_shared b) end).

Definition err_match (m : res unit) (o : option err) : bool :=
  match m, o with
  | Ok _, None => true
  | Err e, Some e' => Bool.eqb (err_eqb e EType) (err_eqb e' EType)
  | _, _ => false
  end.

(* conversions as Python computed them: (target kind, value id) -> result *)
Definition conv_of (tbl : list (kind * Z * elt)) (k : kind) (x : elt) : option elt :=
  match x with
  | None => Some None
  | Some (_, i) => match find (fun e => kind_eqb (fst (fst e)) k && Z.eqb (snd (fst e)) i) tbl with
                   | Some e => Some (snd e)
                   | None => None                       (* Python raised *)
                   end
  end.

(* the column map of the case tables: simple distinct-or-first names, found by equality *)
Fixpoint first_index (names : list (option nat)) (s : nat) (i : nat) : option nat :=
  match names with
  | [] => None
  | Some x :: t => if Nat.eqb x s then Some i else first_index t s (S i)
  | None :: t => first_index t s (S i)
  end.
Definition cmap0 (names : list (option nat)) (s : nat) : option nat := first_index names s 0.

Inductive case :=
| CSet (s : vstate) (k : skey) (v : value) (tbl : list (kind * Z * elt)) (e : option err) (s' : vstate)
| CTSet (cols : list vstate) (row_int : bool) (k : skey) (c : colspec) (v : tvalue)
        (tbl : list (kind * Z * elt)) (e : option err) (cols' : list vstate)
| CRename (names olds news : list name) (e : option err) (names' : list name)
| CSkip
| CBad.

Definition check (c : case) : bool :=
  match c with
  | CSet s k v tbl e s' =>
      let '(m, r) := setitem (conv_of tbl) k v s in
      err_match r e && vstate_eqb m s'
  | CTSet cols row_int k c v tbl e cols' =>
      let '(m, r) := tsetitem (conv_of tbl) cmap0 row_int k c v cols in
      err_match r e && list_eqb vstate_eqb m cols'
  | CRename names olds news e names' =>
      let '(m, r) := rename_columns olds news names in
      err_match r e && list_eqb name_eqb m names'
  | CSkip => true
  | CBad => false
  end.

Definition failing (cs : list case) : list nat := PyVal.failing check cs.
