(* Corr/C12.v — correspondence checker for C12 (aggregate, vector reductions): the cases
   and the checker are those of Corr/GroupCase.v (shared with C13). *)
From Coq Require Import List.
From Serif Require Import Base.PyVal Model.Group Corr.GroupCase.

Definition case := GroupCase.case.
Definition check : case -> bool := GroupCase.check.
Definition failing (cs : list case) : list nat := PyVal.failing check cs.
