(* Corr/C19.v — correspondence checker for C19: the table the implementation returned
   for a record list is compared, inside Coq, with the model's table. *)
From Coq Require Import List Bool Arith.
From Serif Require Import Base.PyVal Model.Dtype Model.Csv.
Import ListNotations.

(* the conversion table shipped by the harness: text id -> converted value *)
Fixpoint conv_of (tbl : list (nat * cval)) (t : nat) : cval :=
  match tbl with
  | [] => None
  | (k, v) :: r => if Nat.eqb k t then v else conv_of r t
  end.

Definition colname_eqb (a b : colname nat) : bool :=
  match a, b with
  | NText x, NText y => Nat.eqb x y
  | NGen i, NGen j => Nat.eqb i j
  | _, _ => false
  end.

Fixpoint list_eqb {A} (eqb : A -> A -> bool) (l1 l2 : list A) : bool :=
  match l1, l2 with
  | [], [] => true
  | x :: t1, y :: t2 => eqb x y && list_eqb eqb t1 t2
  | _, _ => false
  end.

Definition odtype_eqb (a b : option dtype) : bool :=
  match a, b with
  | None, None => true
  | Some x, Some y => dtype_eqb x y
  | _, _ => false
  end.

Definition column_eqb (a b : column nat) : bool :=
  colname_eqb (cname a) (cname b) && list_eqb cval_eqb (cdata a) (cdata b)
  && odtype_eqb (cdtype a) (cdtype b).

Inductive case :=
| CRead (has_header : bool) (recs : list (list nat)) (conv : list (nat * cval))
        (shape : nat * nat) (cols : list (column nat))   (* observed: t.shape, the columns *)
| CSkip                                                  (* csv.reader(csv.writer(records)) <> records *)
| CBad.                                                  (* the implementation raised *)

Definition check (c : case) : bool :=
  match c with
  | CRead hh recs conv (r, k) cols =>
      match read_records (conv_of conv) hh recs with
      | Done t => list_eqb column_eqb t cols && Nat.eqb (nrows t) r && Nat.eqb (ncols t) k
      | Raised => false
      end
  | CSkip => true
  | CBad => false
  end.

Definition failing (cs : list case) : list nat := PyVal.failing check cs.
