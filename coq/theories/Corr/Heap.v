(* Corr/Heap.v — refinement-mapping check for the heap model: after EVERY operation of a
   history the implementation's abstracted state (objects, storage identities, registry
   live view, fingerprint memos) must equal the model's, and the outcomes must agree. *)
From Coq Require Import List Bool Arith ZArith.
From Serif Require Import Base.PyVal Model.Dtype Model.Heap.
Import ListNotations.

Definition opt_eqb {A} (eqb : A -> A -> bool) (a b : option A) : bool :=
  match a, b with Some x, Some y => eqb x y | None, None => true | _, _ => false end.

Fixpoint list_eqb {A} (eqb : A -> A -> bool) (a b : list A) : bool :=
  match a, b with
  | [], [] => true
  | x :: s, y :: t => eqb x y && list_eqb eqb s t
  | _, _ => false
  end.

Definition vec_eqb (a b : vec) : bool :=
  list_eqb sval_eqb (vals a) (vals b) && Nat.eqb (sid a) (sid b) &&
  opt_eqb Nat.eqb (nm a) (nm b) && opt_eqb dtype_eqb (dt a) (dt b) && opt_eqb Z.eqb (vfp a) (vfp b).
Definition tab_eqb (a b : tab) : bool :=
  list_eqb Nat.eqb (cols a) (cols b) && Nat.eqb (tsid a) (tsid b) &&
  opt_eqb Nat.eqb (tnm a) (tnm b) && opt_eqb Z.eqb (tfp a) (tfp b).
Definition obj_eqb (a b : obj) : bool :=
  match a, b with OV x, OV y => vec_eqb x y | OT x, OT y => tab_eqb x y | _, _ => false end.

Definition subset (a b : list nat) : bool := forallb (fun x => mem x b) a.
Definition set_eqb (a b : list nat) : bool := subset a b && subset b a.

(* model state [m] vs observed state [o] *)
Definition state_eqv (m o : state) : bool :=
  Nat.eqb (List.length (heap m)) (List.length (heap o)) &&
  forallb (fun ho => match aget (heap m) (fst ho) with
                     | Some x => obj_eqb x (snd ho) | None => false end) (heap o) &&
  forallb (fun e => set_eqb (rget (reg m) (fst e)) (snd e)) (reg o) &&
  forallb (fun e => set_eqb (rget (reg o) (fst e)) (snd e)) (reg m).

Definition outcome_eqb (a b : outcome) : bool :=
  match a, b with
  | Ok, Ok | ErrAlias, ErrAlias | ErrType, ErrType | ErrOther, ErrOther => true
  | OkFp x, OkFp y => Z.eqb x y
  | _, _ => false
  end.

(* [tdied]: the objects observed to have been garbage-collected by the end of the step *)
(* [tshare]: the step is the constructor applied to a caller-supplied tuple (Vector(T)) - the one
   operation that may share storage; every other step is run with [step_d] (Model/Heap.v), which
   refuses to give a derived object storage that a live object holds *)
Record tstep := mkT { top : op; tshare : bool; tdied : list handle; tout : outcome; tst : state }.

(* index (from 1) of the first step whose outcome or state differs; 0 = the whole trace agrees *)
Fixpoint run (s : state) (n : nat) (t : list tstep) : nat :=
  match t with
  | [] => 0
  | x :: r =>
      let '(s0, out) := (if tshare x then step s (top x) else step_d s (top x)) in
      let s' := collect s0 (tdied x) in
      if outcome_eqb out (tout x) && state_eqv s' (tst x) then run s' (S n) r else S n
  end.

Definition check (t : list tstep) : bool := Nat.eqb (run init 0 t) 0.
Definition failing (ts : list (list tstep)) : list nat := PyVal.failing check ts.
(* for diagnosis: first bad step of each trace *)
Definition first_bad (ts : list (list tstep)) : list nat := map (run init 0) ts.
