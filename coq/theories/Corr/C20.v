(* Corr/C20.v — correspondence checker for C20: the implementation's repr string, parsed
   back by the harness into the model's structure, is compared with the model's repr.

   A parsed body token carries every (column, row, formatter) whose Python rendering is that
   token (the harness renders every value through every formatter with Python's own
   str/repr/format/isoformat); the model's line must be one of them.  Parts the harness
   did not parse (the "hostile values" stream: totality and footer only) are [None].

   The text "..." is what the two private markers of display.py print as (the row gap, the
   hidden-columns cell); a str-column cell equal to '...' prints the same text as its own
   str(), so a token can be the marker's text AND carry candidates: the model decides which
   it must be (a marker line [IEll]/[HEll] needs the text, a row needs a candidate). *)
From Coq Require Import List Bool Arith ZArith.
From Serif Require Import Base.PyVal Model.Repr.
Import ListNotations.

Definition fmt_eqb (a b : fmt) : bool :=
  match a, b with
  | FmtNone, FmtNone | FmtFix1, FmtFix1 | FmtG, FmtG | FmtStr, FmtStr
  | FmtIso, FmtIso | FmtRepr, FmtRepr => true
  | _, _ => false
  end.

(* a parsed body token: is it the text "...", and which (column, row, formatter) render to it *)
Inductive oitem := OI (is_ell : bool) (cands : list (nat * nat * fmt)).
(* a parsed display-name token: is it the bare text "..." (a column NAMED '...' is quoted: '...'),
   and which columns' stored names render to it *)
Inductive ohitem := OH (is_ell : bool) (cands : list nat).

Definition item_matches (j : nat) (m : item) (o : oitem) : bool :=
  match o, m with
  | OI e _, IEll => e
  | OI _ cs, IRow i f =>
      existsb (fun c => match c with (j', i', f') => Nat.eqb j j' && Nat.eqb i i' && fmt_eqb f f' end) cs
  end.

Definition hitem_matches (m : hitem) (o : ohitem) : bool :=
  match o, m with
  | OH e _, HEll => e
  | OH _ cs, HName j => existsb (Nat.eqb j) cs
  end.

Fixpoint all2 {A B} (p : A -> B -> bool) (l1 : list A) (l2 : list B) : bool :=
  match l1, l2 with
  | [], [] => true
  | x :: t1, y :: t2 => p x y && all2 p t1 t2
  | _, _ => false
  end.

Definition opt_check {A} (o : option A) (p : A -> bool) : bool :=
  match o with None => true | Some a => p a end.

Definition odt_eqb (a b : option dtype) : bool :=
  match a, b with
  | None, None => true
  | Some x, Some y => dtype_eqb x y
  | _, _ => false
  end.

Definition ftypes_eqb (a b : ftypes) : bool :=
  match a, b with
  | FMixed, FMixed => true
  | FOne x, FOne y => dtype_eqb x y
  | FList l1, FList l2 => all2 odt_eqb l1 l2
  | _, _ => false
  end.

(* observed vector repr *)
Inductive ovrepr :=
| OVExn                                                   (* repr raised *)
| OVEmpty                                                 (* "# empty ..." *)
| OVLines (hdr : option bool) (body : option (list oitem)) (count : nat) (dt : dtype)
| OVBad.                                                  (* the string has no recognisable shape *)

(* observed table repr; [ocols]: the model column shown at each body position is found by
   the checker itself (from the model's own column budget) *)
Inductive otrepr :=
| OTExn
| OTEmpty
| OTTensor
| OTTable (disp : option (option (list ohitem)))
          (types : option (option (list (option dtype))))
          (body : option (list (list oitem)))
          (frows fcols : nat) (ftys : ftypes)
| OTBad.

Inductive case :=
| CVec (glob : Z) (v : vec) (obs : ovrepr)
| CTbl (glob : Z) (t : tbl) (obs : otrepr)
| CSkip.

Definition check_vec (glob : Z) (v : vec) (obs : ovrepr) : bool :=
  match repr_vector glob v, obs with
  | Exn, OVExn => true
  | Ret VREmpty, OVEmpty => true
  | Ret (VRLines hdr body count dt), OVLines ohdr obody ocount odt =>
      opt_check ohdr (Bool.eqb hdr)
      && opt_check obody (all2 (item_matches 0) body)
      && Nat.eqb count ocount && dtype_eqb dt odt
  | _, _ => false
  end.

(* pair every body column of the model with the index of the table column it shows *)
Definition body_matches (num_cols : nat) (body : list colbody) (obody : list (list oitem)) : bool :=
  let idx := col_indices num_cols in
  let js := if truncated_cols num_cols then insert_at MAX_HEAD_COLS 0 idx else idx in
  all2 (fun (jc : nat * colbody) (oc : list oitem) =>
          match snd jc with
          | CItems l => all2 (item_matches (fst jc)) l oc
          | CDots n => Nat.eqb n (List.length oc) && forallb (fun o => match o with OI e _ => e end) oc
          end)
       (combine js body) obody
  && Nat.eqb (List.length js) (List.length body).

Definition check_tbl (glob : Z) (t : tbl) (obs : otrepr) : bool :=
  match repr_table glob t, obs with
  | Exn, OTExn => true
  | Ret TREmpty, OTEmpty => true
  | Ret TRTensor, OTTensor => true
  | Ret (TRTable disp types body fr fc ft), OTTable odisp otypes obody ofr ofc oft =>
      opt_check odisp (fun od => match disp, od with
                                 | None, None => true
                                 | Some r, Some r' => all2 hitem_matches r r'
                                 | _, _ => false
                                 end)
      && opt_check otypes (fun ot => match types, ot with
                                     | None, None => true
                                     | Some r, Some r' => all2 odt_eqb r r'
                                     | _, _ => false
                                     end)
      && opt_check obody (body_matches (t_ncols t) body)
      && Nat.eqb fr ofr && Nat.eqb fc ofc && ftypes_eqb ft oft
  | _, _ => false
  end.

Definition check (c : case) : bool :=
  match c with
  | CVec glob v obs => check_vec glob v obs
  | CTbl glob t obs => check_tbl glob t obs
  | CSkip => true
  end.

Definition failing (cs : list case) : list nat := PyVal.failing check cs.
