(* Corr/C10.v — correspondence checker for C10: every observed join call of the
   implementation is replayed through the model inside Coq (vm_compute); see JoinCase.v. *)
From Coq Require Import List.
From Serif Require Import Base.PyVal Corr.JoinCase.
Definition check := JoinCase.check.
Definition failing (cs : list JoinCase.case) : list nat := JoinCase.failing cs.
