(* Corr/C07.v — correspondence checker for C07.  Elements are [option Z]: None = Python's
   None, Some i = the i-th distinct value of the case (the harness numbers values by their
   exact type and content).  Error classes are not compared (the property names none):
   an observed error matches any model error. *)
From Coq Require Import List Bool Arith ZArith.
From Serif Require Import Base.PyVal Base.StErr Spec.PySlice Model.Index.
Import ListNotations.

Definition E := option Z.

Definition E_eqb (a b : E) : bool :=
  match a, b with
  | None, None => true
  | Some x, Some y => Z.eqb x y
  | _, _ => false
  end.

Fixpoint list_eqb {X} (eqb : X -> X -> bool) (a b : list X) : bool :=
  match a, b with
  | [], [] => true
  | x :: a', y :: b' => eqb x y && list_eqb eqb a' b'
  | _, _ => false
  end.

Definition opt_eqb {X} (eqb : X -> X -> bool) (a b : option X) : bool :=
  match a, b with
  | None, None => true
  | Some x, Some y => eqb x y
  | _, _ => false
  end.

Definition vec_eqb (a b : vec E) : bool :=
  list_eqb E_eqb (vals a) (vals b) && opt_eqb dtype_eqb (vdt a) (vdt b) && opt_eqb Nat.eqb (vname a) (vname b).

(* what the implementation did for a vector key *)
Inductive vobs :=
| OElt (x : E)
| OVec (v : vec E)
| OErr.

Definition vmatch (m : res (gres E)) (o : vobs) : bool :=
  match m, o with
  | Ok (GElt x), OElt y => E_eqb x y
  | Ok (GVec v), OVec w => vec_eqb v w
  | Err _, OErr => true
  | _, _ => false
  end.

(* what the implementation did for a table key *)
Inductive tobs :=
| OTab (cs : list (vec E))
| OCol (v : vec E)
| ORow (cells : list E)
| ORagged
| ONone
| OTErr.

Definition tmatch (m : res (tres E)) (o : tobs) : bool :=
  match m, o with
  | Ok (TTab t), OTab cs => list_eqb vec_eqb (cols t) cs
  | Ok (TCol v), OCol w => vec_eqb v w
  | Ok (TRow c), ORow d => list_eqb E_eqb c d
  | Ok TNoCols, OCol w => vec_eqb w (mkVec [] None None)    (* Vector(()) *)
  | Ok TRagged, ORagged => true
  | Ok TNone, ONone => true
  | Err _, OTErr => true
  | _, _ => false
  end.

(* comparison: scalar results as Python computed them, keyed by value ids (None = -1) *)
Definition eid (x : E) : Z := match x with None => (-1)%Z | Some i => i end.
Definition cmp_of (tbl : list (Z * Z * option bool)) (x y : E) : option bool :=
  match find (fun e => Z.eqb (fst (fst e)) (eid x) && Z.eqb (snd (fst e)) (eid y)) tbl with
  | Some e => snd e
  | None => None
  end.
Definition E_is_none (x : E) : bool := match x with None => true | Some _ => false end.

(* in case files the second (sanitised-name) lookup pass finds nothing: the generators use
   only exact names and names that match no column under any spelling *)
Definition no_fallback (_ : list (option nat)) (_ : nat) : option nat := None.

(* the fixed vector / table of the slice box *)
Definition box_vec (n : nat) (off : Z) (d : dtype) (name : nat) : vec E :=
  mkVec (map (fun i => Some (off + Z.of_nat i)%Z) (seq 0 n))
        (if Nat.eqb n 0 then None else Some d)        (* Vector([]) is untyped *)
        (Some name).
Definition box_tab (n : nat) : table E :=
  mkTab [box_vec n 0 (mkD KInt false) 0; box_vec n 100 (mkD KStr false) 1].

(* compact spellings for the slice box (29 k cases per run): a bound is a Z with 99 = None;
   [VB l] / [TB l] = "the expected kind of object (same dtype, same names) holding the elements at
   positions l of the original"; anything else the implementation returned is spelled out with VG / TG *)
Definition oz (z : Z) : option Z := if Z.eqb z 99 then None else Some z.
Inductive bvobs := VB (l : list nat) | VG (o : vobs).
Inductive btobs := TB (l : list nat) | TG (o : tobs).
Definition pick_vec (n : nat) (off : Z) (d : dtype) (name : nat) (l : list nat) : vec E :=
  mkVec (map (fun i => Some (off + Z.of_nat i)%Z) l) (if Nat.eqb n 0 then None else Some d) (Some name).
Definition bv_expand (n : nat) (o : bvobs) : vobs :=
  match o with VB l => OVec (pick_vec n 0 (mkD KInt false) 0 l) | VG o => o end.
Definition bt_expand (n : nat) (o : btobs) : tobs :=
  match o with
  | TB l => OTab [pick_vec n 0 (mkD KInt false) 0 l; pick_vec n 100 (mkD KStr false) 1 l]
  | TG o => o
  end.

Inductive case :=
(* slice box: CPython's list(range(n))[a:b:s]; typeutils.slice_length; v[a:b:s]; t[a:b:s] *)
| CBox (n : nat) (a b s : Z) (py : list nat) (slen : Z) (vo : bvobs) (to : btobs)
| CGet (v : vec E) (k : key) (o : vobs)
| CCmp (xs : list E) (other : operand E) (tbl : list (Z * Z * option bool)) (o : option (list bool * option dtype * option nat))
| CTab (cs : list (vec E)) (k : tkey) (o : tobs)
(* t[rows][names] and t[names][rows] *)
| CCommute (cs : list (vec E)) (rows : key) (names : list nat) (o1 o2 : tobs)
| CSkip
| CBad.

Definition tget : table E -> tkey -> res (tres E) := tgetitem no_fallback no_fallback.

Definition then_get (r : res (tres E)) (k : tkey) : res (tres E) :=
  match r with
  | Ok (TTab t) => tget t k
  | Ok _ => Err EOther
  | Err e => Err e
  end.

Definition check (c : case) : bool :=
  match c with
  | CBox n a b s py slen vo to =>
      let '(a, b, s) := (oz a, oz b, oz s) in
      list_eqb Nat.eqb (slice_positions a b s n) py
      && Z.eqb (slice_length a b s (Z.of_nat n)) slen          (* slen = -1 when slice_length raised *)
      && vmatch (getitem (box_vec n 0 (mkD KInt false) 0) (IxSlice a b s)) (bv_expand n vo)
      && tmatch (tget (box_tab n) (TKRows (IxSlice a b s))) (bt_expand n to)
  | CGet v k o => vmatch (getitem v k) o
  | CCmp xs other tbl o =>
      match compare E_is_none (cmp_of tbl) xs other, o with
      | Ok bs, Some (obs, dt, name) =>
          list_eqb Bool.eqb bs obs && opt_eqb dtype_eqb dt (Some (mkD KBool false))
          && opt_eqb Nat.eqb name None
      | Err _, None => true
      | _, _ => false
      end
  | CTab cs k o => tmatch (tget (mkTab cs) k) o
  | CCommute cs rows names o1 o2 =>
      tmatch (then_get (tget (mkTab cs) (TKRows rows)) (TKNames names)) o1
      && tmatch (then_get (tget (mkTab cs) (TKNames names)) (TKRows rows)) o2
  | CSkip => true
  | CBad => false
  end.

Arguments CBox n (a b s)%Z py slen%Z vo to.

Definition failing (cs : list case) : list nat := PyVal.failing check cs.
