(* Corr/C06.v — correspondence checker for C06: the implementation's observed results are
   compared with the model's, case by case, inside Coq (vm_compute).  Values are opaque ids
   (see Corr/C05.v); Python's own scalar answers arrive as finite tables. *)
From Coq Require Import List Bool Arith ZArith.
From Serif Require Import Base.PyVal Model.Dtype Model.Elementwise Model.NoneOps Corr.C05.
Import ListNotations.

(* bool(op(x, y)) for the pairs that occur; a missing entry = raises *)
Definition ctab := list ((nat * nat) * sres bool).
Fixpoint lookc (t : ctab) (x y : nat) : sres bool :=
  match t with
  | [] => SRaise
  | ((a, b), r) :: t' => if (a =? x) && (b =? y) then r else lookc t' x y
  end.

(* a builtin applied to a None-free list, for the lists that occur *)
Definition ltab := list (list nat * sres nat).
Fixpoint lookl (t : ltab) (l : list nat) : sres nat :=
  match t with
  | [] => SRaise
  | (k, r) :: t' => if list_eqb Nat.eqb k l then r else lookl t' l
  end.

Fixpoint lookb (t : list (nat * bool)) (x : nat) : bool :=
  match t with [] => false | (a, b) :: t' => if a =? x then b else lookb t' x end.
Fixpoint lookcls (t : list (nat * vinfo)) (x : nat) : vinfo :=
  match t with [] => mkV KObject true | (a, v) :: t' => if a =? x then v else lookcls t' x end.
Fixpoint lookconv (t : list ((kind * nat) * nat)) (k : kind) (x : nat) : nat :=
  match t with
  | [] => 0                                   (* never an id: ids start at 1 *)
  | ((k', a), r) :: t' => if kind_eqb k k' && (a =? x) then r else lookconv t' k x
  end.

Definition odtype_eqb (a b : option dtype) : bool :=
  match a, b with
  | Some x, Some y => dtype_eqb x y
  | None, None => true
  | _, _ => false
  end.

Inductive cobs := CObsOk (l : list bool) (d : option dtype) | CObsErr.
Inductive fobs := FObsOk (l : list (option nat)) (d : option dtype) | FObsErr.

Definition cmatches (out : coutcome) (o : cobs) : bool :=
  match out, o with
  | COk l d, CObsOk l' d' => list_eqb Bool.eqb l l' && odtype_eqb (Some d) d'
  | CErrLen, CObsErr | CErrRaise, CObsErr => true
  | _, _ => false
  end.

Definition rmatches (out o : rres nat) : bool :=
  match out, o with
  | RVal a, RVal b => a =? b
  | RNone, RNone => true
  | RBool a, RBool b => Bool.eqb a b
  | RErr, RErr => true
  | _, _ => false
  end.

Definition fmatches (out : fres nat) (o : fobs) : bool :=
  match out, o with
  | FOk l d, FObsOk l' d' => list_eqb onat_eqb l l' && odtype_eqb d d'
  | FErr, FObsErr => true
  | _, _ => false
  end.

Inductive case :=
| KArith (c : C05.case)                      (* arithmetic with None operands: the C05 machinery *)
| KCompare (tab : ctab) (xs : list (option nat)) (other : operand nat) (o : cobs)
| KDateCompare (tab iso dt : ctab) (xs : list (option nat)) (other : date_coperand nat) (o : cobs)
| KReduce (r : reduction) (addtab : tab2) (zero : nat) (truth : list (nat * bool)) (ftab : ltab)
          (xs : list (option nat)) (o : rres nat)
| KLen (xs : list (option nat)) (n : nat)
| KIsna (xs : list (option nat)) (l : list bool) (d : option dtype)
| KDropna (dt : option dtype) (xs : list (option nat)) (l : list (option nat)) (d : option dtype)
| KFillna (clstab : list (nat * vinfo)) (convtab : list ((kind * nat) * nat)) (value : option nat)
          (xs : list (option nat)) (dt : option dtype) (o : fobs)
| KSkip
| KBad.

Definition check (c : case) : bool :=
  match c with
  | KArith c' => C05.check c'
  | KCompare tab xs other o => cmatches (elementwise_compare (lookc tab) xs other) o
  | KDateCompare tab iso dt xs other o =>
      cmatches (date_compare (lookc tab) (lookc iso) (lookc dt) xs other) o
  | KReduce r addtab zero truth ftab xs o =>
      rmatches (reduce (look2 addtab) zero (lookb truth) (lookl ftab) (lookl ftab) (lookl ftab)
                       (fun _ => lookl ftab) r xs) o
  | KLen xs n => vlen xs =? n
  | KIsna xs l d => list_eqb Bool.eqb (fst (isna xs)) l && odtype_eqb (Some (snd (isna xs))) d
  | KDropna dt xs l d =>
      list_eqb onat_eqb (fst (dropna dt xs)) l && odtype_eqb (snd (dropna dt xs)) d
  | KFillna clstab convtab value xs dt o =>
      fmatches (fillna (lookcls clstab) (lookconv convtab) value xs dt) o
  | KSkip => true
  | KBad => false
  end.

Definition failing (cs : list case) : list nat := PyVal.failing check cs.
