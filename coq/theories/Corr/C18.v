(* Corr/C18.v — correspondence checker for C18: the .name / .column_names() the implementation
   produced for every node of an expression tree vs the model's evaluation of that node. *)
From Coq Require Import List Bool Arith Ascii String.
From Serif Require Import Base.PyVal Model.Naming Model.Names.
Import ListNotations.

Definition ss (l : list string) : list str := map s l.
Definition Q (t : string) : vname := Some (s t).

Fixpoint names_eqb (a b : tnames) : bool :=
  match a, b with
  | [], [] => true
  | x :: a', y :: b' => vname_eqb x y && names_eqb a' b'
  | _, _ => false
  end.

Inductive case :=
| CV (e : vexpr) (obs : vname)          (* result.name *)
| CT (e : texpr) (obs : tnames)         (* result.column_names() *)
| CAll (cs : list case)                 (* every node of one expression tree *)
| CSkip
| CBad.

Section Check.
Variable reserved : list str.
(* which of the two modelled variants of scalar (op) table the tree implements (probed once by the
   harness, then validated by every case with a reflected operator) *)
Variable routed : bool.

Fixpoint check (c : case) : bool :=
  match c with
  | CV e obs => vname_eqb (eval_v reserved routed e) obs
  | CT e obs => names_eqb (eval_t reserved routed e) obs
  | CAll cs => forallb check cs
  | CSkip => true
  | CBad => false
  end.
Definition failing (cs : list case) : list nat := PyVal.failing check cs.
End Check.
