(* Model/Group.v — executable model of Table.aggregate and Table.window (table.py) and of
   the whole-column reductions Vector.sum/mean/min/max/stdev (vector.py), following the
   Python code step by step.  No proofs here.

   The Python dict is an insertion-ordered association list looked up with the key
   equality (DESIGN.md §3); a key that is == to a stored key finds the stored one, and
   the dict keeps the key OBJECT that was inserted first.  Result column NAMES
   (make_agg_name / uniquify) belong to property C18 and are not modelled here. *)
From Coq Require Import List Bool Arith ZArith.
Import ListNotations.

Inductive err := EValue | EKey | EType.
Inductive res (A : Type) := Ok (a : A) | Err (e : err).
Arguments Ok {A}.
Arguments Err {A}.

(* ------------------------------------------------------------------ the partition index *)
Section Dict.
  Variable K : Type.
  Variable keq : K -> K -> bool.

  Definition pindex := list (K * list nat).           (* key -> row indices, in insertion order *)

  (* bucket = partition_index.get(key)
     if bucket is None: partition_index[key] = [row_idx]   else: bucket.append(row_idx) *)
  Fixpoint dict_add (d : pindex) (k : K) (i : nat) : pindex :=
    match d with
    | [] => [(k, [i])]
    | (k', b) :: r => if keq k k' then (k', b ++ [i]) :: r else (k', b) :: dict_add r k i
    end.

  (* for row_idx in range(nrows): ... *)
  Fixpoint build_from (d : pindex) (n0 : nat) (ks : list K) : pindex :=
    match ks with
    | [] => d
    | k :: t => build_from (dict_add d k n0) (S n0) t
    end.

  Definition partition (row_keys : list K) : pindex := build_from [] 0 row_keys.

  (* d[k] for a dict from keys to anything *)
  Fixpoint assoc_get {B} (d : list (K * B)) (k : K) : option B :=
    match d with
    | [] => None
    | (k', v) :: r => if keq k k' then Some v else assoc_get r k
    end.
End Dict.

Arguments dict_add {K}.
Arguments build_from {K}.
Arguments partition {K}.
Arguments assoc_get {K} keq {B}.

Inductive aggkind := ASum | AMean | AMin | AMax | ACount | AStdev.

Section Group.
  Variable X : Type.                      (* non-None Python values *)
  Variable T : Type.                      (* results of mean / stdev (floats, kept opaque) *)
  Variable xeq : X -> X -> bool.          (* Python ==, with which hash agrees *)
  Variable xleb : X -> X -> bool.         (* xleb x y = not (y < x) *)
  Variable xz : X -> Z.                   (* the integer a bool/int value adds to a sum *)
  Variable fmean : list X -> T.           (* sum(clean) / len(clean) *)
  Variable fstdev : list X -> T.          (* (sum((v - m) ** 2 for v in clean) / (n - 1)) ** 0.5 *)

  Definition cell := option X.            (* None = Python None *)

  (* what a result column can hold *)
  Inductive rcell :=
  | RNone
  | RInt (z : Z)                          (* a sum or a count *)
  | RElem (x : X)                         (* an element of the input: key cell, min, max *)
  | RTok (t : T)                          (* a mean or stdev *)
  | RRaw (l : list cell).                 (* a custom function's picture of its argument *)

  Variable F : nat -> list cell -> rcell. (* the custom functions of `apply`, by number *)

  Definition rc (c : cell) : rcell := match c with None => RNone | Some x => RElem x end.

  (* None is a key like any other: None == None, None != value *)
  Definition ceq (a b : cell) : bool :=
    match a, b with
    | None, None => true
    | Some x, Some y => xeq x y
    | _, _ => false
    end.

  Definition key := list cell.            (* the tuple of key cells of one row *)
  Fixpoint keq (a b : key) : bool :=      (* tuple == *)
    match a, b with
    | [], [] => true
    | x :: s, y :: t => ceq x y && keq s t
    | _, _ => false
    end.

  (* key = tuple(over_data[i][row_idx] for i in range(pk_len)) *)
  Definition row_key (over : list (list cell)) (i : nat) : key := map (fun col => nth i col None) over.
  Definition row_keys (over : list (list cell)) (n : nat) : list key := map (row_key over) (seq 0 n).

  (* ---- the aggregating functions ---- *)
  Definition clean (vals : list cell) : list X :=           (* [v for v in vals if v is not None] *)
    flat_map (fun c => match c with Some x => [x] | None => [] end) vals.

  (* sum(v for v in vals if v is not None): left to right from 0 *)
  Definition py_sum (vals : list cell) : rcell := RInt (fold_left (fun acc x => acc + xz x)%Z (clean vals) 0%Z).
  (* sum(1 for v in vals if v is not None) *)
  Definition py_count (vals : list cell) : rcell := RInt (fold_left (fun acc _ => acc + 1)%Z (clean vals) 0%Z).
  (* min(clean): keeps the first of the smallest (replace only when item < current) *)
  Definition min_list (l : list X) : option X :=
    match l with
    | [] => None
    | x :: t => Some (fold_left (fun m y => if negb (xleb m y) then y else m) t x)
    end.
  (* max(clean): keeps the first of the largest (replace only when item > current) *)
  Definition max_list (l : list X) : option X :=
    match l with
    | [] => None
    | x :: t => Some (fold_left (fun m y => if negb (xleb y m) then y else m) t x)
    end.
  Definition py_min (vals : list cell) : rcell := rc (min_list (clean vals)).   (* ... if clean else None *)
  Definition py_max (vals : list cell) : rcell := rc (max_list (clean vals)).
  Definition py_mean (vals : list cell) : rcell :=
    match clean vals with [] => RNone | c => RTok (fmean c) end.
  Definition py_stdev (vals : list cell) : rcell :=
    let c := clean vals in if Nat.leb (List.length c) 1 then RNone else RTok (fstdev c).

  Definition agg_fn (k : aggkind) : list cell -> rcell :=
    match k with
    | ASum => py_sum | AMean => py_mean | AMin => py_min | AMax => py_max
    | ACount => py_count | AStdev => py_stdev
    end.

  (* ---- arguments ---- *)
  Definition table := list (list cell).
  Definition nrows (t : table) : nat := match t with [] => 0 | c :: _ => List.length c end.

  Inductive colspec := KCol (j : nat) | KVec (d : list cell).    (* column name / Vector *)

  Record aggargs := mkArgs {
    a_sum : option (list colspec); a_mean : option (list colspec); a_min : option (list colspec);
    a_max : option (list colspec); a_stdev : option (list colspec); a_count : option (list colspec);
    a_apply : option (list (colspec * nat)) }.            (* {name: (column, function)} in dict order *)

  Definition resolve_col (t : table) (spec : colspec) : res (list cell) :=
    match spec with
    | KCol j => match nth_error t j with Some c => Ok c | None => Err EKey end
    | KVec d => Ok d
    end.

  Fixpoint resolve_list (t : table) (specs : list colspec) : res (list (list cell)) :=
    match specs with
    | [] => Ok []
    | s :: rest =>
        match resolve_col t s with
        | Err e => Err e
        | Ok c => match resolve_list t rest with Err e => Err e | Ok r => Ok (c :: r) end
        end
    end.

  (* normalize(v); a later `if sum_over:` skips None and [] alike *)
  Definition normalize (t : table) (v : option (list colspec)) : res (list (list cell)) :=
    match v with None => Ok [] | Some l => resolve_list t l end.

  Definition tag (k : aggkind) (cols : list (list cell)) : list (aggkind * list cell) :=
    map (fun c => (k, c)) cols.

  (* steps 1-2: resolve `over`, then sum, mean, min, max, stdev, count; the built-ins are
     later evaluated in the order sum, mean, min, max, count, stdev *)
  Definition resolve_args (t : table) (over : list colspec) (a : aggargs)
    : res (list (list cell) * list (aggkind * list cell)) :=
    match resolve_list t over with Err e => Err e | Ok ov =>
    match normalize t (a_sum a) with Err e => Err e | Ok s =>
    match normalize t (a_mean a) with Err e => Err e | Ok m =>
    match normalize t (a_min a) with Err e => Err e | Ok mi =>
    match normalize t (a_max a) with Err e => Err e | Ok ma =>
    match normalize t (a_stdev a) with Err e => Err e | Ok sd =>
    match normalize t (a_count a) with Err e => Err e | Ok c =>
      Ok (ov, tag ASum s ++ tag AMean m ++ tag AMin mi ++ tag AMax ma ++ tag ACount c ++ tag AStdev sd)
    end end end end end end end.

  Definition apply_entries (a : aggargs) : list (colspec * nat) :=
    match a_apply a with None => [] | Some l => l end.

  (* ---- aggregate ---- *)
  Definition gather (data : list cell) (rows : list nat) : list cell :=   (* [data[i] for i in rows] *)
    map (fun i => nth i data None) rows.

  Definition aggregate_col (groups : pindex key) (data : list cell) (f : list cell -> rcell) : list rcell :=
    map (fun g => f (gather data (snd g))) groups.

  Fixpoint run_builtins (n : nat) (groups : pindex key) (bs : list (aggkind * list cell))
    : res (list (list rcell)) :=
    match bs with
    | [] => Ok []
    | (kind, data) :: rest =>
        if negb (Nat.eqb (List.length data) n) then Err EValue
        else match run_builtins n groups rest with
             | Err e => Err e
             | Ok cols => Ok (aggregate_col groups data (agg_fn kind) :: cols)
             end
    end.

  (* the calls made to the custom functions, in order: (function, argument) *)
  Definition calllog := list (nat * list cell).

  Fixpoint run_apply (t : table) (n : nat) (groups : pindex key) (aps : list (colspec * nat))
    : res (list (list rcell)) * calllog :=
    match aps with
    | [] => (Ok [], [])
    | (spec, fid) :: rest =>
        match resolve_col t spec with
        | Err e => (Err e, [])
        | Ok data =>
            if negb (Nat.eqb (List.length data) n) then (Err EValue, [])
            else
              let calls := map (fun g => (fid, gather data (snd g))) groups in
              let col := map (fun g => F fid (gather data (snd g))) groups in
              match run_apply t n groups rest with
              | (Err e, lg) => (Err e, calls ++ lg)
              | (Ok cols, lg) => (Ok (col :: cols), calls ++ lg)
              end
        end
    end.

  Definition aggregate_core (t : table) (n : nat) (ov : list (list cell))
             (bs : list (aggkind * list cell)) (aps : list (colspec * nat))
    : res (list (list rcell)) * calllog :=
    let groups := partition keq (row_keys ov n) in             (* group_items *)
    let keycols := map (fun idx => map (fun g => rc (nth idx (fst g) None)) groups)
                       (seq 0 (List.length ov)) in
    match run_builtins n groups bs with
    | Err e => (Err e, [])
    | Ok bcols =>
        match run_apply t n groups aps with
        | (Err e, lg) => (Err e, lg)
        | (Ok acols, lg) => (Ok (keycols ++ bcols ++ acols), lg)
        end
    end.

  Definition aggregate (t : table) (over : list colspec) (a : aggargs)
    : res (list (list rcell)) * calllog :=
    match resolve_args t over a with
    | Err e => (Err e, [])
    | Ok (ov, bs) =>
        let n := nrows t in
        if negb (forallb (fun c => Nat.eqb (List.length c) n) ov) then (Err EValue, [])
        else aggregate_core t n ov bs (apply_entries a)
    end.

  (* ---- window ---- *)
  (* compute_group_values: {key: fn(vals)} in group order; expand_to_rows: [gm[row_keys[i]]] *)
  Definition expand (rks : list key) (groups : pindex key) (vals : list rcell) : list rcell :=
    let gm := combine (map fst groups) vals in
    map (fun k => match assoc_get keq gm k with Some v => v | None => RNone end) rks.

  Fixpoint wrun_builtins (n : nat) (rks : list key) (groups : pindex key)
           (bs : list (aggkind * list cell)) : res (list (list rcell)) :=
    match bs with
    | [] => Ok []
    | (kind, data) :: rest =>
        if negb (Nat.eqb (List.length data) n) then Err EValue
        else match wrun_builtins n rks groups rest with
             | Err e => Err e
             | Ok cols => Ok (expand rks groups (aggregate_col groups data (agg_fn kind)) :: cols)
             end
    end.

  Fixpoint wrun_apply (t : table) (n : nat) (rks : list key) (groups : pindex key)
           (aps : list (colspec * nat)) : res (list (list rcell)) * calllog :=
    match aps with
    | [] => (Ok [], [])
    | (spec, fid) :: rest =>
        match resolve_col t spec with
        | Err e => (Err e, [])
        | Ok data =>
            if negb (Nat.eqb (List.length data) n) then (Err EValue, [])
            else
              let calls := map (fun g => (fid, gather data (snd g))) groups in
              let col := expand rks groups (map (fun g => F fid (gather data (snd g))) groups) in
              match wrun_apply t n rks groups rest with
              | (Err e, lg) => (Err e, calls ++ lg)
              | (Ok cols, lg) => (Ok (col :: cols), calls ++ lg)
              end
        end
    end.

  Definition window_core (t : table) (n : nat) (ov : list (list cell))
             (bs : list (aggkind * list cell)) (aps : list (colspec * nat))
    : res (list (list rcell)) * calllog :=
    let rks := row_keys ov n in
    let groups := partition keq rks in
    let keycols := map (fun col => map rc col) ov in          (* Vector(list(col)) *)
    match wrun_builtins n rks groups bs with
    | Err e => (Err e, [])
    | Ok bcols =>
        match wrun_apply t n rks groups aps with
        | (Err e, lg) => (Err e, lg)
        | (Ok acols, lg) => (Ok (keycols ++ bcols ++ acols), lg)
        end
    end.

  Definition window (t : table) (over : list colspec) (a : aggargs)
    : res (list (list rcell)) * calllog :=
    match resolve_args t over a with
    | Err e => (Err e, [])
    | Ok (ov, bs) =>
        let n := nrows t in
        if negb (forallb (fun c => Nat.eqb (List.length c) n) ov) then (Err EValue, [])
        else window_core t n ov bs (apply_entries a)
    end.

  (* ---- vector.py: whole-column reductions (1-D case) ---- *)
  Definition vec_sum (data : list cell) : rcell := py_sum data.
  Definition vec_mean (data : list cell) : rcell :=
    match clean data with [] => RNone | c => RTok (fmean c) end.
  Definition vec_min (data : list cell) : rcell := rc (min_list (clean data)).
  Definition vec_max (data : list cell) : rcell := rc (max_list (clean data)).
  (* if len(non_none) < 2: return None; the float formula (x-m)*(x-m) is the same function
     up to rounding and is represented by the same [fstdev] *)
  Definition vec_stdev (data : list cell) : rcell :=
    let c := clean data in if Nat.ltb (List.length c) 2 then RNone else RTok (fstdev c).

  Definition vec_reduce (k : aggkind) (data : list cell) : rcell :=
    match k with
    | ASum => vec_sum data | AMean => vec_mean data | AMin => vec_min data | AMax => vec_max data
    | AStdev => vec_stdev data
    | ACount => py_count data           (* no Vector.count(); kept total *)
    end.
End Group.

Arguments RNone {X T}.
Arguments RInt {X T}.
Arguments RElem {X T}.
Arguments RTok {X T}.
Arguments RRaw {X T}.
Arguments KCol {X}.
Arguments KVec {X}.
Arguments rc {X T}.
Arguments ceq {X}.
Arguments keq {X}.
Arguments row_key {X}.
Arguments row_keys {X}.
Arguments clean {X}.
Arguments py_sum {X T}.
Arguments py_count {X T}.
Arguments min_list {X}.
Arguments max_list {X}.
Arguments py_min {X T}.
Arguments py_max {X T}.
Arguments py_mean {X T}.
Arguments py_stdev {X T}.
Arguments agg_fn {X T}.
Arguments nrows {X}.
Arguments mkArgs {X}.
Arguments a_sum {X}.
Arguments a_mean {X}.
Arguments a_min {X}.
Arguments a_max {X}.
Arguments a_stdev {X}.
Arguments a_count {X}.
Arguments a_apply {X}.
Arguments resolve_col {X}.
Arguments resolve_list {X}.
Arguments normalize {X}.
Arguments tag {X}.
Arguments resolve_args {X}.
Arguments apply_entries {X}.
Arguments gather {X}.
Arguments aggregate_col {X T}.
Arguments run_builtins {X T}.
Arguments run_apply {X T}.
Arguments aggregate_core {X T}.
Arguments aggregate {X T}.
Arguments expand {X T}.
Arguments wrun_builtins {X T}.
Arguments wrun_apply {X T}.
Arguments window_core {X T}.
Arguments window {X T}.
Arguments vec_reduce {X T}.
