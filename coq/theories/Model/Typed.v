(* Model/Typed.v — executable model (C03) of every public serif operation that produces or
   mutates a Vector WITHOUT simply re-inferring its dtype from its values, and of the ones
   that do re-infer (they are one constructor call).  Written by reading, on the current tree,
     vector.py  Vector.__new__/__init__, new, copy, to_object, cast, fillna, dropna, isna,
                isinstance, T, __getitem__ (via Model/Index.v), __setitem__ and _promote (via
                Model/SetItem.v), _elementwise_compare, _elementwise_operation, _unary_operation,
                __invert__, __radd__, __lshift__, __rshift__, sort_by, MethodProxy, __getattr__,
                _String / _Date methods, _Date.__add__
     table.py   Row.__init__ (the dtype of a row view), Table.__init__ (columns are copies),
                Table.T, Table.__rshift__ / __lshift__
   A typed vector is (storage, dtype option, name): Model.Index.vec over Model.SetItem.elt.
   Scalar semantics are NOT modelled: where Python computes element values (other + x, -x,
   int(x), s.upper() ...) the results are a parameter of the operation ([res]); where serif's own
   code decides the class of a result (the date / datetime interceptors of cast, `not x`, the
   comparison results, the fallback tuples) the model computes it.  No proofs here. *)
From Coq Require Import List Bool Arith ZArith.
From Serif Require Import Base.PyVal Base.StErr Spec.PySlice Model.Dtype Model.Index Model.SetItem
  Spec.Truthful.
Import ListNotations.

(* ---- construction --------------------------------------------------------------------------- *)

(* Vector(values, dtype=dt, name=nm), 1-D:  `if dtype is None and initial: dtype = infer_dtype(initial)`.
   An empty vector built without dtype stays untyped (schema() is None). *)
Definition mk_vector (l : list elt) (dt : option dtype) (nm : option nat) : tvec :=
  mkVec l (match dt with
           | Some d => Some d
           | None => match l with [] => None | _ => Some (infer_dtype (infos_of l)) end
           end) nm.

(* Vector(vals, dtype=infer_dtype(vals)): always typed (infer_dtype(()) is object?) *)
Definition mk_inferred (l : list elt) (nm : option nat) : tvec :=
  mkVec l (Some (infer_dtype (infos_of l))) nm.

(* Vector.copy(): Vector(list(self._underlying), dtype=self._dtype, name=self._name) *)
Definition copy (v : tvec) : tvec := mk_vector (vals v) (vdt v) (vname v).
(* Vector.copy(new_values, name): the declared dtype, widened by every new value exactly as inference
   would (for x in values: dtype = dtype.promote_with(x)); used by __getitem__ *)
Definition copy_new (v : tvec) (l : list elt) (nm : option nat) : tvec :=
  mk_vector l (option_map (fun d => fold_left promote_with (infos_of l) d) (vdt v)) nm.

(* a Vector object seen as an ELEMENT of another vector: its class is the typed subclass
   Vector.__new__ dispatched to.  Class tokens: _Int 20, _Float 21, _String 22, _Date 23,
   Vector 24, Table 25. *)
Definition vec_class (dt : option dtype) : kind :=
  match dt with
  | Some d => match dkind d with
              | KInt => KOther 20 | KFloat => KOther 21 | KStr => KOther 22 | KDate => KOther 23
              | _ => KOther 24
              end
  | None => KOther 24
  end.
Definition is_vec_class (k : kind) : bool :=
  match k with KOther n => (20 <=? n) && (n <=? 25) | _ => false end.
Definition vec_obj (v : tvec) : elt := Some (mkV (vec_class (vdt v)) true, 0%Z).

Definition same_lengths (cs : list tvec) : bool :=
  match cs with [] => false | c :: t => forallb (fun x => Nat.eqb (length (vals x)) (length (vals c))) t end.

(* what `Vector(<tuple of Vectors>, dtype=dt)` gives: Vector.__new__ hands equal-length vectors
   to Table (whose columns are copies and whose own dtype is None); otherwise it warns and builds
   a plain vector whose ELEMENTS are the vector objects, with the dtype it was given (or inferred) *)
Inductive rresult := RTable (cols : list tvec) | RVec (v : tvec).
Definition vector_of_vectors (cs : list tvec) (dt : option dtype) : rresult :=
  if same_lengths cs then RTable (map copy cs)
  else RVec (mk_vector (map vec_obj cs) dt None).

(* Vector.new(default_element, length, typesafe) *)
Definition vector_new (x : elt) (n : nat) (typesafe : bool) : res tvec :=
  let d := infer_dtype [el_info x] in
  match n with
  | O => if typesafe then Err EOther                       (* DataType has no with_default *)
         else Ok (mkVec [] (Some (match x with None => mkD KObject false | Some _ => d end)) None)
  | _ => Ok (mkVec (repeat x n)       (* typesafe drops nullability — unless the element IS None *)
                   (Some (if typesafe && negb (el_none x) then mkD (dkind d) false else d)) None)
  end.

(* ---- operations that keep / rebuild the dtype themselves -------------------------------------- *)

(* Vector.to_object(): Vector(list(values), dtype=DataType(object, nullable=<some element is None>)) *)
Definition to_object (v : tvec) : tvec :=
  mkVec (vals v) (Some (mkD KObject (existsb el_none (vals v)))) (vname v).

(* Vector.T: self.copy(name=self._name) with the display flag flipped *)
Definition transpose1 (v : tvec) : tvec := copy v.

(* _unary_operation: dtype = infer_dtype(result_values) if result_values else self._dtype *)
Definition unary (v : tvec) (res : list elt) : tvec :=
  mkVec res (match res with [] => vdt v | _ => Some (infer_dtype (infos_of res)) end) (vname v).

(* __invert__: on a bool vector `not x` for every element (None included), dtype kept;
   otherwise the unary path with operator.invert *)
Definition bool_elt (b : bool) : elt := Some (mkV KBool true, if b then 1%Z else 0%Z).
Definition invert (v : tvec) (res : list elt) : tvec :=
  match vdt v with
  | Some d => if kind_eqb (dkind d) KBool
              then mkVec (map (fun x => bool_elt (el_none x)) (vals v)) (vdt v) (vname v)
              else unary v res
  | None => unary v res
  end.

(* isna / isinstance / every comparison operator: Vector(<bools>, dtype=DataType(bool)) *)
Definition bools (bs : list bool) : tvec := mkVec (map bool_elt bs) (Some (mkD KBool false)) None.
Definition isna (v : tvec) : tvec := bools (map el_none (vals v)).

(* _elementwise_operation, TypeError fallback: raw (x, y) tuples, dtype=DataType(object) *)
Definition fallback (n : nat) : tvec :=
  mkVec (repeat (Some (mkV KTuple true, 0%Z)) n) (Some (mkD KObject false)) None.

(* dropna *)
Definition dropna (v : tvec) : tvec :=
  mk_vector (filter (fun x => negb (el_none x)) (vals v))
            (option_map (fun d => mkD (dkind d) false) (vdt v)) None.

(* sort_by and every other rearrangement of the vector's own elements:
   Vector(<own elements in the order idx>, dtype=self._dtype, name=self._name) *)
Definition take (v : tvec) (idx : list nat) : res tvec :=
  match gather (vals v) idx with
  | Some l => Ok (mk_vector l (vdt v) (vname v))
  | None => Err EOther
  end.

(* operands of << and >> *)
Inductive operand :=
| OVec (w : tvec)               (* a 1-D Vector *)
| OTab (cs : list tvec)         (* a Table (its columns) *)
| OSeq (l : list elt)           (* any other iterable that is not str / bytes *)
| OScalar (x : elt).

(* __lshift__: the declared dtype is widened by every appended value; untyped: inference *)
Definition concat (v : tvec) (extra : list elt) : tvec :=
  mk_vector (vals v ++ extra)
            (option_map (fun d => fold_left promote_with (infos_of extra) d) (vdt v)) None.
Definition lshift (v : tvec) (o : operand) : res tvec :=
  match o with
  | OVec w =>
      match vdt v, vdt w with
      | Some d, Some dw =>
          if negb (nullable d) && negb (nullable dw) && negb (kind_eqb (dkind d) (dkind dw))
          then Err EType else Ok (concat v (vals w))
      | _, _ => Ok (concat v (vals w))
      end
  | OTab cs => Ok (concat v (map vec_obj cs))      (* a Table is a Vector whose elements are its columns *)
  | OSeq l => Ok (concat v l)
  | OScalar x => Ok (concat v [x])
  end.

(* Vector.__rshift__ (1-D self) *)
Definition rshift (v : tvec) (o : operand) : res rresult :=
  match vdt v with
  | None => Err EOther                                     (* self._dtype.kind on None *)
  | Some d =>
      match o with
      | OTab cs =>
          if negb (nullable d) then Err EOther             (* other.schema() is None: AttributeError *)
          else Ok (vector_of_vectors (v :: cs) None)       (* Vector((self,) + other.cols()) *)
      | OVec w =>
          if nullable d then Ok (vector_of_vectors [v; w] None)
          else match vdt w with
               | None => Err EOther
               | Some dw => if negb (nullable dw) && negb (kind_eqb (dkind d) (dkind dw)) then Err EType
                            else Ok (vector_of_vectors [v; w] None)
               end
      | OSeq l => Ok (vector_of_vectors [v; mk_vector l None None] None)
      | OScalar _ => Err EOther                            (* `not self` raises TypeError *)
      end
  end.

(* cast *)
Inductive target :=
| TDate | TDateTime              (* the two interceptors *)
| TType (k : kind)               (* any other class: caster = the class itself *)
| TCallable.                     (* not a class: dtype inferred from the results *)
Definition target_kind (t : target) : option kind :=
  match t with TDate => Some KDate | TDateTime => Some KDateTime | TType k => Some k | TCallable => None end.

(* the class of caster(elem) when it does not raise *)
Definition cast_class (t : target) (vi : vinfo) : vinfo :=
  if is_vec_class (base vi)
  then mkV (vec_class (option_map (fun k => mkD k false) (target_kind t))) true   (* elem.cast(target_type) *)
  else match t with
       | TDate => if kind_eqb (base vi) KDateTime then mkV KDate true    (* x.date() *)
                  else if kind_eqb (base vi) KDate then vi                (* x itself *)
                  else mkV KDate true                                    (* date.fromisoformat(x) *)
       | TDateTime => if kind_eqb (base vi) KDateTime then vi             (* x itself *)
                      else mkV KDateTime true                            (* datetime.fromisoformat(x) *)
       | TType k => mkV k true                                           (* target_type(x) *)
       | TCallable => vi
       end.
(* does the element go through a Python constructor / parser (which may raise)? *)
Definition cast_may_raise (t : target) (x : elt) : bool :=
  match x with
  | None => false
  | Some (vi, _) =>
      match t with
      | TDate => negb (kind_eqb (base vi) KDateTime || kind_eqb (base vi) KDate) || is_vec_class (base vi)
      | TDateTime => negb (kind_eqb (base vi) KDateTime) || is_vec_class (base vi)
      | _ => true
      end
  end.
Definition cast_elem (t : target) (x : elt) : elt :=
  match x with None => None | Some (vi, p) => Some (cast_class t vi, p) end.
(* [res] = the results as Python computed them, used only for a callable target *)
Definition is_vec_elt (x : elt) : bool :=
  match x with Some (vi, _) => is_vec_class (base vi) | None => false end.
Definition cast (t : target) (res : list elt) (v : tvec) : tvec :=
  match target_kind t with
  | Some k => let out := map (cast_elem t) (vals v) in
              if existsb is_vec_elt out                         (* any(isinstance(x, Vector) for x in out) *)
              then mkVec out (Some (infer_dtype (infos_of out))) (vname v)
              else mkVec out (Some (mkD k (existsb el_none out))) (vname v)
  | None => mkVec res (Some (infer_dtype (infos_of res))) (vname v)
  end.

(* Row.__init__: the dtype of a row view from the dtypes of the columns *)
Definition col_dtype (c : tvec) : dtype := match vdt c with Some d => d | None => mkD KObject true end.
Definition row_dtype (cs : list tvec) : dtype :=
  match cs with
  | [] => mkD KObject true
  | c :: _ =>
      let ds := map col_dtype cs in
      if forallb (fun d => kind_eqb (dkind d) (dkind (col_dtype c))) ds     (* len(unique_kinds) == 1 *)
      then mkD (dkind (col_dtype c)) (existsb nullable ds)
      else mkD KObject true
  end.
Definition row_vals (cs : list tvec) (r : nat) : option (list elt) :=
  fold_right (fun c acc => match nth_error (vals c) r, acc with
                           | Some x, Some t => Some (x :: t) | _, _ => None end) (Some []) cs.
Definition row_view (cs : list tvec) (r : nat) : res tvec :=
  match row_vals cs r with
  | Some l => Ok (mkVec l (Some (row_dtype cs)) None)
  | None => Err EOther
  end.

(* Table.__init__: rectangular or refused; the columns are copies *)
Definition table_of (cs : list tvec) : res (list tvec) :=
  match cs with
  | [] => Ok []
  | _ => if same_lengths cs then Ok (map copy cs) else Err EValue
  end.

(* Table.T: each row becomes Vector(tuple(col[r] for col in columns)) *)
Definition nrows_of (cs : list tvec) : nat := match cs with [] => 0 | c :: _ => length (vals c) end.
Definition table_T (cs : list tvec) : res (list tvec) :=
  map_res (fun r => match row_vals cs r with
                    | Some l => Ok (mk_vector l None None)
                    | None => Err EOther
                    end) (seq 0 (nrows_of cs)).

(* ---- operations that use Python's conversions ------------------------------------------------- *)
Section WithConv.
(* int(x) / float(x) / complex(x) / datetime.combine(x, min.time()); None = Python raises *)
Variable conv : kind -> elt -> option elt.

Definition to_state (v : tvec) : vstate := mkS (vals v) (vdt v) (vname v) None false.
Definition of_state (s : vstate) : tvec := mkVec (s_vals s) (s_dt s) (s_name s).

(* v[k] = x through Model/SetItem.v (alias / fingerprint state is C01 / C08 / C16's subject) *)
Definition t_setitem (k : skey) (x : value) (v : tvec) : tvec * res unit :=
  let '(s, r) := setitem conv k x (to_state v) in (of_state s, r).
Definition t_promote (k : kind) (v : tvec) : tvec * res unit :=
  let '(s, r) := promote conv k (to_state v) in (of_state s, r).

(* fillna *)
Definition fill (value : elt) (l : list elt) : list elt :=
  map (fun x => match x with None => value | Some _ => x end) l.
Definition fillna (value : elt) (v : tvec) : res tvec :=
  let standard :=
    let out := fill value (vals v) in
    Ok (mk_vector out (option_map (fun d => mkD (dkind d) (existsb el_none out)) (vdt v)) (vname v)) in
  match vdt v, value with
  | Some d, Some _ =>
      if validate_scalar (el_info value) d then standard
      else
        let req := infer_dtype [el_info value] in
        match promote conv (dkind req) (to_state (copy v)) with      (* result = self.copy(); result._promote(kind) *)
        | (s', Ok _) => Ok (mk_vector (fill value (s_vals s')) (Some (mkD (dkind req) false)) (vname v))
        | (_, Err EType) => Err EValue                               (* SerifTypeError -> ValueError *)
        | (_, Err e) => Err e
        end
  | _, _ => standard
  end.

(* ---- programs: a heap of vectors and the operations over it ---------------------------------- *)

Definition heap := list tvec.

Inductive oref := AtVec (j : nat) | AtTab (js : list nat) | ASeq (l : list elt) | AScalar (x : elt).

Inductive op :=
| OpVector (l : list elt) (nm : option nat)   (* Vector(l): the inputs, and EVERY call site that builds its result with
                                   `Vector(results)`: MethodProxy, property broadcast, _String / _Date methods,
                                   _Date.__add__, unique, pluck, join / aggregate / window / sort / CSV columns *)
| OpInferred (l : list elt)     (* Vector(vals, dtype=infer_dtype(vals)): __radd__, binary arithmetic, bit shifts *)
| OpFallback (n : nat)          (* binary arithmetic between incompatible vectors: n raw tuples, dtype object *)
| OpNew (x : elt) (n : nat) (typesafe : bool)
| OpUnary (i : nat) (res : list elt)          (* -v, +v, abs(v) *)
| OpInvert (i : nat) (res : list elt)         (* ~v *)
| OpSet (i : nat) (k : skey) (x : value)      (* heap[i][k] = x, in place *)
| OpPromote (i : nat) (k : kind)              (* heap[i]._promote(k), in place *)
| OpLshift (i : nat) (o : oref)
| OpRshift (i : nat) (o : oref)
| OpCast (i : nat) (t : target) (res : list elt)
| OpFillna (i : nat) (x : elt)
| OpDropna (i : nat)
| OpIsna (i : nat)
| OpCompare (bs : list bool)                  (* ==, <, ... , isinstance: a bool vector *)
| OpGetitem (i : nat) (k : key)               (* slice / mask / index list / index vector *)
| OpTake (i : nat) (idx : list nat)           (* sort_by: the order Python's sorted() chose *)
| OpCopy (i : nat) (new : option (list elt))  (* copy() / copy(new_values) *)
| OpToObject (i : nat)
| OpT (i : nat)
| OpTable (js : list nat)                     (* Table([...]) / Table >> column: the columns, copied *)
| OpRow (js : list nat) (r : nat)             (* row view r of the table with columns heap[js] *)
| OpTableT (js : list nat).                   (* Table.T *)

Definition get_all (h : heap) (js : list nat) : option (list tvec) :=
  fold_right (fun j acc => match nth_error h j, acc with
                           | Some v, Some t => Some (v :: t) | _, _ => None end) (Some []) js.
Definition resolve (h : heap) (o : oref) : option operand :=
  match o with
  | AtVec j => option_map OVec (nth_error h j)
  | AtTab js => match get_all h js with                 (* the operand is Table([...]): rectangular or refused *)
                | Some cs => match table_of cs with Ok cs' => Some (OTab cs') | Err _ => None end
                | None => None
                end
  | ASeq l => Some (OSeq l)
  | AScalar x => Some (OScalar x)
  end.

(* the heap afterwards, and (None = the operation raised) the positions of the vectors the
   operation returned or mutated *)
Definition outcome := (heap * option (list nat))%type.
Definition push (h : heap) (v : tvec) : outcome := (h ++ [v], Some [length h]).
Definition pushes (h : heap) (vs : list tvec) : outcome := (h ++ vs, Some (seq (length h) (length vs))).
Definition raised (h : heap) : outcome := (h, None).
Definition push_res (h : heap) (r : res tvec) : outcome :=
  match r with Ok v => push h v | Err _ => raised h end.
Definition with1 (h : heap) (i : nat) (f : tvec -> outcome) : outcome :=
  match nth_error h i with Some v => f v | None => raised h end.

Definition step (h : heap) (o : op) : outcome :=
  match o with
  | OpVector l nm => push h (mk_vector l None nm)
  | OpInferred l => push h (mk_inferred l None)
  | OpFallback n => push h (fallback n)
  | OpNew x n ts => push_res h (vector_new x n ts)
  | OpUnary i res => with1 h i (fun v => push h (unary v res))
  | OpInvert i res => with1 h i (fun v => push h (invert v res))
  | OpSet i k x => with1 h i (fun v => let '(v', r) := t_setitem k x v in
                                      (set_nth h i v', match r with Ok _ => Some [i] | Err _ => None end))
  | OpPromote i k => with1 h i (fun v => let '(v', r) := t_promote k v in
                                        (set_nth h i v', match r with Ok _ => Some [i] | Err _ => None end))
  | OpLshift i o => with1 h i (fun v => match resolve h o with
                                       | Some w => push_res h (lshift v w)
                                       | None => raised h end)
  | OpRshift i o => with1 h i (fun v => match resolve h o with
                                       | Some w => match rshift v w with
                                                   | Ok (RTable cs) => pushes h cs
                                                   | Ok (RVec r) => push h r
                                                   | Err _ => raised h
                                                   end
                                       | None => raised h end)
  | OpCast i t res => with1 h i (fun v => push h (cast t res v))
  | OpFillna i x => with1 h i (fun v => push_res h (fillna x v))
  | OpDropna i => with1 h i (fun v => push h (dropna v))
  | OpIsna i => with1 h i (fun v => push h (isna v))
  | OpCompare bs => push h (bools bs)
  | OpGetitem i k => with1 h i (fun v => match getitem v k with      (* the selection of Model/Index.v ... *)
                                        | Ok (GVec r) => push h (copy_new v (vals r) (vname r))   (* ... built by self.copy(<selected>) *)
                                        | _ => raised h end)
  | OpTake i idx => with1 h i (fun v => push_res h (take v idx))
  | OpCopy i new => with1 h i (fun v => push h (match new with None => copy v | Some l => copy_new v l (vname v) end))
  | OpToObject i => with1 h i (fun v => push h (to_object v))
  | OpT i => with1 h i (fun v => push h (transpose1 v))
  | OpTable js => match get_all h js with
                  | Some cs => match table_of cs with Ok r => pushes h r | Err _ => raised h end
                  | None => raised h end
  | OpRow js r => match get_all h js with                (* Table([...])[r] *)
                  | Some cs => match table_of cs with
                               | Ok cs' => push_res h (row_view cs' r)
                               | Err _ => raised h end
                  | None => raised h end
  | OpTableT js => match get_all h js with               (* Table([...]).T *)
                   | Some cs => match rbind (table_of cs) table_T with Ok r => pushes h r | Err _ => raised h end
                   | None => raised h end
  end.

Definition run (ops : list op) : heap := fold_left (fun h o => fst (step h o)) ops [].

End WithConv.
