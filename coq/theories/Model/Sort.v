(* Model/Sort.v — executable model of Table.sort_by (table.py) and Vector.sort_by
   (vector.py), following the Python code step by step.  No proofs here.

   Python's list.sort(key=, reverse=) / sorted():  a stable sort that only ever asks
   `key(a) < key(b)`; with reverse=True CPython reverses the list, sorts it stably and
   reverses it again (listobject.c: "reverse sort stability achieved by initially
   reversing the list, applying a stable forward sort, then reversing the final
   result").  Any stable sort computes the same result, so it is modelled by the
   stable insertion sort. *)
From Coq Require Import List Bool Arith.
Import ListNotations.

Section PySort.
  Variable A : Type.
  Variable leb : A -> A -> bool.        (* leb x y  =  not (key y < key x) *)

  Fixpoint insert (x : A) (l : list A) : list A :=
    match l with
    | [] => [x]
    | y :: t => if leb x y then x :: y :: t else y :: insert x t
    end.

  Fixpoint isort (l : list A) : list A :=
    match l with
    | [] => []
    | x :: t => insert x (isort t)
    end.

  Definition pysort (reverse : bool) (l : list A) : list A :=
    if reverse then rev (isort (rev l)) else isort l.
End PySort.

Arguments insert {A}.
Arguments isort {A}.
Arguments pysort {A}.

Inductive err := EValue | EKey | EType.
Inductive res (A : Type) := Ok (a : A) | Err (e : err).
Arguments Ok {A}.
Arguments Err {A}.

Section SortBy.
  Variable V : Type.                    (* non-None key values *)
  Variable vleb : V -> V -> bool.       (* vleb x y = not (y < x), Python's order on one column *)

  Definition cell := option V.          (* None = Python None *)
  Definition is_none (c : cell) : bool := match c with None => true | Some _ => false end.

  (* the sort key is the tuple (flag, v); Python compares tuples by the first position
     that differs under ==, then with < there.  None == None, so two None cells with
     equal flags are equal keys; a None and a non-None cell never carry the same flag
     (the flag is a function of `v is None`), that branch is unreachable and answers
     "not less". *)
  Definition key := (bool * cell)%type.
  Definition key_lt (a b : key) : bool :=
    let '(fa, va) := a in
    let '(fb, vb) := b in
    if Bool.eqb fa fb then
      match va, vb with
      | Some x, Some y => negb (vleb y x)
      | _, _ => false
      end
    else negb fa && fb.                 (* False < True *)
  Definition key_leb (a b : key) : bool := negb (key_lt b a).

  (* table.py sort_by, key_fn: the flag *)
  Definition table_flag (na_last rev isn : bool) : bool :=
    if na_last then (if negb rev then isn else negb isn)
    else (if negb rev then negb isn else isn).
  Definition cell_key (na_last rev : bool) (v : cell) : key :=
    (table_flag na_last rev (is_none v), v).
  Definition table_key (na_last rev : bool) (data : list cell) (i : nat) : key :=
    cell_key na_last rev (nth i data None).

  Definition sortkey := (list cell * bool)%type.       (* resolved key column, its reverse flag *)

  (* one `indices.sort(key=key_fn, reverse=rev)` *)
  Definition sort_pass (na_last : bool) (k : sortkey) (idx : list nat) : list nat :=
    let '(data, rev) := k in
    pysort (fun i j => key_leb (table_key na_last rev data i) (table_key na_last rev data j)) rev idx.

  (* for col, rev in reversed(list(zip(resolved, rev_flags))): the LAST key is applied first *)
  Definition sort_indices (na_last : bool) (keys : list sortkey) (n : nat) : list nat :=
    fold_right (sort_pass na_last) (seq 0 n) keys.

  (* ---- the table-level function ---- *)
  Definition table := list (list cell).                (* columns, all of one length *)
  Definition nrows (t : table) : nat := match t with [] => 0 | c :: _ => List.length c end.

  Inductive keyspec := KCol (j : nat) | KVec (d : list cell).   (* column name / external Vector *)
  Inductive revspec := RAll (b : bool) | RList (l : list bool).

  Definition rev_flags (rv : revspec) (nkeys : nat) : res (list bool) :=
    match rv with
    | RAll b => Ok (repeat b nkeys)
    | RList l => if Nat.eqb (List.length l) nkeys then Ok l else Err EValue
    end.

  Fixpoint resolve (t : table) (n : nat) (by_ : list keyspec) : res (list (list cell)) :=
    match by_ with
    | [] => Ok []
    | spec :: rest =>
        match (match spec with
               | KCol j => match nth_error t j with Some c => Ok c | None => Err EKey end
               | KVec d => Ok d
               end) with
        | Err e => Err e
        | Ok col =>
            if negb (Nat.eqb (List.length col) n) then Err EValue
            else match resolve t n rest with
                 | Err e => Err e
                 | Ok r => Ok (col :: r)
                 end
        end
    end.

  Definition resolve_keys (t : table) (by_ : list keyspec) (rv : revspec) : res (list sortkey) :=
    match by_ with
    | [] => Err EValue                                  (* "requires at least one sort key" *)
    | _ =>
        match rev_flags rv (List.length by_) with
        | Err e => Err e
        | Ok fl =>
            match resolve t (nrows t) by_ with
            | Err e => Err e
            | Ok cols => Ok (combine cols fl)
            end
        end
    end.

  Definition gather (idx : list nat) (c : list cell) : list cell := map (fun i => nth i c None) idx.

  Definition table_sort_by (t : table) (by_ : list keyspec) (rv : revspec) (na_last : bool)
    : res table :=
    match resolve_keys t by_ rv with
    | Err e => Err e
    | Ok ks =>
        if Nat.eqb (nrows t) 0 then Ok (map (fun _ => []) t)             (* empty-table branch *)
        else Ok (map (gather (sort_indices na_last ks (nrows t))) t)
    end.

  (* The method with its effects on the arguments made explicit: sort_by only reads
     `self` and the key vectors (no assignment to them anywhere in the method). *)
  Record outcome := mkOutcome { self_after : table; by_after : list keyspec; result : res table }.
  Definition table_sort_by_call (t : table) (by_ : list keyspec) (rv : revspec) (na_last : bool)
    : outcome := mkOutcome t by_ (table_sort_by t by_ rv na_last).

  (* ---- Vector.sort_by ---- *)
  (* key_fn = lambda x: ((x is None) != reverse, x if x is not None else 0)      [na_last]
              lambda x: ((x is not None) != reverse, x if x is not None else 0)  [not na_last]
     (the 0 standing in for None is only ever compared with another such 0) *)
  Definition vector_key (reverse na_last : bool) (x : cell) : key :=
    (if na_last then xorb (is_none x) reverse else xorb (negb (is_none x)) reverse, x).

  Definition vector_sort_by (reverse na_last : bool) (data : list cell) : list cell :=
    pysort (fun a b => key_leb (vector_key reverse na_last a) (vector_key reverse na_last b))
           reverse data.
End SortBy.

Arguments KCol {V}.
Arguments KVec {V}.
Arguments is_none {V}.
Arguments key_lt {V}.
Arguments key_leb {V}.
Arguments cell_key {V}.
Arguments table_key {V}.
Arguments sort_pass {V}.
Arguments sort_indices {V}.
Arguments nrows {V}.
Arguments resolve {V}.
Arguments resolve_keys {V}.
Arguments gather {V}.
Arguments table_sort_by {V}.
Arguments table_sort_by_call {V}.
Arguments self_after {V}.
Arguments by_after {V}.
Arguments result {V}.
Arguments vector_key {V}.
Arguments vector_sort_by {V}.
