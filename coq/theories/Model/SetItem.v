(* Model/SetItem.v — executable model of in-place assignment (C08):
     vector.py  Vector.__setitem__ (alias check, update list, dtype fold, _promote, single swap),
                Vector._promote
     table.py   Table.__setitem__ (target columns, per-column delegation), rename_columns
   as micro-steps in the state-and-error monad of Base/StErr.v, in the order of the Python
   code's effects.  A failure returns the state at the failure point.  No proofs here. *)
From Coq Require Import List Bool Arith ZArith.
From Serif Require Import Base.PyVal Base.StErr Spec.PySlice Model.Dtype Model.Index.
Import ListNotations.
Local Open Scope sterr_scope.

(* an element: None, or a value seen through its class (for typing) and its identity *)
Definition elt := option (vinfo * Z).
Definition el_info (e : elt) : pyv := option_map fst e.
Definition el_none (e : elt) : bool := match e with None => true | Some _ => false end.

(* the mutable state of one Vector *)
Record vstate := mkS {
  s_vals : list elt;             (* _underlying *)
  s_dt : option dtype;           (* _dtype (None: the untyped empty vector) *)
  s_name : option nat;           (* _name *)
  s_memo : option (list elt);    (* _fp: the storage the cached fingerprint was computed from *)
  s_shared : bool                (* another live Vector is registered for the same storage tuple *)
}.

(* the assigned value *)
Inductive value :=
| VScalar (x : elt)              (* not Iterable, or str / bytes / bytearray *)
| VSeq (self : elt)              (* the object itself, were it stored as one element *)
       (len : option nat)        (* len(value); None = len() raises (generator, failing __len__) *)
       (items : list elt)        (* what iterating yields ... *)
       (raises : bool).          (* ... before raising (true) or stopping (false) *)

(* the key, as the isinstance tests of __setitem__ see it *)
Inductive skey :=
| SKMaskV (m : list bool)                 (* Vector, bool, non-nullable *)
| SKList (is_tuple : bool) (l : list lelt)   (* list or tuple *)
| SKSlice (a b s : option Z)
| SKInt (i : Z)                           (* int (or bool) *)
| SKIdxV (l : list Z)                     (* Vector, int, non-nullable *)
| SKUntypedV                              (* Vector without dtype: key.schema() is None *)
| SKBad.

Definition is_intlike (e : lelt) : bool := match e with LB _ | LI _ | LJ _ => true | LX => false end.
Definition int_val (e : lelt) : Z :=
  match e with LB b => if b then 1%Z else 0%Z | LI i => i | LJ i => i | LX => 0%Z end.

Definition val_len (len : option nat) : res nat :=
  match len with Some n => Ok n | None => Err EOther end.

(* for idx, v in zip(positions, value): updates.append((idx, v)) *)
Fixpoint zip_vals (ps : list nat) (items : list elt) (raises : bool) : res (list (nat * elt)) :=
  match ps with
  | [] => Ok []
  | p :: ps' =>
      match items with
      | [] => if raises then Err EOther else Ok []          (* the iterable raised / ran dry *)
      | x :: items' => match zip_vals ps' items' raises with
                       | Ok r => Ok ((p, x) :: r)
                       | Err e => Err e
                       end
      end
  end.

(* for idx, val in zip(key, value): normalise, range-check, append *)
Fixpoint zip_idx (n : nat) (idx : list Z) (items : list elt) (raises : bool) : res (list (nat * elt)) :=
  match idx with
  | [] => Ok []
  | i :: idx' =>
      match items with
      | [] => if raises then Err EOther else Ok []
      | x :: items' =>
          match norm_index n i with
          | None => Err EIndex
          | Some p => match zip_idx n idx' items' raises with
                      | Ok r => Ok ((p, x) :: r)
                      | Err e => Err e
                      end
          end
      end
  end.

Definition with_mask (n : nat) (m : list bool) (v : value) : res (list (nat * elt)) :=
  if negb (Nat.eqb (length m) n) then Err EValue
  else let tp := true_positions m in
       match v with
       | VSeq _ len items raises =>
           rbind (val_len len) (fun L =>
             if negb (Nat.eqb (length tp) L) then Err EValue else zip_vals tp items raises)
       | VScalar x => Ok (map (fun p => (p, x)) tp)
       end.

Definition with_idx (n : nat) (idx : list Z) (v : value) : res (list (nat * elt)) :=
  match v with
  | VSeq _ len items raises =>
      rbind (val_len len) (fun L =>
        if negb (Nat.eqb (length idx) L) then Err EValue else zip_idx n idx items raises)
  | VScalar x =>
      match norm_all n idx with
      | Some ps => Ok (map (fun p => (p, x)) ps)
      | None => Err EIndex
      end
  end.

(* the pending update list: ALL index / length validation and all consumption of the value
   happen here, before anything is written *)
Definition build_updates (n : nat) (k : skey) (v : value) : res (list (nat * elt)) :=
  match k with
  | SKMaskV m => with_mask n m v                                        (* CASE 1 *)
  | SKList is_tuple l =>
      if negb is_tuple && forallb is_LB l then with_mask n (map lb_val l) v      (* CASE 1: list of bools *)
      else if forallb is_intlike l then with_idx n (map int_val l) v    (* CASE 5 *)
      else Err EType
  | SKSlice a b s =>                                                     (* CASE 2 *)
      if Z.eqb (step_of s) 0 then Err EOther                             (* s.indices(n): ValueError *)
      else
        let slen := slice_length a b s (Z.of_nat n) in
        let ps := slice_positions a b s n in                             (* range(start, stop, step) *)
        match v with
        | VSeq _ len items raises =>
            rbind (val_len len) (fun L =>
              if negb (Z.eqb slen (Z.of_nat L)) then Err EValue else zip_vals ps items raises)
        | VScalar x => Ok (combine ps (repeat x (Z.to_nat slen)))        (* [value] * slice_len *)
        end
  | SKInt i =>                                                           (* CASE 3 *)
      match norm_index n i with
      | None => Err EIndex
      | Some p => Ok [(p, match v with VScalar x => x | VSeq self _ _ _ => self end)]
      end
  | SKIdxV l => with_idx n l v                                           (* CASE 4 *)
  | SKUntypedV => Err EOther                                             (* AttributeError *)
  | SKBad => Err EType
  end.

(* fold EVERY incoming value into the dtype the column must have afterwards *)
Fixpoint fold_required (d : dtype) (vs : list elt) : res dtype :=
  match vs with
  | [] => Ok d
  | v :: t => let d' := promote_with d (el_info v) in
              if kind_eqb (dkind d') KObject then Err EType else fold_required d' t
  end.

(* Vector._promote: which conversions exist *)
Definition promotable (from to : kind) : bool :=
  match to, from with
  | KInt, KBool => true
  | KFloat, (KInt | KBool) => true
  | KComplex, (KInt | KFloat | KBool) => true
  | KDateTime, KDate => true
  | _, _ => false
  end.

Section WithConv.
(* int(x) / float(x) / complex(x) / datetime.combine(x, min.time()) as Python computes them;
   None = Python raises (e.g. float(10**400)) *)
Variable conv : kind -> elt -> option elt.

Fixpoint convert_all (k : kind) (l : list elt) : option (list elt) :=
  match l with
  | [] => Some []
  | x :: t => match (match x with None => Some None | Some _ => conv k x end), convert_all k t with
              | Some y, Some r => Some (y :: r)
              | _, _ => None
              end
  end.

(* Vector._promote(target): a STATE WRITE (storage and dtype); the new tuple is built first *)
Definition promote (target : kind) : M vstate unit :=
  s <- get ;;
  match s_dt s with
  | None => fail EOther
  | Some d =>
      if kind_eqb (dkind d) target then ret tt
      else if promotable (dkind d) target then
        match convert_all target (s_vals s) with
        | None => fail EOther
        | Some l => put (mkS l (Some (mkD target (nullable d))) (s_name s) (s_memo s) false)
        end
      else fail EType
  end.

Definition is_nil {X} (l : list X) : bool := match l with [] => true | _ => false end.

(* FAST-PATH TYPE CHECK / PROMOTION: pure validation first; the only write is _promote, last *)
Definition type_phase (s : vstate) (ups : list (nat * elt)) : M vstate unit :=
  match ups, s_dt s with
  | _ :: _, Some d =>
      if kind_eqb (dkind d) KObject then ret tt          (* object accepts anything *)
      else
        req <- lift (fold_required d (map snd ups)) ;;
        if kind_eqb (dkind req) (dkind d) then ret tt else promote (dkind req)
  | _, _ => ret tt
  end.

(* None makes the column nullable; the flag is applied together with the storage swap *)
Definition make_nullable (s : vstate) (ups : list (nat * elt)) : bool :=
  match s_dt s with
  | Some d => negb (nullable d) && existsb el_none (map snd ups)
  | None => false
  end.

(* MUTATE: copy-on-write materialisation, single swap, memo invalidation, re-registration *)
Definition commit (ups : list (nat * elt)) (mn : bool) : M vstate unit :=
  s1 <- get ;;
  put (mkS (py_assign (s_vals s1) ups)
           (if mn then option_map (fun d => mkD (dkind d) true) (s_dt s1) else s_dt s1)
           (s_name s1) None false).

(* Vector.__setitem__ *)
Definition setitem (k : skey) (v : value) : M vstate unit :=
  s <- get ;;
  (* _alias.check_writable: the shared empty tuple is exempt *)
  if s_shared s && negb (is_nil (s_vals s)) then fail EAlias else
  ups <- lift (build_updates (length (s_vals s)) k v) ;;
  type_phase s ups ;;;
  commit ups (make_nullable s ups).

(* ---- Table.__setitem__ : resolve the target columns, then delegate per column ---------- *)

(* the table's mutable state: its columns (each a live Vector) *)
Definition tstate := list vstate.

(* one delegated write: self._underlying[col_idx][row_spec] = value *)
Definition set_col (j : nat) (k : skey) (v : value) : M tstate unit :=
  fun cols =>
    match nth_error cols j with
    | None => (cols, Err EOther)                              (* IndexError on the column tuple *)
    | Some c => let '(c', r) := setitem k v c in
                (* the column object is mutated in place: whatever state it is left in stays *)
                (set_nth cols j c', r)
    end.

(* for i, col_idx in enumerate(target_indices): ...[col_idx][row_spec] = value_i *)
Fixpoint set_cols (k : skey) (work : list (nat * value)) : M tstate unit :=
  match work with
  | [] => ret tt
  | (j, v) :: rest => set_col j k v ;;; set_cols k rest
  end.

(* column specifier of a table key *)
Inductive colspec :=
| CSAll                               (* t[rows] or t[rows, :] *)
| CSInt (j : Z)                       (* t[rows, 2] — the raw int is used as tuple index *)
| CSName (s : nat)
| CSNames (l : list nat).             (* tuple / list of names *)

(* the assigned value of a table assignment *)
Inductive tvalue :=
| TVScalar (x : elt)                  (* CASE A: broadcast *)
| TVFlat (form_len : option nat) (self : elt) (xs : list elt)    (* a flat list / tuple *)
| TVCols (is_table : bool) (cs : list value).   (* a Table, or a list of per-column values *)

(* column_map lookup: sanitised names, a parameter as in Model/Index.v *)
Variable cmap : list (option nat) -> nat -> option nat.

Definition resolve_cols (names : list (option nat)) (c : colspec) : res (list nat) :=
  let ncols := length names in
  match c with
  | CSAll => Ok (seq 0 ncols)
  | CSInt j => Ok [Z.to_nat j]                                          (* negative ints: not modelled *)
  | CSName s => match cmap names s with Some j => Ok [j] | None => Err EKey end
  | CSNames l => map_res (fun s => match cmap names s with Some j => Ok j | None => Err EKey end) l
  end.

(* Table.__setitem__ for a row key that is an int ([row_int] = true) or a slice / mask / index list *)
Definition tsetitem (row_int : bool) (k : skey) (c : colspec) (v : tvalue) : M tstate unit :=
  cols <- get ;;
  targets <- lift (resolve_cols (map s_name cols) c) ;;
  if is_nil targets then ret tt else
  match v with
  | TVScalar x => set_cols k (map (fun j => (j, VScalar x)) targets)                   (* CASE A *)
  | TVFlat flen self xs =>
      if row_int then                                                                   (* CASE B *)
        if negb (Nat.eqb (length xs) (length targets)) then fail EValue
        else set_cols k (combine targets (map VScalar xs))
      else if Nat.eqb (length targets) 1 then                                           (* CASE D, flat *)
        set_cols k (map (fun j => (j, VSeq self flen xs false)) targets)
      else if negb (Nat.eqb (length xs) (length targets)) then fail EValue              (* CASE D: one item per column *)
      else set_cols k (combine targets (map VScalar xs))
  | TVCols is_table cs =>
      if row_int then fail EOther                                                       (* not modelled *)
      else if negb (Nat.eqb (length cs) (length targets)) then fail EValue              (* CASE C / D *)
      else set_cols k (combine targets cs)
  end.

End WithConv.

(* ---- Table.rename_columns ------------------------------------------------------------------ *)

Definition name := option nat.
Definition name_eqb (a b : name) : bool :=
  match a, b with Some x, Some y => Nat.eqb x y | None, None => true | _, _ => false end.

(* simulated.index(old); simulated[idx] = new *)
Fixpoint rename_first (names : list name) (old new : name) : option (list name) :=
  match names with
  | [] => None
  | x :: t => if name_eqb x old then Some (new :: t)
              else match rename_first t old new with Some r => Some (x :: r) | None => None end
  end.

(* the simulation pass over a temporary list *)
Fixpoint simulate (names : list name) (pairs : list (name * name)) : res (list name) :=
  match pairs with
  | [] => Ok names
  | (old, new) :: rest => match rename_first names old new with
                          | None => Err EKey
                          | Some names' => simulate names' rest
                          end
  end.

(* the real pass: rename the FIRST matching column; a name that matches nothing is skipped *)
Fixpoint apply_one (names : list name) (old new : name) : list name :=
  match names with
  | [] => []
  | x :: t => if name_eqb x old then new :: t else x :: apply_one t old new
  end.
Definition apply_all (names : list name) (pairs : list (name * name)) : list name :=
  fold_left (fun ns p => apply_one ns (fst p) (snd p)) pairs names.

(* rename_columns(old_names, new_names) on the state "the column names" *)
Definition rename_columns (olds news : list name) : M (list name) unit :=
  if negb (Nat.eqb (length olds) (length news)) then fail EValue else
  names <- get ;;
  _ <- lift (simulate names (combine olds news)) ;;
  put (apply_all names (combine olds news)).
