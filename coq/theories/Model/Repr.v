(* Model/Repr.v — executable model of serif/display.py (_format_column, _needs_quote,
   _compute_headers, _header_rows, _footer, _repr_vector, _repr_table, _printr,
   set_repr_rows) together with Vector.shape / Table.shape.

   The model produces a STRUCTURED repr: which rows are shown (and through which
   formatter), where the ellipsis markers are, which header rows are present, what the
   footer claims.  The cell TEXT (str(v), repr(v), format(v, 'g') ...) is not modelled;
   what IS modelled is that every Python primitive the formatter applies to DATA is
   partial: [res] has an explicit [Exn] for "this call raises".

   The two markers of display.py are private objects compared BY IDENTITY: _ROW_GAP (the gap
   between the first and last shown rows of a column preview) and _HIDDEN (the header cell
   standing for the hidden middle columns).  No stored value and no str(name) is ever
   identical to them, so in the model they are constructors of their own ([PEll], [HEll])
   and no data value and no name can take their branch.

   Not modelled: column alignment/padding (str.rjust/ljust, total), the dot-access row
   (.a_b — property C17 owns it), nested tables beyond "this is not a 2-D table".
   No proofs here. *)
From Coq Require Import List Bool Arith ZArith.
From Serif Require Import Base.PyVal.
Import ListNotations.

(* ---- Python calls return or raise ---- *)
Inductive res (A : Type) := Ret (a : A) | Exn.
Arguments Ret {A} a.
Arguments Exn {A}.

Definition bind {A B} (r : res A) (f : A -> res B) : res B :=
  match r with Ret a => f a | Exn => Exn end.

Fixpoint map_res {A B} (f : A -> res B) (l : list A) : res (list B) :=
  match l with
  | [] => Ret []
  | x :: t => bind (f x) (fun y => bind (map_res f t) (fun r => Ret (y :: r)))
  end.

(* ---- what display.py can observe of a non-None element ---- *)
Inductive fclass := FNan | FPosInf | FNegInf | FFinite (integral : bool).

Inductive vshape :=
| VFloat (c : fclass)      (* a float (or an instance of a subclass) *)
| VIntLike (big : bool)    (* bool / int: int(v) is defined and equals v; [big]: it is beyond the float
                              range, i.e. float(v) raises OverflowError *)
| VDateLike                (* date / datetime: has .isoformat() *)
| VStr (dots : bool)       (* a str; [dots]: it is equal to the three-character string '...' (display.py
                              no longer asks: the flag is carried so that statements and examples can
                              name such a cell, and nothing below inspects it) *)
| VOther                   (* any other object: only str() and repr() are applied to it *)
| VVector (nonempty : bool).
                           (* a serif Vector: ==/!= are elementwise, the truth value of the result raises;
                              str(v) is that vector's own repr; its .shape is (len,) when [nonempty], else () *)

Definition cellv := option vshape.      (* None = Python None *)

(* ---- the Python primitives applied to data, with their domains ---- *)

(* `v != v or v in (float('inf'), float('-inf'))` (float columns only) *)
Definition nonfinite (s : vshape) : res bool :=
  match s with
  | VFloat (FFinite _) => Ret false
  | VFloat _ => Ret true
  | VVector _ => Exn        (* Vector.__bool__ raises TypeError *)
  | _ => Ret false
  end.

(* `int(v)`: undefined for nan / inf / -inf (ValueError / OverflowError), for objects
   without __int__, and (in general) for strings *)
Definition py_int (s : vshape) : res unit :=
  match s with
  | VFloat (FFinite _) | VIntLike _ => Ret tt
  | _ => Exn
  end.

(* `v == int(v)` once int(v) is defined *)
Definition equals_its_int (s : vshape) : bool :=
  match s with
  | VFloat (FFinite b) => b
  | VIntLike _ => true
  | _ => false
  end.

(* `f"{v:.1f}"`, `f"{v:g}"`: defined for real numbers only; an int is converted with float(v)
   first, which raises OverflowError beyond the float range *)
Definition py_format_float (s : vshape) : res unit :=
  match s with
  | VFloat _ => Ret tt
  | VIntLike big => if big then Exn else Ret tt
  | _ => Exn
  end.

(* the one OverflowError of the float formats: float(v) of an int beyond the float range (the
   infinities, whose int(v) raises OverflowError too, never reach the `try`) *)
Definition float_overflows (s : vshape) : bool :=
  match s with VIntLike big => big | _ => false end.

(* `v.isoformat()` *)
Definition py_isoformat (s : vshape) : res unit :=
  match s with
  | VDateLike => Ret tt
  | _ => Exn
  end.

Definition is_str (s : vshape) : bool := match s with VStr _ => true | _ => false end.

(* which formatter produced the text of a shown cell *)
Inductive fmt :=
| FmtNone      (* the literal 'None' *)
| FmtFix1      (* f"{v:.1f}" *)
| FmtG         (* f"{v:g}" *)
| FmtStr       (* str(v) *)
| FmtIso       (* v.isoformat() *)
| FmtRepr.     (* repr(v) *)

(* display.py _format_column, the loop body — type-sensitive formatting of one value that is
   neither the row-gap marker nor None *)
Definition fmt_value (dt : option dtype) (s : vshape) : res fmt :=
  let object_branch := Ret (if is_str s then FmtRepr else FmtStr) in
  match dt with
  | None => object_branch                                    (* `col._dtype and ...` is falsy *)
  | Some d =>
      if kind_eqb (dkind d) KFloat then
        bind (nonfinite s) (fun nf =>
          if nf then bind (py_format_float s) (fun _ => Ret FmtG)
          else bind (py_int s) (fun _ =>
                 (* try: f"{v:.1f}" if v == int(v) else f"{v:g}"  except OverflowError: str(v) *)
                 if float_overflows s then Ret FmtStr
                 else bind (py_format_float s) (fun _ =>
                        Ret (if equals_its_int s then FmtFix1 else FmtG))))
      else if kind_eqb (dkind d) KInt then Ret FmtStr
      else if kind_eqb (dkind d) KDate then bind (py_isoformat s) (fun _ => Ret FmtIso)
      else if kind_eqb (dkind d) KStr then Ret FmtStr
      else object_branch
  end.

(* ---- the preview ---- *)

(* an entry of `preview`: the private marker _ROW_GAP or row i with its value *)
Inductive pitem := PEll | PVal (i : nat) (v : cellv).

(* a body line of one column: the ellipsis text, or row i rendered through formatter f *)
Inductive item := IEll | IRow (i : nat) (f : fmt).

(* vals[-k:] for k >= 0 (k = 0 is the WHOLE list: -0 == 0) *)
Definition slice_last {A} (k : nat) (l : list A) : list A :=
  if Nat.eqb k 0 then l else skipn (List.length l - k) l.

(* `max_preview = max(limit // 2, 0)`; Python's // is floor division, as is Z.div *)
Definition half (limit : Z) : nat := Z.to_nat (Z.max (limit / 2) 0).

(* display.py _format_column: `preview = list(vals[:h]) + [_ROW_GAP] + tail` or `list(vals)` *)
Definition preview (h : nat) (vals : list cellv) : list pitem :=
  let n := List.length vals in
  let rows := map (fun iv => PVal (fst iv) (snd iv)) (combine (seq 0 n) vals) in
  if h * 2 <? n then
    let tail := if Nat.eqb h 0 then [] else slice_last h rows in   (* `vals[-h:] if h else []` *)
    firstn h rows ++ [PEll] ++ tail
  else rows.

(* display.py _format_column: `if v is _ROW_GAP: ... elif v is None: ... elif <by dtype>` —
   two identity tests, no primitive is applied to the value before its dtype branch *)
Definition fmt_item (dt : option dtype) (p : pitem) : res item :=
  match p with
  | PEll => Ret IEll                                   (* `v is _ROW_GAP` *)
  | PVal i None => Ret (IRow i FmtNone)                (* `v is None` *)
  | PVal i (Some s) => bind (fmt_value dt s) (fun f => Ret (IRow i f))
  end.

Definition format_column (dt : option dtype) (h : nat) (vals : list cellv) : res (list item) :=
  map_res (fmt_item dt) (preview h vals).

(* ---- names ---- *)

(* what the header code can observe of a stored name (a str or any other object) *)
Inductive nobj :=
| NStr (empty dots : bool)        (* a str: is it "", is it "..." (the latter is no longer asked by
                                     display.py; carried so that statements can name such a column) *)
| NNonStr (empty dots : bool).    (* not a str: the same two questions about str(name) *)

Definition n_is_str (o : nobj) : bool := match o with NStr _ _ => true | NNonStr _ _ => false end.
Definition n_to_str (o : nobj) : nobj := match o with NStr e d | NNonStr e d => NStr e d end.   (* str(name) *)
Definition n_text_empty (o : nobj) : bool := match o with NStr e _ | NNonStr e _ => e end.
Definition n_text_dots (o : nobj) : bool := match o with NStr _ d | NNonStr _ d => d end.
(* `name != ""` on the stored object *)
Definition n_is_empty_str (o : nobj) : bool := match o with NStr e _ => e | NNonStr _ _ => false end.

(* str methods (isidentifier, [0].isdigit, lower) exist on str only *)
Definition str_method (o : nobj) : res unit := if n_is_str o then Ret tt else Exn.

(* display.py _needs_quote: defined? (its boolean answer only chooses between
   repr(name) and str(name), i.e. the cell text) *)
Definition needs_quote (o : nobj) : res unit :=
  let o := if n_is_str o then o else n_to_str o in       (* `if not isinstance(name, str): name = str(name)` *)
  if n_text_empty o then Ret tt                           (* `if not name: return True` *)
  else str_method o.                                      (* name.isidentifier(), name[0].isdigit(), float(name), name.lower() *)

(* ---- vectors ---- *)

Record vec := mkVec {
  vname : option nobj;           (* _name (None = unnamed) *)
  vdtype : option dtype;         (* _dtype (None = untyped empty vector) *)
  vdata : list cellv             (* _underlying *)
}.

(* a printed dtype token: "<kind name>" plus "?" when nullable; an untyped vector prints "object" *)
Definition tok_of (d : option dtype) : dtype :=
  match d with Some d => d | None => mkD KObject false end.

Inductive vrepr :=
| VREmpty                                              (* "# empty (repr not yet implemented)" *)
| VRLines (header : bool) (body : list item) (count : nat) (dt : dtype).
    (* [name line] body lines, blank, "# {count} element vector <{dt}>" *)

(* display.py _repr_vector, _printr; vector.py Vector.shape *)
Definition repr_vector (glob : Z) (v : vec) : res vrepr :=
  match vdata v with
  | [] => Ret VREmpty                                   (* shape () -> nd = 0 -> _footer: "# empty" *)
  | _ :: _ =>
      bind (format_column (vdtype v) (half glob) (vdata v)) (fun body =>
        let shown := match vname v with
                     | None => Ret false
                     | Some o => if n_is_empty_str o then Ret false          (* `_name is not None and _name != ""` *)
                                 else bind (needs_quote o) (fun _ => Ret true)
                     end in
        bind shown (fun hdr =>
          Ret (VRLines hdr body (List.length (vdata v)) (tok_of (vdtype v)))))
  end.

(* ---- tables ---- *)

Record tbl := mkTbl {
  tcols : list vec;              (* _underlying: the columns *)
  trepr_rows : option Z          (* _repr_rows: per-table override of the row budget *)
}.

Definition MAX_HEAD_COLS : nat := 5.

Definition t_ncols (t : tbl) : nat := List.length (tcols t).
Definition t_nrows (t : tbl) : nat :=                    (* Table.__len__: _length = len(first column) *)
  match tcols t with [] => 0 | c :: _ => List.length (vdata c) end.

Inductive hitem := HEll | HName (j : nat).               (* display-name row: the _HIDDEN cell or the stored name of column j *)

Inductive ftypes :=
| FMixed                                                 (* "<mixed>": the types are in the header *)
| FOne (d : dtype)                                       (* all columns have this dtype *)
| FList (l : list (option dtype)).                       (* every dtype; None = the ", ..., " gap *)

Inductive colbody := CItems (l : list item) | CDots (n : nat).   (* a shown column | the "..." column *)

Inductive trepr :=
| TREmpty                                                (* "# 0×0 table" *)
| TRTensor                                               (* more than two dimensions: footer only *)
| TRTable (disp : option (list hitem))                   (* row of display names, if any name is shown *)
          (types : option (list (option dtype)))         (* row of [dtype]s if heterogeneous; None = "..." *)
          (body : list colbody)
          (frows fcols : nat) (ftys : ftypes).           (* "# {rows}×{cols} table <...>" *)

Fixpoint dtype_mem (d : dtype) (l : list dtype) : bool :=
  match l with [] => false | x :: t => dtype_eqb d x || dtype_mem d t end.
Fixpoint distinct_dtypes (l : list dtype) : list dtype :=      (* set(...) of the printed tokens *)
  match l with
  | [] => []
  | x :: t => let r := distinct_dtypes t in if dtype_mem x r then r else x :: r
  end.

Definition body_len (c : colbody) : nat :=
  match c with CItems l => List.length l | CDots n => n end.

Definition insert_at {A} (k : nat) (x : A) (l : list A) : list A := firstn k l ++ x :: skipn k l.

(* display.py _repr_table — the column budget *)
Definition truncated_cols (num_cols : nat) : bool := MAX_HEAD_COLS * 2 <? num_cols.
Definition col_indices (num_cols : nat) : list nat :=
  if truncated_cols num_cols
  then seq 0 MAX_HEAD_COLS ++ seq (num_cols - MAX_HEAD_COLS) MAX_HEAD_COLS
  else seq 0 num_cols.
Definition shown_cols (cols : list vec) : list (nat * vec) :=
  map (fun j => (j, nth j cols (mkVec None None []))) (col_indices (List.length cols)).

(* _compute_headers: `disp = "" if col._name is None else str(col._name)` (None stays None here) *)
Definition display_name (c : vec) : option nobj := option_map n_to_str (vname c).

(* _header_rows, row 1: the display names — present iff some shown name is non-empty
   (`any(n for n in display_names if n is not _HIDDEN)`: the _HIDDEN cell is skipped by identity,
   every str(name) counts by its truth value) *)
Definition name_counts (d : option nobj) : bool :=
  match d with
  | None => false
  | Some o => negb (n_text_empty o)
  end.
(* `if name is _HIDDEN: "..." elif _needs_quote(name): repr(name) else: name` — a str(name) is
   never the _HIDDEN object, whatever its text *)
Definition name_cell (jd : nat * option nobj) : res hitem :=
  match snd jd with
  | None => bind (needs_quote (NStr true false)) (fun _ => Ret (HName (fst jd)))   (* "" -> repr("") *)
  | Some o => bind (needs_quote o) (fun _ => Ret (HName (fst jd)))
  end.
Definition display_row (truncated : bool) (shown : list (nat * vec)) : res (option (list hitem)) :=
  let disp := map (fun jc => (fst jc, display_name (snd jc))) shown in
  if existsb (fun jd => name_counts (snd jd)) disp then
    bind (map_res name_cell disp) (fun r =>
      Ret (Some (if truncated then insert_at MAX_HEAD_COLS HEll r else r)))
  else Ret None.

(* _header_rows, row 3: the [dtype] row — present iff the shown columns print >= 2 distinct tokens *)
Definition show_types (dtypes_displayed : list dtype) : bool :=
  1 <? List.length (distinct_dtypes dtypes_displayed).
Definition types_row (truncated : bool) (dtypes_displayed : list dtype) : option (list (option dtype)) :=
  if show_types dtypes_displayed
  then Some (if truncated then insert_at MAX_HEAD_COLS None (map Some dtypes_displayed)
             else map Some dtypes_displayed)
  else None.

(* display.py _repr_table (end) + _footer: what stands between < and > *)
Definition footer_types (truncated shows_types : bool) (dtypes_all : list dtype) : ftypes :=
  if shows_types then FMixed
  else if Nat.eqb (List.length (distinct_dtypes dtypes_all)) 1
       then FOne (hd (mkD KObject false) dtypes_all)
       else FList (if truncated
                   then map Some (firstn MAX_HEAD_COLS dtypes_all) ++ [None]
                        ++ map Some (slice_last MAX_HEAD_COLS dtypes_all)
                   else map Some dtypes_all).

(* display.py _repr_table: the formatted columns, with the "..." column in the middle *)
Definition table_body (truncated : bool) (formatted : list (list item)) : list colbody :=
  let body0 := map CItems formatted in
  let first_len := match body0 with c :: _ => body_len c | [] => 0 end in
  if truncated then insert_at MAX_HEAD_COLS (CDots first_len) body0 else body0.

(* Table.shape = (rows, cols) + first_cell.shape when the first cell has a .shape (is a Vector):
   a third dimension appears when that vector is non-empty (the shape of an empty one is ()) *)
Definition first_cell_has_shape (cols : list vec) : bool :=
  match cols with
  | c :: _ => match vdata c with Some (VVector nonempty) :: _ => nonempty | _ => false end
  | [] => false
  end.

(* display.py _repr_table, _printr *)
Definition repr_table (glob : Z) (t : tbl) : res trepr :=
  let cols := tcols t in
  let num_cols := List.length cols in
  if first_cell_has_shape cols then Ret TRTensor          (* nd = len(tbl.shape) > 2 *)
  else if Nat.eqb num_cols 0 then Ret TREmpty
  else
    let max_preview := match trepr_rows t with
                       | Some r => half r                 (* tbl._repr_rows // 2 *)
                       | None => half glob                (* _REPR_ROWS_DEFAULT // 2 *)
                       end in
    let truncated := truncated_cols num_cols in
    let shown := shown_cols cols in
    let dtypes_displayed := map (fun jc => tok_of (vdtype (snd jc))) shown in
    let dtypes_all := map (fun c => tok_of (vdtype c)) cols in
    bind (map_res (fun jc => format_column (vdtype (snd jc)) max_preview (vdata (snd jc))) shown)
    (fun formatted =>
      let body := table_body truncated formatted in
      bind (display_row truncated shown) (fun disp_row =>
        (* body lines: `col[r] for col in aligned_cols` for r < len(aligned_cols[0]) — IndexError
           if a later column were shorter than the first *)
        let first_len := match body with c :: _ => body_len c | [] => 0 end in
        if forallb (fun c => first_len <=? body_len c) body then
          Ret (TRTable disp_row (types_row truncated dtypes_displayed) body
                       (t_nrows t) num_cols
                       (footer_types truncated (show_types dtypes_displayed) dtypes_all))
        else Exn)).

(* ---- the global row budget ---- *)
(* display.py set_repr_rows: `n if n is not None else 12` *)
Definition set_repr_rows (n : option Z) : Z := match n with Some z => z | None => 12%Z end.

(* repr as an operation on the interpreter state it can see: (global budget, object).
   The state is threaded explicitly so that "repr changes nothing" is a statement about
   the model and not a convention. *)
Definition repr_vector_st (st : Z * vec) : (Z * vec) * res vrepr := (st, repr_vector (fst st) (snd st)).
Definition repr_table_st (st : Z * tbl) : (Z * tbl) * res trepr := (st, repr_table (fst st) (snd st)).
