(* Model/Naming.v — executable model of serif's accessor naming (property C17).
   NO proofs here.  Follows, branch by branch:

     naming.py   _sanitize_user_name                      -> [sanitize]
     table.py    _parse_indexed_attr                      -> [parse_indexed]
                 Table._build_column_map                  -> [build_map]
                 Table.__dir__                            -> [dir_cols]
                 Table.__getattr__                        -> [getattr_with] / [resolve]
                 Table.__setattr__ (column replacement)   -> [setattr_target]
                 Table.__getitem__ (string branch)        -> [getitem_str]
                 Table.__setitem__ (string column key)    -> [setitem_key]
                 Row.__getattr__                          -> [row_attr]
                 rename_column(s), live-view rename, >>   -> [step]
     display.py  _compute_headers / _header_rows          -> [headers] / [repr_dot_row]

   Strings.  A name travels as the text of [str(name).lower()] (computed by Python:
   lower-casing arbitrary unicode is Python's business), a [list ascii] in which
   every character outside printable ASCII has been replaced by the sentinel "?".
   The only thing the code can see of a character is its class: lower-case ASCII
   letter, ASCII digit, underscore, or "other" (sentinel and all other ASCII).
   Equality of *stored* names (rename_column, t[name]) is Python's [==]; it is
   shipped as an equality-class id [nid]. *)
From Coq Require Import List Bool Arith Ascii String.
Import ListNotations.
Local Open Scope char_scope.

Definition str := list ascii.
Definition s (x : string) : str := list_ascii_of_string x.

(* ---- character classes ---------------------------------------------------- *)
Definition is_digit (c : ascii) : bool :=
  match c with
  | "0" | "1" | "2" | "3" | "4" | "5" | "6" | "7" | "8" | "9" => true
  | _ => false
  end.
Definition is_lower (c : ascii) : bool :=
  match c with
  | "a" | "b" | "c" | "d" | "e" | "f" | "g" | "h" | "i" | "j" | "k" | "l" | "m"
  | "n" | "o" | "p" | "q" | "r" | "s" | "t" | "u" | "v" | "w" | "x" | "y" | "z" => true
  | _ => false
  end.
Definition is_us (c : ascii) : bool := Ascii.eqb c "_".
(* the complement of the regex class [^a-z0-9_] *)
Definition is_ok (c : ascii) : bool := is_lower c || is_digit c || is_us c.

Fixpoint str_eqb (a b : str) : bool :=
  match a, b with
  | [], [] => true
  | x :: a', y :: b' => Ascii.eqb x y && str_eqb a' b'
  | _, _ => false
  end.
Definition mem (x : str) (l : list str) : bool := existsb (str_eqb x) l.
Definition ostr_eqb (a b : option str) : bool :=
  match a, b with
  | None, None => true
  | Some x, Some y => str_eqb x y
  | _, _ => false
  end.

(* ---- decimal text of an index: f"{idx}" and int(text) --------------------- *)
Definition digit_char (d : nat) : ascii :=
  match d with
  | 0 => "0" | 1 => "1" | 2 => "2" | 3 => "3" | 4 => "4"
  | 5 => "5" | 6 => "6" | 7 => "7" | 8 => "8" | _ => "9"
  end.
Definition digit_val (c : ascii) : nat :=
  match c with
  | "1" => 1 | "2" => 2 | "3" => 3 | "4" => 4 | "5" => 5
  | "6" => 6 | "7" => 7 | "8" => 8 | "9" => 9 | _ => 0
  end.
Local Close Scope char_scope.
Fixpoint dec_aux (fuel n : nat) : str :=
  match fuel with
  | 0 => []
  | S f => (if n <? 10 then [] else dec_aux f (n / 10)) ++ [digit_char (n mod 10)]
  end.
Definition dec (n : nat) : str := dec_aux (S n) n.
(* int(text) for an all-digit text *)
Definition parse_from (a : nat) (t : str) : nat := fold_left (fun v c => 10 * v + digit_val c) t a.
Definition parse (t : str) : nat := parse_from 0 t.

(* ---- naming.py: _sanitize_user_name --------------------------------------- *)
(* re.sub(r'[^a-z0-9_]+', '_', name): every maximal run of other characters -> one "_" *)
Fixpoint collapse (in_run : bool) (l : str) : str :=
  match l with
  | [] => []
  | c :: t => if is_ok c then c :: collapse false t
              else if in_run then collapse true t else "_"%char :: collapse true t
  end.
Fixpoint lstrip (l : str) : str :=
  match l with
  | c :: t => if is_us c then lstrip t else l
  | [] => []
  end.
(* str.strip('_') *)
Definition strip (l : str) : str := rev (lstrip (rev (lstrip l))).

Fixpoint take_digits (l : str) : str :=
  match l with c :: t => if is_digit c then c :: take_digits t else [] | [] => [] end.
Fixpoint drop_digits (l : str) : str :=
  match l with c :: t => if is_digit c then drop_digits t else l | [] => [] end.
(* re.match(r'^.+__\d+$', x): a non-empty prefix, two underscores, then the (non-empty)
   trailing digit run.  Evaluated on the reversed text. *)
Definition matches_indexed (x : str) : bool :=
  let r := rev x in
  match take_digits r, drop_digits r with
  | _ :: _, u1 :: u2 :: _ :: _ => is_us u1 && is_us u2
  | _, _ => false
  end.

Section WithReserved.
(* _get_reserved_names(): read from dir(Vector), dir(Table) at run time, passed in as data *)
Variable reserved : list str.

Definition sanitize (t : str) : option str :=
  let x := strip (collapse false t) in            (* lower() was applied by Python *)
  match x with
  | [] => None                                     (* empty -> None *)
  | c :: _ =>
    let x1 := if is_digit c then "c"%char :: x else x in                  (* leading digit *)
    let x2 := if matches_indexed x1 then x1 ++ ["_"%char] else x1 in      (* looks like name__N *)
    let x3 := if mem x2 reserved then x2 ++ ["_"%char] else x2 in         (* method collision *)
    Some x3
  end.

(* a stored column name: None (unnamed) or the lowered text of str(name) *)
Definition oname := option str.
(* _sanitize_user_name(col._name) where col._name may be None: str(None).lower() = "none" *)
Definition sanitize_stored (n : oname) : option str :=
  sanitize (match n with Some t => t | None => s "none" end).

(* ---- the generated accessor of one column ---------------------------------- *)
Definition colN (idx : nat) : str := s "col" ++ dec idx ++ ["_"%char].
Definition ends_us (x : str) : bool := match rev x with c :: _ => is_us c | [] => false end.
(* f"{base}{sep}_{idx}" with sep = "" if base.endswith("_") else "_" *)
Definition dup_name (base : str) (idx : nat) : str :=
  base ++ (if ends_us base then [] else ["_"%char]) ++ ["_"%char] ++ dec idx.

(* ---- table.py: _build_column_map (a dict: overwrite keeps the first position) ---- *)
Definition dict := list (str * nat).
Fixpoint dict_set (d : dict) (k : str) (v : nat) : dict :=
  match d with
  | [] => [(k, v)]
  | (k', v') :: r => if str_eqb k k' then (k', v) :: r else (k', v') :: dict_set r k v
  end.
Fixpoint dict_get (d : dict) (k : str) : option nat :=
  match d with
  | [] => None
  | (k', v) :: r => if str_eqb k k' then Some v else dict_get r k
  end.

Fixpoint build_loop (seen : list str) (idx : nat) (l : list oname) (d : dict) : dict :=
  match l with
  | [] => d
  | nm :: t =>
    match nm with
    | Some tx =>
      match sanitize tx with
      | None => build_loop seen (S idx) t (dict_set d (colN idx) idx)
      | Some base =>
        if mem base seen
        then build_loop seen (S idx) t (dict_set d (dup_name base idx) idx)
        else build_loop (base :: seen) (S idx) t (dict_set d base idx)
      end
    | None => build_loop seen (S idx) t (dict_set d (colN idx) idx)
    end
  end.
Definition build_map (names : list oname) : dict := build_loop [] 0 names [].
(* Table.__dir__: the keys of a freshly built map (plus the object's own attributes) *)
Definition dir_cols (names : list oname) : list str := map fst (build_map names).

(* ---- display.py: _compute_headers — the second, independent implementation ---- *)
Fixpoint headers_loop (seen : list str) (idx : nat) (l : list oname) : list str :=
  match l with
  | [] => []
  | nm :: t =>
    match nm with
    | Some tx =>
      match sanitize tx with
      | None => colN idx :: headers_loop seen (S idx) t
      | Some san =>
        if mem san seen then dup_name san idx :: headers_loop seen (S idx) t
        else san :: headers_loop (san :: seen) (S idx) t
      end
    | None => colN idx :: headers_loop seen (S idx) t
    end
  end.
(* sanitized_names for ALL columns, in column order: "the advertised accessors" *)
Definition headers (names : list oname) : list str := headers_loop [] 0 names.

(* _repr_table: which columns are displayed (MAX_HEAD_COLS = 5) *)
Definition shown_indices (n : nat) : list nat :=
  if 10 <? n then seq 0 5 ++ seq (n - 5) 5 else seq 0 n.
Definition dots : str := s "...".
(* _is_structural_change(display_name, sanitized_name) on the lowered display text *)
Definition structural_change (nm : oname) (san : str) : bool :=
  match nm with
  | None => true                                   (* display name "" *)
  | Some [] => true
  | Some t => negb (str_eqb t san)
  end.
(* the dot row of repr(t) as a list of cells, or None when _header_rows leaves it out *)
Definition repr_dot_row (names : list oname) : option (list str) :=
  let n := List.length names in
  if n =? 0 then None else
  let hs := headers names in
  let idxs := shown_indices n in
  let disp := map (fun i => nth i names None) idxs in
  let sans := map (fun i => nth i hs []) idxs in
  (* since /repo 8b99cab the hidden-columns cell is a private marker compared by identity: a column
     NAMED "..." is a name like any other *)
  let any_display := existsb (fun nm => match nm with Some (_ :: _) => true | _ => false end) disp in
  let any_struct := existsb (fun p => structural_change (fst p) (snd p)) (combine disp sans) in
  if any_struct || negb any_display then
    let cells := map (fun x => "."%char :: x) sans in
    Some (if 10 <? n then firstn 5 cells ++ [dots] ++ skipn 5 cells else cells)
  else None.

(* ---- table.py: _parse_indexed_attr ----------------------------------------- *)
(* attr.rpartition('__'), scanning the reversed text for the LAST "__";
   returns (base, suffix) in reading order *)
Fixpoint rpart (r : str) (suf : str) : option (str * str) :=
  match r with
  | c1 :: ((c2 :: t) as r') =>
      if is_us c1 && is_us c2 then Some (rev t, suf) else rpart r' (c1 :: suf)
  | _ => None
  end.
Definition all_digits (t : str) : bool :=
  match t with [] => false | _ => forallb is_digit t end.      (* str.isdigit() *)

Inductive parsed :=
| PPlain                                  (* (attr, None) *)
| PErr                                    (* '__5': AttributeError *)
| PIdx (base : option str) (n : nat).     (* (_sanitize_user_name(base), int(suffix)) *)

Definition parse_indexed (attr : str) : parsed :=
  match rpart (rev attr) [] with
  | Some (base, suf) =>
      if all_digits suf then
        match base with [] => PErr | _ => PIdx (sanitize base) (parse suf) end
      else PPlain
  | None => PPlain
  end.

(* attr.startswith('col') and attr.endswith('_') and attr[3:-1].isdigit() -> int(attr[3:-1]) *)
Definition colN_parse (attr : str) : option nat :=
  match attr with
  | "c"%char :: "o"%char :: "l"%char :: rest =>
      match rev rest with
      | u :: m => if is_us u && all_digits m then Some (parse (rev m)) else None
      | [] => None
      end
  | _ => None
  end.

(* the two facts about the reserved set the theorems need (checked by vm_compute on the
   set actually read from dir(Vector), dir(Table)): appending "_" to a reserved name never
   gives another reserved name, nor something of the form colN_ *)
Definition reserved_ok : bool :=
  forallb (fun r => negb (mem (r ++ ["_"%char]) reserved) &&
                    match colN_parse (r ++ ["_"%char]) with None => true | Some _ => false end)
          reserved.

(* ---- Table.__getattr__ after the refresh-if-wild step, against a given map ---- *)
(* result: Some i = the column at position i;  None = AttributeError *)
Definition getattr_with (names : list oname) (cmap : dict) (attr : str) : option nat :=
  match parse_indexed attr with
  | PErr => None
  | PIdx base n =>
      if n <? List.length names then
        match base with
        | None => None                                     (* None.lower() -> AttributeError *)
        | Some b => if ostr_eqb (sanitize_stored (nth n names None)) (Some b) then Some n else None
        end
      else None
  | PPlain =>
      match colN_parse attr with
      | Some idx => if idx <? List.length names then Some idx else None
      | None => dict_get cmap attr            (* then super().__getattribute__: AttributeError *)
      end
  end.
(* attribute access on a table whose map is fresh *)
Definition resolve (names : list oname) (attr : str) : option nat :=
  getattr_with names (build_map names) attr.

(* Table.__setitem__ with a string column key / Row.__getattr__: the map only *)
Definition setitem_key (names : list oname) (key : str) : option nat := dict_get (build_map names) key.
Definition row_attr (names : list oname) (attr : str) : option nat := dict_get (build_map names) attr.

(* Table.__setattr__: which column t.attr = v replaces (None: AttributeError).
   [refreshed] is the map after _current_column_map(). *)
Definition setattr_target (names : list oname) (refreshed : dict) (attr : str) : option nat :=
  match parse_indexed attr with
  | PErr => None
  | PIdx base n =>
      if n <? List.length names then
        match base with
        | None => None
        | Some b => if ostr_eqb (sanitize_stored (nth n names None)) (Some b) then Some n else None
        end
      else None
  | PPlain => dict_get refreshed attr
  end.

(* ---- Table.__getitem__, string key ----------------------------------------- *)
Record cname := mkN { nid : nat; ntext : oname }.    (* equality class under Python ==, text *)

Fixpoint find_id (k : nat) (idx : nat) (l : list cname) : option nat :=
  match l with
  | [] => None
  | c :: t => if nid c =? k then Some idx else find_id k (S idx) t
  end.
Fixpoint getitem_scan (klow : str) (idx : nat) (l : list cname) : option nat :=
  match l with
  | [] => None
  | c :: t =>
    match ntext c with
    | Some tx =>
      match sanitize tx with
      | None => if str_eqb (colN idx) klow then Some idx else getitem_scan klow (S idx) t
      | Some base =>
          if str_eqb base klow then Some idx
          else if str_eqb (base ++ s "__" ++ dec idx) klow then Some idx
          else getitem_scan klow (S idx) t
      end
    | None => if str_eqb (colN idx) klow then Some idx else getitem_scan klow (S idx) t
    end
  end.
(* t[key]: exact match on the stored name first, then the sanitized forms; None = SerifKeyError *)
Definition getitem_str (cols : list cname) (kid : nat) (klow : str) : option nat :=
  match find_id kid 0 cols with
  | Some i => Some i
  | None => getitem_scan klow 0 cols
  end.

(* ---- histories: the cached map and the wild flags ---------------------------- *)
Record col := mkC { cn : cname; wild : bool }.
Record tstate := mkT { cols : list col; cmap : dict }.
Definition names_of (st : tstate) : list oname := map (fun c => ntext (cn c)) (cols st).
Definition cnames_of (st : tstate) : list cname := map cn (cols st).
Definition tame (c : col) : col := mkC (cn c) false.
(* self._column_map = self._build_column_map()  (marks every column tame) *)
Definition rebuild (cs : list col) : tstate :=
  mkT (map tame cs) (build_map (map (fun c => ntext (cn c)) cs)).
(* Table.__init__ *)
Definition init (ns : list cname) : tstate := rebuild (map (fun n => mkC n false) ns).
(* _current_column_map() / first lines of __getattr__ *)
Definition refresh (st : tstate) : tstate :=
  if existsb wild (cols st) then rebuild (cols st) else st.

Fixpoint set_nth {A} (i : nat) (x : A) (l : list A) : list A :=
  match l, i with
  | [], _ => []
  | _ :: t, 0 => x :: t
  | h :: t, S j => h :: set_nth j x t
  end.
Fixpoint find_col (k : nat) (idx : nat) (l : list col) : option nat :=
  match l with
  | [] => None
  | c :: t => if nid (cn c) =? k then Some idx else find_col k (S idx) t
  end.
(* rename the first column whose stored name == old (wild flag untouched) *)
Definition rename_first (cs : list col) (old : nat) (new : cname) : option (list col) :=
  match find_col old 0 cs with
  | Some i => Some (set_nth i (mkC new (wild (nth i cs (mkC new false)))) cs)
  | None => None
  end.
Fixpoint rename_many (cs : list col) (olds : list nat) (news : list cname) : option (list col) :=
  match olds, news with
  | [], [] => Some cs
  | o :: os, n :: ns =>
      match rename_first cs o n with
      | Some cs' => rename_many cs' os ns
      | None => None
      end
  | _, _ => None
  end.

Inductive op :=
| ORename (old : nat) (new : cname)                  (* t.rename_column(old, new) *)
| ORenames (olds : list nat) (news : list cname)     (* t.rename_columns(olds, news) *)
| OView (i : nat) (new : cname)                      (* t.cols()[i].name = new  (a live view) *)
| OReplace (attr : str)                              (* t.<attr> = fresh values *)
| OAppend (new : cname)                              (* t = t >> Vector(..., name=new) *)
| ODir                                               (* dir(t) *)
| ORepr                                              (* repr(t) *)
| OGetattr (attr : str)                              (* getattr(t, attr) *)
| ORow (attr : str)                                  (* getattr(t[0], attr) *)
| OSetitem (key : str).                              (* t[0, key] = v *)

Inductive ores :=
| ROk | RFail                  (* returned / raised *)
| RIdx (i : nat)               (* the column at position i was returned / written *)
| RKeys (l : list str)         (* dir(): the column attributes *)
| RRow (r : option (list str)) (* repr(): the dot row *)
| ROther.                      (* the implementation returned something that is not a column *)

(* [dir_stores]: does __dir__ store the map it builds?  On the current tree it does not
   (it calls _build_column_map(), which marks every column tame, and drops the result). *)
Variable dir_stores : bool.

Definition oidx (o : option nat) : ores := match o with Some i => RIdx i | None => RFail end.

Definition step (st : tstate) (o : op) : tstate * ores :=
  match o with
  | ORename old new =>
      match rename_first (cols st) old new with
      | Some cs => (rebuild cs, ROk)
      | None => (st, RFail)
      end
  | ORenames olds news =>
      match rename_many (cols st) olds news with
      | Some cs => (rebuild cs, ROk)
      | None => (st, RFail)
      end
  | OView i new =>
      if i <? List.length (cols st) then (mkT (set_nth i (mkC new true) (cols st)) (cmap st), ROk)
      else (st, RFail)
  | OReplace attr =>
      match parse_indexed attr with
      | PPlain =>
          let st1 := refresh st in
          match dict_get (cmap st1) attr with
          | Some i => (rebuild (cols st1), RIdx i)         (* the new column keeps the name *)
          | None => (st1, RFail)
          end
      | _ =>
          match setattr_target (names_of st) (cmap st) attr with
          | Some i => (rebuild (cols st), RIdx i)
          | None => (st, RFail)
          end
      end
  | OAppend new => (rebuild (cols st ++ [mkC new false]), ROk)
  | ODir =>
      let keys := dir_cols (names_of st) in
      if dir_stores then (refresh st, RKeys (map fst (cmap (refresh st))))
      else (mkT (map tame (cols st)) (cmap st), RKeys keys)
  | ORepr =>
      (* _printr asks for t.shape, which builds Row(t, 0) when the table has rows (the histories'
         tables always have one): Row.__init__ goes through _current_column_map() *)
      let st1 := refresh st in (st1, RRow (repr_dot_row (names_of st1)))
  | OGetattr attr =>
      let st1 := refresh st in (st1, oidx (getattr_with (names_of st1) (cmap st1) attr))
  | ORow attr =>
      let st1 := refresh st in (st1, oidx (dict_get (cmap st1) attr))
  | OSetitem key =>
      let st1 := refresh st in (st1, oidx (dict_get (cmap st1) key))
  end.

Fixpoint run (st : tstate) (h : list op) : tstate :=
  match h with
  | [] => st
  | o :: t => run (fst (step st o)) t
  end.

(* the map a consumer sees when it asks through _current_column_map() *)
Definition consulted (st : tstate) : dict := cmap (refresh st).

End WithReserved.
