(* Model/Dtype.v — executable model of serif/typing.py (promote_with, infer_kind,
   infer_dtype, validate_scalar), branch by branch in the order of the Python code.
   No proofs here: the model must still run when a proof breaks. *)
From Coq Require Import List Bool Arith.
From Serif Require Import Base.PyVal.
Import ListNotations.

(* typing.py: DataType.promote_with *)
Definition promote_with (d : dtype) (v : pyv) : dtype :=
  match v with
  | None =>                                   (* Case 1: None just lifts nullability *)
      if nullable d then d else mkD (dkind d) true
  | Some vi =>
      let vtype := base vi in                 (* vtype = infer_kind(value) *)
      let k := dkind d in
      if kind_eqb vtype k then d              (* Case 2: exact match *)
      else if is_numeric k && is_numeric vtype then   (* Case 3: numeric ladder *)
        let new_kind :=
          if kind_eqb k KComplex || kind_eqb vtype KComplex then KComplex
          else if kind_eqb k KFloat || kind_eqb vtype KFloat then KFloat
          else if kind_eqb k KInt || kind_eqb vtype KInt then KInt
          else KBool in
        if negb (kind_eqb new_kind k) then mkD new_kind (nullable d) else d
      else if is_temporal k && is_temporal vtype then  (* Case 4: temporal ladder *)
        let new_kind :=
          if kind_eqb k KDateTime || kind_eqb vtype KDateTime then KDateTime else KDate in
        if negb (kind_eqb new_kind k) then mkD new_kind (nullable d) else d
      else if negb (kind_eqb k KObject) then mkD KObject (nullable d)  (* Case 6 *)
      else d
  end.

(* typing.py: infer_dtype — the loop state is (dtype or None, saw_none) *)
Definition infer_step (st : option dtype * bool) (v : pyv) : option dtype * bool :=
  match v, st with
  | None, (d, _) => (d, true)
  | Some vi, (None, s) => (Some (mkD (base vi) false), s)
  | Some _, (Some d, s) => (Some (promote_with d v), s)
  end.

Definition infer_finish (st : option dtype * bool) : dtype :=
  match st with
  | (None, _) => mkD KObject true
  | (Some d, true) => mkD (dkind d) true       (* dtype.with_nullable(True) *)
  | (Some d, false) => d
  end.

Definition infer_dtype (l : list pyv) : dtype :=
  infer_finish (fold_left infer_step l (None, false)).

(* typing.py: validate_scalar — true = accepted (possibly coerced), false = TypeError *)
Definition validate_scalar (v : pyv) (d : dtype) : bool :=
  match v with
  | None => nullable d
  | Some vi =>
      let k := dkind d in
      if (exact vi && kind_eqb (base vi) k) || kind_eqb k KObject then true
      else if negb (exact vi) then false      (* subclass instances match no coercion rule *)
      else match k, base vi with
           | KFloat, (KInt | KBool) => true
           | KInt, KBool => true
           | KComplex, (KInt | KFloat | KBool) => true
           | KDateTime, KDate => true
           | _, _ => false
           end
  end.
