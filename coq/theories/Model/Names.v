(* Model/Names.v — executable model of name propagation in serif (property C18).
   NO proofs here.  Only names are modelled: a vector is its [_name], a table is the list
   of its columns' [_name]s.  Each operation follows the line of vector.py / table.py that
   decides the result's name(s):

     vector.py  _elementwise_operation / __radd__     name=None                 -> [v_binop]
                _elementwise_compare                  no name argument          -> [v_compare]
                copy / __getitem__ / sort_by / _unary_operation / cast / fillna / T
                                                      name=self._name           -> [v_keep]
                __setitem__ / _promote                self._name untouched      -> [v_keep]
                dropna / isna / unique                no name argument          -> [v_drop]
     table.py   _resolve_binary_name                                            -> [resolve_binary]
                _table_elementwise_operation                                    -> [t_scalar] [t_table]
                Table.__init__ (names saved and restored around the copies)     -> [t_of]
                __rshift__                                                      -> [t_append]
                __getitem__ slice / mask / index, sort_by, copy                 -> [t_keep]
                inner_join / join / full_join                                   -> [join_names]
                aggregate / window: make_agg_name, uniquify                     -> [agg_names]

   Names here are str or None (printable ASCII; other name types are outside this model). *)
From Coq Require Import List Bool Arith Ascii String.
From Serif Require Import Model.Naming.
Import ListNotations.

Definition vname := option str.          (* the ORIGINAL text (not lower-cased) *)

Definition vname_eqb (a b : vname) : bool := ostr_eqb a b.

(* ---- vectors ---------------------------------------------------------------- *)
(* Vector(result_values, dtype=..., name=None, ...) *)
Definition v_binop (a b : vname) : vname := None.
Definition v_binop_scalar (a : vname) : vname := None.
(* Vector(result_values, dtype=DataType(bool, nullable=False)) *)
Definition v_compare (a b : vname) : vname := None.
Definition v_compare_scalar (a : vname) : vname := None.

Inductive keepop :=
| KCopy        (* v.copy()                           copy: use_name = self._name *)
| KSlice       (* v[a:b]                             self.copy(..., name=self._name) *)
| KMask        (* v[bool vector] / v[list of bool] *)
| KIndex       (* v[int vector] / v[list of int] *)
| KSort        (* v.sort_by()                        Vector(new_values, dtype, name=self._name) *)
| KSetitem     (* v[i] = x  in place, same kind *)
| KPromote     (* v[i] = x  in place, promoting the dtype (int -> float) *)
| KUnary       (* -v, +v, abs(v), ~v                 name=self._name *)
| KT           (* v.T *)
| KCast        (* v.cast(float) *)
| KFillna.     (* v.fillna(x) *)
Definition v_keep (k : keepop) (a : vname) : vname := a.
(* v.copy(name=n) *)
Definition v_copy_as (n : vname) (a : vname) : vname := n.
(* dropna / isna / unique build Vector(...) without a name (not claimed by the property) *)
Definition v_drop (a : vname) : vname := None.

(* ---- tables ------------------------------------------------------------------ *)
Definition tnames := list vname.

(* Table(initial): original_names saved, columns copied, names restored *)
Definition t_of (vs : list vname) : tnames :=
  let copies := map (v_keep KCopy) vs in
  map snd (combine copies vs).

(* _resolve_binary_name(left_name, right_name) -> result_name *)
Definition resolve_binary (l r : vname) : vname :=
  match r with
  | None => l                                    (* right is None: keep left *)
  | Some _ =>
      if vname_eqb r l then l                    (* right == left: keep left *)
      else match l with
           | None => None                        (* right-named-left-unnamed *)
           | Some _ => None                      (* mismatch *)
           end
  end.

(* table (op) scalar: result columns are unnamed, then "Restore original column names" *)
Definition t_scalar (ns : tnames) : tnames :=
  let result_cols := map v_binop_scalar ns in
  t_of (map fst (combine ns result_cols)).
(* scalar (op) table.  Table defines no reflected operators, so 2 * t runs Vector.__rmul__:
   every column goes through _elementwise_operation and comes back unnamed, and nothing restores
   the names (finding NEW-C18-1).  [routed] = the reflected operators go through
   _table_elementwise_operation like table (op) scalar (candidate fix). *)
Definition t_rscalar (routed : bool) (ns : tnames) : tnames :=
  if routed then t_scalar ns else t_of (map v_binop_scalar ns).
(* table (op) table of equal width *)
Definition t_table (l r : tnames) : tnames :=
  t_of (map (fun p => resolve_binary (fst p) (snd p)) (combine l r)).
(* table == scalar etc.: Vector(tuple(op(x, other) for x in self.cols()), ...) *)
Definition t_compare_scalar (ns : tnames) : tnames := t_of (map v_compare_scalar ns).

(* t >> u, t >> v, t >> {name: values} *)
Definition t_append (l r : tnames) : tnames := t_of (l ++ r).

Inductive tkeepop :=
| TKMask       (* t[bool vector]   Vector(tuple(x[key] for x in self._underlying)) *)
| TKSlice      (* t[a:b] *)
| TKIndex      (* t[int vector] *)
| TKSort       (* t.sort_by(col)   Vector(new_data, name=col._name) per column *)
| TKCopy.      (* t.copy() *)
Definition vop_of (k : tkeepop) : keepop :=
  match k with TKMask => KMask | TKSlice => KSlice | TKIndex => KIndex | TKSort => KSort | TKCopy => KCopy end.
Definition t_keep (k : tkeepop) (ns : tnames) : tnames := t_of (map (v_keep (vop_of k)) ns).
(* t[:, a:b]: Table(row_sliced.cols()[a:b]) *)
Definition t_colslice (a b : nat) (ns : tnames) : tnames :=
  t_of (firstn (b - a) (skipn a (t_keep TKSlice ns))).

Inductive jkind := JInner | JLeft | JFull.
(* result columns: left columns then right columns, each Vector(data, name=orig_col._name);
   an inner join without matches returns Table(()) *)
Definition join_names (j : jkind) (no_match : bool) (l r : tnames) : tnames :=
  match j with
  | JInner => if no_match then [] else t_of (l ++ r)
  | _ => t_of (l ++ r)
  end.

(* ---- aggregate / window output names -------------------------------------------- *)
Definition lower_char (c : ascii) : ascii :=
  let n := nat_of_ascii c in
  if (65 <=? n) && (n <=? 90) then ascii_of_nat (n + 32) else c.
Definition lower (t : str) : str := map lower_char t.

(* while f"{name}{i}" in used: i += 1  — fuelled; fuel |used|+1 always suffices *)
Fixpoint uniq_search (fuel i : nat) (name : str) (used : list str) : str :=
  match fuel with
  | 0 => name ++ dec i
  | S f => if mem (name ++ dec i) used then uniq_search f (S i) name used else name ++ dec i
  end.
Definition uniquify (used : list str) (name : str) : str * list str :=
  if mem name used
  then let nw := uniq_search (S (List.length used)) 2 name used in (nw, nw :: used)
  else (name, name :: used).
Fixpoint uniquify_all (used : list str) (names : list str) : list str :=
  match names with
  | [] => []
  | n :: t => let r := uniquify used n in fst r :: uniquify_all (snd r) t
  end.

Section WithReserved.
Variable reserved : list str.
Variable rscalar_routed : bool.      (* which of the two reflected-operator variants (see t_rscalar) *)

(* col._name or "key": None and "" are falsy *)
Definition key_base (n : vname) : str :=
  match n with Some (c :: t) => c :: t | _ => s "key" end.
(* make_agg_name(col, suffix) = (sanitize(col._name or "col") or "col") + "_" + suffix *)
Definition agg_base (fn : str) (n : vname) : str :=
  let base := match n with Some (c :: t) => c :: t | _ => s "col" end in
  let s0 := match sanitize reserved (lower base) with Some x => x | None => s "col" end in
  s0 ++ ["_"%char] ++ fn.

Definition fn_names : list str := map s ["sum"; "mean"; "min"; "max"; "count"; "stdev"]%string.
(* [aggs]: for each of sum, mean, min, max, count, stdev (in the order the code runs them)
   the names of the columns aggregated; [apply]: the names given in the apply dict *)
Definition agg_bases (keys : tnames) (aggs : list tnames) (apply : list str) : list str :=
  map key_base keys ++
  List.concat (map (fun p => map (agg_base (fst p)) (snd p)) (combine fn_names aggs)) ++
  apply.
Definition agg_names (keys : tnames) (aggs : list tnames) (apply : list str) : tnames :=
  t_of (map Some (uniquify_all [] (agg_bases keys aggs apply))).
Definition window_names := agg_names.

(* ---- all compositions: a small expression language --------------------------------- *)
Inductive vexpr :=
| VLit (n : vname)                              (* Vector([...], name=n) *)
| VBin (a b : vexpr)                            (* a + b, a - b, a * b ... *)
| VBinS (a : vexpr)                             (* a + 2, 2 + a, a * 2 ... *)
| VCmp (a b : vexpr)                            (* a < b, a == b ... *)
| VCmpS (a : vexpr)                             (* a < 2 ... *)
| VKeep (k : keepop) (a : vexpr)
| VCopyAs (n : vname) (a : vexpr)               (* a.copy(name=n) *)
| VDrop (a : vexpr)                             (* a.dropna() / a.isna() / a.unique() *)
| VCol (i : nat) (t : texpr)                    (* t.cols(i) — the live column *)
with texpr :=
| TLit (ns : tnames)                            (* Table({...}) *)
| TOfVecs (vs : list vexpr)                     (* Table([v1, v2, ...]) *)
| TAppendT (t u : texpr)                        (* t >> u *)
| TAppendV (t : texpr) (v : vexpr)              (* t >> v *)
| TAppendD (t : texpr) (keys : list str)        (* t >> {key: values, ...} *)
| TKeep (k : tkeepop) (t : texpr)
| TColSlice (a b : nat) (t : texpr)             (* t[:, a:b] *)
| TJoin (j : jkind) (no_match : bool) (t u : texpr)
| TScalar (t : texpr)                           (* t + 2 *)
| TRScalar (t : texpr)                          (* 2 * t, 2 - t *)
| TTable (t u : texpr)                          (* t + u *)
| TCmpS (t : texpr)                             (* t == 2 *)
| TAgg (window : bool) (keys : list nat) (aggs : list (list nat)) (apply : list str) (t : texpr).

Definition pick (ns : tnames) (idxs : list nat) : tnames := map (fun i => nth i ns None) idxs.

Fixpoint eval_v (e : vexpr) : vname :=
  match e with
  | VLit n => n
  | VBin a b => v_binop (eval_v a) (eval_v b)
  | VBinS a => v_binop_scalar (eval_v a)
  | VCmp a b => v_compare (eval_v a) (eval_v b)
  | VCmpS a => v_compare_scalar (eval_v a)
  | VKeep k a => v_keep k (eval_v a)
  | VCopyAs n a => v_copy_as n (eval_v a)
  | VDrop a => v_drop (eval_v a)
  | VCol i t => nth i (eval_t t) None
  end
with eval_t (e : texpr) : tnames :=
  match e with
  | TLit ns => t_of ns
  | TOfVecs vs => t_of (map eval_v vs)
  | TAppendT t u => t_append (eval_t t) (eval_t u)
  | TAppendV t v => t_append (eval_t t) [eval_v v]
  | TAppendD t keys => t_append (eval_t t) (map Some keys)
  | TKeep k t => t_keep k (eval_t t)
  | TColSlice a b t => t_colslice a b (eval_t t)
  | TJoin j nm t u => join_names j nm (eval_t t) (eval_t u)
  | TScalar t => t_scalar (eval_t t)
  | TRScalar t => t_rscalar rscalar_routed (eval_t t)
  | TTable t u => t_table (eval_t t) (eval_t u)
  | TCmpS t => t_compare_scalar (eval_t t)
  | TAgg w keys aggs apply t =>
      let ns := eval_t t in
      (if w then window_names else agg_names) (pick ns keys) (map (pick ns) aggs) apply
  end.

End WithReserved.
