(* Model/Join.v — executable model of serif/table.py: _validate_join_keys, inner_join,
   join (left join) and full_join, branch by branch in the order of the Python code.
   No proofs here: the model must still run when a proof breaks.

   What is modelled: the expect check, key normalisation and validation, the right-side
   hash index (a Python dict: an insertion-ordered association list looked up with ==),
   the duplicate bookkeeping, the probe loop with left_keys_seen, the matched set and the
   sweep of the full join, the column-major result buffers, the empty-result branches and
   the wrapping under the source names.  Each of the three functions is written out
   separately, with its own expect tuples, as in the Python.

   What is a parameter: the values themselves.  [V] is any type of non-None Python values
   and [veq] is Python's == on them (1 == True; hash agrees with ==, DESIGN.md section 3).

   One presentational change: the Python loops append cells to the column buffers while
   they probe; here the probe loops return the list of emitted (left row, right row)
   pairs and [materialize] replays that list into the buffers.  The buffers are local
   lists read only after the loops, and a raise discards them, so the two are the same. *)
From Coq Require Import List Bool Arith String.
From Serif Require Import Base.PyVal Spec.Join.
Import ListNotations.

Section JoinModel.
Variable V : Type.
Variable veq : V -> V -> bool.

Notation cell := (cell V).
Notation column := (column V).
Notation table := (table V).
Notation out_table := (out_table V).

(* ---------------------------------------------------------------- keys *)

(* == on elements: None == None, None != anything else *)
Definition ceq (a b : cell) : bool :=
  match a, b with
  | None, None => true
  | Some x, Some y => veq x y
  | _, _ => false
  end.

(* key = tuple(col[row_idx] for col in key_cols); tuple == is length + elementwise == *)
Definition key := list cell.
Fixpoint keq (a b : key) : bool :=
  match a, b with
  | [], [] => true
  | x :: a', y :: b' => ceq x y && keq a' b'
  | _, _ => false
  end.
Definition key_at (kcols : list column) (i : nat) : key :=
  map (fun c => cell_at c i) kcols.

(* ---------------------------------------------------------------- _validate_join_keys *)

Inductive kspec :=
| ByName (s : string)                     (* a column name *)
| ByVec (c : column).                     (* a Vector handed in by the caller *)

Definition name_is (s : string) (c : column) : bool :=
  match cname c with Some s' => String.eqb s' s | None => false end.

(* get_column: table[name] takes the first column with exactly that name (the sanitised
   fallback of Table.__getitem__ is C17's subject), a Vector is used as it is *)
Definition get_column (t : table) (s : kspec) : result column :=
  match s with
  | ByName nm => match find (name_is nm) t with Some c => Ok c | None => Err EKey end
  | ByVec c => Ok c
  end.

(* validate_key_dtype *)
Definition key_dtype_ok (c : column) : bool :=
  match ckind c with
  | None => true                           (* untyped: nothing to check statically *)
  | Some KFloat => false
  | Some (KInt | KStr | KBool | KDate | KDateTime | KObject) => true
  | Some _ => false
  end.

Definition kinds_agree (a b : column) : bool :=
  match ckind a, ckind b with
  | Some ka, Some kb => kind_eqb ka kb
  | _, _ => true
  end.

Fixpoint validate_pairs (L R : table) (lon ron : list kspec) : result (list (column * column)) :=
  match lon, ron with
  | ls :: lon', rs :: ron' =>
      match get_column L ls with Err e => Err e | Ok lc =>
      match get_column R rs with Err e => Err e | Ok rc =>
      if negb (List.length (cvals lc) =? nrows L) then Err EValue
      else if negb (List.length (cvals rc) =? nrows R) then Err EValue
      else if negb (key_dtype_ok lc) then Err EType
      else if negb (key_dtype_ok rc) then Err EType
      else if negb (kinds_agree lc rc) then Err EType
      else match validate_pairs L R lon' ron' with
           | Err e => Err e
           | Ok ps => Ok ((lc, rc) :: ps)
           end
      end end
  | _, _ => Ok []                          (* zip stops at the shorter list; lengths were compared before *)
  end.

(* left_on / right_on arrive here already as lists (a single str / Vector is wrapped) *)
Definition validate_join_keys (L R : table) (lon ron : list kspec)
  : result (list (column * column)) :=
  match lon, ron with
  | [], _ | _, [] => Err EValue            (* "Must specify at least 1 join key" *)
  | _, _ =>
      if negb (List.length lon =? List.length ron) then Err EValue
      else validate_pairs L R lon ron
  end.

(* ---------------------------------------------------------------- the dict right_index *)

Definition dict := list (key * list nat).    (* insertion-ordered; keys pairwise != *)

(* right_index.get(key) *)
Fixpoint dict_get (d : dict) (k : key) : option (list nat) :=
  match d with
  | [] => None
  | (k', b) :: r => if keq k k' then Some b else dict_get r k
  end.

(* bucket is None: right_index[key] = [i]   (new entry goes last)
   otherwise     : bucket.append(i)         (entry stays where it is) *)
Fixpoint dict_add (d : dict) (k : key) (i : nat) : dict :=
  match d with
  | [] => [(k, [i])]
  | (k', b) :: r => if keq k k' then (k', b ++ [i]) :: r else (k', b) :: dict_add r k i
  end.

(* the dict [duplicates]: only its key set matters (values alias the buckets and are
   used in the message only) *)
Definition kmem (s : list key) (k : key) : bool := existsb (fun k' => keq k k') s.
Definition dups_assign (dups : list key) (k : key) : list key :=     (* duplicates[key] = bucket *)
  if kmem dups k then dups else dups ++ [k].

(* inner_join and full_join:  if check_right_unique: duplicates[key] = bucket
   join                    :  if check_right_unique and key not in duplicates: duplicates[key] = bucket *)
Inductive dups_style := AssignAlways | AssignIfAbsent.
Definition dups_update (st : dups_style) (dups : list key) (k : key) : list key :=
  match st with
  | AssignAlways => dups_assign dups k
  | AssignIfAbsent => if negb (kmem dups k) then dups_assign dups k else dups
  end.

(* for row_idx in range(right_nrows): ... *)
Fixpoint build_loop (st : dups_style) (chk : bool) (rk : nat -> key) (js : list nat)
                    (idx : dict) (dups : list key) : dict * list key :=
  match js with
  | [] => (idx, dups)
  | j :: rest =>
      let k := rk j in
      match dict_get idx k with
      | None => build_loop st chk rk rest (dict_add idx k j) dups
      | Some _ =>
          build_loop st chk rk rest (dict_add idx k j)
                     (if chk then dups_update st dups k else dups)
      end
  end.

Definition build_index (st : dups_style) (chk : bool) (rk : nat -> key) (m : nat) :=
  build_loop st chk rk (seq 0 m) [] [].

Definition nonempty {A} (l : list A) : bool := match l with [] => false | _ => true end.

(* ---------------------------------------------------------------- probe loops *)

(* inner_join:
     for left_idx in range(left_nrows):
         if check_left_unique: if key in left_keys_seen: raise ...; left_keys_seen.add(key)
         matches = right_index_get(key)
         if not matches: continue
         for right_idx in matches: emit (left_idx, right_idx) *)
Fixpoint inner_probe (idx : dict) (chk : bool) (lk : nat -> key) (is : list nat)
                     (seen : list key) (out : list rowpair) : result (list rowpair) :=
  match is with
  | [] => Ok out
  | i :: rest =>
      let k := lk i in
      if chk && kmem seen k then Err EValue
      else
        let seen' := if chk then k :: seen else seen in
        match dict_get idx k with
        | Some (j :: js) => inner_probe idx chk lk rest seen' (out ++ pair_with i (j :: js))
        | _ => inner_probe idx chk lk rest seen' out
        end
  end.

(* join:  if matches: emit every (left_idx, right_idx)  else: emit left row + None padding *)
Fixpoint left_probe (idx : dict) (chk : bool) (lk : nat -> key) (is : list nat)
                    (seen : list key) (out : list rowpair) : result (list rowpair) :=
  match is with
  | [] => Ok out
  | i :: rest =>
      let k := lk i in
      if chk && kmem seen k then Err EValue
      else
        let seen' := if chk then k :: seen else seen in
        match dict_get idx k with
        | Some (j :: js) => left_probe idx chk lk rest seen' (out ++ pair_with i (j :: js))
        | _ => left_probe idx chk lk rest seen' (out ++ [(Some i, None)])
        end
  end.

(* full_join: as join, and matched_right_add(right_idx) for every emitted pair *)
Fixpoint full_probe (idx : dict) (chk : bool) (lk : nat -> key) (is : list nat)
                    (seen : list key) (matched : list nat) (out : list rowpair)
  : result (list nat * list rowpair) :=
  match is with
  | [] => Ok (matched, out)
  | i :: rest =>
      let k := lk i in
      if chk && kmem seen k then Err EValue
      else
        let seen' := if chk then k :: seen else seen in
        match dict_get idx k with
        | Some (j :: js) =>
            full_probe idx chk lk rest seen' (rev (j :: js) ++ matched) (out ++ pair_with i (j :: js))
        | _ => full_probe idx chk lk rest seen' matched (out ++ [(Some i, None)])
        end
  end.

(* for right_idx in range(right_nrows): if right_idx not in matched_right_rows: emit (None, right_idx) *)
Definition nmem (s : list nat) (j : nat) : bool := existsb (Nat.eqb j) s.
Definition sweep (matched : list nat) (m : nat) : list rowpair :=
  map (fun j => (None, Some j)) (filter (fun j => negb (nmem matched j)) (seq 0 m)).

(* ---------------------------------------------------------------- the three row computations *)

Open Scope string_scope.
Definition str_in (e : string) (l : list string) : bool := existsb (String.eqb e) l.

(* inner_join, from "right_index = {}" to the end of the probe loop *)
Definition inner_rows (e : string) (n m : nat) (lk rk : nat -> key) : result (list rowpair) :=
  let check_right_unique := str_in e ["one_to_one"; "many_to_one"] in
  let '(idx, dups) := build_index AssignAlways check_right_unique rk m in
  if check_right_unique && nonempty dups then Err EValue
  else
    let check_left_unique := str_in e ["one_to_one"; "one_to_many"] in
    inner_probe idx check_left_unique lk (seq 0 n) [] [].

(* join *)
Definition left_rows (e : string) (n m : nat) (lk rk : nat -> key) : result (list rowpair) :=
  let check_right_unique := str_in e ["one_to_one"; "many_to_one"] in
  let '(idx, dups) := build_index AssignIfAbsent check_right_unique rk m in
  if check_right_unique && nonempty dups then Err EValue
  else
    let check_left_unique := str_in e ["one_to_one"; "one_to_many"] in
    left_probe idx check_left_unique lk (seq 0 n) [] [].

(* full_join *)
Definition full_rows (e : string) (n m : nat) (lk rk : nat -> key) : result (list rowpair) :=
  let check_right_unique := str_in e ["one_to_one"; "many_to_one"] in
  let '(idx, dups) := build_index AssignAlways check_right_unique rk m in
  if check_right_unique && nonempty dups then Err EValue
  else
    let check_left_unique := str_in e ["one_to_one"; "one_to_many"] in
    match full_probe idx check_left_unique lk (seq 0 n) [] [] [] with
    | Err x => Err x
    | Ok (matched, out) => Ok (out ++ sweep matched m)%list
    end.

Definition expect_ok (e : string) : bool :=
  str_in e ["one_to_one"; "many_to_one"; "one_to_many"; "many_to_many"].
Close Scope string_scope.

(* ---------------------------------------------------------------- result buffers *)

(* append_cols[c](x) for every column c, one cell each *)
Definition append_cells (bufs : list (list cell)) (cells : list cell) : list (list cell) :=
  map (fun bc => fst bc ++ [snd bc]) (combine bufs cells).

(* the cells one emitted row appends: left columns first, then right columns;
   a missing side appends None once per column of that side *)
Definition emit_cells (L R : table) (p : rowpair) : list cell :=
  (match fst p with
   | Some i => map (fun c => cell_at c i) L
   | None => repeat None (List.length L)
   end) ++
  (match snd p with
   | Some j => map (fun c => cell_at c j) R
   | None => repeat None (List.length R)
   end).

(* result_data = [[] for _ in range(n_left_cols + n_right_cols)], then the emitted rows *)
Definition materialize (L R : table) (ps : list rowpair) : list (list cell) :=
  fold_left (fun bufs p => append_cells bufs (emit_cells L R p)) ps
            (repeat [] (List.length L + List.length R)).

(* Vector(result_data[c], name=orig_col._name) for the left, then the right columns; Table(...) *)
Definition wrap (L R : table) (bufs : list (list cell)) : out_table :=
  combine (map cname L ++ map cname R) bufs.

Definition all_empty (bufs : list (list cell)) : bool :=
  forallb (fun b => List.length b =? 0) bufs.

(* ---------------------------------------------------------------- the three functions *)

Definition keys_l (pairs : list (column * column)) := key_at (map fst pairs).
Definition keys_r (pairs : list (column * column)) := key_at (map snd pairs).

Definition inner_join (e : string) (L R : table) (lon ron : list kspec) : result out_table :=
  if negb (expect_ok e) then Err EValue
  else match validate_join_keys L R lon ron with
  | Err x => Err x
  | Ok pairs =>
      match inner_rows e (nrows L) (nrows R) (keys_l pairs) (keys_r pairs) with
      | Err x => Err x
      | Ok ps =>
          let bufs := materialize L R ps in
          if all_empty bufs then Ok []           (* all(len(col) == 0 ...): return Table(()) *)
          else Ok (wrap L R bufs)
      end
  end.

Definition left_join (e : string) (L R : table) (lon ron : list kspec) : result out_table :=
  if negb (expect_ok e) then Err EValue
  else match validate_join_keys L R lon ron with
  | Err x => Err x
  | Ok pairs =>
      match left_rows e (nrows L) (nrows R) (keys_l pairs) (keys_r pairs) with
      | Err x => Err x
      | Ok ps =>
          let bufs := materialize L R ps in
          if nrows L =? 0 then Ok []             (* left_nrows == 0: return Table(()) *)
          else Ok (wrap L R bufs)
      end
  end.

Definition full_join (e : string) (L R : table) (lon ron : list kspec) : result out_table :=
  if negb (expect_ok e) then Err EValue
  else match validate_join_keys L R lon ron with
  | Err x => Err x
  | Ok pairs =>
      match full_rows e (nrows L) (nrows R) (keys_l pairs) (keys_r pairs) with
      | Err x => Err x
      | Ok ps =>
          let bufs := materialize L R ps in
          if (nrows L =? 0) && (nrows R =? 0) then Ok []
          else Ok (wrap L R bufs)
      end
  end.

End JoinModel.
