(* Model/NoneOps.v — executable model of the None-handling code of serif/vector.py (C06):
     _elementwise_compare (generic) and _Date._elementwise_compare,
     the reductions max / min / sum / all / any / mean / stdev, __len__,
     isna / dropna / fillna (with _promote and typing.validate_scalar).
   The arithmetic paths (None guards of _elementwise_operation, _unary_operation) are in
   Model/Elementwise.v.  Branch by branch in the order of the Python code; no proofs here.

   Scalar semantics are parameters: [cmp] is bool(op(x, y)) as Python computes it, the
   reductions of a None-free list are Python's own builtins. *)
From Coq Require Import List Bool Arith.
From Serif Require Import Base.PyVal Model.Dtype Model.Elementwise.
Import ListNotations.

Definition is_none {A} (x : option A) : bool := match x with None => true | Some _ => false end.

(* ---- comparisons --------------------------------------------------------------------- *)

Inductive coutcome :=
| COk (l : list bool) (d : dtype)      (* Vector(result_values, dtype=DataType(bool, nullable=False)) *)
| CErrLen                              (* ValueError("Length mismatch") *)
| CErrRaise.                           (* the scalar comparison raised (e.g. int < str) *)

Section Compare.
  Variable val : Type.
  Notation elem := (option val).

  (* False if (x is None or y is None) else bool(op(x, y)) *)
  Definition cmp_elem (c : val -> val -> sres bool) (x y : elem) : sres bool :=
    match x, y with
    | Some a, Some b => c a b
    | _, _ => SOk false
    end.

  Definition bool_dtype : dtype := mkD KBool false.       (* DataType(bool) *)

  (* the zipped branches: length check, zip(strict=True), tuple(generator) *)
  Definition compare_zipped (c : val -> val -> sres bool) (xs ys : list elem) : coutcome :=
    if negb (length xs =? length ys) then CErrLen
    else match zip_strict xs ys with
         | None => CErrRaise
         | Some ps => match traverse (map (fun p => cmp_elem c (fst p) (snd p)) ps) with
                      | SOk l => COk l bool_dtype
                      | _ => CErrRaise
                      end
         end.

  (* False if x is None else bool(op(x, other)) *)
  Definition compare_scalar (c : val -> val -> sres bool) (xs : list elem) (s : val) : coutcome :=
    match traverse (map (fun x => cmp_elem c x (Some s)) xs) with
    | SOk l => COk l bool_dtype
    | _ => CErrRaise
    end.

  (* Vector._elementwise_compare, one-dimensional operands (vector.py:807-848).  A scalar
     operand is any Python object that is not an Iterable (or is a str/bytes); None too. *)
  Definition elementwise_compare (c : val -> val -> sres bool) (xs : list elem)
                                 (other : operand val) : coutcome :=
    match other with
    | OVec ys => compare_zipped c xs ys
    | OSeq ys => compare_zipped c xs ys
    | OScalar s => compare_scalar c xs s
    end.

  (* the right operand as _Date._elementwise_compare classifies it (vector.py:1726-1748) *)
  Inductive date_coperand :=
  | DCVec (schema_kind : option kind) (ys : list elem)   (* a Vector and the kind of its schema *)
  | DCSeq (ys : list elem)                               (* list / tuple *)
  | DCStr (s : val)                                      (* an ISO string *)
  | DCDatetime (s : val)                                 (* a datetime *)
  | DCScalar (s : val).                                  (* anything else *)

  Variable cmp : val -> val -> sres bool.        (* bool(op(x, y)) *)
  Variable cmp_iso : val -> val -> sres bool.    (* bool(op(x, date.fromisoformat(y))) *)
  Variable cmp_dt : val -> val -> sres bool.     (* bool(op(datetime.combine(x, midnight), y)) *)

  Definition date_compare (xs : list elem) (other : date_coperand) : coutcome :=
    match other with
    | DCVec k ys =>
        if negb (length xs =? length ys) then CErrLen
        else match k with
             | Some KStr => compare_zipped cmp_iso xs ys
             | Some KDateTime => compare_zipped cmp_dt xs ys
             | _ => elementwise_compare cmp xs (OVec ys)      (* finally: super() *)
             end
    | DCSeq ys => compare_zipped cmp xs ys
    | DCStr s => compare_scalar cmp_iso xs s
    | DCDatetime s => compare_scalar cmp_dt xs s
    | DCScalar s => elementwise_compare cmp xs (OScalar s)
    end.
End Compare.

Arguments cmp_elem {val} c x y.
Arguments compare_zipped {val} c xs ys.
Arguments compare_scalar {val} c xs s.
Arguments elementwise_compare {val} c xs other.
Arguments DCVec {val} schema_kind ys.
Arguments DCSeq {val} ys.
Arguments DCStr {val} s.
Arguments DCDatetime {val} s.
Arguments DCScalar {val} s.
Arguments date_compare {val} cmp cmp_iso cmp_dt xs other.

(* ---- reductions ---------------------------------------------------------------------- *)

Inductive rres (val : Type) :=
| RVal (v : val)       (* a Python value *)
| RNone                (* None *)
| RBool (b : bool)     (* True / False of any() / all() *)
| RErr.                (* raised *)
Arguments RVal {val} v.
Arguments RNone {val}.
Arguments RBool {val} b.
Arguments RErr {val}.

Section Reduce.
  Variable val : Type.
  Notation elem := (option val).

  Variable add : val -> val -> sres val.           (* Python's a + b *)
  Variable zero : val.                             (* the int 0 that sum() starts from *)
  Variable truthy : val -> bool.                   (* bool(v) *)
  Variable py_max py_min : list val -> sres val.   (* max(l), min(l) of a non-empty None-free list *)
  Variable py_mean : list val -> sres val.         (* sum(l) / len(l) *)
  Variable py_stdev : bool -> list val -> sres val.
      (* (sum((x-m)*(x-m) for x in l) / (len(l) - 1 + population)) ** 0.5 *)

  Definition of_sres (r : sres val) : rres val :=
    match r with SOk v => RVal v | _ => RErr end.

  (* non_none = [v for v in self._underlying if v is not None] *)
  Fixpoint non_none (xs : list elem) : list val :=
    match xs with
    | [] => []
    | None :: t => non_none t
    | Some v :: t => v :: non_none t
    end.

  Definition vmax (xs : list elem) : rres val :=
    match non_none xs with [] => RNone | nn => of_sres (py_max nn) end.
  Definition vmin (xs : list elem) : rres val :=
    match non_none xs with [] => RNone | nn => of_sres (py_min nn) end.

  (* sum(v for v in self._underlying if v is not None): the builtin's accumulator loop over a
     filtering generator *)
  Fixpoint sum_loop (acc : val) (xs : list elem) : sres val :=
    match xs with
    | [] => SOk acc
    | None :: t => sum_loop acc t
    | Some v :: t => match add acc v with SOk a => sum_loop a t | e => e end
    end.
  Definition vsum (xs : list elem) : rres val := of_sres (sum_loop zero xs).

  (* all(v for v in ... if v is not None) / any(...): short-circuit loops *)
  Fixpoint all_loop (xs : list elem) : bool :=
    match xs with
    | [] => true
    | None :: t => all_loop t
    | Some v :: t => if truthy v then all_loop t else false
    end.
  Fixpoint any_loop (xs : list elem) : bool :=
    match xs with
    | [] => false
    | None :: t => any_loop t
    | Some v :: t => if truthy v then true else any_loop t
    end.
  Definition vall (xs : list elem) : rres val := RBool (all_loop xs).
  Definition vany (xs : list elem) : rres val := RBool (any_loop xs).

  Definition vmean (xs : list elem) : rres val :=
    match non_none xs with [] => RNone | nn => of_sres (py_mean nn) end.

  Definition vstdev (population : bool) (xs : list elem) : rres val :=
    let nn := non_none xs in
    if length nn <? 2 then RNone else of_sres (py_stdev population nn).

  (* len(v): the length of the underlying tuple *)
  Definition vlen (xs : list elem) : nat := length xs.

  Inductive reduction := RMax | RMin | RSum | RAll | RAny | RMean | RStdev (population : bool).
  Definition reduce (r : reduction) (xs : list elem) : rres val :=
    match r with
    | RMax => vmax xs | RMin => vmin xs | RSum => vsum xs | RAll => vall xs | RAny => vany xs
    | RMean => vmean xs | RStdev p => vstdev p xs
    end.
End Reduce.

Arguments of_sres {val} r.
Arguments non_none {val} xs.
Arguments vmax {val} py_max xs.
Arguments vmin {val} py_min xs.
Arguments sum_loop {val} add acc xs.
Arguments vsum {val} add zero xs.
Arguments all_loop {val} truthy xs.
Arguments any_loop {val} truthy xs.
Arguments vall {val} truthy xs.
Arguments vany {val} truthy xs.
Arguments vmean {val} py_mean xs.
Arguments vstdev {val} py_stdev population xs.
Arguments vlen {val} xs.
Arguments reduce {val} add zero truthy py_max py_min py_mean py_stdev r xs.

(* ---- isna / dropna / fillna ---------------------------------------------------------- *)

Inductive fres (val : Type) :=
| FOk (l : list (option val)) (d : option dtype)   (* a new vector with these values and this schema *)
| FErr.                                            (* ValueError("fillna: ... Promotion not supported") *)
Arguments FOk {val} l d.
Arguments FErr {val}.

Section NA.
  Variable val : Type.
  Notation elem := (option val).
  Variable cls : val -> vinfo.                 (* the class of a value, as typing.py sees it *)
  Variable conv : kind -> val -> val.          (* int(x) / float(x) / complex(x) / datetime.combine(x, midnight) *)

  (* Vector(tuple(elem is None ...), dtype=DataType(bool)) *)
  Definition isna (xs : list elem) : list bool * dtype := (map is_none xs, mkD KBool false).

  (* dtype = self._dtype.with_nullable(False) if self._dtype is not None else None
     Vector(tuple(elem for elem in self._underlying if elem is not None), dtype=dtype) *)
  Definition dropna (dt : option dtype) (xs : list elem) : list elem * option dtype :=
    (filter (fun x => negb (is_none x)) xs,
     match dt with Some d => Some (mkD (dkind d) false) | None => None end).

  (* tuple(value if x is None else x for x in ...) *)
  Definition fill (value : elem) (xs : list elem) : list elem :=
    map (fun x => match x with None => value | Some _ => x end) xs.

  (* Vector._promote(target): which conversions exist (vector.py:1062-1109) *)
  Definition promotable (target self : kind) : bool :=
    match target, self with
    | KInt, KBool => true
    | KFloat, KInt | KFloat, KBool => true
    | KComplex, KInt | KComplex, KFloat | KComplex, KBool => true
    | KDateTime, KDate => true
    | _, _ => false
    end.

  Definition fillna_standard (value : elem) (xs : list elem) (dt : option dtype) : fres val :=
    let out := fill value xs in
    let new_nullable := existsb is_none out in
    FOk out (match dt with Some d => Some (mkD (dkind d) new_nullable) | None => None end).

  (* Vector.fillna (vector.py:405-452) *)
  Definition fillna (value : elem) (xs : list elem) (dt : option dtype) : fres val :=
    match dt, value with
    | Some d, Some v =>
        if validate_scalar (Some (cls v)) d then fillna_standard value xs dt
        else
          (* except TypeError: required_dtype = infer_dtype([value]); result._promote(kind) *)
          let tk := dkind (infer_dtype [Some (cls v)]) in
          if kind_eqb (dkind d) tk then                       (* _promote: already the target kind *)
            FOk (fill value xs) (Some (mkD tk false))
          else if promotable tk (dkind d) then
            FOk (fill value (map (option_map (conv tk)) xs)) (Some (mkD tk false))
          else FErr                                           (* SerifTypeError -> ValueError *)
    | _, _ => fillna_standard value xs dt
    end.
End NA.

Arguments isna {val} xs.
Arguments dropna {val} dt xs.
Arguments fill {val} value xs.
Arguments fillna_standard {val} value xs dt.
Arguments fillna {val} cls conv value xs dt.
