(* Model/Csv.v — executable model of serif/csv.py (_read_csv_from_file) from the point
   where csv.reader has delivered the record list (the lexical work — delimiters,
   quotes, embedded newlines — is the standard library's and is trusted).

   The conversion of one cell text (csv._infer_type: blank -> None, else int(), else
   float(), else the stripped text) is a Section parameter [conv]; its result is a
   [cval]: None, or a value identity together with what typing.py can see of it.
   No proofs here. *)
From Coq Require Import List Bool Arith.
From Serif Require Import Base.PyVal Model.Dtype.
Import ListNotations.

(* a cell of the resulting table: Python None, or (identity of the value, its class) *)
Definition cval := option (nat * vinfo).
Definition pyv_of (c : cval) : pyv :=
  match c with None => None | Some (_, vi) => Some vi end.

Definition cval_eqb (a b : cval) : bool :=
  match a, b with
  | None, None => true
  | Some (i, vi), Some (j, vj) =>
      Nat.eqb i j && kind_eqb (base vi) (base vj) && Bool.eqb (exact vi) (exact vj)
  | _, _ => false
  end.

(* a column name: a header cell taken verbatim, or the generated f"col_{i}" *)
Inductive colname (T : Type) :=
| NText (t : T)
| NGen (i : nat).
Arguments NText {T} t.
Arguments NGen {T} i.

(* a Vector as read_csv builds it: name, data, schema (None = untyped empty vector) *)
Record column (T : Type) := mkCol {
  cname : colname T;
  cdata : list cval;
  cdtype : option dtype
}.
Arguments mkCol {T} _ _ _.
Arguments cname {T} _.
Arguments cdata {T} _.
Arguments cdtype {T} _.

(* a Python call either returns or raises *)
Inductive outcome (A : Type) := Done (a : A) | Raised.
Arguments Done {A} a.
Arguments Raised {A}.

Section Csv.
Variable T : Type.                 (* cell texts as csv.reader delivers them *)
Variable conv : T -> cval.         (* csv._infer_type, evaluated by Python *)

Definition table := list (column T).

(* vector.py: Vector(data, name=name) — `if dtype is None and initial: dtype = infer_dtype(initial)` *)
Definition vector_of (name : colname T) (data : list cval) : column T :=
  mkCol name data
        (match data with
         | [] => None
         | _ :: _ => Some (infer_dtype (map pyv_of data))
         end).

(* table.py: Table(columns) — `_length = len(initial[0]) if initial else 0`, refuses
   columns of unequal length (SerifValueError), keeps names, data and dtypes (copies) *)
Definition table_of (cols : list (column T)) : outcome table :=
  match cols with
  | [] => Done []
  | c :: _ =>
      if forallb (fun c' => Nat.eqb (List.length (cdata c')) (List.length (cdata c))) cols
      then Done cols else Raised
  end.

(* csv.py:79-84 — `if col_idx < len(row): _infer_type(row[col_idx]) else: None` *)
Definition cell_at (row : list T) (j : nat) : cval :=
  match nth_error row j with
  | Some t => conv t
  | None => None
  end.

(* csv.py:45-87 *)
Definition read_records (has_header : bool) (all_rows : list (list T)) : outcome table :=
  match all_rows with
  | [] => table_of []                                             (* `if not all_rows: return Table()` *)
  | first :: rest =>
      let header := if has_header then map NText first
                    else map NGen (seq 0 (List.length first)) in (* f"col_{i}" for i in range(len(all_rows[0])) *)
      let rows := if has_header then rest else all_rows in
      match rows with
      | [] => table_of (map (fun h => vector_of h []) header)      (* header only, no data *)
      | _ :: _ =>
          (* for col_idx in range(num_cols): ... Vector(column_data, name=header[col_idx]) *)
          table_of (map (fun jh => vector_of (snd jh) (map (fun r => cell_at r (fst jh)) rows))
                        (combine (seq 0 (List.length header)) header))
      end
  end.

(* what the result's public interface reports *)
Definition ncols (t : table) : nat := List.length t.
Definition nrows (t : table) : nat :=                      (* Table.__len__ -> _length *)
  match t with [] => 0 | c :: _ => List.length (cdata c) end.
Definition names (t : table) : list (colname T) := map cname t.
(* the cell in row i of column j, when there is one *)
Definition cell (t : table) (i j : nat) : option cval :=
  match nth_error t j with
  | Some c => nth_error (cdata c) i
  | None => None
  end.

End Csv.

Arguments vector_of {T} _ _.
Arguments table_of {T} _.
Arguments cell_at {T} _ _ _.
Arguments read_records {T} _ _ _.
Arguments ncols {T} _.
Arguments nrows {T} _.
Arguments names {T} _.
Arguments cell {T} _ _ _.
