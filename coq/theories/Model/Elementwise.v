(* Model/Elementwise.v — executable model of serif's elementwise machinery (C05, C06):
     vector.py  _reverse_* helpers, the arithmetic dunder table, _elementwise_operation,
                __radd__ (own body), _unary_operation,
                MethodProxy.__call__, Vector.__getattr__, the explicit _String/_Date
                wrappers, _Date.__add__
     table.py   _table_elementwise_operation
   written branch by branch in the order of the Python code.  No proofs here.

   Scalar semantics are NOT modelled (DESIGN.md §3): what Python computes for two scalars
   is the Section variable [scal]; its answer is a value, a TypeError (the one exception
   class the code treats specially) or any other exception. *)
From Coq Require Import List Bool Arith ZArith.
From Serif Require Import Base.PyVal.
Import ListNotations.

(* what a Python scalar operation does *)
Inductive sres (A : Type) :=
| SOk (a : A)        (* returns a *)
| STypeErr           (* raises TypeError *)
| SRaise.            (* raises something else (ZeroDivisionError, OverflowError, ValueError ...) *)
Arguments SOk {A} a.
Arguments STypeErr {A}.
Arguments SRaise {A}.

Definition sres_map {A B} (f : A -> B) (r : sres A) : sres B :=
  match r with SOk a => SOk (f a) | STypeErr => STypeErr | SRaise => SRaise end.

(* tuple(<generator>): elements are produced left to right, the first exception ends it *)
Fixpoint traverse {A} (l : list (sres A)) : sres (list A) :=
  match l with
  | [] => SOk []
  | SOk a :: t => sres_map (cons a) (traverse t)
  | STypeErr :: _ => STypeErr
  | SRaise :: _ => SRaise
  end.

(* zip(a, b, strict=True): Some pairs, or None = ValueError (lengths differ) *)
Fixpoint zip_strict {A B} (xs : list A) (ys : list B) : option (list (A * B)) :=
  match xs, ys with
  | [], [] => Some []
  | x :: xt, y :: yt => option_map (cons (x, y)) (zip_strict xt yt)
  | _, _ => None
  end.

(* the seven binary arithmetic operators *)
Inductive bop := Add | Sub | Mul | TrueDiv | FloorDiv | Mod | Pow.
(* the fourteen binary dunders of Vector: __add__ ... / __radd__ ... *)
Inductive dunder := Plain (o : bop) | Refl (o : bop).

Definition bop_eqb (a b : bop) : bool :=
  match a, b with
  | Add, Add | Sub, Sub | Mul, Mul | TrueDiv, TrueDiv | FloorDiv, FloorDiv | Mod, Mod | Pow, Pow => true
  | _, _ => false
  end.
Definition dunder_eqb (a b : dunder) : bool :=
  match a, b with
  | Plain x, Plain y | Refl x, Refl y => bop_eqb x y
  | _, _ => false
  end.

(* the function object a dunder hands to _elementwise_operation as op_func *)
Inductive opfunc :=
| Operator (o : bop)      (* operator.add, operator.sub, ... *)
| Reverse (o : bop).      (* _reverse_mul, _reverse_sub, _reverse_truediv, ... (vector.py:35-51) *)

(* how a dunder is implemented *)
Inductive route :=
| ViaElementwise (g : opfunc)   (* return self._elementwise_operation(other, g, ...) *)
| OwnRadd.                      (* __radd__ has its own body (vector.py:1003-1041) *)

(* THE DISPATCH TABLE, as data: one row per dunder of vector.py:962-1059 *)
Definition dispatch_table : list (dunder * route) :=
  [ (Plain Add,      ViaElementwise (Operator Add));
    (Plain Mul,      ViaElementwise (Operator Mul));
    (Plain Sub,      ViaElementwise (Operator Sub));
    (Plain TrueDiv,  ViaElementwise (Operator TrueDiv));
    (Plain FloorDiv, ViaElementwise (Operator FloorDiv));
    (Plain Mod,      ViaElementwise (Operator Mod));
    (Plain Pow,      ViaElementwise (Operator Pow));
    (Refl Add,       OwnRadd);
    (Refl Mul,       ViaElementwise (Reverse Mul));
    (Refl Sub,       ViaElementwise (Reverse Sub));
    (Refl TrueDiv,   ViaElementwise (Reverse TrueDiv));
    (Refl FloorDiv,  ViaElementwise (Reverse FloorDiv));
    (Refl Mod,       ViaElementwise (Reverse Mod));
    (Refl Pow,       ViaElementwise (Reverse Pow)) ].

Fixpoint lookup_route (t : list (dunder * route)) (d : dunder) : option route :=
  match t with
  | [] => None
  | (d', r) :: t' => if dunder_eqb d d' then Some r else lookup_route t' d
  end.

(* the right-hand operand of a vector operation, as the isinstance chain classifies it *)
Inductive operand (val : Type) :=
| OVec (ys : list (option val))       (* isinstance(other, Vector), one-dimensional *)
| OSeq (ys : list (option val))       (* Iterable, not str/bytes/bytearray: list, tuple, range *)
| OScalar (s : val).                  (* anything else *)
Arguments OVec {val} ys.
Arguments OSeq {val} ys.
Arguments OScalar {val} s.

(* what a vector operation does *)
Inductive outcome (val : Type) :=
| Ok (l : list (option val))                  (* a new vector holding l *)
| OkPairs (l : list (option val * option val))(* the TypeError fallback: an object vector of (x, y) tuples *)
| ErrLen                                      (* ValueError("Length mismatch") *)
| ErrType                                     (* SerifTypeError (scalar operand, scalar op raised TypeError) *)
| ErrRaise.                                   (* another exception leaves the call *)
Arguments Ok {val} l.
Arguments OkPairs {val} l.
Arguments ErrLen {val}.
Arguments ErrType {val}.
Arguments ErrRaise {val}.

Section Elementwise.
  Variable val : Type.
  Notation elem := (option val).

  (* Python's own  x <o> y  on two non-None scalars *)
  Variable scal : bop -> val -> val -> sres val.

  (* None if (x is None or y is None) else f(x, y) *)
  Definition lift2 (f : val -> val -> sres val) (x y : elem) : sres elem :=
    match x, y with
    | Some a, Some b => sres_map Some (f a b)
    | _, _ => SOk None
    end.
  (* None if x is None else f(x)      (f may itself return None, e.g. datetime.tzinfo) *)
  Definition lift1 (f : val -> sres elem) (x : elem) : sres elem :=
    match x with Some a => f a | None => SOk None end.

  (* op_func(x, y):  operator.sub(x, y) = x - y;   def _reverse_sub(y, x): return x - y *)
  Definition apply_opfunc (g : opfunc) (x y : val) : sres val :=
    match g with
    | Operator o => scal o x y
    | Reverse o => scal o y x
    end.

  (* the two identical sequence branches of _elementwise_operation (vector.py:910-939) *)
  Definition zipped_branch (f : val -> val -> sres val) (xs ys : list elem) : outcome val :=
    if negb (length xs =? length ys) then ErrLen            (* if len(self) != len(other): raise *)
    else match zip_strict xs ys with
         | None => ErrRaise                                  (* zip(..., strict=True) *)
         | Some ps =>
             match traverse (map (fun p => lift2 f (fst p) (snd p)) ps) with
             | SOk l => Ok l                                 (* Vector(result_values, infer_dtype(..)) *)
             | STypeErr => OkPairs ps                        (* except TypeError: tuple((x, y) ...) *)
             | SRaise => ErrRaise
             end
         end.

  (* Vector._elementwise_operation for one-dimensional self and other *)
  Definition elementwise_operation (f : val -> val -> sres val) (xs : list elem)
                                   (other : operand val) : outcome val :=
    match other with
    | OVec ys => zipped_branch f xs ys
    | OSeq ys => zipped_branch f xs ys
    | OScalar s =>
        match traverse (map (lift1 (fun x => sres_map Some (f x s))) xs) with
        | SOk l => Ok l
        | STypeErr => ErrType                                (* except TypeError: raise SerifTypeError *)
        | SRaise => ErrRaise
        end
    end.

  (* Vector.__radd__: other + self, its own loops; no TypeError handling *)
  Definition radd_zipped (xs ys : list elem) : outcome val :=
    if negb (length xs =? length ys) then ErrLen
    else match zip_strict ys xs with                         (* zip(other, self, strict=True) *)
         | None => ErrRaise
         | Some ps =>
             match traverse (map (fun p => lift2 (scal Add) (fst p) (snd p)) ps) with
             | SOk l => Ok l
             | _ => ErrRaise
             end
         end.
  Definition radd_body (xs : list elem) (other : operand val) : outcome val :=
    match other with
    | OVec ys => radd_zipped xs ys
    | OScalar s =>
        match traverse (map (lift1 (fun x => sres_map Some (scal Add s x))) xs) with
        | SOk l => Ok l
        | _ => ErrRaise
        end
    | OSeq ys => radd_zipped xs ys
    end.

  (* v.__X__(other) / v.__rX__(other) *)
  Definition vec_dunder (d : dunder) (xs : list elem) (other : operand val) : outcome val :=
    match lookup_route dispatch_table d with
    | Some (ViaElementwise g) => elementwise_operation (apply_opfunc g) xs other
    | Some OwnRadd => radd_body xs other
    | None => ErrRaise
    end.

  (* Vector._unary_operation(op_func): -v, +v, abs(v) *)
  Definition unary_operation (f : val -> sres elem) (xs : list elem) : outcome val :=
    match traverse (map (lift1 f) xs) with
    | SOk l => Ok l
    | _ => ErrRaise
    end.

  (* ---- attribute broadcasting ------------------------------------------------------ *)

  (* getattr(dtype_kind, name, None) as __getattr__ looks at it *)
  Inductive attr_class := AMissing | ACallable | ANonCallable.
  Inductive resolution := RExplicit | RProxy | RProperty | RAttributeError.

  (* v.<name>: an explicit wrapper on _String/_Date wins (ordinary lookup); otherwise
     Vector.__getattr__ (vector.py:1462-1496) *)
  Definition resolve (explicit : bool) (schema_kind : option kind) (a : attr_class) : resolution :=
    if explicit then RExplicit
    else match schema_kind with
         | None => RAttributeError                           (* untyped (empty) vector *)
         | Some KObject => RAttributeError                   (* Vector[object] *)
         | Some _ =>
             match a with
             | AMissing => RAttributeError
             | ACallable => RProxy                           (* MethodProxy(self, name) *)
             | ANonCallable => RProperty
             end
         end.

  (* MethodProxy.__call__ (with the call arguments): a loop appending None or getattr(elem, method)(args) *)
  Fixpoint proxy_loop (m : val -> sres elem) (xs : list elem) (results : list elem) : sres (list elem) :=
    match xs with
    | [] => SOk results
    | None :: t => proxy_loop m t (results ++ [None])
    | Some a :: t =>
        match m a with
        | SOk r => proxy_loop m t (results ++ [r])
        | STypeErr => STypeErr
        | SRaise => SRaise
        end
    end.
  Definition method_proxy_call (m : val -> sres elem) (xs : list elem) : outcome val :=
    match proxy_loop m xs [] with SOk l => Ok l | _ => ErrRaise end.

  (* Vector(tuple(getattr(x, name) if x is not None else None for x in self._underlying));
     the explicit wrappers have the same shape with s.name(args) *)
  Definition generator_broadcast (m : val -> sres elem) (xs : list elem) : outcome val :=
    match traverse (map (lift1 m) xs) with SOk l => Ok l | _ => ErrRaise end.

  Definition broadcast (r : resolution) (m : val -> sres elem) (xs : list elem) : outcome val :=
    match r with
    | RExplicit => generator_broadcast m xs
    | RProxy => method_proxy_call m xs
    | RProperty => generator_broadcast m xs
    | RAttributeError => ErrRaise
    end.

  (* ---- tables (table.py:926-997); a table is the list of its columns --------------- *)

  Inductive toutcome :=
  | TOk (cols : list (outcome val))     (* a new table; every entry is an Ok / OkPairs column *)
  | TErr.

  Definition is_value (o : outcome val) : bool :=
    match o with Ok _ | OkPairs _ => true | _ => false end.
  Definition out_length (o : outcome val) : nat :=
    match o with Ok l => length l | OkPairs l => length l | _ => 0 end.

  (* tuple(op_func(col, other) for col in cols) then Table(result_cols), which refuses
     columns of unequal length *)
  Definition build_table (outs : list (outcome val)) : toutcome :=
    if forallb is_value outs then
      match outs with
      | [] => TOk []
      | o :: t => if forallb (fun o' => out_length o' =? out_length o) t then TOk outs else TErr
      end
    else TErr.

  (* the right operand of table arithmetic *)
  Inductive toperand :=
  | TTable (cols : list (list elem))
  | TOther (other : operand val).      (* not isinstance(other, Table) *)

  Definition table_operation (o : bop) (cols : list (list elem)) (other : toperand) : toutcome :=
    match other with
    | TOther x => build_table (map (fun c => vec_dunder (Plain o) c x) cols)
    | TTable rcols =>
        if negb (length cols =? length rcols) then TErr       (* ValueError("Table width mismatch") *)
        else build_table (map (fun p => vec_dunder (Plain o) (fst p) (OVec (snd p))) (combine cols rcols))
    end.
End Elementwise.

Arguments lift2 {val} f x y.
Arguments lift1 {val} f x.
Arguments apply_opfunc {val} scal g x y.
Arguments zipped_branch {val} f xs ys.
Arguments elementwise_operation {val} f xs other.
Arguments radd_zipped {val} scal xs ys.
Arguments radd_body {val} scal xs other.
Arguments vec_dunder {val} scal d xs other.
Arguments unary_operation {val} f xs.
Arguments proxy_loop {val} m xs results.
Arguments method_proxy_call {val} m xs.
Arguments generator_broadcast {val} m xs.
Arguments broadcast {val} r m xs.
Arguments is_value {val} o.
Arguments out_length {val} o.
Arguments build_table {val} outs.
Arguments table_operation {val} scal o cols other.
Arguments TOk {val} cols.
Arguments TErr {val}.
Arguments TTable {val} cols.
Arguments TOther {val} other.

(* ---- _Date.__add__ (vector.py:1793-1805): dates as proleptic ordinals ---------------- *)

Definition max_ordinal : Z := 3652059.          (* date.max.toordinal() *)
(* date.fromordinal(n): ValueError outside 1 .. date.max *)
Definition fromordinal (n : Z) : sres Z :=
  if (1 <=? n)%Z && (n <=? max_ordinal)%Z then SOk n else SRaise.

Inductive date_operand :=
| DVec (schema_kind : option kind) (ys : list (option Z))   (* a Vector; its ints if the kind is int *)
| DInt (n : Z)                                              (* isinstance(other, int) — bool included *)
| DOther.                                                   (* anything else *)

Inductive date_outcome :=
| DOk (l : list (option Z))     (* a new vector of dates, as ordinals *)
| DErrLen
| DErrRaise
| DSuper.                       (* return super().__add__(other): the generic path *)

Definition add_days (s y : option Z) : sres (option Z) :=
  match s, y with
  | Some a, Some b => sres_map Some (fromordinal (a + b))
  | _, _ => SOk None
  end.

Definition date_add (xs : list (option Z)) (other : date_operand) : date_outcome :=
  match other with
  | DVec None _ => DSuper                        (* other.schema() is None (untyped, empty vector) *)
  | DVec (Some KInt) ys =>
      if negb (length xs =? length ys) then DErrLen
      else match zip_strict xs ys with
           | None => DErrRaise
           | Some ps => match traverse (map (fun p => add_days (fst p) (snd p)) ps) with
                        | SOk l => DOk l
                        | _ => DErrRaise
                        end
           end
  | DVec (Some _) _ => DSuper
  | DInt n =>
      match traverse (map (fun s => add_days s (Some n)) xs) with
      | SOk l => DOk l
      | _ => DErrRaise
      end
  | DOther => DSuper
  end.
