(* Model/Index.v — executable model of serif's read-side indexing (C07):
     vector.py   Vector.copy, Vector.__getitem__, Vector._elementwise_compare
     typeutils.py slice_length
     table.py    Table.__init__ (rectangularity), Table.__getitem__
   written branch by branch in the order of the Python code.  Python built-ins the code
   delegates to (tuple[i], tuple[slice], slice.indices, range) are taken from
   Spec/PySlice.v.  No proofs here. *)
From Coq Require Import List Bool Arith ZArith.
From Serif Require Import Base.PyVal Base.StErr Spec.PySlice.
Import ListNotations.

Section Index.
Variable A : Type.                      (* the elements: opaque to indexing *)

(* what indexing can see of a Vector: storage, dtype (None = untyped empty vector), name *)
Record vec := mkVec { vals : list A; vdt : option dtype; vname : option nat }.

(* Vector.copy(new_values=None, name=...):
     Vector(list(self._underlying if new_values is None else new_values), dtype=self._dtype, name=use_name)
   (the `is None` test is the point: an EMPTY selection is still a selection) *)
Definition copy_with (v : vec) (new_values : option (list A)) (name : option nat) : vec :=
  mkVec (match new_values with None => vals v | Some l => l end) (vdt v) name.

(* generator `x for x, y in zip(self, key, strict=True) if y` (lengths already checked equal) *)
Fixpoint mask_filter (l : list A) (m : list bool) : list A :=
  match l, m with
  | x :: l', y :: m' => if y then x :: mask_filter l' m' else mask_filter l' m'
  | _, _ => []
  end.

(* generator `self[x] for x in key` consumed by list(): the first bad index raises *)
Fixpoint index_each (l : list A) (idx : list Z) : res (list A) :=
  match idx with
  | [] => Ok []
  | i :: t => match py_index l i with
              | None => Err EOther                      (* IndexError from tuple[i] *)
              | Some x => match index_each l t with Err e => Err e | Ok r => Ok (x :: r) end
              end
  end.

Inductive gres := GElt (x : A) | GVec (v : vec).

(* len(self.shape): () for an empty vector, (n,) otherwise *)
Definition shape_len (v : vec) : nat := match vals v with [] => 0 | _ => 1 end.

Definition get_mask (v : vec) (m : list bool) : res gres :=
  if negb (Nat.eqb (length (vals v)) (length m)) then Err EOther       (* ValueError *)
  else Ok (GVec (copy_with v (Some (mask_filter (vals v) m)) (vname v))).

Definition get_idx (v : vec) (idx : list Z) : res gres :=
  match index_each (vals v) idx with
  | Err e => Err e
  | Ok r => Ok (GVec (copy_with v (Some r) (vname v)))
  end.

(* Vector.__getitem__ *)
Fixpoint getitem (v : vec) (k : key) : res gres :=
  match k with
  | IxInt i =>                                          (* isinstance(key, int) *)
      match py_index (vals v) i with Some x => Ok (GElt x) | None => Err EOther end
  | IxTup1 k' =>                                        (* isinstance(key, tuple) *)
      if negb (Nat.eqb 1 (shape_len v)) then Err EKey else getitem v k'
  | IxTupN t =>
      if negb (Nat.eqb t (shape_len v)) then Err EKey
      else Err EOther                                  (* key[-1] on the empty tuple *)
  | IxMaskV m => get_mask v m                           (* Vector of bool, non-nullable *)
  | IxList l =>
      if all_bool l then get_mask v (map lb_val l)     (* {type(e) for e in key} == {bool} *)
      else if all_int l then get_idx v (map li_val l)  (* ... == {int} (after the slice test) *)
      else Err EType
  | IxSlice a b s =>                                    (* self.copy(self._underlying[key]) *)
      if Z.eqb (step_of s) 0 then Err EOther           (* ValueError: slice step cannot be zero *)
      else match py_slice (vals v) a b s with
           | Some l => Ok (GVec (copy_with v (Some l) (vname v)))
           | None => Err EOther                        (* never happens: Proofs/Index.v *)
           end
  | IxIdxV l => get_idx v l                             (* Vector of int, non-nullable *)
  | IxUntypedV => Err EOther                            (* key.schema().kind on None: AttributeError *)
  | IxBad => Err EType
  end.

(* typeutils.slice_length: start, stop, step = s.indices(n);
   max(0, (stop - start + (step - (1 if step > 0 else -1))) // step) *)
Definition slice_length (a b s : option Z) (n : Z) : Z :=
  let '(start, stop, step) := adjust a b s n in
  Z.max 0 ((stop - start + (step - (if 0 <? step then 1 else -1))) / step)%Z.

(* ---- comparison operators: Vector._elementwise_compare (1-D operands) --------------- *)
Variable is_none : A -> bool.
Variable cmp : A -> A -> option bool.   (* bool(op(x, y)) as Python computes it; None = Python raises *)

Inductive operand :=
| OpVec (ys : list A)       (* Vector, or any other iterable that is not str/bytes *)
| OpScalar (y : A).

Fixpoint cmp_zip (xs ys : list A) : res (list bool) :=
  match xs, ys with
  | x :: xs', y :: ys' =>
      let r := if is_none x || is_none y then Some false else cmp x y in
      match r with
      | None => Err EOther
      | Some b => match cmp_zip xs' ys' with Err e => Err e | Ok t => Ok (b :: t) end
      end
  | _, _ => Ok []
  end.

Fixpoint cmp_scalar (xs : list A) (y : A) : res (list bool) :=
  match xs with
  | [] => Ok []
  | x :: xs' =>
      let r := if is_none x then Some false else cmp x y in
      match r with
      | None => Err EOther
      | Some b => match cmp_scalar xs' y with Err e => Err e | Ok t => Ok (b :: t) end
      end
  end.

(* result: the values of a Vector built with dtype=DataType(bool, nullable=False), no name *)
Definition compare (xs : list A) (o : operand) : res (list bool) :=
  match o with
  | OpVec ys => if negb (Nat.eqb (length xs) (length ys)) then Err EOther else cmp_zip xs ys
  | OpScalar y => cmp_scalar xs y
  end.

(* ---- tables ---------------------------------------------------------------------------- *)

Record table := mkTab { cols : list vec }.

(* Table.__len__ / _length: the length of the first column *)
Definition nrows (t : table) : nat := match cols t with [] => 0 | c :: _ => length (vals c) end.
Definition same_len (cs : list vec) : bool :=
  match cs with [] => true | c :: r => forallb (fun x => Nat.eqb (length (vals x)) (length (vals c))) r end.

(* Table(list_of_vectors): rectangular or SerifValueError; columns are copied, names kept *)
Definition mk_table (cs : list vec) : res table :=
  if same_len cs then Ok (mkTab cs) else Err EValue.

Definition col_names (t : table) : list (option nat) := map vname (cols t).

(* first column whose _name == key *)
Fixpoint find_exact (cs : list vec) (s : nat) : option vec :=
  match cs with
  | [] => None
  | c :: r => match vname c with
              | Some x => if Nat.eqb x s then Some c else find_exact r s
              | None => find_exact r s
              end
  end.

(* The second pass of the lookup (sanitised / positional spellings such as 'a_b', 'col2_',
   'name__3') is string processing that belongs to C17; here it is a parameter that sees only
   the column names and answers with a column position.  The single-name and the multi-name
   branch of Table.__getitem__ run different second passes. *)
Variable fallback1 : list (option nat) -> nat -> option nat.
Variable fallbackN : list (option nat) -> nat -> option nat.

Definition lookup (fb : list (option nat) -> nat -> option nat) (t : table) (s : nat) : res vec :=
  match find_exact (cols t) s with
  | Some c => Ok c
  | None => match fb (col_names t) s with
            | Some j => match nth_error (cols t) j with Some c => Ok c | None => Err EKey end
            | None => Err EKey                          (* _missing_col_error *)
            end
  end.

Inductive tres :=
| TTab (t : table)          (* a Table *)
| TCol (v : vec)            (* one column *)
| TRow (cells : list A)     (* list(t[i]) *)
| TNoCols                   (* Vector(()) — a selection from a table without columns *)
| TRagged                   (* a Vector of unequal Vectors (never, for rectangular tables) *)
| TNone.                    (* the method falls off its end: returns None *)

Definition as_vec (g : gres) : res vec :=
  match g with GVec v => Ok v | GElt _ => Err EOther end.

(* Vector(tuple(x[key] for x in self._underlying), dtype=None, ...) — Vector.__new__ hands a
   non-empty tuple of equally long Vectors to Table(...) *)
Definition rows_of (t : table) (k : key) : res tres :=
  match map_res (fun c => rbind (getitem c k) as_vec) (cols t) with
  | Err e => Err e
  | Ok [] => Ok TNoCols
  | Ok cs => if same_len cs then Ok (TTab (mkTab cs)) else Ok TRagged
  end.

(* column specifier of a 2-D key *)
Inductive cspec := CName (s : nat) | CNames (l : list nat).

Inductive tkey :=
| TKName (s : nat)                                   (* t['a'] *)
| TKNames (l : list nat)                             (* t['a', 'b'] — a tuple of str, possibly empty *)
| TKRows (k : key)                                   (* any non-str, non-tuple key *)
| TK2 (a b s : option Z) (c : cspec).                (* t[a:b:s, c] and t[c, a:b:s] (the code swaps) *)

Definition select_names (t : table) (l : list nat) : res tres :=
  match map_res (lookup fallbackN t) l with
  | Err e => Err e
  | Ok cs => rbind (mk_table (map (fun c => copy_with c None (vname c)) cs)) (fun t' => Ok (TTab t'))
  end.

Definition select_rows (t : table) (k : key) : res tres :=
  match k with
  | IxInt i =>                                          (* Row(self, key), observed through list() *)
      match map_res (fun c => match py_index (vals c) i with Some x => Ok x | None => Err EOther end) (cols t) with
      | Err e => Err e
      | Ok cells => Ok (TRow cells)
      end
  | IxMaskV m =>
      if negb (Nat.eqb (nrows t) (length m)) then Err EOther      (* assert len(self) == len(key) *)
      else rows_of t k
  | IxList l =>
      if all_bool l then
        if negb (Nat.eqb (nrows t) (length l)) then Err EOther
        else rows_of t k
      else if all_int l then rows_of t k               (* {type(e) for e in key} == {int} (repaired: /repo 406820c) *)
      else Ok TNone                                    (* any other list falls off the end of __getitem__ *)
  | IxSlice _ _ _ => rows_of t k
  | IxIdxV _ => rows_of t k
  | IxUntypedV => Err EOther                            (* key.schema().kind on None: AttributeError *)
  | _ => Ok TNone
  end.

(* Table.__getitem__ *)
Definition tgetitem (t : table) (k : tkey) : res tres :=
  match k with
  | TKName s => rbind (lookup fallback1 t s) (fun c => Ok (TCol c))
  | TKNames l => select_names t l
  | TKRows k => select_rows t k
  | TK2 a b s c =>
      match select_rows t (IxSlice a b s) with            (* row_sliced = self[row_spec] *)
      | Err e => Err e
      | Ok (TTab t') => match c with
                        | CName n => rbind (lookup fallback1 t' n) (fun c => Ok (TCol c))
                        | CNames l => select_names t' l
                        end
      | Ok _ => Err EOther                               (* a table without columns: not modelled *)
      end
  end.

End Index.

Arguments mkVec {A}.
Arguments vals {A}.
Arguments vdt {A}.
Arguments vname {A}.
Arguments GElt {A}.
Arguments GVec {A}.
Arguments mkTab {A}.
Arguments cols {A}.
Arguments TTab {A}.
Arguments TCol {A}.
Arguments TRow {A}.
Arguments TNoCols {A}.
Arguments TRagged {A}.
Arguments TNone {A}.
Arguments OpVec {A}.
Arguments OpScalar {A}.
Arguments copy_with {A}.
Arguments mask_filter {A}.
Arguments index_each {A}.
Arguments shape_len {A}.
Arguments get_mask {A}.
Arguments get_idx {A}.
Arguments getitem {A}.
Arguments cmp_zip {A}.
Arguments cmp_scalar {A}.
Arguments compare {A}.
Arguments nrows {A}.
Arguments same_len {A}.
Arguments mk_table {A}.
Arguments col_names {A}.
Arguments find_exact {A}.
Arguments lookup {A}.
Arguments as_vec {A}.
Arguments rows_of {A}.
Arguments select_names {A}.
Arguments select_rows {A}.
Arguments tgetitem {A}.
