(* Model/Heap.v — the system model behind C01 / C02 / C15 / C16 (DESIGN.md §4 "heap model").

   Objects are Vector and Table instances identified by handles; storage tuples are
   immutable and identified by [sid] (= id(tuple) renamed to a small natural; the
   interpreter-wide empty tuple is [EMPTY]).  The alias registry is modelled through its
   LIVE VIEW: weak references that have died are invisible to every registry operation
   (register / unregister / check_writable all filter them first), so [Collect] removes a
   handle from the registry eagerly.  Which identity a new tuple receives is an INPUT of
   the operation (the allocator's choice); theorems quantify over every admissible choice.

   Values are None, ints and integral floats (enough to exercise promotion int -> float);
   the element hash is CPython's (numeric hash modulo 2^61-1, -1 -> -2). No proofs here. *)
From Coq Require Import List Bool Arith ZArith.
From Serif Require Import Base.PyVal Model.Dtype.
Import ListNotations.

Definition handle := nat.
Inductive sval := SNone | SInt (n : Z) | SFloat (n : Z).      (* SFloat n is float(n) *)

Definition sval_eqb (a b : sval) : bool :=
  match a, b with
  | SNone, SNone => true
  | SInt x, SInt y => Z.eqb x y
  | SFloat x, SFloat y => Z.eqb x y
  | _, _ => false
  end.

Definition sval_info (v : sval) : pyv :=
  match v with SNone => None | SInt _ => Some (mkV KInt true) | SFloat _ => Some (mkV KFloat true) end.

Definition EMPTY : nat := 0.

Record vec := mkVec {
  vals : list sval;
  sid  : nat;                  (* identity of the storage tuple *)
  nm   : option nat;           (* name token *)
  dt   : option dtype;         (* None = untyped (empty) vector *)
  vfp  : option Z              (* fingerprint memo *)
}.
Record tab := mkTab {
  cols : list handle;          (* the column Vector objects, in order *)
  tsid : nat;                  (* identity of the tuple of columns *)
  tnm  : option nat;
  tfp  : option Z
}.
Inductive obj := OV (v : vec) | OT (t : tab).

Record state := mkSt {
  heap : list (handle * obj);          (* live objects *)
  reg  : list (nat * list handle)      (* alias registry, live view: sid -> registered handles *)
}.

Definition init : state := mkSt [] [].

(* ---- association lists ------------------------------------------------------- *)
Fixpoint aget {A} (l : list (nat * A)) (k : nat) : option A :=
  match l with [] => None | (k', a) :: t => if Nat.eqb k k' then Some a else aget t k end.
Fixpoint aset {A} (l : list (nat * A)) (k : nat) (a : A) : list (nat * A) :=
  match l with
  | [] => [(k, a)]
  | (k', a') :: t => if Nat.eqb k k' then (k, a) :: t else (k', a') :: aset t k a
  end.
Fixpoint adel {A} (l : list (nat * A)) (k : nat) : list (nat * A) :=
  match l with [] => [] | (k', a') :: t => if Nat.eqb k k' then adel t k else (k', a') :: adel t k end.

Definition getv (s : state) (h : handle) : option vec :=
  match aget (heap s) h with Some (OV v) => Some v | _ => None end.
Definition gett (s : state) (h : handle) : option tab :=
  match aget (heap s) h with Some (OT t) => Some t | _ => None end.
Definition sid_of (o : obj) : nat := match o with OV v => sid v | OT t => tsid t end.

(* ---- alias_tracker.py (live view) -------------------------------------------- *)
Definition rget (r : list (nat * list handle)) (id : nat) : list handle :=
  match aget r id with Some l => l | None => [] end.
Definition mem (h : handle) (l : list handle) : bool := existsb (Nat.eqb h) l.
Definition register (r : list (nat * list handle)) (h : handle) (id : nat) :=
  if mem h (rget r id) then r else aset r id (rget r id ++ [h]).
Definition unregister (r : list (nat * list handle)) (h : handle) (id : nat) :=
  match filter (fun x => negb (Nat.eqb x h)) (rget r id) with
  | [] => adel r id
  | l => aset r id l
  end.
(* check_writable: refused iff >1 live vector is registered under a non-empty storage *)
Definition check_writable (r : list (nat * list handle)) (id : nat) : bool :=
  Nat.eqb id EMPTY || Nat.leb (List.length (rget r id)) 1.

(* ---- fingerprints (vector.py: _hash_element, _compute_fingerprint_full) -------- *)
Definition FP_P : Z := (2 ^ 61 - 1)%Z.
Definition FP_B : Z := 1315423911%Z.
Definition H_NONE : Z := 11400714819323198485%Z.     (* 0x9E3779B97F4A7C15 *)
Definition pyhash_int (n : Z) : Z :=
  let r := (Z.sgn n * (Z.abs n mod FP_P))%Z in if Z.eqb r (-1) then (-2)%Z else r.
Definition hash_elem (v : sval) : Z :=
  match v with SNone => H_NONE | SInt n => pyhash_int n | SFloat n => pyhash_int n end.
Definition fp_step (acc h : Z) : Z := ((acc * FP_B + h) mod FP_P)%Z.
Definition fp_hashes (hs : list Z) : Z := fold_left fp_step hs 0%Z.
Definition fp_vals (l : list sval) : Z := fp_hashes (map hash_elem l).

(* ---- dtype bookkeeping of a write (vector.py __setitem__, after the fix F08) ---- *)
Definition conv_float (v : sval) : sval := match v with SInt n => SFloat n | x => x end.

Inductive outcome :=
| Ok
| OkFp (x : Z)                (* fingerprint() returned x *)
| ErrAlias                    (* AliasError *)
| ErrType                     (* SerifTypeError *)
| ErrOther                    (* any other exception *)
| Stuck.                      (* the op does not apply to this model state (harness error) *)

(* the dtype a vector must have after receiving [news]; None = rejected (would degrade to object) *)
Definition required_dtype (d : dtype) (news : list sval) : option dtype :=
  if kind_eqb (dkind d) KObject then Some d
  else fold_left (fun acc v => match acc with
                               | None => None
                               | Some a => let a' := promote_with a (sval_info v) in
                                           if kind_eqb (dkind a') KObject then None else Some a'
                               end) news (Some d).

Fixpoint apply_updates (l : list sval) (us : list (nat * sval)) : list sval :=
  match us with
  | [] => l
  | (i, v) :: t => apply_updates (firstn i l ++ v :: skipn (S i) l) t
  end.

Definition any_none (l : list sval) : bool := existsb (fun v => match v with SNone => true | _ => false end) l.

(* Vector.__setitem__ once the key has been resolved to an update list (key resolution is
   C08's model).  [sid'] is the identity the allocator gives the new tuple. *)
Definition set_vec (s : state) (h : handle) (us : list (nat * sval)) (sid' : nat) : state * outcome :=
  match getv s h with
  | None => (s, Stuck)
  | Some v =>
    if negb (check_writable (reg s) (sid v)) then (s, ErrAlias)
    else if negb (forallb (fun u => Nat.ltb (fst u) (List.length (vals v))) us) then (s, ErrOther)
    else
      let news := map snd us in
      let step2 (d' : option dtype) (base_vals : list sval) :=
        let nv := apply_updates base_vals us in
        let d'' := match d' with
                   | Some d => if negb (nullable d) && any_none news then Some (mkD (dkind d) true) else Some d
                   | None => None
                   end in
        let v' := mkVec nv sid' (nm v) d'' None in
        let r' := register (unregister (reg s) h (sid v)) h sid' in
        (mkSt (aset (heap s) h (OV v')) r', Ok) in
      match dt v with
      | None => step2 None (vals v)
      | Some d =>
        match (if negb (Nat.eqb (List.length us) 0) then required_dtype d news else Some d) with
        | None => (s, ErrType)
        | Some rd =>
          if kind_eqb (dkind rd) (dkind d) then step2 (Some d) (vals v)
          else if kind_eqb (dkind d) KInt && kind_eqb (dkind rd) KFloat
          then step2 (Some (mkD KFloat (nullable d))) (map conv_float (vals v))    (* _promote *)
          else (s, ErrType)
        end
      end
  end.

(* Table.__setitem__: per-column vector assignments in order, stopping at the first failure *)
Fixpoint set_cols (s : state) (chs : list handle) (ws : list (nat * list (nat * sval) * nat)) : state * outcome :=
  match ws with
  | [] => (s, Ok)
  | (ci, us, sid') :: t =>
    match nth_error chs ci with
    | None => (s, Stuck)
    | Some ch =>
      match set_vec s ch us sid' with
      | (s', Ok) => set_cols s' chs t
      | r => r
      end
    end
  end.

(* ---- producers ----------------------------------------------------------------- *)
(* where a new column comes from *)
Inductive colspec :=
| CFrom (h : handle) (sel : option (list nat))      (* copy of vector h, optionally rows [sel] *)
| CFromAs (h : handle) (n : option nat)              (* copy of vector h stored under another name:
                                                        t >> {name: v} - the OPERAND keeps its own name *)
| CCat (h : handle) (extra : list sval)              (* h << extra   (dtype widened, name dropped) *)
| CLit (l : list sval) (n : option nat)              (* built from a plain list: Vector(list), dtype inferred,
                                                        an empty list stays untyped *)
| CRes (l : list sval) (n : option nat).             (* an arithmetic result: dtype = infer_dtype(values) always *)

Definition select {A} (l : list A) (idx : list nat) (d : A) : list A := map (fun i => nth i l d) idx.

Definition lit_dtype (l : list sval) : option dtype :=
  match l with [] => None | _ => Some (infer_dtype (map sval_info l)) end.

(* contents / name / dtype of a column built from a spec; None = spec refers to no vector *)
Definition build_col (s : state) (c : colspec) : option (list sval * option nat * option dtype) :=
  match c with
  | CFrom h None => match getv s h with Some v => Some (vals v, nm v, dt v) | None => None end
  | CFrom h (Some idx) =>
      match getv s h with
      | Some v => if forallb (fun i => Nat.ltb i (List.length (vals v))) idx
                  then Some (select (vals v) idx SNone, nm v, dt v) else None
      | None => None
      end
  | CFromAs h n => match getv s h with Some v => Some (vals v, n, dt v) | None => None end
  | CCat h extra =>
      match getv s h with
      | Some v => Some (vals v ++ extra, None,
                        match dt v with
                        | Some d => Some (fold_left (fun a x => promote_with a (sval_info x)) extra d)
                        | None => lit_dtype (vals v ++ extra)
                        end)
      | None => None
      end
  | CLit l n => Some (l, n, lit_dtype l)
  | CRes l n => Some (l, n, Some (infer_dtype (map sval_info l)))
  end.

(* allocate fresh vector objects [hs] with storage ids [sids] for the built columns *)
Fixpoint alloc_cols (s : state) (built : list (list sval * option nat * option dtype))
                    (hs : list handle) (sids : list nat) : option state :=
  match built, hs, sids with
  | [], [], [] => Some s
  | (l, n, d) :: bt, h :: ht, i :: it =>
      match aget (heap s) h with
      | Some _ => None                                   (* handle must be fresh *)
      | None =>
        alloc_cols (mkSt (heap s ++ [(h, OV (mkVec l i n d None))]) (register (reg s) h i)) bt ht it
      end
  | _, _, _ => None
  end.

Fixpoint build_all (s : state) (cs : list colspec) : option (list (list sval * option nat * option dtype)) :=
  match cs with
  | [] => Some []
  | c :: t => match build_col s c, build_all s t with
              | Some b, Some bt => Some (b :: bt)
              | _, _ => None
              end
  end.

Definition all_same_len (built : list (list sval * option nat * option dtype)) : bool :=
  match built with
  | [] => true
  | (l, _, _) :: t => forallb (fun b => Nat.eqb (List.length (fst (fst b))) (List.length l)) t
  end.

Inductive op :=
(* a new vector from specs (Vector(list), v.copy(), v[slice], v[mask], v << x ...) *)
| ONewVec (h : handle) (c : colspec) (rename : option (option nat)) (sid' : nat)
(* a new table whose columns are built from specs (Table([...]), Table({..}), t.copy(), row and
   column selections, >> and << stacking, and — with CLit specs carrying the observed contents —
   joins, sorts, aggregates, windows, arithmetic, transposes) *)
| ONewTab (ht : handle) (cs : list colspec) (chs : list handle) (sids : list nat) (tsid' : nat)
| OSetV (h : handle) (us : list (nat * sval)) (sid' : nat)
| OSetT (ht : handle) (ws : list (nat * list (nat * sval) * nat))
(* t.<col> = value : the table stores a SNAPSHOT of the value under the old column's name *)
| OSetAttr (ht : handle) (ci : nat) (c : colspec) (h' : handle) (sid' : nat) (tsid' : nat)
| ORename (h : handle) (n : option nat)              (* v.name = n  (also through a column view) *)
| OFp (h : handle)                                   (* fingerprint() *)
| ORead (h : handle)                                 (* repr / iteration / indexing: no effect *)
| OFailWrite (h : handle)                            (* a write attempt that fails after the alias check *)
| OCollect (hs : list handle).                       (* these objects have been garbage-collected *)

Definition col_fp (s : state) (h : handle) : Z :=
  match getv s h with Some v => fp_vals (vals v) | None => 0%Z end.

(* col.fingerprint(): memoise the column's fingerprint unless a memo is already there *)
Definition memo_col (hp : list (handle * obj)) (h : handle) : list (handle * obj) :=
  match aget hp h with
  | Some (OV v) =>
      match vfp v with
      | Some _ => hp
      | None => aset hp h (OV (mkVec (vals v) (sid v) (nm v) (dt v) (Some (fp_vals (vals v)))))
      end
  | _ => hp
  end.

Definition collect (s : state) (hs : list handle) : state :=
  mkSt (filter (fun ho => negb (mem (fst ho) hs)) (heap s))
       (map (fun e => (fst e, filter (fun x => negb (mem x hs)) (snd e))) (reg s)).

Definition step (s : state) (o : op) : state * outcome :=
  match o with
  | ONewVec h c rn sid' =>
      match build_col s c with
      | Some (l, n, d) =>
          let n' := match rn with Some x => x | None => n end in
          match alloc_cols s [(l, n', d)] [h] [sid'] with
          | Some s' => (s', Ok)
          | None => (s, Stuck)
          end
      | None => (s, Stuck)
      end
  | ONewTab ht cs chs sids tsid' =>
      match build_all s cs with
      | Some built =>
          if negb (all_same_len built) then (s, ErrOther)      (* ragged input is refused *)
          else match alloc_cols s built chs sids with
               | Some s' =>
                   match aget (heap s') ht with
                   | Some _ => (s, Stuck)
                   | None => (mkSt (heap s' ++ [(ht, OT (mkTab chs tsid' None None))])
                                   (register (reg s') ht tsid'), Ok)
                   end
               | None => (s, Stuck)
               end
      | None => (s, Stuck)
      end
  | OSetV h us sid' => set_vec s h us sid'
  | OSetT ht ws =>
      match gett s ht with
      | Some t => set_cols s (cols t) ws
      | None => (s, Stuck)
      end
  | OSetAttr ht ci c h' sid' tsid' =>
      match gett s ht, build_col s c with
      | Some t, Some (l, _, d) =>
          match nth_error (cols t) ci with
          | None => (s, Stuck)
          | Some old =>
              let nrows := match getv s old with Some v => List.length (vals v) | None => 0 end in
              if negb (Nat.eqb (List.length l) nrows) then (s, ErrOther)
              else
                let oldname := match getv s old with Some v => nm v | None => None end in
                match alloc_cols s [(l, oldname, d)] [h'] [sid'] with
                | None => (s, Stuck)
                | Some s1 =>
                    let cols' := firstn ci (cols t) ++ h' :: skipn (S ci) (cols t) in
                    let r' := register (unregister (reg s1) ht (tsid t)) ht tsid' in
                    (mkSt (aset (heap s1) ht (OT (mkTab cols' tsid' (tnm t) (tfp t)))) r', Ok)
                end
          end
      | _, _ => (s, Stuck)
      end
  | ORename h n =>
      match aget (heap s) h with
      | Some (OV v) => (mkSt (aset (heap s) h (OV (mkVec (vals v) (sid v) n (dt v) (vfp v)))) (reg s), Ok)
      | Some (OT t) => (mkSt (aset (heap s) h (OT (mkTab (cols t) (tsid t) n (tfp t)))) (reg s), Ok)
      | None => (s, Stuck)
      end
  | OFp h =>
      match aget (heap s) h with
      | Some (OV v) =>
          let x := match vfp v with Some x => x | None => fp_vals (vals v) end in
          (mkSt (aset (heap s) h (OV (mkVec (vals v) (sid v) (nm v) (dt v) (Some x)))) (reg s), OkFp x)
      | Some (OT t) =>
          (* Table.fingerprint: the table memo is dropped, every column's own (memoised)
             fingerprint is taken and combined *)
          let colfp h := match getv s h with
                         | Some v => match vfp v with Some x => x | None => fp_vals (vals v) end
                         | None => 0%Z end in
          let x := fp_hashes (map colfp (cols t)) in
          let hp := fold_left memo_col (cols t) (heap s) in
          (mkSt (aset hp h (OT (mkTab (cols t) (tsid t) (tnm t) (Some x)))) (reg s), OkFp x)
      | None => (s, Stuck)
      end
  | ORead h => match aget (heap s) h with Some _ => (s, Ok) | None => (s, Stuck) end
  | OFailWrite h =>
      match getv s h with
      | Some v => if negb (check_writable (reg s) (sid v)) then (s, ErrAlias) else (s, ErrOther)
      | None => (s, Stuck)
      end
  | OCollect hs =>
      (* a live table keeps its columns alive: collecting a column of a surviving table is impossible *)
      if forallb (fun ho => match snd ho with
                            | OT t => mem (fst ho) hs || negb (existsb (fun c => mem c hs) (cols t))
                            | OV _ => true end) (heap s)
      then (collect s hs, Ok) else (s, Stuck)
  end.

(* ---- derived objects take fresh storage ------------------------------------------------
   Only the constructor applied to a caller-supplied tuple (Vector(T)) may give a new vector a storage
   identity that a live object already holds.  Everything else the library builds - copies, slices,
   masks, operation results, the columns of every new table - owns new storage: an identity
   held by no live object (the interpreter may hand out the identity of FREED storage again, and every
   empty tuple is the one object with identity 0).  [step_d] is [step] with that rule enforced: an
   operation that would break it is [Stuck] and changes nothing. *)
Definition sids_in_use (s : state) : list nat :=
  map (fun ho => match snd ho with OV v => sid v | OT t => tsid t end) (heap s).

Definition new_sids (o : op) : list nat :=
  match o with
  | ONewVec _ _ _ i => [i]
  | ONewTab _ _ _ sids t => t :: sids
  | _ => []      (* a write frees storage of the written object WHILE it runs (promotion, one column after
                    the other) and may get that identity back: nothing is demanded of the tuples it swaps in *)
  end.

Fixpoint distinct_nz (l : list nat) : bool :=
  match l with [] => true | x :: t => (Nat.eqb x 0 || negb (mem x t)) && distinct_nz t end.

Definition fresh_ok (s : state) (o : op) : bool :=
  forallb (fun i => Nat.eqb i 0 || negb (mem i (sids_in_use s))) (new_sids o) &&
  distinct_nz (new_sids o).            (* nor do two new objects of one operation share storage *)

Definition step_d (s : state) (o : op) : state * outcome :=
  if fresh_ok s o then step s o else (s, Stuck).
