(* Proofs/Fingerprint.v — arithmetic of the rolling fingerprint (C16 sensitivity). *)
From Coq Require Import ZArith List Lia Znumtheory.
From Serif Require Import Model.Heap.
Import ListNotations.
Local Open Scope Z_scope.

Definition fp_from (a : Z) (l : list Z) : Z := fold_left fp_step l a.

Lemma P_pos : 0 < FP_P. Proof. reflexivity. Qed.
Lemma Pnz : FP_P <> 0. Proof. discriminate. Qed.
Lemma gcdBP : Z.gcd FP_B FP_P = 1. Proof. vm_compute. reflexivity. Qed.
Lemma gcdB1P : Z.gcd (FP_B - 1) FP_P = 1. Proof. vm_compute. reflexivity. Qed.

Lemma rel_prime_B_pow k : rel_prime FP_P (FP_B ^ Z.of_nat k).
Proof.
  induction k as [|k IH].
  - simpl. apply rel_prime_sym, rel_prime_1.
  - rewrite Nat2Z.inj_succ, Z.pow_succ_r by lia.
    apply rel_prime_mult; [|exact IH].
    apply rel_prime_sym, Zgcd_1_rel_prime. exact gcdBP.
Qed.

Lemma mod_mul_l x k c : ((x mod FP_P) * k + c) mod FP_P = (x * k + c) mod FP_P.
Proof.
  rewrite Z.add_mod by exact Pnz. rewrite Z.mul_mod by exact Pnz. rewrite Z.mod_mod by exact Pnz.
  rewrite <- Z.mul_mod by exact Pnz. rewrite <- Z.add_mod by exact Pnz. reflexivity.
Qed.

Lemma fp_affine l : forall a,
  fp_from a l mod FP_P = (a * FP_B ^ Z.of_nat (length l) + fp_from 0 l) mod FP_P.
Proof.
  induction l as [|h t IH]; intros a.
  - cbn [fp_from fold_left length]. change (Z.of_nat 0) with 0. rewrite Z.pow_0_r. f_equal. lia.
  - cbn [fp_from fold_left length]. fold (fp_from (fp_step a h) t). fold (fp_from (fp_step 0 h) t).
    rewrite IH.
    rewrite Nat2Z.inj_succ, Z.pow_succ_r by lia.
    set (k := FP_B ^ Z.of_nat (length t)). set (c := fp_from 0 t).
    rewrite (Z.add_mod (a * (FP_B * k))) by exact Pnz.
    rewrite (IH (fp_step 0 h)). fold k. fold c.
    rewrite <- Z.add_mod by exact Pnz.
    unfold fp_step.
    rewrite mod_mul_l.
    rewrite Z.add_assoc.
    rewrite (Z.add_comm (a * (FP_B * k))).
    rewrite <- (Z.add_assoc _ (a * (FP_B * k)) c).
    rewrite mod_mul_l.
    f_equal. ring.
Qed.

Lemma fp_from_range a l : 0 <= a < FP_P -> 0 <= fp_from a l < FP_P.
Proof.
  revert a; induction l as [|h t IH]; intros a Ha; cbn [fp_from fold_left]; [exact Ha|].
  apply IH. unfold fp_step. apply Z.mod_pos_bound. exact P_pos.
Qed.

Lemma fp_hashes_range l : 0 <= fp_hashes l < FP_P.
Proof. apply (fp_from_range 0 l). split; [lia|exact P_pos]. Qed.

(* two runs that differ only in the accumulator before a common suffix *)
Lemma fp_suffix_cancel a b l2 :
  fp_from a l2 = fp_from b l2 -> (FP_P | a - b).
Proof.
  intros Heq.
  assert (H := f_equal (fun z => z mod FP_P) Heq). cbv beta in H.
  rewrite !fp_affine in H.
  set (k := FP_B ^ Z.of_nat (length l2)) in *. set (c := fp_from 0 l2) in *.
  assert (Hd : (FP_P | (a - b) * k)).
  { apply Zmod_divide; [pose proof P_pos; lia|].
    replace ((a - b) * k) with ((a * k + c) - (b * k + c)) by ring.
    rewrite Zminus_mod, H, Z.sub_diag. reflexivity. }
  rewrite Z.mul_comm in Hd. apply Gauss in Hd; [exact Hd|apply rel_prime_B_pow].
Qed.

(* changing ONE element to a value whose hash differs modulo P changes the fingerprint *)
Theorem fp_write_changes l1 x y l2 :
  (x - y) mod FP_P <> 0 -> fp_hashes (l1 ++ x :: l2) <> fp_hashes (l1 ++ y :: l2).
Proof.
  intros Hxy Heq. unfold fp_hashes in Heq. rewrite !fold_left_app in Heq. cbn [fold_left] in Heq.
  set (a := fold_left fp_step l1 0) in *.
  apply (fp_suffix_cancel (fp_step a x) (fp_step a y) l2) in Heq.
  apply Zdivide_mod in Heq. unfold fp_step in Heq.
  rewrite <- Zminus_mod in Heq.
  replace (a * FP_B + x - (a * FP_B + y)) with (x - y) in Heq by ring. contradiction.
Qed.

(* element ORDER matters: swapping two adjacent elements with different hashes changes it *)
Theorem fp_adjacent_order_matters l1 x y l2 :
  (x - y) mod FP_P <> 0 -> fp_hashes (l1 ++ x :: y :: l2) <> fp_hashes (l1 ++ y :: x :: l2).
Proof.
  intros Hxy Heq. unfold fp_hashes in Heq. rewrite !fold_left_app in Heq. cbn [fold_left] in Heq.
  set (a := fold_left fp_step l1 0) in *.
  apply (fp_suffix_cancel _ _ l2) in Heq.
  apply Zdivide_mod in Heq. unfold fp_step in Heq.
  rewrite Zminus_mod in Heq. rewrite !Z.mod_mod in Heq by exact Pnz.
  rewrite !mod_mul_l in Heq. rewrite <- Zminus_mod in Heq.
  replace ((a * FP_B + x) * FP_B + y - ((a * FP_B + y) * FP_B + x)) with ((FP_B - 1) * (x - y)) in Heq by ring.
  apply Zmod_divide in Heq; [|exact Pnz].
  apply Gauss in Heq; [|apply rel_prime_sym, Zgcd_1_rel_prime; exact gcdB1P].
  apply Zdivide_mod in Heq. contradiction.
Qed.

(* The property as literally stated ("every change between values hash() tells apart is
   noticed") is FALSE of the faithful model: the fingerprint only sees hashes modulo 2^61-1. *)
Theorem fp_hash_distinct_refuted :
  exists a b, hash_elem a <> hash_elem b /\ fp_vals [SInt 5; a; SInt 7] = fp_vals [SInt 5; b; SInt 7].
Proof. exists (SInt 1), (SInt (-(2^61-2))). split; [vm_compute; discriminate|vm_compute; reflexivity]. Qed.

(* lifted to vectors of model values *)
Theorem fp_vals_write_changes l1 a b l2 :
  (hash_elem a - hash_elem b) mod FP_P <> 0 -> fp_vals (l1 ++ a :: l2) <> fp_vals (l1 ++ b :: l2).
Proof.
  intros H. unfold fp_vals. rewrite !map_app. cbn [map]. apply fp_write_changes. exact H.
Qed.

Theorem fp_vals_order_matters l1 a b l2 :
  (hash_elem a - hash_elem b) mod FP_P <> 0 ->
  fp_vals (l1 ++ a :: b :: l2) <> fp_vals (l1 ++ b :: a :: l2).
Proof.
  intros H. unfold fp_vals. rewrite !map_app. cbn [map]. apply fp_adjacent_order_matters. exact H.
Qed.

(* ... and to tables: a table's fingerprint combines its columns' fingerprints, which are
   residues in [0, P): if one column's fingerprint changes, so does the table's. *)
Theorem fp_table_column_changes f1 x y f2 :
  0 <= x < FP_P -> 0 <= y < FP_P -> x <> y ->
  fp_hashes (f1 ++ x :: f2) <> fp_hashes (f1 ++ y :: f2).
Proof.
  intros Hx Hy Hne. apply fp_write_changes. intros H.
  apply Zmod_divide in H; [|exact Pnz]. destruct H as [k Hk].
  assert (k = 0) by nia. subst. lia.
Qed.
