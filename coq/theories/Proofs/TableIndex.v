(* Proofs/TableIndex.v — Table.__getitem__ : row selection is uniform over the columns,
   a missing column is an error, row selection and column selection commute. *)
From Coq Require Import List Bool Arith ZArith Lia.
From Serif Require Import Base.PyVal Base.StErr Spec.PySlice Model.Index Proofs.PySlice Proofs.Index.
Import ListNotations.

(* ---- map_res ------------------------------------------------------------------------ *)

Lemma map_res_ok_map {X Y} (f : X -> res Y) (g : X -> Y) l :
  (forall x, In x l -> f x = Ok (g x)) -> map_res f l = Ok (map g l).
Proof.
  induction l as [|x t IH]; intros H; cbn [map_res map]; [reflexivity|].
  rewrite (H x (or_introl eq_refl)), IH; [reflexivity|]. intros y Hy. apply H. right. exact Hy.
Qed.

Lemma map_res_Forall2 {X Y} (f : X -> res Y) l : forall r,
  map_res f l = Ok r -> Forall2 (fun x y => f x = Ok y) l r.
Proof.
  induction l as [|x t IH]; intros r H; cbn [map_res] in H.
  - inversion H. constructor.
  - destruct (f x) eqn:E; [|discriminate]. destruct (map_res f t) eqn:E2; [|discriminate].
    inversion H. constructor; [exact E|apply IH; reflexivity].
Qed.

Lemma map_res_err_in {X Y} (f : X -> res Y) e0 l s :
  (forall x e, f x = Err e -> e = e0) -> In s l -> f s = Err e0 -> map_res f l = Err e0.
Proof.
  intros Hall. induction l as [|x t IH]; intros Hin Hs; [contradiction|]. cbn [map_res].
  destruct (f x) eqn:E; [|f_equal; eapply Hall; eauto].
  destruct Hin as [->|Hin]; [congruence|]. rewrite IH by assumption. reflexivity.
Qed.

Definition rmap {X Y} (g : X -> Y) (r : res X) : res Y :=
  match r with Ok x => Ok (g x) | Err e => Err e end.

Lemma map_res_rmap {X Y Z} (f f' : X -> res Y) (g : Y -> Y) l (_ : Z) :
  (forall x, f' x = rmap g (f x)) -> map_res f' l = rmap (map g) (map_res f l).
Proof.
  intros H. induction l as [|x t IH]; cbn [map_res]; [reflexivity|].
  rewrite H. destruct (f x); cbn [rmap]; [|reflexivity]. rewrite IH.
  destruct (map_res f t); reflexivity.
Qed.

(* ---- a total reading of gather ------------------------------------------------------ *)

Definition take {A} (l : list A) (ps : list nat) : list A :=
  flat_map (fun p => match nth_error l p with Some x => [x] | None => [] end) ps.

Lemma gather_take {A} (l : list A) ps :
  (forall p, In p ps -> p < length l) -> gather l ps = Some (take l ps).
Proof.
  induction ps as [|p t IH]; intros H; cbn [gather take flat_map]; [reflexivity|].
  destruct (nth_error l p) eqn:E.
  - fold (take l t). rewrite IH; [reflexivity|]. intros q Hq. apply H. right. exact Hq.
  - apply nth_error_None in E. specialize (H p (or_introl eq_refl)). lia.
Qed.

Section Tab.
Variable A : Type.
Variables fallback1 fallbackN : list (option nat) -> nat -> option nat.

(* rectangular: every column has the table's length *)
Definition wf (t : table A) : Prop := forall c, In c (cols t) -> length (vals c) = nrows t.

Definition pickc (ps : list nat) (c : vec A) : vec A := mkVec (take (vals c) ps) (vdt c) (vname c).

(* the keys that select rows and answer with a table *)
Definition rowkey (k : key) : bool :=
  match k with
  | IxMaskV _ | IxSlice _ _ _ | IxIdxV _ => true
  | IxList l => all_bool l
  | _ => false
  end.

Lemma rowkey_not_one k n p : rowkey k = true -> sel k n <> Ok (SOne p).
Proof.
  destruct k; cbn [rowkey sel]; try discriminate; intros Hk.
  - unfold sel_mask. destruct (Nat.eqb n (length m)); discriminate.
  - rewrite Hk. unfold sel_mask. destruct (Nat.eqb n _); discriminate.
  - destruct (Z.eqb (step_of s) 0); discriminate.
  - unfold sel_idx. destruct (norm_all n l); discriminate.
Qed.

Lemma same_len_all (cs : list (vec A)) n :
  (forall c, In c cs -> length (vals c) = n) -> same_len cs = true.
Proof.
  intros H. destruct cs as [|c r]; [reflexivity|]. cbn [same_len]. apply forallb_forall.
  intros x Hx. apply Nat.eqb_eq. rewrite (H x), (H c); [reflexivity|left; reflexivity|right; exact Hx].
Qed.

Lemma getitem_col (c : vec A) k n ps : length (vals c) = n -> sel k n = Ok (SMany ps) ->
  getitem c k = Ok (GVec (pickc ps c)).
Proof.
  intros Hn Hs. rewrite getitem_closed, Hn, Hs. cbn [rbind apply_sel].
  pose proof (sel_valid k n) as Hv. rewrite Hs in Hv. rewrite gather_take; [reflexivity|].
  rewrite Hn. exact Hv.
Qed.

Lemma take_length (l : list A) ps : (forall p, In p ps -> p < length l) -> length (take l ps) = length ps.
Proof. intros H. apply (gather_length l ps). apply gather_take. exact H. Qed.

(* what rows_of does on a rectangular table *)
Lemma rows_of_ok t k ps : wf t -> cols t <> [] -> sel k (nrows t) = Ok (SMany ps) ->
  rows_of t k = Ok (TTab (mkTab (map (pickc ps) (cols t)))).
Proof.
  intros Hw Hne Hs. unfold rows_of.
  rewrite (map_res_ok_map _ (pickc ps)).
  - destruct (cols t) as [|c r] eqn:E; [congruence|]. cbn [map].
    change (pickc ps c :: map (pickc ps) r) with (map (pickc ps) (c :: r)).
    rewrite (same_len_all _ (length ps)); [reflexivity|].
    intros x Hx. apply in_map_iff in Hx. destruct Hx as [y [<- Hy]]. cbn [pickc vals].
    apply take_length. pose proof (sel_valid k (nrows t)) as Hv. rewrite Hs in Hv.
    rewrite (Hw y) by (rewrite E; exact Hy). exact Hv.
  - intros c Hc. rewrite (getitem_col c k (nrows t) ps (Hw c Hc) Hs). reflexivity.
Qed.

Lemma rows_of_err t k e : wf t -> cols t <> [] -> sel k (nrows t) = Err e ->
  exists e', rows_of t k = Err e'.
Proof.
  intros Hw Hne Hs. unfold rows_of. destruct (cols t) as [|c r] eqn:E; [congruence|].
  cbn [map_res]. rewrite getitem_closed, (Hw c) by (rewrite E; left; reflexivity). rewrite Hs.
  cbn [rbind]. eexists. reflexivity.
Qed.

Lemma select_rows_ok t k ps : wf t -> cols t <> [] -> rowkey k = true ->
  sel k (nrows t) = Ok (SMany ps) ->
  select_rows t k = Ok (TTab (mkTab (map (pickc ps) (cols t)))).
Proof.
  intros Hw Hne Hk Hs. destruct k; cbn [rowkey] in Hk; try discriminate; cbn [select_rows].
  - cbn [sel] in Hs. unfold sel_mask in Hs.
    destruct (Nat.eqb (nrows t) (length m)) eqn:E; [|discriminate]. cbn [negb].
    apply rows_of_ok; auto. cbn [sel]. unfold sel_mask. rewrite E. exact Hs.
  - rewrite Hk. pose proof Hs as Hs'. cbn [sel] in Hs. rewrite Hk in Hs. unfold sel_mask in Hs.
    rewrite map_length in Hs.
    destruct (Nat.eqb (nrows t) (length l)) eqn:E; [|discriminate]. cbn [negb].
    apply rows_of_ok; auto.
  - apply rows_of_ok; auto.
  - apply rows_of_ok; auto.
Qed.

Lemma select_rows_err t k e : wf t -> cols t <> [] -> rowkey k = true ->
  sel k (nrows t) = Err e -> exists e', select_rows t k = Err e'.
Proof.
  intros Hw Hne Hk Hs. destruct k; cbn [rowkey] in Hk; try discriminate; cbn [select_rows].
  - destruct (negb (Nat.eqb (nrows t) (length m))); [eexists; reflexivity|]. eapply rows_of_err; eauto.
  - rewrite Hk. destruct (negb (Nat.eqb (nrows t) (length l))); [eexists; reflexivity|].
    eapply rows_of_err; eauto.
  - eapply rows_of_err; eauto.
  - eapply rows_of_err; eauto.
Qed.

(* Row selection is uniform: ONE list of positions, fixed by the key and the table's length,
   is applied to every column; dtype and name of each column are kept. *)
Theorem rowsel_uniform t k t' : wf t -> rowkey k = true ->
  select_rows t k = Ok (TTab t') ->
  exists ps, sel k (nrows t) = Ok (SMany ps) /\
             (forall p, In p ps -> p < nrows t) /\
             cols t' = map (fun c => mkVec (take (vals c) ps) (vdt c) (vname c)) (cols t) /\
             Forall2 (fun c c' => gather (vals c) ps = Some (vals c')) (cols t) (cols t').
Proof.
  intros Hw Hk H.
  assert (Hne : cols t <> []).
  { intros E. destruct k; cbn [rowkey] in Hk; try discriminate; cbn [select_rows] in H;
      try rewrite Hk in H;
      repeat match type of H with (if ?c then _ else _) = _ => destruct c; try discriminate end;
      unfold rows_of in H; rewrite E in H; discriminate. }
  pose proof (sel_valid k (nrows t)) as Hv.
  destruct (sel k (nrows t)) as [[p|ps]|e] eqn:Hs.
  - exfalso. eapply rowkey_not_one; eauto.
  - rewrite (select_rows_ok t k ps Hw Hne Hk Hs) in H. inversion H. exists ps.
    split; [reflexivity|]. split; [exact Hv|]. split; [reflexivity|]. cbn [cols].
    assert (Hall : forall c, In c (cols t) -> gather (vals c) ps = Some (vals (pickc ps c))).
    { intros c Hc. cbn [pickc vals]. apply gather_take. rewrite (Hw c Hc). exact Hv. }
    clear - Hall. induction (cols t) as [|c r IH]; cbn [map]; constructor.
    + apply Hall. left. reflexivity.
    + apply IH. intros x Hx. apply Hall. right. exact Hx.
  - destruct (select_rows_err t k e Hw Hne Hk Hs) as [e' He']. congruence.
Qed.

(* ---- column selection ------------------------------------------------------------------ *)

Lemma copy_id (c : vec A) : copy_with c None (vname c) = c.
Proof. destruct c. reflexivity. Qed.

Lemma map_copy_id (cs : list (vec A)) : map (fun c => copy_with c None (vname c)) cs = cs.
Proof. induction cs as [|c r IH]; cbn [map]; [reflexivity|]. rewrite copy_id, IH. reflexivity. Qed.

Lemma find_exact_in (cs : list (vec A)) s c : find_exact cs s = Some c -> In c cs /\ vname c = Some s.
Proof.
  induction cs as [|x r IH]; cbn [find_exact]; [discriminate|].
  destruct (vname x) as [nm|] eqn:E.
  - destruct (Nat.eqb nm s) eqn:E2.
    + intros H. inversion H; subst. apply Nat.eqb_eq in E2. subst. split; [left; reflexivity|exact E].
    + intros H. apply IH in H. destruct H. split; [right; assumption|assumption].
  - intros H. apply IH in H. destruct H. split; [right; assumption|assumption].
Qed.

Lemma lookup_in fb (t : table A) s c : lookup fb t s = Ok c -> In c (cols t).
Proof.
  unfold lookup. destruct (find_exact (cols t) s) eqn:E.
  - intros H. inversion H; subst. apply find_exact_in in E. apply E.
  - destruct (fb (col_names t) s) as [j|]; [|discriminate].
    destruct (nth_error (cols t) j) eqn:E2; [|discriminate].
    intros H. inversion H; subst. eapply nth_error_In; eauto.
Qed.

Lemma lookup_err fb (t : table A) s e : lookup fb t s = Err e -> e = EKey.
Proof.
  unfold lookup. destruct (find_exact (cols t) s); [discriminate|].
  destruct (fb (col_names t) s) as [j|]; [destruct (nth_error (cols t) j)|]; congruence.
Qed.

(* A requested column that does not exist — under its exact name or any accepted spelling —
   is an error (SerifKeyError), wherever it stands in the tuple. *)
Theorem colsel_missing_is_error (t : table A) l s :
  In s l -> find_exact (cols t) s = None -> fallbackN (col_names t) s = None ->
  tgetitem fallback1 fallbackN t (TKNames l) = Err EKey.
Proof.
  intros Hin Hf Hb. cbn [tgetitem]. unfold select_names.
  rewrite (map_res_err_in _ EKey l s); [reflexivity| |exact Hin|].
  - intros x e. apply lookup_err.
  - unfold lookup. rewrite Hf, Hb. reflexivity.
Qed.

Lemma select_names_ok (t : table A) l cs n : (forall c, In c (cols t) -> length (vals c) = n) ->
  map_res (lookup fallbackN t) l = Ok cs -> select_names fallbackN t l = Ok (TTab (mkTab cs)).
Proof.
  intros Hw H. unfold select_names. rewrite H, map_copy_id. unfold mk_table.
  rewrite (same_len_all cs n); [reflexivity|].
  intros c Hc. apply Hw. apply map_res_Forall2 in H.
  clear - H Hc. induction H as [|s c' l' cs' Hl _ IH]; [contradiction|].
  destruct Hc as [<-|Hc]; [eapply lookup_in; eauto|apply IH; exact Hc].
Qed.

(* Selecting existing columns by name returns exactly those columns, in the requested order
   (repeats allowed), each with its cells, dtype and name. *)
Theorem colsel_spec (t : table A) l cs : wf t ->
  Forall2 (fun s c => find_exact (cols t) s = Some c) l cs ->
  tgetitem fallback1 fallbackN t (TKNames l) = Ok (TTab (mkTab cs)).
Proof.
  intros Hw H. cbn [tgetitem]. apply (select_names_ok t l cs (nrows t) Hw).
  induction H as [|s c l' cs' Hs _ IH]; cbn [map_res]; [reflexivity|].
  unfold lookup at 1. rewrite Hs, IH. reflexivity.
Qed.

(* ---- rows and columns commute ----------------------------------------------------------- *)

Lemma find_exact_map (g : vec A -> vec A) cs s : (forall c, vname (g c) = vname c) ->
  find_exact (map g cs) s = option_map g (find_exact cs s).
Proof.
  intros Hg. induction cs as [|x r IH]; cbn [map find_exact]; [reflexivity|].
  rewrite Hg. destruct (vname x) as [nm|]; [destruct (Nat.eqb nm s)|]; auto.
Qed.

Lemma lookup_map fb (g : vec A -> vec A) cs s : (forall c, vname (g c) = vname c) ->
  lookup fb (mkTab (map g cs)) s = rmap g (lookup fb (mkTab cs) s).
Proof.
  intros Hg. unfold lookup, col_names. cbn [cols]. rewrite find_exact_map by exact Hg.
  destruct (find_exact cs s); cbn [option_map rmap]; [reflexivity|].
  rewrite map_map. rewrite (map_ext (fun x => vname (g x)) vname) by exact Hg.
  destruct (fb (map vname cs) s) as [j|]; [|reflexivity].
  rewrite nth_error_map. destruct (nth_error cs j); reflexivity.
Qed.

Definition then_names (r : res (tres A)) (l : list nat) : res (tres A) :=
  match r with Ok (TTab t) => select_names fallbackN t l | Ok _ => Err EOther | Err e => Err e end.
Definition then_rows (r : res (tres A)) (k : key) : res (tres A) :=
  match r with Ok (TTab t) => select_rows t k | Ok _ => Err EOther | Err e => Err e end.

Lemma map_res_length {X Y} (f : X -> res Y) l : forall r, map_res f l = Ok r -> length r = length l.
Proof.
  intros r H. apply map_res_Forall2 in H. induction H; cbn; [reflexivity|f_equal; assumption].
Qed.

(* t[rows][cols] = t[cols][rows]: both are defined or neither is, and when defined they are the
   same table (same columns in the same order, same cells, dtypes and names). *)
Theorem rows_cols_commute (t : table A) k l :
  wf t -> cols t <> [] -> l <> [] -> rowkey k = true ->
  match then_names (select_rows t k) l, then_rows (select_names fallbackN t l) k with
  | Ok r1, Ok r2 => r1 = r2
  | Err _, Err _ => True
  | _, _ => False
  end.
Proof.
  intros Hw Hne Hl Hk.
  destruct (sel k (nrows t)) as [[p|ps]|e] eqn:Hs.
  - exfalso. eapply rowkey_not_one; eauto.
  - rewrite (select_rows_ok t k ps Hw Hne Hk Hs). cbn [then_names].
    pose proof (sel_valid k (nrows t)) as Hv. rewrite Hs in Hv.
    assert (Hmap : map_res (lookup fallbackN (mkTab (map (pickc ps) (cols t)))) l =
                   rmap (map (pickc ps)) (map_res (lookup fallbackN t) l)).
    { apply (map_res_rmap _ _ (pickc ps) l tt). intros s.
      replace t with (mkTab (cols t)) at 2 by (destruct t; reflexivity).
      apply lookup_map. reflexivity. }
    destruct (map_res (lookup fallbackN t) l) as [cs|e] eqn:Hcs; cbn [rmap] in Hmap.
    + rewrite (select_names_ok _ l (map (pickc ps) cs) (length ps)); [|cbn [cols]|exact Hmap].
      2:{ intros c Hc. apply in_map_iff in Hc. destruct Hc as [y [<- Hy]]. cbn [pickc vals].
          apply take_length. rewrite (Hw y Hy). exact Hv. }
      rewrite (select_names_ok t l cs (nrows t) Hw Hcs). cbn [then_rows].
      assert (Hcs_in : forall c, In c cs -> In c (cols t)).
      { apply map_res_Forall2 in Hcs. clear - Hcs. induction Hcs as [|s c' l' cs' Hl' _ IH]; [contradiction|].
        intros c [<-|Hc]; [eapply lookup_in; eauto|apply IH; exact Hc]. }
      assert (Hcs_ne : cs <> []).
      { apply map_res_length in Hcs. destruct cs; [destruct l; [congruence|discriminate]|discriminate]. }
      assert (Hn : nrows (mkTab cs) = nrows t).
      { destruct cs as [|c0 r]; [congruence|]. cbn [nrows cols]. apply Hw. apply Hcs_in. left. reflexivity. }
      rewrite (select_rows_ok (mkTab cs) k ps); cbn [cols]; auto.
      * intros c Hc. rewrite Hn. apply Hw. apply Hcs_in. exact Hc.
      * rewrite Hn. exact Hs.
    + unfold select_names at 1. rewrite Hmap. unfold select_names. rewrite Hcs. cbn [then_rows]. exact I.
  - destruct (select_rows_err t k e Hw Hne Hk Hs) as [e' He']. rewrite He'. cbn [then_names].
    destruct (map_res (lookup fallbackN t) l) as [cs|e2] eqn:Hcs.
    + rewrite (select_names_ok t l cs (nrows t) Hw Hcs). cbn [then_rows].
      assert (Hcs_in : forall c, In c cs -> In c (cols t)).
      { apply map_res_Forall2 in Hcs. clear - Hcs. induction Hcs as [|s c' l' cs' Hl' _ IH]; [contradiction|].
        intros c [<-|Hc]; [eapply lookup_in; eauto|apply IH; exact Hc]. }
      assert (Hcs_ne : cs <> []).
      { apply map_res_length in Hcs. destruct cs; [destruct l; [congruence|discriminate]|discriminate]. }
      assert (Hn : nrows (mkTab cs) = nrows t).
      { destruct cs as [|c0 r]; [congruence|]. cbn [nrows cols]. apply Hw. apply Hcs_in. left. reflexivity. }
      destruct (select_rows_err (mkTab cs) k e) as [e3 He3]; cbn [cols]; auto.
      * intros c Hc. rewrite Hn. apply Hw. apply Hcs_in. exact Hc.
      * rewrite Hn. exact Hs.
      * rewrite He3. exact I.
    + unfold select_names. rewrite Hcs. cbn [then_rows]. exact I.
Qed.

(* the 2-D spelling t[a:b:s, names] is row selection followed by column selection *)
Theorem getitem_2d (t : table A) a b s l t' :
  select_rows t (IxSlice a b s) = Ok (TTab t') ->
  tgetitem fallback1 fallbackN t (TK2 a b s (CNames l)) = select_names fallbackN t' l.
Proof. intros H. cbn [tgetitem]. rewrite H. reflexivity. Qed.

End Tab.
