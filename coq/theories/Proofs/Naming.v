(* Proofs/Naming.v — lemmas about Model/Naming.v (property C17). *)
From Coq Require Import List Bool Arith Ascii String Lia.
From Serif Require Import Model.Naming.
Import ListNotations.

(* ------------------------------------------------------------------ characters *)
Ltac all_chars c := destruct c as [[|] [|] [|] [|] [|] [|] [|] [|]]; vm_compute; try reflexivity; try discriminate; auto.

Lemma digit_ok c : is_digit c = true -> is_ok c = true.
Proof. all_chars c. Qed.
Lemma digit_not_us c : is_digit c = true -> is_us c = false.
Proof. all_chars c. Qed.
Lemma digit_not_lower c : is_digit c = true -> is_lower c = false.
Proof. all_chars c. Qed.
Lemma lower_not_digit c : is_lower c = true -> is_digit c = false.
Proof. all_chars c. Qed.
Lemma lower_not_us c : is_lower c = true -> is_us c = false.
Proof. all_chars c. Qed.
Lemma lower_ok c : is_lower c = true -> is_ok c = true.
Proof. all_chars c. Qed.
Lemma us_eq c : is_us c = true -> c = "_"%char.
Proof. unfold is_us. apply Ascii.eqb_eq. Qed.
Lemma us_ok c : is_us c = true -> is_ok c = true.
Proof. intros H. apply us_eq in H. subst. reflexivity. Qed.
Lemma us_not_digit c : is_us c = true -> is_digit c = false.
Proof. intros H. apply us_eq in H. subst. reflexivity. Qed.
Lemma ok_cases c : is_ok c = true -> is_us c = false -> is_lower c = true \/ is_digit c = true.
Proof.
  unfold is_ok. intros H Hu. rewrite Hu, orb_false_r in H. apply orb_true_iff in H. exact H.
Qed.
Lemma digit_char_digit d : is_digit (digit_char d) = true.
Proof. do 10 (destruct d as [|d]; [reflexivity|]). reflexivity. Qed.
Lemma digit_val_char d : d < 10 -> digit_val (digit_char d) = d.
Proof. intros H. do 10 (destruct d as [|d]; [reflexivity|]). lia. Qed.

(* ------------------------------------------------------------------ string equality *)
Lemma str_eqb_eq a : forall b, str_eqb a b = true <-> a = b.
Proof.
  induction a as [|x a IH]; intros [|y b]; simpl; split; intros H; try reflexivity; try discriminate.
  - apply andb_true_iff in H. destruct H as [H1 H2]. apply Ascii.eqb_eq in H1. apply IH in H2. congruence.
  - inversion H; subst. rewrite Ascii.eqb_refl. simpl. apply IH. reflexivity.
Qed.
Lemma str_eqb_refl a : str_eqb a a = true.
Proof. apply str_eqb_eq. reflexivity. Qed.
Lemma str_eqb_neq a b : a <> b -> str_eqb a b = false.
Proof. intros H. destruct (str_eqb a b) eqn:E; [|reflexivity]. apply str_eqb_eq in E. contradiction. Qed.
Lemma mem_In x l : mem x l = true <-> In x l.
Proof.
  unfold mem. rewrite existsb_exists. split.
  - intros [y [Hy E]]. apply str_eqb_eq in E. subst. exact Hy.
  - intros H. exists x. split; [exact H|apply str_eqb_refl].
Qed.
Lemma mem_false x l : mem x l = false <-> ~ In x l.
Proof.
  split.
  - intros H HI. apply mem_In in HI. congruence.
  - intros H. destruct (mem x l) eqn:E; [|reflexivity]. apply mem_In in E. contradiction.
Qed.

(* ------------------------------------------------------------------ decimal text *)
Lemma forallb_app' {A} (f : A -> bool) l1 l2 :
  forallb f (l1 ++ l2) = forallb f l1 && forallb f l2.
Proof. induction l1 as [|a l1 IH]; simpl; [reflexivity|]. rewrite IH, andb_assoc. reflexivity. Qed.
Lemma forallb_rev {A} (f : A -> bool) l : forallb f (rev l) = forallb f l.
Proof.
  induction l as [|a l IH]; simpl; [reflexivity|].
  rewrite forallb_app', IH. simpl. rewrite andb_true_r, andb_comm. reflexivity.
Qed.

Lemma dec_aux_digits fuel : forall n, forallb is_digit (dec_aux fuel n) = true.
Proof.
  induction fuel as [|f IH]; intros n; simpl; [reflexivity|].
  rewrite forallb_app'. simpl. rewrite digit_char_digit, andb_true_r.
  destruct (n <? 10); [reflexivity|apply IH].
Qed.
Lemma dec_digits n : forallb is_digit (dec n) = true.
Proof. apply dec_aux_digits. Qed.
Lemma dec_nonempty n : dec n <> [].
Proof. unfold dec. simpl. intros H. apply app_eq_nil in H. destruct H as [_ H]. discriminate. Qed.

Lemma parse_from_app a l1 l2 : parse_from a (l1 ++ l2) = parse_from (parse_from a l1) l2.
Proof. unfold parse_from. apply fold_left_app. Qed.

Lemma parse_dec_aux fuel : forall n, n < fuel -> parse (dec_aux fuel n) = n.
Proof.
  induction fuel as [|f IH]; intros n Hn; [lia|].
  cbn [dec_aux]. unfold parse. rewrite parse_from_app.
  assert (Hm : n mod 10 < 10) by (apply Nat.mod_upper_bound; lia).
  pose proof (Nat.div_mod n 10 ltac:(lia)) as Hdm.
  remember (n mod 10) as d eqn:Ed. remember (n / 10) as q eqn:Eq.
  destruct (n <? 10) eqn:E.
  - apply Nat.ltb_lt in E. unfold parse_from. cbn [fold_left]. rewrite digit_val_char by exact Hm.
    assert (q = 0) by (subst q; apply Nat.div_small; exact E). lia.
  - apply Nat.ltb_ge in E.
    assert (Hd : q < f).
    { assert (n / 10 < n) by (apply Nat.div_lt; lia). lia. }
    fold (parse (dec_aux f q)). rewrite IH by exact Hd.
    unfold parse_from. cbn [fold_left]. rewrite digit_val_char by exact Hm. lia.
Qed.
Lemma parse_dec n : parse (dec n) = n.
Proof. apply parse_dec_aux. lia. Qed.
Lemma dec_inj n m : dec n = dec m -> n = m.
Proof. intros H. rewrite <- (parse_dec n), <- (parse_dec m), H. reflexivity. Qed.

(* ------------------------------------------------------------------ collapse / strip *)
Lemma forallb_impl {A} (f g : A -> bool) l :
  (forall x, f x = true -> g x = true) -> forallb f l = true -> forallb g l = true.
Proof.
  intros Hfg. induction l as [|a l IH]; simpl; [reflexivity|].
  intros H. apply andb_true_iff in H. destruct H as [H1 H2]. rewrite (Hfg _ H1), IH; auto.
Qed.

Lemma collapse_ok t : forall b, forallb is_ok (collapse b t) = true.
Proof.
  induction t as [|c t IH]; intros b; simpl; [reflexivity|].
  destruct (is_ok c) eqn:E; simpl.
  - rewrite E. apply IH.
  - destruct b; simpl; apply IH.
Qed.
Lemma collapse_id t : forallb is_ok t = true -> forall b, collapse b t = t.
Proof.
  induction t as [|c t IH]; intros H b; simpl; [reflexivity|].
  simpl in H. apply andb_true_iff in H. destruct H as [H1 H2]. rewrite H1, IH by exact H2. reflexivity.
Qed.

Lemma lstrip_spec l : exists p, l = p ++ lstrip l /\ forallb is_us p = true.
Proof.
  induction l as [|c t IH]; simpl.
  - exists []. split; reflexivity.
  - destruct (is_us c) eqn:E.
    + destruct IH as [p [H1 H2]]. exists (c :: p). simpl. rewrite E, H2. split; [congruence|reflexivity].
    + exists []. split; reflexivity.
Qed.
Lemma lstrip_head l c t : lstrip l = c :: t -> is_us c = false.
Proof.
  induction l as [|a l IH]; simpl; [discriminate|].
  destruct (is_us a) eqn:E; [exact IH|]. intros H. inversion H; subst. exact E.
Qed.
Lemma lstrip_us_app p l : forallb is_us p = true -> lstrip (p ++ l) = lstrip l.
Proof.
  induction p as [|a p IH]; simpl; [reflexivity|].
  intros H. apply andb_true_iff in H. destruct H as [H1 H2]. rewrite H1. apply IH. exact H2.
Qed.
Lemma lstrip_forallb f l : forallb f l = true -> forallb f (lstrip l) = true.
Proof.
  induction l as [|a l IH]; simpl; [reflexivity|].
  intros H. destruct (is_us a); [|exact H]. apply andb_true_iff in H. apply IH. tauto.
Qed.

Definition head_not_us (x : str) : Prop := match x with c :: _ => is_us c = false | [] => False end.
Definition last_not_us (x : str) : Prop := head_not_us (rev x).

Lemma lstrip_noop x : head_not_us x -> lstrip x = x.
Proof. destruct x as [|c t]; simpl; [tauto|]. intros H. rewrite H. reflexivity. Qed.

Lemma strip_fix p x u :
  head_not_us x -> last_not_us x -> forallb is_us p = true -> forallb is_us u = true ->
  strip (p ++ x ++ u) = x.
Proof.
  intros Hh Hl Hp Hu. unfold strip.
  rewrite lstrip_us_app by exact Hp.
  assert (Hxu : head_not_us (x ++ u)) by (destruct x; simpl in *; tauto).
  rewrite (lstrip_noop _ Hxu). rewrite rev_app_distr.
  rewrite lstrip_us_app by (rewrite forallb_rev; exact Hu).
  rewrite (lstrip_noop _ Hl). apply rev_involutive.
Qed.

Lemma strip_forallb f y : forallb f y = true -> forallb f (strip y) = true.
Proof.
  intros H. unfold strip. rewrite forallb_rev. apply lstrip_forallb.
  rewrite forallb_rev. apply lstrip_forallb. exact H.
Qed.

Lemma strip_props y : strip y = [] \/ (head_not_us (strip y) /\ last_not_us (strip y)).
Proof.
  unfold strip. set (a := lstrip y). destruct (lstrip (rev a)) as [|e b'] eqn:Eb.
  - left. reflexivity.
  - right. pose proof (lstrip_head _ _ _ Eb) as He.
    split.
    + destruct (lstrip_spec (rev a)) as [p [Hp _]]. rewrite Eb in Hp.
      assert (Ha : a = rev (e :: b') ++ rev p).
      { rewrite <- (rev_involutive a), Hp, rev_app_distr. reflexivity. }
      destruct (rev (e :: b')) as [|c r] eqn:Er.
      * apply (f_equal (@List.length _)) in Er. rewrite rev_length in Er. simpl in Er. lia.
      * simpl. simpl in Ha. unfold a in Ha. eapply lstrip_head. exact Ha.
    + unfold last_not_us. rewrite rev_involutive. simpl. exact He.
Qed.

(* ------------------------------------------------------------------ sanitize *)
Section WithReserved.
Variable reserved : list str.
Notation sanitize := (sanitize reserved).

(* the body left after lower / collapse / strip / c-prefix *)
Definition core (x : str) : Prop :=
  forallb is_ok x = true /\ (exists c r, x = c :: r /\ is_lower c = true) /\ last_not_us x.
(* the two suffix rules *)
Definition suffix_rules (x1 : str) : str :=
  let x2 := if matches_indexed x1 then x1 ++ ["_"%char] else x1 in
  if mem x2 reserved then x2 ++ ["_"%char] else x2.
(* "is an output of the sanitizer" *)
Definition sane (a : str) : Prop := exists t, sanitize t = Some a.

Lemma sanitize_view t out : sanitize t = Some out -> exists x1, core x1 /\ out = suffix_rules x1.
Proof.
  unfold Naming.sanitize. set (x := strip (collapse false t)).
  assert (Hok : forallb is_ok x = true) by (apply strip_forallb, collapse_ok).
  destruct (strip_props (collapse false t)) as [Hn|[Hh Hl]]; fold x in Hn || fold x in Hh, Hl.
  - rewrite Hn. discriminate.
  - destruct x as [|c r] eqn:Ex; [discriminate|].
    intros H. inversion H as [Hout]. clear H.
    simpl in Hh. simpl in Hok. apply andb_true_iff in Hok. destruct Hok as [Hc Hr].
    destruct (ok_cases c Hc Hh) as [Hlow|Hdig].
    + rewrite (lower_not_digit _ Hlow). exists (c :: r). split; [|reflexivity].
      split; [simpl; rewrite Hc, Hr; reflexivity|]. split; [exists c, r; auto|exact Hl].
    + rewrite Hdig. exists ("c"%char :: c :: r). split; [|reflexivity].
      split; [simpl; rewrite Hc, Hr; reflexivity|]. split; [exists "c"%char, (c :: r); auto|].
      unfold last_not_us in *. change (rev ("c"%char :: c :: r)) with (rev (c :: r) ++ ["c"%char]).
      destruct (rev (c :: r)); simpl in *; tauto.
Qed.

Lemma sanitize_of_core x1 p u :
  core x1 -> forallb is_us p = true -> forallb is_us u = true ->
  sanitize (p ++ x1 ++ u) = Some (suffix_rules x1).
Proof.
  intros [Hok [[c [r [Hx Hlow]]] Hl]] Hp Hu. unfold Naming.sanitize.
  rewrite collapse_id.
  2:{ rewrite !forallb_app', Hok, (forallb_impl _ _ _ us_ok Hp), (forallb_impl _ _ _ us_ok Hu). reflexivity. }
  rewrite strip_fix; auto.
  2:{ subst x1. simpl. apply lower_not_us. exact Hlow. }
  subst x1. rewrite (lower_not_digit _ Hlow). reflexivity.
Qed.

Lemma suffix_rules_shape x1 :
  exists u, suffix_rules x1 = x1 ++ u /\ forallb is_us u = true.
Proof.
  unfold suffix_rules. destruct (matches_indexed x1).
  - destruct (mem _ reserved).
    + exists ["_"%char; "_"%char]. rewrite <- app_assoc. split; reflexivity.
    + exists ["_"%char]. split; reflexivity.
  - destruct (mem _ reserved).
    + exists ["_"%char]. split; reflexivity.
    + exists []. rewrite app_nil_r. split; reflexivity.
Qed.

Lemma sanitize_valid t out :
  sanitize t = Some out ->
  forallb is_ok out = true /\ exists c r, out = c :: r /\ is_lower c = true.
Proof.
  intros H. destruct (sanitize_view _ _ H) as [x1 [[Hok [[c [r [Hx Hlow]]] Hl]] Hout]].
  destruct (suffix_rules_shape x1) as [u [Hs Hu]]. rewrite Hs in Hout. subst out. split.
  - rewrite forallb_app', Hok, (forallb_impl _ _ _ us_ok Hu). reflexivity.
  - subst x1. exists c, (r ++ u). split; [reflexivity|exact Hlow].
Qed.

Lemma sanitize_idem t out : sanitize t = Some out -> sanitize out = Some out.
Proof.
  intros H. destruct (sanitize_view _ _ H) as [x1 [Hc Hout]].
  destruct (suffix_rules_shape x1) as [u [Hs Hu]]. rewrite Hout at 1. rewrite Hs.
  rewrite Hout. apply (sanitize_of_core x1 [] u Hc eq_refl Hu).
Qed.

Lemma sanitize_not_reserved t out :
  (forall r, In r reserved -> ~ In (r ++ ["_"%char]) reserved) ->
  sanitize t = Some out -> ~ In out reserved.
Proof.
  intros H0 H. destruct (sanitize_view _ _ H) as [x1 [_ Hout]]. subst out. unfold suffix_rules.
  set (x2 := if matches_indexed x1 then x1 ++ ["_"%char] else x1).
  destruct (mem x2 reserved) eqn:E.
  - apply H0. apply mem_In. exact E.
  - apply mem_false. exact E.
Qed.

Lemma matches_indexed_snoc_us y : matches_indexed (y ++ ["_"%char]) = false.
Proof. unfold matches_indexed. rewrite rev_app_distr. reflexivity. Qed.

Lemma sanitize_not_indexed t out : sanitize t = Some out -> matches_indexed out = false.
Proof.
  intros H. destruct (sanitize_view _ _ H) as [x1 [_ Hout]]. subst out. unfold suffix_rules.
  destruct (matches_indexed x1) eqn:E1; destruct (mem _ reserved);
    try apply matches_indexed_snoc_us. exact E1.
Qed.
End WithReserved.

(* ------------------------------------------------------------------ rpartition('__') *)
Lemma rpart_unfold c1 c2 t suf :
  rpart (c1 :: c2 :: t) suf =
  if is_us c1 && is_us c2 then Some (rev t, suf) else rpart (c2 :: t) (c1 :: suf).
Proof. reflexivity. Qed.

Lemma rpart_digits r : forall q suf, forallb is_digit r = true ->
  rpart (r ++ "_"%char :: "_"%char :: q) suf = Some (rev q, rev r ++ suf).
Proof.
  induction r as [|c r IH]; intros q suf H.
  - reflexivity.
  - simpl in H. apply andb_true_iff in H. destruct H as [Hc Hr].
    change ((c :: r) ++ "_"%char :: "_"%char :: q) with (c :: (r ++ "_"%char :: "_"%char :: q)).
    remember (r ++ "_"%char :: "_"%char :: q) as z eqn:Ez.
    destruct z as [|c2 t]; [destruct r; discriminate|].
    rewrite rpart_unfold, (digit_not_us _ Hc). cbn [andb]. rewrite Ez, IH by exact Hr.
    simpl. rewrite <- app_assoc. reflexivity.
Qed.

Lemma rpart_inv r : forall suf b sf, rpart r suf = Some (b, sf) ->
  exists r1, r = r1 ++ "_"%char :: "_"%char :: rev b /\ sf = rev r1 ++ suf.
Proof.
  induction r as [|c1 r IH]; intros suf b sf H; [discriminate|].
  destruct r as [|c2 t]; [discriminate|].
  rewrite rpart_unfold in H. destruct (is_us c1 && is_us c2) eqn:E.
  - apply andb_true_iff in E. destruct E as [E1 E2]. apply us_eq in E1. apply us_eq in E2.
    inversion H; subst. exists []. rewrite rev_involutive. split; reflexivity.
  - apply IH in H. destruct H as [r1 [H1 H2]]. exists (c1 :: r1). split.
    + simpl. rewrite H1. reflexivity.
    + simpl. rewrite <- app_assoc. exact H2.
Qed.

Lemma rpart_none r : forall c suf, forallb (fun x => negb (is_us x)) r = true -> rpart (c :: r) suf = None.
Proof.
  induction r as [|c2 t IH]; intros c suf H; [reflexivity|].
  simpl in H. apply andb_true_iff in H. destruct H as [H1 H2].
  rewrite rpart_unfold. apply negb_true_iff in H1. rewrite H1, andb_false_r. apply IH. exact H2.
Qed.

(* ------------------------------------------------------------------ trailing digits *)
Lemma take_drop_digits ds c rest : forallb is_digit ds = true -> is_digit c = false ->
  take_digits (ds ++ c :: rest) = ds /\ drop_digits (ds ++ c :: rest) = c :: rest.
Proof.
  intros H Hc. induction ds as [|d ds IH]; simpl.
  - rewrite Hc. split; reflexivity.
  - simpl in H. apply andb_true_iff in H. destruct H as [H1 H2]. rewrite H1.
    destruct (IH H2) as [I1 I2]. rewrite I1, I2. split; reflexivity.
Qed.

Lemma all_digits_spec t : all_digits t = true <-> t <> [] /\ forallb is_digit t = true.
Proof.
  destruct t as [|c t]; unfold all_digits.
  - split; [discriminate|]. intros [H _]. contradiction.
  - split; [intros H; split; [discriminate|exact H]|]. intros [_ H]. exact H.
Qed.
Lemma all_digits_rev t : all_digits (rev t) = all_digits t.
Proof.
  destruct (all_digits t) eqn:E.
  - apply all_digits_spec in E. destruct E as [E1 E2]. apply all_digits_spec. split.
    + intros H. apply E1. rewrite <- (rev_involutive t), H. reflexivity.
    + rewrite forallb_rev. exact E2.
  - destruct (all_digits (rev t)) eqn:E'; [|reflexivity].
    apply all_digits_spec in E'. destruct E' as [E1 E2].
    assert (all_digits t = true).
    { apply all_digits_spec. split.
      - intros H. apply E1. rewrite H. reflexivity.
      - rewrite <- forallb_rev. exact E2. }
    congruence.
Qed.

Definition uu (p d : str) : str := p ++ "_"%char :: "_"%char :: d.

Lemma rev_uu p d : rev (uu p d) = rev d ++ "_"%char :: "_"%char :: rev p.
Proof. unfold uu. rewrite rev_app_distr. simpl. rewrite <- !app_assoc. reflexivity. Qed.

Lemma matches_indexed_uu p d : p <> [] -> all_digits d = true -> matches_indexed (uu p d) = true.
Proof.
  intros Hp Hd. apply all_digits_spec in Hd. destruct Hd as [Hd1 Hd2].
  unfold matches_indexed. rewrite rev_uu.
  destruct (take_drop_digits (rev d) "_"%char ("_"%char :: rev p)) as [H1 H2];
    [rewrite forallb_rev; exact Hd2|reflexivity|].
  rewrite H1, H2.
  destruct (rev d) as [|x xs] eqn:Ed.
  { exfalso. apply Hd1. rewrite <- (rev_involutive d), Ed. reflexivity. }
  destruct (rev p) as [|y ys] eqn:Ep.
  { exfalso. apply Hp. rewrite <- (rev_involutive p), Ep. reflexivity. }
  reflexivity.
Qed.

Lemma trailing_digits_uu p d : forallb is_digit d = true -> take_digits (rev (uu p d)) = rev d.
Proof.
  intros Hd. rewrite rev_uu.
  apply (take_drop_digits (rev d) "_"%char ("_"%char :: rev p)); [rewrite forallb_rev; exact Hd|reflexivity].
Qed.

Lemma uu_inj_num p p' i j : uu p (dec i) = uu p' (dec j) -> i = j.
Proof.
  intros H. apply (f_equal (fun x => take_digits (rev x))) in H.
  rewrite !trailing_digits_uu in H by apply dec_digits.
  apply dec_inj. rewrite <- (rev_involutive (dec i)), H. apply rev_involutive.
Qed.

Lemma all_digits_dec i : all_digits (dec i) = true.
Proof. apply all_digits_spec. split; [apply dec_nonempty|apply dec_digits]. Qed.

(* ------------------------------------------------------------------ colN *)
Lemma colN_not_indexed i : matches_indexed (colN i) = false.
Proof. unfold colN. rewrite app_assoc. apply matches_indexed_snoc_us. Qed.

Lemma colN_parse_colN i : colN_parse (colN i) = Some i.
Proof.
  unfold colN, colN_parse. cbn [s list_ascii_of_string app].
  rewrite rev_app_distr. cbn [rev app].
  change (is_us "_"%char) with true. cbn [andb].
  rewrite all_digits_rev, all_digits_dec, rev_involutive, parse_dec. reflexivity.
Qed.

Lemma colN_parse_inv a k : colN_parse a = Some k ->
  exists m, a = s "col" ++ m ++ ["_"%char] /\ all_digits m = true /\ k = parse m.
Proof.
  unfold colN_parse. destruct a as [|c1 a]; [discriminate|].
  destruct (Ascii.eqb c1 "c") eqn:E1; [apply Ascii.eqb_eq in E1; subst c1|].
  2:{ intros H. exfalso. revert H E1. all_chars c1. }
  destruct a as [|c2 a]; [discriminate|].
  destruct (Ascii.eqb c2 "o") eqn:E2; [apply Ascii.eqb_eq in E2; subst c2|].
  2:{ intros H. exfalso. revert H E2. all_chars c2. }
  destruct a as [|c3 a]; [discriminate|].
  destruct (Ascii.eqb c3 "l") eqn:E3; [apply Ascii.eqb_eq in E3; subst c3|].
  2:{ intros H. exfalso. revert H E3. all_chars c3. }
  destruct (rev a) as [|u m] eqn:Er; [discriminate|].
  destruct (is_us u) eqn:Eu; [|discriminate]. cbn [andb].
  destruct (all_digits m) eqn:Em; [|discriminate].
  intros H. inversion H; subst k. exists (rev m). apply us_eq in Eu. subst u.
  split; [|split; [rewrite all_digits_rev; exact Em|reflexivity]].
  cbn [s list_ascii_of_string app]. do 3 f_equal.
  rewrite <- (rev_involutive a), Er. reflexivity.
Qed.

Lemma colN_parse_indexed_false a k : colN_parse a = Some k -> matches_indexed a = false.
Proof.
  intros H. apply colN_parse_inv in H. destruct H as [m [Ha _]]. subst a.
  rewrite app_assoc. apply matches_indexed_snoc_us.
Qed.

Lemma colN_inj i j : colN i = colN j -> i = j.
Proof.
  intros H. assert (E : colN_parse (colN i) = colN_parse (colN j)) by (rewrite H; reflexivity).
  rewrite !colN_parse_colN in E. congruence.
Qed.

Lemma parse_indexed_colN reserved i : parse_indexed reserved (colN i) = PPlain.
Proof.
  unfold parse_indexed, colN. rewrite !rev_app_distr. cbn [rev app s list_ascii_of_string].
  rewrite rpart_none; [reflexivity|].
  rewrite forallb_app'. apply andb_true_iff. split; [|reflexivity].
  rewrite forallb_rev. eapply forallb_impl; [|apply dec_digits].
  intros x Hx. rewrite (digit_not_us _ Hx). reflexivity.
Qed.

(* ------------------------------------------------------------------ accessors *)
Section Accessors.
Variable reserved : list str.
Notation sanitize := (Naming.sanitize reserved).
Notation sane := (sane reserved).

Lemma parse_indexed_uu p d : p <> [] -> all_digits d = true ->
  parse_indexed reserved (uu p d) = PIdx (sanitize p) (parse d).
Proof.
  intros Hp Hd. unfold parse_indexed. rewrite rev_uu.
  pose proof Hd as Hd'. apply all_digits_spec in Hd'. destruct Hd' as [_ Hd2].
  rewrite rpart_digits by (rewrite forallb_rev; exact Hd2).
  rewrite !rev_involutive, app_nil_r, Hd. destruct p; [contradiction|reflexivity].
Qed.

Lemma parse_indexed_sane out : sane out -> parse_indexed reserved out = PPlain.
Proof.
  intros [t Ht]. pose proof (sanitize_not_indexed _ _ _ Ht) as Hni.
  destruct (sanitize_valid _ _ _ Ht) as [_ [c [r [Hout Hlow]]]].
  unfold parse_indexed. destruct (rpart (rev out) []) as [[b sf]|] eqn:E; [|reflexivity].
  destruct (all_digits sf) eqn:Ed; [|reflexivity]. exfalso.
  apply rpart_inv in E. destruct E as [r1 [E1 E2]]. rewrite app_nil_r in E2.
  assert (Hshape : out = uu b sf).
  { rewrite <- (rev_involutive out), E1, rev_app_distr. simpl. rewrite rev_involutive, E2.
    unfold uu. rewrite <- !app_assoc. reflexivity. }
  destruct b as [|b0 b'].
  - rewrite Hshape in Hout. unfold uu in Hout. simpl in Hout. inversion Hout; subst c.
    discriminate Hlow.
  - rewrite Hshape, matches_indexed_uu in Hni; [discriminate|discriminate|exact Ed].
Qed.

Lemma all_us_snoc u : u <> [] -> forallb is_us u = true ->
  exists u', u = u' ++ ["_"%char] /\ forallb is_us u' = true.
Proof.
  intros Hn Hu. destruct (exists_last Hn) as [u' [a Hua]]. subst u.
  rewrite forallb_app' in Hu. apply andb_true_iff in Hu. destruct Hu as [H1 H2].
  simpl in H2. rewrite andb_true_r in H2. apply us_eq in H2. subst a. exists u'. auto.
Qed.

Lemma dup_name_shape base idx : sane base ->
  exists p, p <> [] /\ dup_name base idx = uu p (dec idx) /\ sanitize p = Some base.
Proof.
  intros [t Ht]. destruct (sanitize_view _ _ _ Ht) as [x1 [Hc Hout]].
  destruct (suffix_rules_shape reserved x1) as [u [Hs Hu]].
  pose proof Hc as [Hok [[c [r [Hx Hlow]]] Hl]].
  destruct u as [|u0 u1].
  - (* base = x1: does not end with "_" *)
    rewrite app_nil_r in Hs. assert (Hb : base = x1) by congruence.
    exists base. split; [rewrite Hb, Hx; discriminate|]. split.
    + unfold dup_name, ends_us, uu. rewrite Hb. unfold last_not_us in Hl.
      destruct (rev x1) as [|e es]; [contradiction|]. simpl in Hl. rewrite Hl. reflexivity.
    + eapply sanitize_idem. exact Ht.
  - destruct (all_us_snoc (u0 :: u1) ltac:(discriminate) Hu) as [u' [Hu' Hu'us]].
    exists (x1 ++ u'). split; [rewrite Hx; discriminate|]. split.
    + unfold dup_name, ends_us, uu. rewrite Hout, Hs, Hu'.
      rewrite !rev_app_distr. cbn [rev app]. change (is_us "_"%char) with true. cbn [app].
      rewrite <- !app_assoc. reflexivity.
    + rewrite Hout. apply (sanitize_of_core reserved x1 [] u' Hc eq_refl Hu'us).
Qed.

Lemma dup_name_indexed base idx : sane base -> matches_indexed (dup_name base idx) = true.
Proof.
  intros Hs. destruct (dup_name_shape base idx Hs) as [p [Hp [Hd _]]]. rewrite Hd.
  apply matches_indexed_uu; [exact Hp|apply all_digits_dec].
Qed.

Lemma dup_name_inj b b' i j : sane b -> sane b' -> dup_name b i = dup_name b' j -> i = j.
Proof.
  intros Hb Hb' H. destruct (dup_name_shape b i Hb) as [p [_ [Hd _]]].
  destruct (dup_name_shape b' j Hb') as [p' [_ [Hd' _]]]. rewrite Hd, Hd' in H.
  eapply uu_inj_num. exact H.
Qed.

(* H1: no reserved name r makes r ++ "_" look like a colN_ accessor *)
Hypothesis H1 : forall r, In r reserved -> colN_parse (r ++ ["_"%char]) = None.

Lemma sane_not_colN out : sane out -> colN_parse out = None.
Proof.
  intros [t Ht]. destruct (sanitize_view _ _ _ Ht) as [x1 [Hc Hout]]. subst out.
  unfold suffix_rules. cbv zeta.
  match goal with |- context [mem ?a reserved] => destruct (mem a reserved) eqn:Em end.
  - apply H1. apply mem_In. exact Em.
  - destruct (matches_indexed x1) eqn:Ei.
    + destruct (colN_parse (x1 ++ ["_"%char])) as [k|] eqn:Ec; [|reflexivity]. exfalso.
      apply colN_parse_inv in Ec. destruct Ec as [m [Hm [Hd _]]].
      rewrite app_assoc in Hm. apply app_inj_tail in Hm. destruct Hm as [Hm _].
      rewrite Hm in Ei. unfold matches_indexed in Ei. rewrite rev_app_distr in Ei.
      apply all_digits_spec in Hd. destruct Hd as [_ Hd].
      destruct (take_drop_digits (rev m) "l"%char ["o"%char; "c"%char]) as [T1 T2];
        [rewrite forallb_rev; exact Hd|reflexivity|].
      cbn [s list_ascii_of_string rev app] in Ei. rewrite T1, T2 in Ei.
      destruct (rev m); discriminate.
    + destruct (colN_parse x1) as [k|] eqn:Ec; [|reflexivity]. exfalso.
      apply colN_parse_inv in Ec. destruct Ec as [m [Hm _]].
      destruct Hc as [_ [_ Hl]]. unfold last_not_us in Hl. rewrite Hm in Hl.
      rewrite !rev_app_distr in Hl. simpl in Hl. discriminate.
Qed.

(* ---- membership in the generated list ---- *)
Lemma headers_loop_In l : forall seen idx a, In a (headers_loop reserved seen idx l) ->
  (exists j, idx <= j /\ a = colN j) \/
  (exists j b, idx <= j /\ sane b /\ a = dup_name b j) \/
  (sane a /\ ~ In a seen).
Proof.
  induction l as [|nm l IH]; intros seen idx a H; [contradiction|].
  cbn [headers_loop] in H.
  assert (Hrec : forall seen', (forall x, In x seen -> In x seen') ->
            In a (headers_loop reserved seen' (S idx) l) ->
            (exists j, idx <= j /\ a = colN j) \/
            (exists j b, idx <= j /\ sane b /\ a = dup_name b j) \/ (sane a /\ ~ In a seen)).
  { intros seen' Hsub HI. destruct (IH _ _ _ HI) as [[j [Hj Ha]]|[[j [b [Hj Hb]]]|[Hs Hn]]].
    - left. exists j. split; [lia|exact Ha].
    - right. left. exists j, b. split; [lia|exact Hb].
    - right. right. split; [exact Hs|]. intros HI'. apply Hn, Hsub, HI'. }
  destruct nm as [tx|].
  - destruct (sanitize tx) as [base|] eqn:Es.
    + destruct (mem base seen) eqn:Em.
      * destruct H as [H|H].
        -- right. left. exists idx, base. split; [lia|]. split; [exists tx; exact Es|symmetry; exact H].
        -- apply (Hrec seen); auto.
      * destruct H as [H|H].
        -- right. right. subst a. split; [exists tx; exact Es|]. apply mem_false. exact Em.
        -- apply (Hrec (base :: seen)); [intros x Hx; right; exact Hx|exact H].
    + destruct H as [H|H].
      * left. exists idx. split; [lia|symmetry; exact H].
      * apply (Hrec seen); auto.
  - destruct H as [H|H].
    + left. exists idx. split; [lia|symmetry; exact H].
    + apply (Hrec seen); auto.
Qed.

Lemma sane_neq_colN a j : sane a -> a <> colN j.
Proof. intros Hs E. pose proof (sane_not_colN a Hs) as H. rewrite E, colN_parse_colN in H. discriminate. Qed.
Lemma sane_neq_dup a b j : sane a -> sane b -> a <> dup_name b j.
Proof.
  intros [t Ht] Hb E. pose proof (sanitize_not_indexed _ _ _ Ht) as H.
  rewrite E, dup_name_indexed in H by exact Hb. discriminate.
Qed.
Lemma colN_neq_dup i b j : sane b -> colN i <> dup_name b j.
Proof.
  intros Hb E. pose proof (colN_not_indexed i) as H. rewrite E, dup_name_indexed in H by exact Hb.
  discriminate.
Qed.

Lemma headers_loop_NoDup l : forall seen idx, NoDup (headers_loop reserved seen idx l).
Proof.
  induction l as [|nm l IH]; intros seen idx; [constructor|].
  cbn [headers_loop].
  assert (HcolN : forall seen', ~ In (colN idx) (headers_loop reserved seen' (S idx) l)).
  { intros seen' HI. destruct (headers_loop_In _ _ _ _ HI) as [[j [Hj Ha]]|[[j [b [Hj [Hb Ha]]]]|[Hs Hn]]].
    - apply colN_inj in Ha. lia.
    - eapply colN_neq_dup; eauto.
    - eapply sane_neq_colN; eauto. }
  destruct nm as [tx|]; [|constructor; [apply HcolN|apply IH]].
  destruct (sanitize tx) as [base|] eqn:Es; [|constructor; [apply HcolN|apply IH]].
  assert (Hsb : sane base) by (exists tx; exact Es).
  destruct (mem base seen) eqn:Em; constructor; try apply IH.
  - intros HI. destruct (headers_loop_In _ _ _ _ HI) as [[j [Hj Ha]]|[[j [b [Hj [Hb Ha]]]]|[Hs Hn]]].
    + symmetry in Ha. eapply colN_neq_dup; eauto.
    + apply dup_name_inj in Ha; auto. lia.
    + eapply sane_neq_dup; [exact Hs|exact Hsb|reflexivity].
  - intros HI. destruct (headers_loop_In _ _ _ _ HI) as [[j [Hj Ha]]|[[j [b [Hj [Hb Ha]]]]|[Hs Hn]]].
    + eapply sane_neq_colN; [exact Hsb|exact Ha].
    + eapply sane_neq_dup; [exact Hsb|exact Hb|exact Ha].
    + apply Hn. left. reflexivity.
Qed.

Lemma headers_loop_length l : forall seen idx, List.length (headers_loop reserved seen idx l) = List.length l.
Proof.
  induction l as [|nm l IH]; intros seen idx; [reflexivity|]. cbn [headers_loop].
  destruct nm as [tx|]; [destruct (sanitize tx); [destruct (mem _ seen)|]|]; simpl; rewrite IH; reflexivity.
Qed.

(* what the accessor at position k is *)
Lemma headers_loop_nth l : forall seen idx k, k < List.length l ->
  let a := nth k (headers_loop reserved seen idx l) [] in
  match nth k l None with
  | None => a = colN (idx + k)
  | Some tx => match sanitize tx with
               | None => a = colN (idx + k)
               | Some base => a = base \/ a = dup_name base (idx + k)
               end
  end.
Proof.
  induction l as [|nm l IH]; intros seen idx k Hk; [simpl in Hk; lia|].
  cbn [headers_loop]. destruct k as [|k].
  - rewrite Nat.add_0_r. simpl.
    destruct nm as [tx|]; [|reflexivity].
    destruct (sanitize tx) as [base|]; [|reflexivity].
    destruct (mem base seen); simpl; auto.
  - simpl in Hk. assert (Hk' : k < List.length l) by lia.
    replace (idx + S k) with (S idx + k) by lia.
    destruct nm as [tx|]; [destruct (sanitize tx) as [base|]; [destruct (mem base seen)|]|];
      simpl; apply IH; exact Hk'.
Qed.

(* ---- the dict built by _build_column_map is one entry per column, in order ---- *)
Lemma dict_set_fresh d k v : ~ In k (map fst d) -> dict_set d k v = d ++ [(k, v)].
Proof.
  induction d as [|[k' v'] d IH]; intros H; [reflexivity|].
  simpl in *. rewrite str_eqb_neq by (intros E; apply H; left; congruence).
  rewrite IH by tauto. reflexivity.
Qed.

Lemma build_loop_combine l : forall seen idx d,
  NoDup (map fst d ++ headers_loop reserved seen idx l) ->
  build_loop reserved seen idx l d =
  d ++ combine (headers_loop reserved seen idx l) (seq idx (List.length l)).
Proof.
  induction l as [|nm l IH]; intros seen idx d Hnd.
  - simpl. rewrite app_nil_r. reflexivity.
  - cbn [build_loop headers_loop List.length seq].
    assert (Hstep : forall a seen', 
              NoDup (map fst d ++ a :: headers_loop reserved seen' (S idx) l) ->
              build_loop reserved seen' (S idx) l (dict_set d a idx) =
              d ++ combine (a :: headers_loop reserved seen' (S idx) l) (idx :: seq (S idx) (List.length l))).
    { intros a seen' Hn. rewrite dict_set_fresh.
      2:{ apply NoDup_remove_2 in Hn. intros HI. apply Hn. apply in_or_app. left. exact HI. }
      rewrite IH.
      - rewrite <- app_assoc. reflexivity.
      - rewrite map_app. simpl. rewrite <- app_assoc. exact Hn. }
    cbn [headers_loop] in Hnd. revert Hnd.
    destruct nm as [tx|]; [destruct (sanitize tx) as [base|]; [destruct (mem base seen)|]|];
      intros Hnd; apply Hstep; exact Hnd.
Qed.
End Accessors.

(* ------------------------------------------------------------------ tables *)
Section Tables.
Variable reserved : list str.
Hypothesis H1 : forall r, In r reserved -> colN_parse (r ++ ["_"%char]) = None.
Notation sanitize := (Naming.sanitize reserved).
Notation headers := (Naming.headers reserved).
Notation build_map := (Naming.build_map reserved).

Lemma headers_NoDup names : NoDup (headers names).
Proof. apply headers_loop_NoDup. exact H1. Qed.

Lemma headers_length names : List.length (headers names) = List.length names.
Proof. apply headers_loop_length. Qed.

Lemma build_map_combine names :
  build_map names = combine (headers names) (seq 0 (List.length names)).
Proof.
  unfold Naming.build_map. rewrite build_loop_combine; [reflexivity|].
  simpl. apply headers_NoDup.
Qed.

Lemma map_fst_combine {A B} (l : list A) (m : list B) :
  List.length l = List.length m -> map fst (combine l m) = l.
Proof.
  revert m. induction l as [|a l IH]; intros [|b m] H; simpl in *; try reflexivity; try lia.
  rewrite IH by lia. reflexivity.
Qed.

Lemma dir_is_headers names : dir_cols reserved names = headers names.
Proof.
  unfold dir_cols. rewrite build_map_combine. apply map_fst_combine.
  rewrite headers_length, seq_length. reflexivity.
Qed.

Lemma dict_get_combine hs : forall k i, NoDup hs -> i < List.length hs ->
  dict_get (combine hs (seq k (List.length hs))) (nth i hs []) = Some (k + i).
Proof.
  induction hs as [|a hs IH]; intros k i Hnd Hi; [simpl in Hi; lia|].
  inversion Hnd as [|? ? Hna Hnd']; subst. cbn [List.length seq combine dict_get].
  destruct i as [|i].
  - simpl. rewrite str_eqb_refl. f_equal. lia.
  - simpl in Hi. cbn [nth]. rewrite str_eqb_neq.
    + rewrite IH by (auto; lia). f_equal. lia.
    + intros E. apply Hna. rewrite <- E. apply nth_In. lia.
Qed.

Lemma map_lookup_own names i : i < List.length names ->
  dict_get (build_map names) (nth i (headers names) []) = Some i.
Proof.
  intros Hi. rewrite build_map_combine, <- (headers_length names).
  rewrite dict_get_combine; [reflexivity|apply headers_NoDup|rewrite headers_length; exact Hi].
Qed.

(* the accessor at position i, by cases *)
Lemma headers_nth names i : i < List.length names ->
  let a := nth i (headers names) [] in
  match nth i names None with
  | None => a = colN i
  | Some tx => match sanitize tx with
               | None => a = colN i
               | Some base => a = base \/ a = dup_name base i
               end
  end.
Proof. intros Hi. apply (headers_loop_nth reserved names [] 0 i Hi). Qed.

Lemma getattr_own names cmap i :
  i < List.length names ->
  dict_get cmap (nth i (headers names) []) = Some i ->
  getattr_with reserved names cmap (nth i (headers names) []) = Some i.
Proof.
  intros Hi Hmap. pose proof (headers_nth names i Hi) as Hn. cbv zeta in Hn.
  unfold getattr_with.
  assert (HcolN : nth i (headers names) [] = colN i ->
          match parse_indexed reserved (nth i (headers names) []) with
          | PPlain => match colN_parse (nth i (headers names) []) with
                      | Some idx => if idx <? List.length names then Some idx else None
                      | None => dict_get cmap (nth i (headers names) [])
                      end
          | PErr => None
          | PIdx base n =>
              if n <? List.length names
              then match base with
                   | Some b => if ostr_eqb (sanitize_stored reserved (nth n names None)) (Some b) then Some n else None
                   | None => None
                   end
              else None
          end = Some i).
  { intros E. rewrite E, parse_indexed_colN, colN_parse_colN.
    apply Nat.ltb_lt in Hi. rewrite Hi. reflexivity. }
  destruct (nth i names None) as [tx|] eqn:En; [|apply HcolN; exact Hn].
  destruct (sanitize tx) as [base|] eqn:Es; [|apply HcolN; exact Hn].
  assert (Hsb : sane reserved base) by (exists tx; exact Es).
  destruct Hn as [Hn|Hn].
  - rewrite Hn in *. rewrite parse_indexed_sane by exact Hsb.
    rewrite (sane_not_colN reserved H1 base Hsb). exact Hmap.
  - rewrite Hn. destruct (dup_name_shape reserved base i Hsb) as [p [Hp [Hd Hsp]]].
    rewrite Hd, parse_indexed_uu by (auto; apply all_digits_dec).
    rewrite parse_dec, Hsp. apply Nat.ltb_lt in Hi. rewrite Hi, En.
    unfold sanitize_stored. rewrite Es. simpl. rewrite str_eqb_refl. reflexivity.
Qed.

Lemma resolve_own names i : i < List.length names ->
  resolve reserved names (nth i (headers names) []) = Some i.
Proof. intros Hi. apply getattr_own; [exact Hi|apply map_lookup_own; exact Hi]. Qed.

Lemma setattr_own names refreshed i :
  i < List.length names ->
  dict_get refreshed (nth i (headers names) []) = Some i ->
  setattr_target reserved names refreshed (nth i (headers names) []) = Some i.
Proof.
  intros Hi Hmap. pose proof (headers_nth names i Hi) as Hn. cbv zeta in Hn.
  unfold setattr_target.
  destruct (nth i names None) as [tx|] eqn:En.
  2:{ rewrite Hn in *. rewrite parse_indexed_colN. exact Hmap. }
  destruct (sanitize tx) as [base|] eqn:Es.
  2:{ rewrite Hn in *. rewrite parse_indexed_colN. exact Hmap. }
  assert (Hsb : sane reserved base) by (exists tx; exact Es).
  destruct Hn as [Hn|Hn].
  - rewrite Hn in *. rewrite parse_indexed_sane by exact Hsb. exact Hmap.
  - rewrite Hn. destruct (dup_name_shape reserved base i Hsb) as [p [Hp [Hd Hsp]]].
    rewrite Hd, parse_indexed_uu by (auto; apply all_digits_dec).
    rewrite parse_dec, Hsp. apply Nat.ltb_lt in Hi. rewrite Hi, En.
    unfold sanitize_stored. rewrite Es. simpl. rewrite str_eqb_refl. reflexivity.
Qed.

(* ---- t[name] ---- *)
Lemma find_id_first l : forall k idx i,
  i < List.length l -> nid (nth i l (mkN 0 None)) = k ->
  (forall j, j < i -> nid (nth j l (mkN 0 None)) <> k) ->
  find_id k idx l = Some (idx + i).
Proof.
  induction l as [|c l IH]; intros k idx i Hi Hk Hfirst; [simpl in Hi; lia|].
  simpl. destruct i as [|i].
  - simpl in Hk. rewrite Hk, Nat.eqb_refl. f_equal. lia.
  - destruct (nid c =? k) eqn:E.
    + apply Nat.eqb_eq in E. exfalso. apply (Hfirst 0); [lia|exact E].
    + rewrite (IH k (S idx) i); [f_equal; lia|simpl in Hi; lia|exact Hk|].
      intros j Hj. apply (Hfirst (S j)). lia.
Qed.

Lemma getitem_first cs i klow :
  i < List.length cs ->
  (forall j, j < i -> nid (nth j cs (mkN 0 None)) <> nid (nth i cs (mkN 0 None))) ->
  getitem_str reserved cs (nid (nth i cs (mkN 0 None))) klow = Some i.
Proof.
  intros Hi Hfirst. unfold getitem_str.
  rewrite (find_id_first cs _ 0 i Hi eq_refl Hfirst). reflexivity.
Qed.

(* ---- the dot row of the repr lists the map's keys of the displayed columns ---- *)
Lemma repr_dot_row_cells names row :
  repr_dot_row reserved names = Some row ->
  let n := List.length names in
  let cells := map (fun i => "."%char :: nth i (dir_cols reserved names) []) (shown_indices n) in
  row = if 10 <? n then firstn 5 cells ++ [dots] ++ skipn 5 cells else cells.
Proof.
  unfold repr_dot_row. destruct (List.length names =? 0); [discriminate|].
  match goal with |- (if ?c then _ else _) = _ -> _ => destruct c end; [|discriminate].
  intros H. inversion H as [Hrow]. clear H. cbv zeta.
  rewrite dir_is_headers, map_map. reflexivity.
Qed.

(* ------------------------------------------------------------------ histories *)
Variable dir_stores : bool.
Notation step := (Naming.step reserved dir_stores).
Notation run := (Naming.run reserved dir_stores).
Notation refresh := (Naming.refresh reserved).
Notation rebuild := (Naming.rebuild reserved).

Definition Inv (st : tstate) : Prop :=
  existsb wild (cols st) = false -> cmap st = build_map (names_of st).

Lemma existsb_wild_tame cs : existsb wild (map tame cs) = false.
Proof. induction cs as [|c cs IH]; simpl; [reflexivity|exact IH]. Qed.

Lemma names_map_tame cs :
  map (fun c => ntext (cn c)) (map tame cs) = map (fun c => ntext (cn c)) cs.
Proof. rewrite map_map. reflexivity. Qed.

Lemma rebuild_fresh cs : cmap (rebuild cs) = build_map (names_of (rebuild cs)).
Proof. unfold Naming.rebuild, names_of. simpl. rewrite names_map_tame. reflexivity. Qed.
Lemma rebuild_inv cs : Inv (rebuild cs).
Proof. intros _. apply rebuild_fresh. Qed.
Lemma rebuild_names cs : names_of (rebuild cs) = map (fun c => ntext (cn c)) cs.
Proof. unfold Naming.rebuild, names_of. simpl. apply names_map_tame. Qed.
Lemma rebuild_cnames cs : cnames_of (rebuild cs) = map cn cs.
Proof. unfold Naming.rebuild, cnames_of. simpl. rewrite map_map. reflexivity. Qed.

Lemma refresh_names st : names_of (refresh st) = names_of st.
Proof. unfold Naming.refresh. destruct (existsb wild (cols st)); [apply rebuild_names|reflexivity]. Qed.
Lemma refresh_cnames st : cnames_of (refresh st) = cnames_of st.
Proof. unfold Naming.refresh. destruct (existsb wild (cols st)); [apply rebuild_cnames|reflexivity]. Qed.
Lemma refresh_fresh st : Inv st -> cmap (refresh st) = build_map (names_of (refresh st)).
Proof.
  intros HI. unfold Naming.refresh. destruct (existsb wild (cols st)) eqn:E.
  - apply rebuild_fresh.
  - apply HI. exact E.
Qed.
Lemma refresh_inv st : Inv st -> Inv (refresh st).
Proof. intros HI _. apply refresh_fresh. exact HI. Qed.

(* what a consumer sees through _current_column_map() *)
Lemma consulted_fresh st : Inv st -> consulted reserved st = build_map (names_of st).
Proof. intros HI. unfold consulted. rewrite refresh_fresh by exact HI. rewrite refresh_names. reflexivity. Qed.

Lemma existsb_wild_set_true cs i c :
  i < List.length cs -> existsb wild (set_nth i (mkC c true) cs) = true.
Proof.
  revert i. induction cs as [|x cs IH]; intros i Hi; [simpl in Hi; lia|].
  destruct i as [|i]; simpl; [reflexivity|]. rewrite IH by (simpl in Hi; lia). apply orb_true_r.
Qed.

Lemma step_inv st o : (o = ODir -> dir_stores = true) -> Inv st -> Inv (fst (step st o)).
Proof.
  intros Hdir HI. destruct o; cbn [Naming.step].
  - destruct (rename_first (cols st) old new); [apply rebuild_inv|exact HI].
  - destruct (rename_many (cols st) olds news); [apply rebuild_inv|exact HI].
  - destruct (i <? List.length (cols st)) eqn:E; [|exact HI].
    apply Nat.ltb_lt in E. intros Hw. cbn [fst cols] in Hw.
    rewrite existsb_wild_set_true in Hw by exact E. discriminate.
  - destruct (parse_indexed reserved attr).
    + destruct (dict_get (cmap (refresh st)) attr); [apply rebuild_inv|apply refresh_inv; exact HI].
    + destruct (setattr_target reserved (names_of st) (cmap st) attr); [apply rebuild_inv|exact HI].
    + destruct (setattr_target reserved (names_of st) (cmap st) attr); [apply rebuild_inv|exact HI].
  - apply rebuild_inv.
  - rewrite (Hdir eq_refl). apply refresh_inv. exact HI.
  - apply refresh_inv. exact HI.
  - apply refresh_inv. exact HI.
  - apply refresh_inv. exact HI.
  - apply refresh_inv. exact HI.
Qed.

Lemma init_inv ns : Inv (init reserved ns).
Proof. apply rebuild_inv. Qed.

Lemma run_inv h : forall st, (In ODir h -> dir_stores = true) -> Inv st -> Inv (run st h).
Proof.
  induction h as [|o h IH]; intros st Hd HI; [exact HI|].
  cbn [Naming.run]. apply IH.
  - intros Hin. apply Hd. right. exact Hin.
  - apply step_inv; [|exact HI]. intros E. apply Hd. left. exact E.
Qed.

Lemma cmap_fresh ns h : (In ODir h -> dir_stores = true) ->
  consulted reserved (run (init reserved ns) h) = build_map (names_of (run (init reserved ns) h)).
Proof. intros Hd. apply consulted_fresh. apply run_inv; [exact Hd|apply init_inv]. Qed.

(* every consumer of the map resolves an advertised accessor to its own column *)
Lemma probes_own st i : Inv st -> i < List.length (cols st) ->
  let a := nth i (headers (names_of st)) [] in
  snd (step st (OGetattr a)) = RIdx i /\ snd (step st (ORow a)) = RIdx i /\
  snd (step st (OSetitem a)) = RIdx i /\ snd (step st (OReplace a)) = RIdx i.
Proof.
  intros HI Hi a.
  assert (Hlen : i < List.length (names_of st)) by (unfold names_of; rewrite map_length; exact Hi).
  assert (Hmap : dict_get (cmap (refresh st)) a = Some i).
  { rewrite refresh_fresh, refresh_names by exact HI. apply map_lookup_own. exact Hlen. }
  cbn [Naming.step snd]. repeat split.
  - rewrite refresh_names. unfold a. rewrite getattr_own; [reflexivity|exact Hlen|exact Hmap].
  - rewrite Hmap. reflexivity.
  - rewrite Hmap. reflexivity.
  - pose proof (setattr_own (names_of st) (cmap (refresh st)) i Hlen Hmap) as Hs.
    fold a in Hs. unfold setattr_target in Hs.
    destruct (parse_indexed reserved a) eqn:Ep.
    + rewrite Hs. reflexivity.
    + discriminate.
    + unfold setattr_target. rewrite Ep. rewrite Hs. reflexivity.
Qed.

(* the stored names are never touched by lookups, dir, repr or column replacement *)
Lemma set_nth_same_cn (cs : list col) : map cn (map tame cs) = map cn cs.
Proof. rewrite map_map. reflexivity. Qed.

Lemma probe_keeps_names st o :
  match o with ORename _ _ | ORenames _ _ | OView _ _ | OAppend _ => False | _ => True end ->
  cnames_of (fst (step st o)) = cnames_of st.
Proof.
  destruct o; intros Hk; try contradiction; cbn [Naming.step].
  - destruct (parse_indexed reserved attr).
    + destruct (dict_get (cmap (refresh st)) attr); cbn [fst].
      * rewrite rebuild_cnames. apply refresh_cnames.
      * apply refresh_cnames.
    + destruct (setattr_target reserved (names_of st) (cmap st) attr); [apply rebuild_cnames|reflexivity].
    + destruct (setattr_target reserved (names_of st) (cmap st) attr); [apply rebuild_cnames|reflexivity].
  - destruct dir_stores; cbn [fst]; [apply refresh_cnames|].
    unfold cnames_of. simpl. apply set_nth_same_cn.
  - apply refresh_cnames.
  - apply refresh_cnames.
  - apply refresh_cnames.
  - apply refresh_cnames.
Qed.
End Tables.

(* ------------------------------------------------------------------ the documented rules *)
Section Rules.
Variable reserved : list str.
Notation sanitize := (Naming.sanitize reserved).

(* a name that is already a clean identifier is its own accessor *)
Lemma sanitize_clean_identity x :
  core x -> matches_indexed x = false -> ~ In x reserved -> sanitize x = Some x.
Proof.
  intros Hc Hm Hr. pose proof (sanitize_of_core reserved x [] [] Hc eq_refl eq_refl) as H.
  simpl in H. rewrite app_nil_r in H. rewrite H. unfold suffix_rules. rewrite Hm.
  apply mem_false in Hr. rewrite Hr. reflexivity.
Qed.

Definition alnum (c : ascii) : bool := is_lower c || is_digit c.

Lemma ok_us_alnum c : is_ok c = true -> is_us c = negb (alnum c).
Proof. unfold alnum. all_chars c. Qed.
Lemma not_ok_not_alnum c : is_ok c = false -> alnum c = false.
Proof. unfold alnum. all_chars c. Qed.

Lemma collapse_all_us t : forall b,
  forallb is_us (collapse b t) = forallb (fun c => negb (alnum c)) t.
Proof.
  induction t as [|c t IH]; intros b; simpl; [reflexivity|].
  destruct (is_ok c) eqn:E; simpl.
  - rewrite (ok_us_alnum _ E), IH. reflexivity.
  - rewrite (not_ok_not_alnum _ E). simpl. destruct b; simpl; apply IH.
Qed.

Lemma lstrip_nil_iff y : lstrip y = [] <-> forallb is_us y = true.
Proof.
  induction y as [|c y IH]; simpl; [tauto|].
  destruct (is_us c); simpl; [exact IH|]. split; discriminate.
Qed.
Lemma strip_nil_iff y : strip y = [] <-> forallb is_us y = true.
Proof.
  unfold strip. split.
  - intros H. apply lstrip_nil_iff.
    assert (H2 : lstrip (rev (lstrip y)) = []).
    { rewrite <- (rev_involutive (lstrip (rev (lstrip y)))), H. reflexivity. }
    apply lstrip_nil_iff in H2. rewrite forallb_rev in H2.
    destruct (lstrip y) as [|c r] eqn:E; [reflexivity|].
    pose proof (lstrip_head _ _ _ E) as Hc. simpl in H2. rewrite Hc in H2. discriminate.
  - intros H. apply lstrip_nil_iff in H. rewrite H. reflexivity.
Qed.

(* None exactly when the (lowered) name has no ASCII letter or digit *)
Lemma sanitize_none_iff t : sanitize t = None <-> forallb (fun c => negb (alnum c)) t = true.
Proof.
  rewrite <- (collapse_all_us t false), <- strip_nil_iff. unfold Naming.sanitize.
  destruct (strip (collapse false t)); split; try reflexivity; discriminate.
Qed.
End Rules.

(* ------------------------------------------------------------------ the dir() defect *)
(* With the __dir__ of the current tree (dir_stores = false) the freshness invariant fails:
   rename column 0 through a live view, call dir(t): the map consulted afterwards is stale. *)
Lemma dir_breaks_freshness :
  let ns := [mkN 0 (Some (s "a")); mkN 1 (Some (s "b"))] in
  let h := [OView 0 (mkN 2 (Some (s "z"))); ODir] in
  let st := run [] false (init [] ns) h in
  consulted [] st <> build_map [] (names_of st) /\
  snd (step [] false st (OGetattr (nth 0 (headers [] (names_of st)) []))) = RFail.
Proof. vm_compute. split; [discriminate|reflexivity]. Qed.

Lemma reserved_ok_spec reserved : reserved_ok reserved = true ->
  (forall r, In r reserved -> ~ In (r ++ ["_"%char]) reserved) /\
  (forall r, In r reserved -> colN_parse (r ++ ["_"%char]) = None).
Proof.
  unfold reserved_ok. rewrite forallb_forall. intros H. split; intros r Hr;
    specialize (H r Hr); apply andb_true_iff in H; destruct H as [Ha Hb].
  - apply mem_false. apply negb_true_iff. exact Ha.
  - destruct (colN_parse (r ++ ["_"%char])); [discriminate|reflexivity].
Qed.
