(* Proofs/Group.v — lemmas for C12 / C13. *)
From Coq Require Import List Bool Arith ZArith Lia.
From Serif Require Import Model.Group Spec.Group.
Import ListNotations.

(* ------------------------------------------------------------------ the partition index *)
Section DictProofs.
  Variable K : Type.
  Variable keq : K -> K -> bool.
  Hypothesis keq_refl : forall a, keq a a = true.
  Hypothesis keq_sym : forall a b, keq a b = keq b a.
  Hypothesis keq_trans : forall a b c, keq a b = true -> keq b c = true -> keq a c = true.

  Lemma keq_false_l a b c : keq a b = true -> keq a c = false -> keq b c = false.
  Proof.
    intros H1 H2. destruct (keq b c) eqn:E; [|reflexivity].
    rewrite (keq_trans _ _ _ H1 E) in H2. discriminate.
  Qed.

  Lemma build_from_snoc ks : forall d n0 k,
    build_from keq d n0 (ks ++ [k]) = dict_add keq (build_from keq d n0 ks) k (n0 + List.length ks).
  Proof.
    induction ks as [|a t IH]; intros d n0 k; cbn [app build_from List.length].
    - rewrite Nat.add_0_r. reflexivity.
    - rewrite IH. f_equal. lia.
  Qed.

  Lemma partition_snoc ks k :
    partition keq (ks ++ [k]) = dict_add keq (partition keq ks) k (List.length ks).
  Proof. unfold partition. rewrite build_from_snoc. reflexivity. Qed.

  Lemma first_keys_snoc ks k :
    first_keys keq (ks ++ [k]) = if has keq ks k then first_keys keq ks else first_keys keq ks ++ [k].
  Proof.
    induction ks as [|a t IH]; cbn [app first_keys has existsb filter]; [reflexivity|].
    rewrite IH. fold (has keq t k). rewrite (keq_sym k a).
    destruct (has keq t k) eqn:Eh.
    - rewrite orb_true_r. reflexivity.
    - rewrite orb_false_r. rewrite filter_app. cbn [filter].
      destruct (keq a k); cbn [negb]; [rewrite app_nil_r; reflexivity|reflexivity].
  Qed.

  Lemma group_rows_snoc ks k q :
    group_rows keq (ks ++ [k]) q
    = group_rows keq ks q ++ (if keq q k then [List.length ks] else []).
  Proof.
    unfold group_rows. rewrite app_length. cbn [List.length]. rewrite Nat.add_1_r, seq_S.
    rewrite filter_app. cbn [filter plus]. f_equal.
    - apply filter_ext_in. intros i Hi. apply in_seq in Hi.
      rewrite nth_error_app1 by lia. reflexivity.
    - rewrite nth_error_app2 by lia. rewrite Nat.sub_diag. cbn [nth_error].
      destruct (keq q k); reflexivity.
  Qed.

  Lemma has_false_group_rows ks k : has keq ks k = false -> group_rows keq ks k = [].
  Proof.
    intros H. unfold group_rows.
    assert (Hall : forall i, In i (seq 0 (List.length ks)) ->
              (match nth_error ks i with Some k' => keq k k' | None => false end) = false).
    { intros i _. destruct (nth_error ks i) as [k'|] eqn:E; [|reflexivity].
      apply nth_error_In in E. unfold has in H.
      destruct (keq k k') eqn:Ek; [|reflexivity].
      assert (existsb (fun k'0 => keq k k'0) ks = true)
        by (apply existsb_exists; exists k'; split; assumption).
      congruence. }
    induction (seq 0 (List.length ks)) as [|i l IH]; [reflexivity|].
    cbn [filter]. rewrite (Hall i (or_introl eq_refl)). apply IH.
    intros j Hj. apply Hall. right. exact Hj.
  Qed.

  (* the first-appearance keys are pairwise different *)
  Fixpoint distinct (l : list K) : Prop :=
    match l with
    | [] => True
    | k :: r => Forall (fun k' => keq k k' = false) r /\ distinct r
    end.

  Lemma distinct_filter f l : distinct l -> distinct (filter f l).
  Proof.
    induction l as [|a t IH]; cbn [filter distinct]; [auto|]. intros [HF HD].
    destruct (f a); cbn [distinct]; [|apply IH; exact HD]. split; [|apply IH; exact HD].
    apply Forall_forall. intros x Hx. apply filter_In in Hx. rewrite Forall_forall in HF.
    apply HF. apply Hx.
  Qed.

  Lemma first_keys_distinct ks : distinct (first_keys keq ks).
  Proof.
    induction ks as [|a t IH]; cbn [first_keys distinct]; [exact I|]. split.
    - apply Forall_forall. intros x Hx. apply filter_In in Hx. destruct Hx as [_ Hx].
      apply negb_true_iff in Hx. exact Hx.
    - apply distinct_filter. exact IH.
  Qed.

  Lemma first_keys_in ks k : In k (first_keys keq ks) -> In k ks.
  Proof.
    revert k. induction ks as [|a t IH]; intros k; cbn [first_keys]; [auto|].
    intros [H|H]; [left; exact H|right]. apply filter_In in H. apply IH. apply H.
  Qed.

  Lemma has_filter a l k : keq k a = false ->
    has keq (filter (fun k' => negb (keq a k')) l) k = has keq l k.
  Proof.
    intros Hka. unfold has. induction l as [|b t IH]; cbn [filter existsb]; [reflexivity|].
    destruct (keq a b) eqn:Eab; cbn [negb existsb].
    - rewrite IH. destruct (keq k b) eqn:Ekb; [|reflexivity].
      rewrite keq_sym in Eab. rewrite (keq_trans _ _ _ Ekb Eab) in Hka. discriminate.
    - rewrite IH. reflexivity.
  Qed.

  (* every key is represented among the first-appearance keys *)
  Lemma has_first_keys ks k : has keq (first_keys keq ks) k = has keq ks k.
  Proof.
    induction ks as [|a t IH]; [reflexivity|].
    unfold has in *. cbn [first_keys existsb]. destruct (keq k a) eqn:E; [reflexivity|]. cbn [orb].
    rewrite <- IH. exact (has_filter a _ k E).
  Qed.

  Lemma has_in ks k : In k ks -> has keq ks k = true.
  Proof. intros H. apply existsb_exists. exists k. split; [exact H|apply keq_refl]. Qed.

  (* adding a row to an index of the specified shape *)
  Lemma dict_add_spec (G : K -> list nat) k i fk : distinct fk ->
    dict_add keq (map (fun q => (q, G q)) fk) k i
    = map (fun q => (q, G q ++ (if keq q k then [i] else []))) fk
      ++ (if has keq fk k then [] else [(k, [i])]).
  Proof.
    induction fk as [|q r IH]; intros HD; [reflexivity|].
    cbn [map dict_add distinct] in *. destruct HD as [HF HD].
    unfold has. cbn [existsb]. fold (has keq r k). rewrite (keq_sym q k).
    destruct (keq k q) eqn:E; cbn [orb app].
    - rewrite app_nil_r. f_equal. apply map_ext_in. intros q' Hq'.
      rewrite Forall_forall in HF. specialize (HF q' Hq').
      assert (Hq : keq q' k = false).
      { destruct (keq q' k) eqn:E2; [|reflexivity].
        rewrite (keq_sym q q') in HF. rewrite (keq_trans _ _ _ E2 E) in HF. discriminate. }
      rewrite Hq, app_nil_r. reflexivity.
    - rewrite app_nil_r. f_equal. apply IH. exact HD.
  Qed.

  Theorem partition_spec ks : partition keq ks = spec_groups keq ks.
  Proof.
    induction ks as [|k ks IH] using rev_ind; [reflexivity|].
    rewrite partition_snoc, IH. unfold spec_groups.
    rewrite dict_add_spec by apply first_keys_distinct.
    rewrite has_first_keys, first_keys_snoc.
    destruct (has keq ks k) eqn:Eh.
    - rewrite app_nil_r. apply map_ext. intros q. rewrite group_rows_snoc. reflexivity.
    - rewrite map_app. cbn [map]. f_equal.
      + apply map_ext. intros q. rewrite group_rows_snoc. reflexivity.
      + rewrite group_rows_snoc, keq_refl, (has_false_group_rows ks k Eh). reflexivity.
  Qed.

  Corollary partition_keys ks : map fst (partition keq ks) = first_keys keq ks.
  Proof.
    rewrite partition_spec. unfold spec_groups. rewrite map_map. cbn [fst]. apply map_id.
  Qed.

  Lemma first_keys_complete ks k :
    In k ks -> exists k', In k' (first_keys keq ks) /\ keq k k' = true.
  Proof.
    intros H. apply has_in in H. rewrite <- has_first_keys in H.
    apply existsb_exists in H. exact H.
  Qed.

  Lemma group_rows_ext ks k k' : keq k k' = true -> group_rows keq ks k = group_rows keq ks k'.
  Proof.
    intros H. unfold group_rows. apply filter_ext. intros i.
    destruct (nth_error ks i) as [q|]; [|reflexivity].
    destruct (keq k' q) eqn:E.
    - eapply keq_trans; eauto.
    - eapply keq_false_l; [|exact E]. rewrite keq_sym. exact H.
  Qed.

  (* every row is in the group of its own key, and only rows with an equal key are *)
  Lemma group_rows_in ks k i :
    In i (group_rows keq ks k) <-> exists k', nth_error ks i = Some k' /\ keq k k' = true.
  Proof.
    unfold group_rows. rewrite filter_In, in_seq. split.
    - intros [_ H]. destruct (nth_error ks i) as [k'|]; [|discriminate]. exists k'. auto.
    - intros [k' [H1 H2]]. split.
      + assert (i < List.length ks) by (apply nth_error_Some; congruence). lia.
      + rewrite H1. exact H2.
  Qed.

  (* looking a key up in {first key: value} *)
  Lemma assoc_get_map {B} (h : K -> B) fk k v :
    (forall k', keq k k' = true -> h k' = v) -> has keq fk k = true ->
    assoc_get keq (combine fk (map h fk)) k = Some v.
  Proof.
    intros Hh. induction fk as [|q r IH]; intros Hhas; [discriminate|].
    cbn [map combine assoc_get]. unfold has in Hhas. cbn [existsb] in Hhas.
    destruct (keq k q) eqn:E; [rewrite (Hh q E); reflexivity|]. apply IH. exact Hhas.
  Qed.

  Lemma assoc_get_ext {B} (d : list (K * B)) k k' :
    keq k k' = true -> assoc_get keq d k = assoc_get keq d k'.
  Proof.
    intros H. induction d as [|[q v] r IH]; [reflexivity|]. cbn [assoc_get].
    destruct (keq k' q) eqn:E.
    - rewrite (keq_trans _ _ _ H E). reflexivity.
    - rewrite (keq_false_l k' k q); [exact IH|rewrite keq_sym; exact H|exact E].
  Qed.
End DictProofs.

(* ------------------------------------------------------------------ small list facts *)
Lemma map_nth_seq' {A} (l : list A) d : map (fun i => nth i l d) (seq 0 (List.length l)) = l.
Proof.
  induction l as [|x t IH]; simpl; [reflexivity|]. f_equal.
  rewrite <- seq_shift, map_map. exact IH.
Qed.

Lemma skipn_app_exact {A} (l1 l2 : list A) n : List.length l1 = n -> skipn n (l1 ++ l2) = l2.
Proof. revert n; induction l1 as [|x t IH]; intros n H; subst n; simpl; [reflexivity|apply IH; reflexivity]. Qed.

Lemma firstn_app_exact {A} (l1 l2 : list A) n : List.length l1 = n -> firstn n (l1 ++ l2) = l1.
Proof.
  revert n; induction l1 as [|x t IH]; intros n H; subst n; simpl; [reflexivity|].
  f_equal. apply IH; reflexivity.
Qed.

Lemma nth_repeat_lt {A} (c d : A) n : forall i, i < n -> nth i (repeat c n) d = c.
Proof. induction n as [|n IH]; intros i Hi; [lia|]. destruct i; simpl; [reflexivity|apply IH; lia]. Qed.

Lemma nth_error_repeat_lt {A} (c : A) n : forall i, i < n -> nth_error (repeat c n) i = Some c.
Proof. induction n as [|n IH]; intros i Hi; [lia|]. destruct i; simpl; [reflexivity|apply IH; lia]. Qed.

Lemma filter_all_false {A} (f : A -> bool) l : (forall x, In x l -> f x = false) -> filter f l = [].
Proof.
  induction l as [|a t IH]; intros H; [reflexivity|]. cbn [filter].
  rewrite (H a (or_introl eq_refl)). apply IH. intros x Hx. apply H. right. exact Hx.
Qed.

Lemma filter_all_true {A} (f : A -> bool) l : (forall x, In x l -> f x = true) -> filter f l = l.
Proof.
  induction l as [|a t IH]; intros H; [reflexivity|]. cbn [filter].
  rewrite (H a (or_introl eq_refl)). f_equal. apply IH. intros x Hx. apply H. right. exact Hx.
Qed.

Lemma map_const_repeat {A B} (c : B) (l : list A) : map (fun _ => c) l = repeat c (List.length l).
Proof. induction l as [|a t IH]; simpl; [reflexivity|]. f_equal. exact IH. Qed.

(* ------------------------------------------------------------------ aggregate / window *)
Section GroupProofs.
  Variable X T : Type.
  Variable xeq : X -> X -> bool.
  Variable xleb : X -> X -> bool.
  Variable xz : X -> Z.
  Variable fmean fstdev : list X -> T.
  Variable F : nat -> list (cell X) -> rcell X T.
  Hypothesis xeq_refl : forall a, xeq a a = true.
  Hypothesis xeq_sym : forall a b, xeq a b = xeq b a.
  Hypothesis xeq_trans : forall a b c, xeq a b = true -> xeq b c = true -> xeq a c = true.

  Notation agg := (agg_fn xleb xz fmean fstdev).
  Notation kq := (keq xeq).

  Lemma ceq_refl a : ceq xeq a a = true.
  Proof. destruct a; simpl; auto. Qed.
  Lemma ceq_sym a b : ceq xeq a b = ceq xeq b a.
  Proof. destruct a, b; simpl; auto. Qed.
  Lemma ceq_trans a b c : ceq xeq a b = true -> ceq xeq b c = true -> ceq xeq a c = true.
  Proof. destruct a, b, c; simpl; intros; try discriminate; eauto. Qed.

  Lemma kq_refl a : kq a a = true.
  Proof. induction a as [|x t IH]; simpl; [reflexivity|]. rewrite ceq_refl, IH. reflexivity. Qed.
  Lemma kq_sym a : forall b, kq a b = kq b a.
  Proof.
    induction a as [|x t IH]; intros [|y s]; simpl; try reflexivity. rewrite ceq_sym, IH. reflexivity.
  Qed.
  Lemma kq_trans a : forall b c, kq a b = true -> kq b c = true -> kq a c = true.
  Proof.
    induction a as [|x t IH]; intros [|y s] [|z u]; simpl; intros H1 H2; try discriminate; try reflexivity.
    apply andb_true_iff in H1. apply andb_true_iff in H2. destruct H1 as [H1 H1'], H2 as [H2 H2'].
    apply andb_true_iff. split; [eapply ceq_trans; eauto|eapply IH; eauto].
  Qed.

  Lemma keq_equivalence : equivalence kq.
  Proof. split; [exact kq_refl|split; [exact kq_sym|exact kq_trans]]. Qed.

  (* ---- the partition of a table ---- *)
  Theorem table_partition ov n :
    partition kq (row_keys ov n) = spec_groups kq (row_keys ov n).
  Proof. apply partition_spec; [exact kq_refl|exact kq_sym|exact kq_trans]. Qed.

  (* ---- the aggregating functions are the textbook ones ---- *)
  Lemma fold_sum l : forall a,
    fold_left (fun acc x => acc + xz x)%Z l a = (a + zsum (map xz l))%Z.
  Proof.
    induction l as [|x t IH]; intros a; cbn [fold_left map zsum fold_right]; [lia|].
    rewrite IH. unfold zsum. lia.
  Qed.

  Lemma fold_count (l : list X) : forall a,
    fold_left (fun acc _ => acc + 1)%Z l a = (a + Z.of_nat (List.length l))%Z.
  Proof.
    induction l as [|x t IH]; intros a; cbn [fold_left List.length]; [lia|]. rewrite IH. lia.
  Qed.

  Section MinMax.
    Hypothesis xleb_total : forall x y, xleb x y = true \/ xleb y x = true.
    Hypothesis xleb_trans : forall x y z, xleb x y = true -> xleb y z = true -> xleb x z = true.

    Lemma xleb_refl x : xleb x x = true.
    Proof. destruct (xleb_total x x); assumption. Qed.

    Lemma min_fold t : forall m,
      let r := fold_left (fun m y => if negb (xleb m y) then y else m) t m in
      In r (m :: t) /\ xleb r m = true /\ forall y, In y t -> xleb r y = true.
    Proof.
      induction t as [|y t IH]; intros m; cbn [fold_left].
      - split; [left; reflexivity|]. split; [apply xleb_refl|]. intros y [].
      - specialize (IH (if negb (xleb m y) then y else m)). cbv zeta in IH.
        set (r := fold_left _ t _) in *. destruct IH as [Hin [Hle Hall]].
        destruct (xleb m y) eqn:E; cbn [negb] in *.
        + split; [destruct Hin as [Hin|Hin]; [left; exact Hin|right; right; exact Hin]|].
          split; [exact Hle|]. intros z [Hz|Hz]; [subst z; eapply xleb_trans; eauto|apply Hall; exact Hz].
        + assert (Hym : xleb y m = true) by (destruct (xleb_total m y); congruence).
          split; [destruct Hin as [Hin|Hin]; [right; left; exact Hin|right; right; exact Hin]|].
          split; [eapply xleb_trans; eauto|].
          intros z [Hz|Hz]; [subst z; exact Hle|apply Hall; exact Hz].
    Qed.

    Lemma max_fold t : forall m,
      let r := fold_left (fun m y => if negb (xleb y m) then y else m) t m in
      In r (m :: t) /\ xleb m r = true /\ forall y, In y t -> xleb y r = true.
    Proof.
      induction t as [|y t IH]; intros m; cbn [fold_left].
      - split; [left; reflexivity|]. split; [apply xleb_refl|]. intros y [].
      - specialize (IH (if negb (xleb y m) then y else m)). cbv zeta in IH.
        set (r := fold_left _ t _) in *. destruct IH as [Hin [Hle Hall]].
        destruct (xleb y m) eqn:E; cbn [negb] in *.
        + split; [destruct Hin as [Hin|Hin]; [left; exact Hin|right; right; exact Hin]|].
          split; [exact Hle|]. intros z [Hz|Hz]; [subst z; eapply xleb_trans; eauto|apply Hall; exact Hz].
        + assert (Hym : xleb m y = true) by (destruct (xleb_total m y); congruence).
          split; [destruct Hin as [Hin|Hin]; [right; left; exact Hin|right; right; exact Hin]|].
          split; [eapply xleb_trans; eauto|].
          intros z [Hz|Hz]; [subst z; exact Hle|apply Hall; exact Hz].
    Qed.

    Theorem agg_fn_textbook kind vals : agg_ok xleb xz fmean fstdev kind vals (agg kind vals).
    Proof.
      unfold agg_ok. destruct kind; cbn [agg_fn].
      - unfold py_sum. rewrite fold_sum. f_equal.
      - unfold py_mean. destruct (clean vals) as [|x t]; split; intros H; congruence.
      - unfold py_min, min_list. destruct (clean vals) as [|x t]; split; intros H;
          try reflexivity; try congruence.
        destruct (min_fold t x) as [Hin [Hle Hall]]. eexists. split; [reflexivity|].
        split; [exact Hin|]. intros y [Hy|Hy]; [subst y; exact Hle|apply Hall; exact Hy].
      - unfold py_max, max_list. destruct (clean vals) as [|x t]; split; intros H;
          try reflexivity; try congruence.
        destruct (max_fold t x) as [Hin [Hle Hall]]. eexists. split; [reflexivity|].
        split; [exact Hin|]. intros y [Hy|Hy]; [subst y; exact Hle|apply Hall; exact Hy].
      - unfold py_count. rewrite fold_count. f_equal.
      - unfold py_stdev. destruct (Nat.leb (List.length (clean vals)) 1) eqn:E.
        + apply Nat.leb_le in E. split; intros H; [reflexivity|lia].
        + apply Nat.leb_gt in E. split; intros H; [lia|reflexivity].
    Qed.
  End MinMax.

  Theorem empty_group_values vals :
    (clean vals = [] ->
       agg ASum vals = RInt 0%Z /\ agg ACount vals = RInt 0%Z /\ agg AMean vals = RNone /\
       agg AMin vals = RNone /\ agg AMax vals = RNone /\ agg AStdev vals = RNone) /\
    (List.length (clean vals) <= 1 -> agg AStdev vals = RNone).
  Proof.
    split.
    - intros H. cbn [agg_fn]. unfold py_sum, py_count, py_mean, py_min, py_max, py_stdev.
      rewrite H. repeat split.
    - intros H. cbn [agg_fn]. unfold py_stdev. apply Nat.leb_le in H. rewrite H. reflexivity.
  Qed.

  (* ---- the loops over the requested aggregates ---- *)
  Lemma run_builtins_ok n groups bs :
    Forall (fun b => List.length (snd b) = n) bs ->
    run_builtins xleb xz fmean fstdev n groups bs
    = Ok (map (fun b => aggregate_col groups (snd b) (agg (fst b))) bs).
  Proof.
    induction 1 as [|[kind data] rest Hb _ IH]; cbn [run_builtins map]; [reflexivity|].
    cbn [snd fst] in *. rewrite Hb, Nat.eqb_refl. cbn [negb]. rewrite IH. reflexivity.
  Qed.

  Lemma run_apply_ok t n groups aps raps :
    apply_resolved t n aps raps ->
    run_apply F t n groups aps
    = (Ok (map (fun a => map (fun g => F (snd a) (gather (fst a) (snd g))) groups) raps),
       flat_map (fun a => map (fun g => (snd a, gather (fst a) (snd g))) groups) raps).
  Proof.
    induction 1 as [|[spec fid] [data fid'] rest rrest H _ IH]; cbn [run_apply map flat_map]; [reflexivity|].
    cbn [fst snd] in *. destruct H as [H1 [H2 H3]]. subst fid'.
    rewrite H1, H3, Nat.eqb_refl. cbn [negb]. rewrite IH. reflexivity.
  Qed.

  Theorem aggregate_core_refines t n ov bs aps raps :
    Forall (fun b => List.length (snd b) = n) bs -> apply_resolved t n aps raps ->
    let ks := row_keys ov n in
    let fk := first_keys kq ks in
    aggregate_core xeq xleb xz fmean fstdev F t n ov bs aps
    = (Ok (spec_key_cols ov fk ++ spec_builtin_cols xeq agg ks fk bs ++ spec_apply_cols xeq F ks fk raps),
       spec_calls xeq ks fk raps).
  Proof.
    intros Hbs Haps ks fk. unfold aggregate_core. rewrite table_partition. fold ks.
    rewrite (run_builtins_ok _ _ _ Hbs), (run_apply_ok _ _ _ _ _ Haps).
    unfold spec_key_cols, spec_builtin_cols, spec_apply_cols, spec_calls, spec_groups, group_vals.
    fold fk. apply f_equal2.
    - apply f_equal. apply f_equal2; [|apply f_equal2].
      + apply map_ext. intros idx. rewrite map_map. reflexivity.
      + apply map_ext. intros b. unfold aggregate_col. rewrite map_map. reflexivity.
      + apply map_ext. intros a. rewrite map_map. reflexivity.
    - apply flat_map_ext. intros a. rewrite map_map. reflexivity.
  Qed.

  Lemma forallb_lengths (ov : list (list (cell X))) n :
    Forall (fun c => List.length c = n) ov -> forallb (fun c => Nat.eqb (List.length c) n) ov = true.
  Proof.
    intros H. apply forallb_forall. rewrite Forall_forall in H. intros c Hc.
    apply Nat.eqb_eq. apply H. exact Hc.
  Qed.

  Theorem aggregate_refines t over a ov bs raps :
    resolve_args t over a = Ok (ov, bs) ->
    Forall (fun c => List.length c = nrows t) ov ->
    Forall (fun b => List.length (snd b) = nrows t) bs ->
    apply_resolved t (nrows t) (apply_entries a) raps ->
    let ks := row_keys ov (nrows t) in
    let fk := first_keys kq ks in
    aggregate xeq xleb xz fmean fstdev F t over a
    = (Ok (spec_key_cols ov fk ++ spec_builtin_cols xeq agg ks fk bs ++ spec_apply_cols xeq F ks fk raps),
       spec_calls xeq ks fk raps).
  Proof.
    intros Hr Hov Hbs Haps ks fk. unfold aggregate. rewrite Hr.
    rewrite (forallb_lengths _ _ Hov). cbn [negb].
    apply aggregate_core_refines; assumption.
  Qed.

  (* ---- window = aggregate joined back to the rows ---- *)
  Lemma wrun_builtins_expand n rks groups bs :
    wrun_builtins xeq xleb xz fmean fstdev n rks groups bs
    = match run_builtins xleb xz fmean fstdev n groups bs with
      | Ok cols => Ok (map (expand xeq rks groups) cols)
      | Err e => Err e
      end.
  Proof.
    induction bs as [|[kind data] rest IH]; cbn [wrun_builtins run_builtins]; [reflexivity|].
    destruct (negb (Nat.eqb (List.length data) n)); [reflexivity|]. rewrite IH.
    destruct (run_builtins xleb xz fmean fstdev n groups rest); reflexivity.
  Qed.

  Lemma wrun_apply_expand t n rks groups aps :
    wrun_apply xeq F t n rks groups aps
    = match run_apply F t n groups aps with
      | (Ok cols, lg) => (Ok (map (expand xeq rks groups) cols), lg)
      | (Err e, lg) => (Err e, lg)
      end.
  Proof.
    induction aps as [|[spec fid] rest IH]; cbn [wrun_apply run_apply]; [reflexivity|].
    destruct (resolve_col t spec) as [data|e]; [|reflexivity].
    destruct (negb (Nat.eqb (List.length data) n)); [reflexivity|]. rewrite IH.
    destruct (run_apply F t n groups rest) as [[cols|e] lg]; reflexivity.
  Qed.

  Lemma expand_join_back rks groups (col : list (rcell X T)) :
    expand xeq rks groups col = map (join_back xeq (map fst groups) col) rks.
  Proof. reflexivity. Qed.

  Theorem window_core_is_aggregate_expanded t n ov bs aps :
    let ks := row_keys ov n in
    let fk := first_keys kq ks in
    window_core xeq xleb xz fmean fstdev F t n ov bs aps
    = match aggregate_core xeq xleb xz fmean fstdev F t n ov bs aps with
      | (Err e, lg) => (Err e, lg)
      | (Ok acols, lg) =>
          (Ok (map (map rc) ov
               ++ map (fun col => map (join_back xeq fk col) ks) (skipn (List.length ov) acols)), lg)
      end.
  Proof.
    intros ks fk. unfold window_core, aggregate_core. fold ks.
    rewrite wrun_builtins_expand, wrun_apply_expand.
    destruct (run_builtins xleb xz fmean fstdev n (partition kq ks) bs) as [bcols|e]; [|reflexivity].
    destruct (run_apply F t n (partition kq ks) aps) as [[acols|e] lg]; [|reflexivity].
    rewrite skipn_app_exact by (rewrite map_length, seq_length; reflexivity).
    rewrite map_app.
    assert (Hfk : map fst (partition kq ks) = fk)
      by (apply partition_keys; [exact kq_refl|exact kq_sym|exact kq_trans]).
    assert (Hexp : forall cols : list (list (rcell X T)),
              map (expand xeq ks (partition kq ks)) cols
              = map (fun col => map (join_back xeq fk col) ks) cols).
    { intros cols. apply map_ext. intros col. rewrite expand_join_back, Hfk. reflexivity. }
    rewrite !Hexp. reflexivity.
  Qed.

  Lemma join_back_map (h : key X -> rcell X T) ks :
    (forall k k', kq k k' = true -> h k = h k') ->
    map (join_back xeq (first_keys kq ks) (map h (first_keys kq ks))) ks = map h ks.
  Proof.
    intros Hh. apply map_ext_in. intros k Hk. unfold join_back.
    rewrite (assoc_get_map (key X) kq h (first_keys kq ks) k (h k)); [reflexivity| |].
    - intros k' E. symmetry. apply Hh. exact E.
    - rewrite (has_first_keys _ kq kq_sym kq_trans). apply has_in; [exact kq_refl|exact Hk].
  Qed.

  Lemma group_vals_ext ks data k k' : kq k k' = true -> group_vals xeq ks data k = group_vals xeq ks data k'.
  Proof.
    intros H. unfold group_vals. f_equal. apply group_rows_ext; [exact kq_sym|exact kq_trans|exact H].
  Qed.

  (* every row receives the aggregate of the rows carrying an equal key *)
  Theorem window_core_refines t n ov bs aps raps :
    Forall (fun b => List.length (snd b) = n) bs -> apply_resolved t n aps raps ->
    let ks := row_keys ov n in
    let fk := first_keys kq ks in
    window_core xeq xleb xz fmean fstdev F t n ov bs aps
    = (Ok (map (map rc) ov
           ++ map (fun b => map (fun k => agg (fst b) (group_vals xeq ks (snd b) k)) ks) bs
           ++ map (fun a => map (fun k => F (snd a) (group_vals xeq ks (fst a) k)) ks) raps),
       spec_calls xeq ks fk raps).
  Proof.
    intros Hbs Haps ks fk. rewrite window_core_is_aggregate_expanded.
    rewrite (aggregate_core_refines t n ov bs aps raps Hbs Haps). fold ks fk.
    rewrite skipn_app_exact
      by (unfold spec_key_cols; rewrite map_length, seq_length; reflexivity).
    rewrite map_app. apply f_equal2; [|reflexivity]. apply f_equal.
    apply f_equal2; [reflexivity|]. apply f_equal2.
    - unfold spec_builtin_cols. rewrite map_map. apply map_ext. intros b.
      apply (join_back_map (fun k => agg (fst b) (group_vals xeq ks (snd b) k))).
      intros k k' E. f_equal. apply group_vals_ext. exact E.
    - unfold spec_apply_cols. rewrite map_map. apply map_ext. intros a.
      apply (join_back_map (fun k => F (snd a) (group_vals xeq ks (fst a) k))).
      intros k k' E. f_equal. apply group_vals_ext. exact E.
  Qed.

  Lemma nth_row_keys (ov : list (list (cell X))) n i : i < n -> nth i (row_keys ov n) [] = row_key ov i.
  Proof.
    intros Hi. unfold row_keys.
    rewrite (nth_indep _ [] (row_key ov 0)) by (rewrite map_length, seq_length; exact Hi).
    transitivity (row_key ov (nth i (seq 0 n) 0)); [exact (map_nth (row_key ov) (seq 0 n) 0 i)|].
    rewrite seq_nth by exact Hi. reflexivity.
  Qed.

  Theorem window_same_group_same_value t n ov bs aps cols lg i j :
    window_core xeq xleb xz fmean fstdev F t n ov bs aps = (Ok cols, lg) ->
    i < n -> j < n -> kq (row_key ov i) (row_key ov j) = true ->
    forall c, In c (skipn (List.length ov) cols) -> nth i c RNone = nth j c RNone.
  Proof.
    intros H Hi Hj E c Hc. rewrite window_core_is_aggregate_expanded in H.
    destruct (aggregate_core xeq xleb xz fmean fstdev F t n ov bs aps) as [[acols|e] lg']; [|discriminate].
    inversion H; subst cols lg'. clear H.
    rewrite skipn_app_exact in Hc by (rewrite map_length; reflexivity).
    apply in_map_iff in Hc. destruct Hc as [col [Hc _]]. subst c.
    set (f := join_back xeq (first_keys kq (row_keys ov n)) col).
    assert (Hn : forall a, a < n -> nth a (map f (row_keys ov n)) RNone = f (row_key ov a)).
    { intros a Ha. rewrite (nth_indep _ RNone (f [])) by (unfold row_keys; rewrite !map_length, seq_length; exact Ha).
      transitivity (f (nth a (row_keys ov n) [])); [exact (map_nth f (row_keys ov n) [] a)|].
      rewrite nth_row_keys by exact Ha. reflexivity. }
    rewrite (Hn i Hi), (Hn j Hj). unfold f, join_back.
    rewrite (assoc_get_ext (key X) kq kq_sym kq_trans _ _ _ E). reflexivity.
  Qed.

  Theorem window_keys_unchanged t n ov bs aps cols lg :
    window_core xeq xleb xz fmean fstdev F t n ov bs aps = (Ok cols, lg) ->
    firstn (List.length ov) cols = map (map rc) ov.
  Proof.
    intros H. rewrite window_core_is_aggregate_expanded in H.
    destruct (aggregate_core xeq xleb xz fmean fstdev F t n ov bs aps) as [[acols|e] lg']; [|discriminate].
    inversion H; subst. apply firstn_app_exact. apply map_length.
  Qed.

  Theorem window_length t over a cols lg :
    window xeq xleb xz fmean fstdev F t over a = (Ok cols, lg) ->
    Forall (fun c => List.length c = nrows t) cols.
  Proof.
    unfold window. destruct (resolve_args t over a) as [[ov bs]|e]; [|discriminate].
    destruct (forallb (fun c => Nat.eqb (List.length c) (nrows t)) ov) eqn:Ef; cbn [negb]; [|discriminate].
    rewrite window_core_is_aggregate_expanded.
    destruct (aggregate_core xeq xleb xz fmean fstdev F t (nrows t) ov bs (apply_entries a))
      as [[acols|e] lg']; [|discriminate].
    intros H. inversion H; subst. apply Forall_app. split.
    - apply Forall_forall. intros c Hc. apply in_map_iff in Hc. destruct Hc as [c0 [Hc0 Hin]]. subst c.
      rewrite map_length. rewrite forallb_forall in Ef. apply Nat.eqb_eq. apply Ef. exact Hin.
    - apply Forall_forall. intros c Hc. apply in_map_iff in Hc. destruct Hc as [c0 [Hc0 _]]. subst c.
      unfold row_keys. rewrite !map_length, seq_length. reflexivity.
  Qed.

  Theorem window_is_aggregate_expanded t over a :
    window xeq xleb xz fmean fstdev F t over a
    = match resolve_args t over a with
      | Err e => (Err e, [])
      | Ok (ov, bs) =>
          let ks := row_keys ov (nrows t) in
          match aggregate xeq xleb xz fmean fstdev F t over a with
          | (Err e, lg) => (Err e, lg)
          | (Ok acols, lg) =>
              (Ok (map (map rc) ov
                   ++ map (fun col => map (join_back xeq (first_keys kq ks) col) ks)
                          (skipn (List.length ov) acols)), lg)
          end
      end.
  Proof.
    unfold window, aggregate. destruct (resolve_args t over a) as [[ov bs]|e]; [|reflexivity].
    destruct (negb (forallb (fun c => Nat.eqb (List.length c) (nrows t)) ov)); [reflexivity|].
    apply window_core_is_aggregate_expanded.
  Qed.

  (* ---- a whole-column reduction is the aggregate over one all-embracing group ---- *)
  Lemma vec_reduce_agg kind data : vec_reduce xleb xz fmean fstdev kind data = agg kind data.
  Proof. destruct kind; reflexivity. Qed.

  Lemma first_keys_repeat (k : key X) m : first_keys kq (repeat k (S m)) = [k].
  Proof.
    cbn [repeat first_keys]. f_equal. apply filter_all_false. intros x Hx.
    apply (first_keys_in _ kq) in Hx. apply repeat_spec in Hx. subst x.
    rewrite kq_refl. reflexivity.
  Qed.

  Lemma group_rows_repeat (k : key X) n : group_rows kq (repeat k n) k = seq 0 n.
  Proof.
    unfold group_rows. rewrite repeat_length. apply filter_all_true. intros i Hi.
    apply in_seq in Hi. rewrite nth_error_repeat_lt by lia. apply kq_refl.
  Qed.

  Lemma row_keys_const (c : cell X) n : row_keys [repeat c n] n = repeat [c] n.
  Proof.
    unfold row_keys, row_key. cbn [map].
    transitivity (map (fun _ : nat => [c]) (seq 0 n)).
    - apply map_ext_in. intros i Hi. apply in_seq in Hi. rewrite nth_repeat_lt by lia. reflexivity.
    - rewrite map_const_repeat, seq_length. reflexivity.
  Qed.

  Theorem reduction_is_single_group t kind (data : list (cell X)) c :
    data <> [] ->
    aggregate_core xeq xleb xz fmean fstdev F t (List.length data)
                   [repeat c (List.length data)] [(kind, data)] []
    = (Ok [[rc c]; [vec_reduce xleb xz fmean fstdev kind data]], []).
  Proof.
    intros Hne.
    rewrite (aggregate_core_refines t (List.length data) _ [(kind, data)] [] []);
      [|constructor; [reflexivity|constructor]|constructor].
    rewrite row_keys_const. destruct data as [|d0 dt] eqn:Ed; [congruence|]. rewrite <- Ed in *.
    assert (Hlen : List.length data = S (List.length dt)) by (rewrite Ed; reflexivity).
    rewrite Hlen at 1 2 3 4. rewrite first_keys_repeat.
    unfold spec_key_cols, spec_builtin_cols, spec_apply_cols, spec_calls, group_vals.
    cbn [map seq List.length nth fst snd app flat_map].
    rewrite <- Hlen. rewrite group_rows_repeat. unfold gather. rewrite map_nth_seq'.
    rewrite vec_reduce_agg. reflexivity.
  Qed.
End GroupProofs.

Section GroupProofs2.
  Variable X T : Type.
  Variable xeq : X -> X -> bool.
  Variable xleb : X -> X -> bool.
  Variable xz : X -> Z.
  Variable fmean fstdev : list X -> T.
  Variable F : nat -> list (cell X) -> rcell X T.
  Hypothesis xeq_refl : forall a, xeq a a = true.
  Hypothesis xeq_sym : forall a b, xeq a b = xeq b a.
  Hypothesis xeq_trans : forall a b c, xeq a b = true -> xeq b c = true -> xeq a c = true.

  Theorem aggregate_key_columns_first t n ov bs aps cols lg :
    aggregate_core xeq xleb xz fmean fstdev F t n ov bs aps = (Ok cols, lg) ->
    firstn (List.length ov) cols = spec_key_cols ov (first_keys (keq xeq) (row_keys ov n)).
  Proof.
    unfold aggregate_core. rewrite (table_partition X xeq xeq_refl xeq_sym xeq_trans).
    destruct (run_builtins xleb xz fmean fstdev n _ bs) as [bcols|e]; [|discriminate].
    destruct (run_apply F t n _ aps) as [[acols|e] lg']; [|discriminate].
    intros H. inversion H; subst.
    rewrite firstn_app_exact by (rewrite map_length, seq_length; reflexivity).
    unfold spec_key_cols, spec_groups. apply map_ext. intros idx. rewrite map_map. reflexivity.
  Qed.

  Theorem apply_call_log t over a ov bs raps :
    resolve_args t over a = Ok (ov, bs) ->
    Forall (fun c => List.length c = nrows t) ov ->
    Forall (fun b => List.length (snd b) = nrows t) bs ->
    apply_resolved t (nrows t) (apply_entries a) raps ->
    let ks := row_keys ov (nrows t) in
    snd (aggregate xeq xleb xz fmean fstdev F t over a)
    = flat_map (fun entry =>
                  map (fun k => (snd entry, gather (fst entry) (group_rows (keq xeq) ks k)))
                      (first_keys (keq xeq) ks)) raps.
  Proof.
    intros H1 H2 H3 H4 ks.
    rewrite (aggregate_refines X T xeq xleb xz fmean fstdev F xeq_refl xeq_sym xeq_trans
               t over a ov bs raps H1 H2 H3 H4).
    reflexivity.
  Qed.
End GroupProofs2.
