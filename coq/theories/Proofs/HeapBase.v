(* Proofs/HeapBase.v — association-list and registry lemmas for the heap model. *)
From Coq Require Import List Bool Arith Lia.
From Serif Require Import Base.PyVal Model.Heap.
Import ListNotations.

Section AL.
Context {A : Type}.
Implicit Types (l : list (nat * A)) (k : nat) (a : A).

Lemma aget_aset_same l k a : aget (aset l k a) k = Some a.
Proof.
  induction l as [|[k' a'] t IH]; simpl.
  - rewrite Nat.eqb_refl. reflexivity.
  - destruct (Nat.eqb k k') eqn:E; simpl.
    + rewrite Nat.eqb_refl. reflexivity.
    + rewrite E. exact IH.
Qed.

Lemma aget_aset_other l k k2 a : k2 <> k -> aget (aset l k a) k2 = aget l k2.
Proof.
  intros Hne. induction l as [|[k' a'] t IH]; simpl.
  - destruct (Nat.eqb_spec k2 k); [contradiction|reflexivity].
  - destruct (Nat.eqb_spec k k'); simpl.
    + subst. destruct (Nat.eqb_spec k2 k'); [contradiction|reflexivity].
    + destruct (Nat.eqb k2 k'); [reflexivity|exact IH].
Qed.

Lemma aget_adel_same l k : aget (adel l k) k = None.
Proof.
  induction l as [|[k' a'] t IH]; simpl; [reflexivity|].
  destruct (Nat.eqb k k') eqn:E; simpl; [exact IH|]. rewrite E. exact IH.
Qed.

Lemma aget_adel_other l k k2 : k2 <> k -> aget (adel l k) k2 = aget l k2.
Proof.
  intros Hne. induction l as [|[k' a'] t IH]; simpl; [reflexivity|].
  destruct (Nat.eqb_spec k k'); simpl.
  - subst. destruct (Nat.eqb_spec k2 k'); [contradiction|exact IH].
  - destruct (Nat.eqb k2 k'); [reflexivity|exact IH].
Qed.

Lemma aget_app_none l k a : aget l k = None -> aget (l ++ [(k, a)]) k = Some a.
Proof.
  induction l as [|[k' a'] t IH]; simpl; intros H.
  - rewrite Nat.eqb_refl. reflexivity.
  - destruct (Nat.eqb k k'); [discriminate|auto].
Qed.

Lemma aget_app_other l k k2 a : k2 <> k -> aget (l ++ [(k, a)]) k2 = aget l k2.
Proof.
  intros Hne. induction l as [|[k' a'] t IH]; simpl.
  - destruct (Nat.eqb_spec k2 k); [contradiction|reflexivity].
  - destruct (Nat.eqb k2 k'); [reflexivity|exact IH].
Qed.

Lemma aget_filter_keys l (p : nat -> bool) k :
  aget (filter (fun e => p (fst e)) l) k = if p k then aget l k else None.
Proof.
  induction l as [|[k' a'] t IH]; simpl.
  - destruct (p k); reflexivity.
  - destruct (p k') eqn:Ep; simpl.
    + destruct (Nat.eqb_spec k k').
      * subst. rewrite Ep. reflexivity.
      * exact IH.
    + destruct (Nat.eqb_spec k k').
      * subst. rewrite Ep in *. rewrite IH. reflexivity.
      * exact IH.
Qed.
End AL.

(* ---- membership ---- *)
Lemma mem_In h l : mem h l = true <-> In h l.
Proof.
  unfold mem. rewrite existsb_exists. split.
  - intros [x [Hin E]]. apply Nat.eqb_eq in E. subst. exact Hin.
  - intros Hin. exists h. split; [exact Hin|apply Nat.eqb_refl].
Qed.

Lemma mem_false h l : mem h l = false <-> ~ In h l.
Proof.
  split.
  - intros E Hin. apply mem_In in Hin. congruence.
  - intros Hn. destruct (mem h l) eqn:E; [|reflexivity]. apply mem_In in E. contradiction.
Qed.

(* ---- registry ---- *)
Lemma rget_aset_same r id l : rget (aset r id l) id = l.
Proof. unfold rget. rewrite aget_aset_same. reflexivity. Qed.
Lemma rget_aset_other r id id2 l : id2 <> id -> rget (aset r id l) id2 = rget r id2.
Proof. intros H. unfold rget. rewrite aget_aset_other by exact H. reflexivity. Qed.
Lemma rget_adel_same r id : rget (adel r id) id = [].
Proof. unfold rget. rewrite aget_adel_same. reflexivity. Qed.
Lemma rget_adel_other r id id2 : id2 <> id -> rget (adel r id) id2 = rget r id2.
Proof. intros H. unfold rget. rewrite aget_adel_other by exact H. reflexivity. Qed.

Lemma in_register r h id x id2 :
  In x (rget (register r h id) id2) <-> In x (rget r id2) \/ (x = h /\ id2 = id).
Proof.
  unfold register. destruct (mem h (rget r id)) eqn:E.
  - apply mem_In in E. split; [auto|]. intros [H|[-> ->]]; assumption.
  - destruct (Nat.eq_dec id2 id) as [->|Hne].
    + rewrite rget_aset_same, in_app_iff. simpl. split.
      * intros [H|[H|[]]]; auto.
      * intros [H|[-> _]]; auto.
    + rewrite rget_aset_other by exact Hne. split; [auto|]. intros [H|[_ H]]; [exact H|contradiction].
Qed.

Lemma in_unregister r h id x id2 :
  In x (rget (unregister r h id) id2) <-> In x (rget r id2) /\ ~ (x = h /\ id2 = id).
Proof.
  unfold unregister.
  assert (Hf : forall y, In y (filter (fun y => negb (Nat.eqb y h)) (rget r id)) <-> In y (rget r id) /\ y <> h).
  { intros y. rewrite filter_In. rewrite negb_true_iff, Nat.eqb_neq. tauto. }
  destruct (filter (fun y => negb (Nat.eqb y h)) (rget r id)) as [|y0 t] eqn:Ef.
  - destruct (Nat.eq_dec id2 id) as [->|Hne].
    + rewrite rget_adel_same. split; [intros []|].
      intros [H1 H2]. apply (Hf x). split; [exact H1|]. intros E. apply H2. auto.
    + rewrite rget_adel_other by exact Hne. split; [|tauto].
      intros H. split; [exact H|]. intros [_ E]. contradiction.
  - destruct (Nat.eq_dec id2 id) as [->|Hne].
    + rewrite rget_aset_same. rewrite Hf. split.
      * intros [H1 H2]. split; [exact H1|]. intros [E _]. contradiction.
      * intros [H1 H2]. split; [exact H1|]. intros E. apply H2. auto.
    + rewrite rget_aset_other by exact Hne. split; [|tauto].
      intros H. split; [exact H|]. intros [_ E]. contradiction.
Qed.

Lemma NoDup_filter {A} (p : A -> bool) l : NoDup l -> NoDup (filter p l).
Proof.
  induction 1 as [|x l Hn Hd IH]; simpl; [constructor|].
  destruct (p x); [|exact IH]. constructor; [|exact IH]. rewrite filter_In. tauto.
Qed.

Lemma nodup_register r h id id2 :
  NoDup (rget r id2) -> NoDup (rget (register r h id) id2).
Proof.
  intros Hd. unfold register. destruct (mem h (rget r id)) eqn:E; [exact Hd|].
  destruct (Nat.eq_dec id2 id) as [->|Hne].
  - rewrite rget_aset_same. apply mem_false in E.
    rewrite <- (rev_involutive (rget r id ++ [h])). apply NoDup_rev.
    rewrite rev_app_distr. simpl. constructor.
    + rewrite <- in_rev. exact E.
    + apply NoDup_rev. exact Hd.
  - rewrite rget_aset_other by exact Hne. exact Hd.
Qed.

Lemma nodup_unregister r h id id2 :
  NoDup (rget r id2) -> NoDup (rget (unregister r h id) id2).
Proof.
  intros Hd. unfold unregister.
  destruct (filter (fun y => negb (Nat.eqb y h)) (rget r id)) as [|y0 t] eqn:Ef.
  - destruct (Nat.eq_dec id2 id) as [->|Hne].
    + rewrite rget_adel_same. constructor.
    + rewrite rget_adel_other by exact Hne. exact Hd.
  - destruct (Nat.eq_dec id2 id) as [->|Hne].
    + rewrite rget_aset_same. rewrite <- Ef. apply NoDup_filter. exact Hd.
    + rewrite rget_aset_other by exact Hne. exact Hd.
Qed.

(* two distinct elements in a duplicate-free list of length > 1 *)
Lemma two_distinct (l : list nat) h : NoDup l -> 1 < List.length l -> exists x, In x l /\ x <> h.
Proof.
  intros Hd Hl. destruct l as [|a [|b t]]; simpl in Hl; try lia.
  destruct (Nat.eq_dec a h) as [->|Ha].
  - exists b. split; [right; left; reflexivity|].
    inversion Hd as [|? ? Hn _]; subst. intros ->. apply Hn. left. reflexivity.
  - exists a. split; [left; reflexivity|exact Ha].
Qed.

Lemma all_equal_short (l : list nat) h : NoDup l -> (forall x, In x l -> x = h) -> List.length l <= 1.
Proof.
  intros Hd Hall. destruct l as [|a [|b t]]; simpl; try lia.
  exfalso. inversion Hd as [|? ? Hn _]; subst. apply Hn.
  rewrite (Hall a) by (left; reflexivity). rewrite (Hall b) by (right; left; reflexivity).
  left. reflexivity.
Qed.
