(* Proofs/Elementwise.v — C05: the model of the elementwise machinery meets Spec/Elementwise. *)
From Coq Require Import List Bool Arith ZArith Lia.
From Serif Require Import Base.PyVal Model.Elementwise Spec.Elementwise.
Import ListNotations.

(* ---- traverse / zip_strict --------------------------------------------------------- *)

Lemma traverse_ok {A} (l : list (sres A)) : forall r, traverse l = SOk r <-> l = map SOk r.
Proof.
  induction l as [|x t IH]; intros r; simpl.
  - split; intros H.
    + inversion H. reflexivity.
    + destruct r; [reflexivity|discriminate].
  - destruct x as [a| |].
    + destruct (traverse t) as [r'| |] eqn:E; simpl.
      * split; intros H.
        -- inversion H; subst. simpl. f_equal. apply IH. reflexivity.
        -- destruct r as [|b r'']; [discriminate|]. simpl in H. inversion H as [[Ha Ht]]; subst a.
           apply IH in Ht. congruence.
      * split; [discriminate|]. intros H. destruct r as [|b r'']; [discriminate|].
        simpl in H. inversion H as [[Ha Ht]]. apply IH in Ht. congruence.
      * split; [discriminate|]. intros H. destruct r as [|b r'']; [discriminate|].
        simpl in H. inversion H as [[Ha Ht]]. apply IH in Ht. congruence.
    + split; [discriminate|]. intros H. destruct r; discriminate.
    + split; [discriminate|]. intros H. destruct r; discriminate.
Qed.

Lemma traverse_ok_length {A} (l : list (sres A)) r : traverse l = SOk r -> length r = length l.
Proof. intros H. apply traverse_ok in H. subst. rewrite map_length. reflexivity. Qed.

Lemma traverse_ok_nth {A} (l : list (sres A)) r (d : sres A) (dr : A) i :
  traverse l = SOk r -> i < length l -> nth i l d = SOk (nth i r dr).
Proof.
  intros H Hi. apply traverse_ok in H. subst. rewrite map_length in Hi.
  rewrite (nth_indep _ d (SOk dr)) by (rewrite map_length; exact Hi).
  apply map_nth.
Qed.

Lemma traverse_total {A} (l : list (sres A)) :
  (forall x, In x l -> exists a, x = SOk a) -> exists r, traverse l = SOk r.
Proof.
  induction l as [|x t IH]; intros H; simpl.
  - eexists; reflexivity.
  - destruct (H x (or_introl eq_refl)) as [a ->].
    destruct IH as [r Hr]; [intros y Hy; apply H; right; exact Hy|].
    rewrite Hr. eexists; reflexivity.
Qed.

Lemma traverse_total_nth {A} (l : list (sres A)) (d : sres A) :
  (forall i, i < length l -> exists a, nth i l d = SOk a) -> exists r, traverse l = SOk r.
Proof.
  intros H. apply traverse_total. intros x Hx.
  destruct (In_nth _ _ d Hx) as [i [Hi Hn]]. rewrite <- Hn. apply H. exact Hi.
Qed.

Lemma zip_strict_combine {A B} (xs : list A) : forall (ys : list B),
  length xs = length ys -> zip_strict xs ys = Some (combine xs ys).
Proof.
  induction xs as [|x xt IH]; intros [|y yt] H; simpl in *; try discriminate; [reflexivity|].
  rewrite IH by lia. reflexivity.
Qed.

Lemma zip_strict_mismatch {A B} (xs : list A) : forall (ys : list B),
  length xs <> length ys -> zip_strict xs ys = None.
Proof.
  induction xs as [|x xt IH]; intros [|y yt] H; simpl in *; try reflexivity; [congruence|].
  rewrite IH by lia. reflexivity.
Qed.

Lemma eqb_len_false n m : n <> m -> negb (n =? m) = true.
Proof. intros H. apply Nat.eqb_neq in H. rewrite H. reflexivity. Qed.
Lemma eqb_len_true n m : n = m -> negb (n =? m) = false.
Proof. intros ->. rewrite Nat.eqb_refl. reflexivity. Qed.
Lemma negb_eqb_false n m : negb (n =? m) = false -> n = m.
Proof. intros H. apply negb_false_iff in H. apply Nat.eqb_eq. exact H. Qed.

Section Proofs.
  Variable val : Type.
  Notation elem := (option val).
  Variable scal : bop -> val -> val -> sres val.
  Implicit Types (f : val -> val -> sres val) (xs ys l : list (option val)) (other : operand val)
                 (m : val -> sres (option val)) (s : val).

  (* element i of the zipped generator *)
  Lemma zipped_nth (f : val -> val -> sres val) (xs ys : list elem) i :
    length xs = length ys ->
    nth i (map (fun p => lift2 f (fst p) (snd p)) (combine xs ys)) (SOk None)
    = lift2 f (nth i xs None) (nth i ys None).
  Proof.
    intros Hlen.
    change (SOk None) with ((fun p : elem * elem => lift2 f (fst p) (snd p)) (None, None)).
    rewrite map_nth. rewrite combine_nth by exact Hlen. reflexivity.
  Qed.

  Lemma zipped_length (f : val -> val -> sres val) (xs ys : list elem) :
    length xs = length ys ->
    length (map (fun p => lift2 f (fst p) (snd p)) (combine xs ys)) = length xs.
  Proof. intros H. rewrite map_length, combine_length. lia. Qed.

  (* ---- zipped_branch: closed characterisation ------------------------------------- *)

  Lemma zipped_branch_mismatch f xs ys : length xs <> length ys -> zipped_branch f xs ys = ErrLen.
  Proof. intros H. unfold zipped_branch. rewrite eqb_len_false by exact H. reflexivity. Qed.

  Lemma zipped_branch_ok f xs ys l :
    zipped_branch f xs ys = Ok l ->
    length xs = length ys /\ length l = length xs /\
    forall i, i < length xs -> lift2 f (nth i xs None) (nth i ys None) = SOk (nth i l None).
  Proof.
    unfold zipped_branch. destruct (negb (length xs =? length ys)) eqn:E; [discriminate|].
    apply negb_eqb_false in E. rewrite zip_strict_combine by exact E.
    destruct (traverse _) as [r| |] eqn:T; try discriminate. intros H; inversion H; subst r.
    split; [exact E|]. split.
    - apply traverse_ok_length in T. rewrite T. apply zipped_length. exact E.
    - intros i Hi. rewrite <- (zipped_nth f xs ys i E).
      apply traverse_ok_nth; [exact T|]. rewrite zipped_length by exact E. exact Hi.
  Qed.

  Lemma zipped_branch_total f xs ys :
    length xs = length ys ->
    (forall i, i < length xs -> exists r, lift2 f (nth i xs None) (nth i ys None) = SOk r) ->
    exists l, zipped_branch f xs ys = Ok l.
  Proof.
    intros E H. unfold zipped_branch. rewrite eqb_len_true by exact E.
    rewrite zip_strict_combine by exact E.
    destruct (traverse_total_nth (map (fun p => lift2 f (fst p) (snd p)) (combine xs ys)) (SOk None)) as [r Hr].
    - intros i Hi. rewrite zipped_length in Hi by exact E. rewrite zipped_nth by exact E. apply H. exact Hi.
    - rewrite Hr. eexists; reflexivity.
  Qed.

  (* ---- the scalar branch ----------------------------------------------------------- *)

  Lemma scalar_nth (g : val -> sres val) (xs : list elem) i :
    nth i (map (lift1 (fun x => sres_map Some (g x))) xs) (SOk None)
    = match nth i xs None with Some a => sres_map Some (g a) | None => SOk None end.
  Proof.
    change (SOk None) with (lift1 (fun x => sres_map Some (g x)) (@None val)) at 1.
    rewrite map_nth. reflexivity.
  Qed.

  Lemma scalar_branch_ok (g : val -> sres val) xs l :
    traverse (map (lift1 (fun x => sres_map Some (g x))) xs) = SOk l ->
    length l = length xs /\
    forall i, i < length xs ->
      match nth i xs None with Some a => sres_map Some (g a) | None => SOk None end = SOk (nth i l None).
  Proof.
    intros T. split.
    - apply traverse_ok_length in T. rewrite T, map_length. reflexivity.
    - intros i Hi. rewrite <- scalar_nth. apply traverse_ok_nth; [exact T|]. rewrite map_length. exact Hi.
  Qed.

  Lemma scalar_branch_total (g : val -> sres val) xs :
    (forall i, i < length xs -> exists r,
       match nth i xs None with Some a => sres_map Some (g a) | None => SOk None end = SOk r) ->
    exists l, traverse (map (lift1 (fun x => sres_map Some (g x))) xs) = SOk l.
  Proof.
    intros H. apply (traverse_total_nth _ (SOk None)). intros i Hi. rewrite map_length in Hi.
    rewrite scalar_nth. apply H. exact Hi.
  Qed.

  (* ---- _elementwise_operation ------------------------------------------------------ *)

  Definition fn_result (f : val -> val -> sres val) (xs : list elem) (other : operand val) (l : list elem) :=
    length l = length xs /\
    forall i, i < length xs -> lift2 f (nth i xs None) (operand_nth other i) = SOk (nth i l None).

  Lemma elementwise_operation_ok f xs other l :
    elementwise_operation f xs other = Ok l -> operand_fits (length xs) other /\ fn_result f xs other l.
  Proof.
    destruct other as [ys|ys|s]; simpl.
    - intros H. apply zipped_branch_ok in H. destruct H as [E [L N]]. split; [symmetry; exact E|]. split; assumption.
    - intros H. apply zipped_branch_ok in H. destruct H as [E [L N]]. split; [symmetry; exact E|]. split; assumption.
    - destruct (traverse _) as [r| |] eqn:T; try discriminate. intros H; inversion H; subst r.
      split; [exact I|]. apply (scalar_branch_ok (fun x => f x s)) in T. destruct T as [L N].
      split; [exact L|]. intros i Hi. specialize (N i Hi). unfold lift2.
      destruct (nth i xs None); exact N.
  Qed.

  Lemma elementwise_operation_total f xs other :
    operand_fits (length xs) other ->
    (forall i, i < length xs -> exists r, lift2 f (nth i xs None) (operand_nth other i) = SOk r) ->
    exists l, elementwise_operation f xs other = Ok l.
  Proof.
    destruct other as [ys|ys|s]; simpl; intros Hfit H.
    - apply zipped_branch_total; [symmetry; exact Hfit|exact H].
    - apply zipped_branch_total; [symmetry; exact Hfit|exact H].
    - destruct (scalar_branch_total (fun x => f x s) xs) as [l Hl].
      + intros i Hi. specialize (H i Hi). unfold lift2 in H. destruct (nth i xs None); exact H.
      + rewrite Hl. eexists; reflexivity.
  Qed.

  Lemma elementwise_operation_mismatch f xs other :
    ~ operand_fits (length xs) other -> elementwise_operation f xs other = ErrLen.
  Proof.
    destruct other as [ys|ys|s]; simpl; intros H.
    - apply zipped_branch_mismatch. congruence.
    - apply zipped_branch_mismatch. congruence.
    - exfalso. apply H. exact I.
  Qed.

  (* ---- __radd__'s own body ---------------------------------------------------------- *)

  Lemma radd_zipped_mismatch xs ys : length xs <> length ys -> radd_zipped scal xs ys = ErrLen.
  Proof. intros H. unfold radd_zipped. rewrite eqb_len_false by exact H. reflexivity. Qed.

  Lemma radd_zipped_ok xs ys l :
    radd_zipped scal xs ys = Ok l ->
    length xs = length ys /\ length l = length xs /\
    forall i, i < length xs -> lift2 (scal Add) (nth i ys None) (nth i xs None) = SOk (nth i l None).
  Proof.
    unfold radd_zipped. destruct (negb (length xs =? length ys)) eqn:E; [discriminate|].
    apply negb_eqb_false in E. rewrite zip_strict_combine by (symmetry; exact E).
    destruct (traverse _) as [r| |] eqn:T; try discriminate. intros H; inversion H; subst r.
    split; [exact E|]. split.
    - apply traverse_ok_length in T. rewrite T. rewrite zipped_length by (symmetry; exact E). symmetry; exact E.
    - intros i Hi. rewrite <- (zipped_nth (scal Add) ys xs i (eq_sym E)).
      apply traverse_ok_nth; [exact T|]. rewrite zipped_length by (symmetry; exact E). lia.
  Qed.

  Lemma radd_zipped_total xs ys :
    length xs = length ys ->
    (forall i, i < length xs -> exists r, lift2 (scal Add) (nth i ys None) (nth i xs None) = SOk r) ->
    exists l, radd_zipped scal xs ys = Ok l.
  Proof.
    intros E H. unfold radd_zipped. rewrite eqb_len_true by exact E.
    rewrite zip_strict_combine by (symmetry; exact E).
    destruct (traverse_total_nth (map (fun p => lift2 (scal Add) (fst p) (snd p)) (combine ys xs)) (SOk None)) as [r Hr].
    - intros i Hi. rewrite zipped_length in Hi by (symmetry; exact E).
      rewrite zipped_nth by (symmetry; exact E). apply H. lia.
    - rewrite Hr. eexists; reflexivity.
  Qed.

  Lemma lift2_flip (f : val -> val -> sres val) x y : lift2 (fun a b => f b a) x y = lift2 f y x.
  Proof. destruct x, y; reflexivity. Qed.

  Lemma radd_body_ok xs other l :
    radd_body scal xs other = Ok l ->
    operand_fits (length xs) other /\ fn_result (fun x y => scal Add y x) xs other l.
  Proof.
    destruct other as [ys|ys|s]; simpl.
    - intros H. apply radd_zipped_ok in H. destruct H as [E [L N]]. split; [symmetry; exact E|].
      split; [exact L|]. intros i Hi. rewrite lift2_flip. apply N. exact Hi.
    - intros H. apply radd_zipped_ok in H. destruct H as [E [L N]]. split; [symmetry; exact E|].
      split; [exact L|]. intros i Hi. rewrite lift2_flip. apply N. exact Hi.
    - destruct (traverse _) as [r| |] eqn:T; try discriminate. intros H; inversion H; subst r.
      split; [exact I|]. apply (scalar_branch_ok (fun x => scal Add s x)) in T. destruct T as [L N].
      split; [exact L|]. intros i Hi. specialize (N i Hi). unfold lift2.
      destruct (nth i xs None); exact N.
  Qed.

  Lemma radd_body_total xs other :
    operand_fits (length xs) other ->
    (forall i, i < length xs -> exists r,
        lift2 (fun x y => scal Add y x) (nth i xs None) (operand_nth other i) = SOk r) ->
    exists l, radd_body scal xs other = Ok l.
  Proof.
    destruct other as [ys|ys|s]; simpl; intros Hfit H.
    - apply radd_zipped_total; [symmetry; exact Hfit|]. intros i Hi. rewrite <- lift2_flip. apply H. exact Hi.
    - apply radd_zipped_total; [symmetry; exact Hfit|]. intros i Hi. rewrite <- lift2_flip. apply H. exact Hi.
    - destruct (scalar_branch_total (fun x => scal Add s x) xs) as [l Hl].
      + intros i Hi. specialize (H i Hi). unfold lift2 in H. destruct (nth i xs None); exact H.
      + rewrite Hl. eexists; reflexivity.
  Qed.

  Lemma radd_body_mismatch xs other :
    ~ operand_fits (length xs) other -> radd_body scal xs other = ErrLen.
  Proof.
    destruct other as [ys|ys|s]; simpl; intros H.
    - apply radd_zipped_mismatch. congruence.
    - apply radd_zipped_mismatch. congruence.
    - exfalso. apply H. exact I.
  Qed.

  (* ---- the dispatch table ----------------------------------------------------------- *)

  (* every dunder has a row; every row passes a function that is the written operand order *)
  Lemma dispatch_table_sound d :
    match lookup_route dispatch_table d with
    | Some (ViaElementwise g) => forall x y, apply_opfunc scal g x y = written scal d x y
    | Some OwnRadd => d = Refl Add
    | None => False
    end.
  Proof. destruct d as [[]|[]]; simpl; try (intros; reflexivity); reflexivity. Qed.

  Lemma vec_dunder_ok d xs other l :
    vec_dunder scal d xs other = Ok l ->
    operand_fits (length xs) other /\ fn_result (written scal d) xs other l.
  Proof.
    destruct d as [[]|[]]; unfold vec_dunder; simpl lookup_route; cbv beta iota;
      try (intros H; apply elementwise_operation_ok in H; exact H).
    intros H. apply radd_body_ok in H. exact H.
  Qed.

  Lemma vec_dunder_total d xs other :
    operand_fits (length xs) other ->
    (forall i, i < length xs -> exists r,
        lift2 (written scal d) (nth i xs None) (operand_nth other i) = SOk r) ->
    exists l, vec_dunder scal d xs other = Ok l.
  Proof.
    destruct d as [[]|[]]; unfold vec_dunder; simpl lookup_route; cbv beta iota; intros Hfit H;
      try (apply elementwise_operation_total; assumption).
    apply radd_body_total; assumption.
  Qed.

  Lemma vec_dunder_mismatch d xs other :
    ~ operand_fits (length xs) other -> vec_dunder scal d xs other = ErrLen.
  Proof.
    destruct d as [[]|[]]; unfold vec_dunder; simpl lookup_route; cbv beta iota; intros H;
      try (apply elementwise_operation_mismatch; exact H).
    apply radd_body_mismatch; exact H.
  Qed.

  (* ---- the theorems of Props/C05.v -------------------------------------------------- *)

  Lemma binop_length d xs other l : vec_dunder scal d xs other = Ok l -> length l = length xs.
  Proof. intros H. apply vec_dunder_ok in H. apply H. Qed.

  Lemma binop_nth d xs other l :
    vec_dunder scal d xs other = Ok l -> elementwise_result scal d xs other l.
  Proof. intros H. apply vec_dunder_ok in H. destruct H as [_ [L N]]. split; [exact L|exact N]. Qed.

  Lemma binop_total d xs other :
    operand_fits (length xs) other -> defined_everywhere scal d xs other ->
    exists l, vec_dunder scal d xs other = Ok l /\ elementwise_result scal d xs other l.
  Proof.
    intros Hfit Hdef. destruct (vec_dunder_total d xs other Hfit Hdef) as [l Hl].
    exists l. split; [exact Hl|]. apply binop_nth; assumption.
  Qed.

  Lemma binop_len_mismatch_is_error d xs other :
    ~ operand_fits (length xs) other -> vec_dunder scal d xs other = ErrLen.
  Proof. apply vec_dunder_mismatch. Qed.

  (* reflected forms: the scalar / the sequence element stands on the LEFT *)
  Lemma rbinop_operand_order_scalar o xs s l :
    vec_dunder scal (Refl o) xs (OScalar s) = Ok l ->
    length l = length xs /\
    forall i, i < length xs ->
      match nth i xs None with
      | Some a => sres_map Some (scal o s a)
      | None => SOk None
      end = SOk (nth i l None).
  Proof.
    intros H. apply binop_nth in H. destruct H as [L N]. split; [exact L|].
    intros i Hi. specialize (N i Hi). unfold at_position, lift2 in N. simpl in N.
    destruct (nth i xs None); exact N.
  Qed.

  Lemma rbinop_operand_order_seq o xs ys l :
    vec_dunder scal (Refl o) xs (OSeq ys) = Ok l ->
    length l = length xs /\
    forall i, i < length xs -> lift2 (scal o) (nth i ys None) (nth i xs None) = SOk (nth i l None).
  Proof.
    intros H. apply binop_nth in H. destruct H as [L N]. split; [exact L|].
    intros i Hi. specialize (N i Hi). unfold at_position in N. simpl in N.
    rewrite <- lift2_flip. exact N.
  Qed.

  Lemma rmul_written_order xs s l :
    vec_dunder scal (Refl Mul) xs (OScalar s) = Ok l ->
    elementwise_result scal (Refl Mul) xs (OScalar s) l.
  Proof. apply binop_nth. Qed.

  (* ---- unary operators, methods, properties ----------------------------------------- *)

  Lemma lift1_nth (m : val -> sres elem) (xs : list elem) i :
    nth i (map (lift1 m) xs) (SOk None) = lift1 m (nth i xs None).
  Proof. change (SOk None) with (lift1 m (@None val)) at 1. apply map_nth. Qed.

  Lemma generator_ok (m : val -> sres elem) xs l :
    traverse (map (lift1 m) xs) = SOk l -> mapped_result m xs l.
  Proof.
    intros T. split.
    - apply traverse_ok_length in T. rewrite T, map_length. reflexivity.
    - intros i Hi.
      assert (N : lift1 m (nth i xs None) = SOk (nth i l None)).
      { rewrite <- lift1_nth. apply traverse_ok_nth; [exact T|]. rewrite map_length. exact Hi. }
      destruct (nth i xs None) as [a|]; simpl in N; [exact N|]. inversion N. reflexivity.
  Qed.

  Lemma generator_total (m : val -> sres elem) xs :
    defined_on m xs -> exists l, traverse (map (lift1 m) xs) = SOk l.
  Proof.
    intros H. apply traverse_total. intros x Hx. apply in_map_iff in Hx. destruct Hx as [e [<- He]].
    destruct e as [a|]; simpl; [|eexists; reflexivity].
    destruct (In_nth_error _ _ He) as [i Hi]. apply (H i a Hi).
  Qed.

  Lemma proxy_loop_traverse (m : val -> sres elem) xs : forall acc,
    proxy_loop m xs acc = sres_map (app acc) (traverse (map (lift1 m) xs)).
  Proof.
    induction xs as [|x t IH]; intros acc; simpl.
    - rewrite app_nil_r. reflexivity.
    - destruct x as [a|]; simpl.
      + destruct (m a) as [r| |]; simpl; try reflexivity.
        rewrite IH. destruct (traverse (map (lift1 m) t)); simpl; try reflexivity.
        rewrite <- app_assoc. reflexivity.
      + rewrite IH. destruct (traverse (map (lift1 m) t)); simpl; try reflexivity.
        rewrite <- app_assoc. reflexivity.
  Qed.

  Lemma method_proxy_is_generator m xs : method_proxy_call m xs = generator_broadcast m xs.
  Proof.
    unfold method_proxy_call, generator_broadcast. rewrite proxy_loop_traverse.
    destruct (traverse (map (lift1 m) xs)); reflexivity.
  Qed.

  Lemma unop_ok m xs l : unary_operation m xs = Ok l -> mapped_result m xs l.
  Proof.
    unfold unary_operation. destruct (traverse _) as [r| |] eqn:T; try discriminate.
    intros H; inversion H; subst r. apply generator_ok. exact T.
  Qed.

  Lemma unop_total m xs : defined_on m xs -> exists l, unary_operation m xs = Ok l /\ mapped_result m xs l.
  Proof.
    intros H. destruct (generator_total m xs H) as [l Hl]. exists l. split.
    - unfold unary_operation. rewrite Hl. reflexivity.
    - apply generator_ok. exact Hl.
  Qed.

  Lemma broadcast_ok r m xs l : broadcast r m xs = Ok l -> mapped_result m xs l.
  Proof.
    destruct r; simpl; try rewrite method_proxy_is_generator; unfold generator_broadcast;
      try discriminate;
      (destruct (traverse _) as [r'| |] eqn:T; try discriminate;
       intros H; inversion H; subst r'; apply generator_ok; exact T).
  Qed.

  Lemma broadcast_total r m xs :
    r <> RAttributeError -> defined_on m xs ->
    exists l, broadcast r m xs = Ok l /\ mapped_result m xs l.
  Proof.
    intros Hr H. destruct (generator_total m xs H) as [l Hl]. exists l. split.
    - destruct r; simpl; try rewrite method_proxy_is_generator; unfold generator_broadcast;
        try rewrite Hl; try reflexivity. congruence.
    - apply generator_ok. exact Hl.
  Qed.

  Lemma broadcast_none r m xs l i :
    broadcast r m xs = Ok l -> i < length xs -> nth i xs None = None -> nth i l None = None.
  Proof.
    intros H Hi Hn. apply broadcast_ok in H. destruct H as [_ N]. specialize (N i Hi).
    rewrite Hn in N. exact N.
  Qed.

  (* which attribute names broadcast at all *)
  Lemma resolve_broadcasts explicit k a :
    resolve explicit k a <> RAttributeError <->
    explicit = true \/ (exists kd, k = Some kd /\ kd <> KObject /\ a <> AMissing).
  Proof.
    unfold resolve. destruct explicit.
    - split; [intros _; left; reflexivity|intros _; discriminate].
    - split.
      + intros H. right. destruct k as [kd|]; [|congruence].
        exists kd. split; [reflexivity|]. destruct kd; destruct a; try congruence; split; congruence.
      + intros [H|[kd [-> [Hk Ha]]]]; [discriminate|].
        destruct kd; destruct a; congruence.
  Qed.

  (* ---- tables ------------------------------------------------------------------------ *)

  Lemma build_table_ok (outs cols : list (outcome val)) :
    build_table outs = TOk cols -> cols = outs /\ forallb is_value outs = true.
  Proof.
    unfold build_table. destruct (forallb is_value outs) eqn:E; [|discriminate].
    destruct outs as [|o t].
    - intros H; inversion H. split; reflexivity.
    - destruct (forallb _ t); [|discriminate]. intros H; inversion H. split; reflexivity.
  Qed.

  Lemma table_other_is_map o cols x outs :
    table_operation scal o cols (TOther x) = TOk outs ->
    length outs = length cols /\
    forall j, j < length cols -> nth j outs ErrRaise = vec_dunder scal (Plain o) (nth j cols []) x.
  Proof.
    simpl. intros H. apply build_table_ok in H. destruct H as [-> _]. split.
    - apply map_length.
    - intros j Hj.
      rewrite (nth_indep _ ErrRaise (vec_dunder scal (Plain o) [] x)) by (rewrite map_length; exact Hj).
      apply (map_nth (fun c => vec_dunder scal (Plain o) c x)).
  Qed.

  Lemma table_table_is_zip o cols rcols outs :
    table_operation scal o cols (TTable rcols) = TOk outs ->
    length cols = length rcols /\ length outs = length cols /\
    forall j, j < length cols ->
      nth j outs ErrRaise = vec_dunder scal (Plain o) (nth j cols []) (OVec (nth j rcols [])).
  Proof.
    simpl. destruct (negb (length cols =? length rcols)) eqn:E; [discriminate|].
    apply negb_eqb_false in E. intros H. apply build_table_ok in H. destruct H as [-> _].
    split; [exact E|]. split.
    - rewrite map_length, combine_length. lia.
    - intros j Hj.
      set (g := fun p : list elem * list elem => vec_dunder scal (Plain o) (fst p) (OVec (snd p))).
      rewrite (nth_indep _ ErrRaise (g ([], []))) by (rewrite map_length, combine_length; lia).
      rewrite (map_nth g). rewrite combine_nth by exact E. reflexivity.
  Qed.

  Lemma table_width_mismatch o cols rcols :
    length cols <> length rcols -> table_operation scal o cols (TTable rcols) = TErr.
  Proof. intros H. simpl. rewrite eqb_len_false by exact H. reflexivity. Qed.

  (* a column that fails makes the whole operation fail: no partial table *)
  Lemma table_error_propagates o cols x outs j :
    table_operation scal o cols (TOther x) = TOk outs -> j < length cols ->
    is_value (vec_dunder scal (Plain o) (nth j cols []) x) = true.
  Proof.
    simpl. intros H Hj. apply build_table_ok in H. destruct H as [_ H].
    rewrite forallb_forall in H. apply H.
    apply (in_map (fun c => vec_dunder scal (Plain o) c x)). apply nth_In. exact Hj.
  Qed.

  (* on a rectangular table whose column operations all succeed, so does the table operation *)
  Lemma build_table_total (outs : list (outcome val)) n :
    (forall o, In o outs -> exists l, o = Ok l /\ length l = n) -> build_table outs = TOk outs.
  Proof.
    intros H. unfold build_table.
    assert (Hv : forallb is_value outs = true).
    { apply forallb_forall. intros o Ho. destruct (H o Ho) as [l [-> _]]. reflexivity. }
    rewrite Hv. destruct outs as [|o t]; [reflexivity|].
    assert (Hl : forallb (fun o' => out_length o' =? out_length o) t = true).
    { apply forallb_forall. intros o' Ho'.
      destruct (H o (or_introl eq_refl)) as [l [-> Hn]].
      destruct (H o' (or_intror Ho')) as [l' [-> Hn']]. simpl. apply Nat.eqb_eq. congruence. }
    rewrite Hl. reflexivity.
  Qed.

  Lemma table_other_total o cols x n :
    rectangular cols n ->
    (forall c, In c cols -> exists l, vec_dunder scal (Plain o) c x = Ok l) ->
    exists outs, table_operation scal o cols (TOther x) = TOk outs.
  Proof.
    intros Hrect H. simpl. eexists. apply (build_table_total _ n).
    intros out Hout. apply in_map_iff in Hout. destruct Hout as [c [<- Hc]].
    destruct (H c Hc) as [l Hl]. exists l. split; [exact Hl|].
    apply binop_length in Hl. rewrite Hl. apply Hrect. exact Hc.
  Qed.
End Proofs.

(* a non-commutative world: the written order is visible (used by the examples of Props/C05.v) *)
Definition left_biased (o : bop) (a b : bool) : sres bool := SOk a.

(* ---- _Date.__add__ --------------------------------------------------------------------- *)

Lemma fromordinal_ok n m : fromordinal n = SOk m -> m = n /\ valid_ordinal n.
Proof.
  unfold fromordinal, valid_ordinal.
  destruct ((1 <=? n)%Z && (n <=? max_ordinal)%Z) eqn:E; [|discriminate].
  intros H; injection H as Hm. apply andb_true_iff in E. destruct E as [E1 E2].
  apply Z.leb_le in E1. apply Z.leb_le in E2. split; [symmetry; exact Hm|split; assumption].
Qed.

Lemma add_days_ok s y r : add_days s y = SOk r ->
  r = plus_days s y /\ (forall n, r = Some n -> valid_ordinal n).
Proof.
  unfold add_days, plus_days. destruct s as [a|], y as [b|]; simpl;
    try (intros H; inversion H; split; [reflexivity|discriminate]).
  destruct (fromordinal (a + b)) as [m| |] eqn:E; simpl; try discriminate.
  intros H; inversion H; subst r. apply fromordinal_ok in E. destruct E as [-> V].
  split; [reflexivity|]. intros n Hn. inversion Hn; subst. exact V.
Qed.

Lemma date_add_int_ok xs n l :
  date_add xs (DInt n) = DOk l ->
  length l = length xs /\
  forall i, i < length xs ->
    nth i l None = plus_days (nth i xs None) (Some n) /\
    (forall m, nth i l None = Some m -> valid_ordinal m).
Proof.
  simpl. destruct (traverse _) as [r| |] eqn:T; try discriminate. intros H; inversion H; subst r.
  split.
  - apply traverse_ok_length in T. rewrite T, map_length. reflexivity.
  - intros i Hi.
    assert (N : add_days (nth i xs None) (Some n) = SOk (nth i l None)).
    { pose proof (map_nth (fun s => add_days s (Some n)) xs None i) as M. cbv beta in M.
      rewrite <- M. apply traverse_ok_nth; [exact T|]. rewrite map_length. exact Hi. }
    apply add_days_ok in N. exact N.
Qed.

Lemma date_add_vec_ok xs ys l :
  date_add xs (DVec (Some KInt) ys) = DOk l ->
  length xs = length ys /\ length l = length xs /\
  forall i, i < length xs ->
    nth i l None = plus_days (nth i xs None) (nth i ys None) /\
    (forall m, nth i l None = Some m -> valid_ordinal m).
Proof.
  simpl. destruct (negb (length xs =? length ys)) eqn:E; [discriminate|].
  apply negb_eqb_false in E. rewrite zip_strict_combine by exact E.
  destruct (traverse _) as [r| |] eqn:T; try discriminate. intros H; inversion H; subst r.
  split; [exact E|]. split.
  - apply traverse_ok_length in T. rewrite T, map_length, combine_length. lia.
  - intros i Hi.
    assert (N : add_days (nth i xs None) (nth i ys None) = SOk (nth i l None)).
    { pose proof (map_nth (fun p : option Z * option Z => add_days (fst p) (snd p))
                          (combine xs ys) (None, None) i) as M. cbv beta in M.
      rewrite combine_nth in M by exact E. simpl fst in M. simpl snd in M.
      rewrite <- M. apply traverse_ok_nth; [exact T|]. rewrite map_length, combine_length. lia. }
    apply add_days_ok in N. exact N.
Qed.

Lemma date_add_vec_mismatch xs ys :
  length xs <> length ys -> date_add xs (DVec (Some KInt) ys) = DErrLen.
Proof. intros H. simpl. rewrite eqb_len_false by exact H. reflexivity. Qed.

(* in range, adding days never fails *)
Lemma date_add_int_total xs n :
  (forall a, In (Some a) xs -> valid_ordinal (a + n)) -> exists l, date_add xs (DInt n) = DOk l.
Proof.
  intros H. simpl.
  destruct (traverse_total (map (fun s => add_days s (Some n)) xs)) as [r Hr].
  - intros x Hx. apply in_map_iff in Hx. destruct Hx as [s [<- Hs]].
    destruct s as [a|]; simpl; [|eexists; reflexivity].
    destruct (H a Hs) as [H1 H2]. unfold fromordinal.
    apply Z.leb_le in H1. apply Z.leb_le in H2. rewrite H1, H2. simpl. eexists; reflexivity.
  - rewrite Hr. eexists; reflexivity.
Qed.
