(* Proofs/HeapFp.v — C16: a memoised fingerprint is never stale; fingerprint() is a function
   of current contents only. *)
From Coq Require Import List Bool Arith Lia ZArith.
From Serif Require Import Base.PyVal Model.Dtype Model.Heap Proofs.HeapBase Proofs.HeapReg Proofs.HeapFrame.
Import ListNotations.

Definition Inv_fp (s : state) : Prop :=
  forall h v x, getv s h = Some v -> vfp v = Some x -> x = fp_vals (vals v).

Lemma Inv_fp_init : Inv_fp init.
Proof. intros h v x H. unfold getv in H. simpl in H. discriminate. Qed.

(* what fingerprint() must return: a function of the object's contents *)
Definition fp_of (s : state) (h : handle) : option Z :=
  match aget (heap s) h with
  | Some (OV v) => Some (fp_vals (vals v))
  | Some (OT t) => Some (fp_hashes (map (col_fp s) (cols t)))
  | None => None
  end.

Lemma fp_update_vec s h v' r :
  (forall x, vfp v' = Some x -> x = fp_vals (vals v')) -> Inv_fp s ->
  Inv_fp (mkSt (aset (heap s) h (OV v')) r).
Proof.
  intros Hv Hi h2 v2 x. destruct (Nat.eq_dec h2 h) as [->|Hne].
  - rewrite getv_aset_same. intros E. inversion E; subst. apply Hv.
  - rewrite getv_aset_other by exact Hne. apply Hi.
Qed.

Lemma fp_update_tab s h t' r : Inv_fp s -> Inv_fp (mkSt (aset (heap s) h (OT t')) r).
Proof.
  intros Hi h2 v2 x. destruct (Nat.eq_dec h2 h) as [->|Hne].
  - unfold getv. simpl. rewrite aget_aset_same. discriminate.
  - rewrite getv_aset_other by exact Hne. apply Hi.
Qed.

Lemma set_vec_fp s h us sid' s' out : set_vec s h us sid' = (s', out) -> Inv_fp s -> Inv_fp s'.
Proof.
  unfold set_vec. intros H Hi.
  destruct (getv s h) as [v|] eqn:Hv; [|inversion H; subst; exact Hi].
  destruct (negb (check_writable (reg s) (sid v))); [inversion H; subst; exact Hi|].
  destruct (negb (forallb _ us)); [inversion H; subst; exact Hi|].
  destruct (dt v) as [d|].
  - destruct (if negb (Nat.eqb (List.length us) 0) then required_dtype d (map snd us) else Some d) as [rd|];
      [|inversion H; subst; exact Hi].
    destruct (kind_eqb (dkind rd) (dkind d)).
    + inversion H; subst. apply fp_update_vec; [simpl; discriminate|exact Hi].
    + destruct (kind_eqb (dkind d) KInt && kind_eqb (dkind rd) KFloat).
      * inversion H; subst. apply fp_update_vec; [simpl; discriminate|exact Hi].
      * inversion H; subst; exact Hi.
  - inversion H; subst. apply fp_update_vec; [simpl; discriminate|exact Hi].
Qed.

Lemma set_cols_fp ws : forall s chs s' out, set_cols s chs ws = (s', out) -> Inv_fp s -> Inv_fp s'.
Proof.
  induction ws as [|[[ci us] sid'] t IH]; intros s chs s' out H Hi; simpl in H.
  - inversion H; subst. exact Hi.
  - destruct (nth_error chs ci) as [ch|]; [|inversion H; subst; exact Hi].
    destruct (set_vec s ch us sid') as [s1 o1] eqn:E.
    pose proof (set_vec_fp _ _ _ _ _ _ E Hi) as Hi1.
    destruct o1; try (inversion H; subst; exact Hi1). eapply IH; eassumption.
Qed.

Lemma alloc_cols_fp built : forall s hs sids s', alloc_cols s built hs sids = Some s' -> Inv_fp s -> Inv_fp s'.
Proof.
  induction built as [|[[l n] d] bt IH]; intros s hs sids s' H Hi; simpl in H.
  - destruct hs; [|discriminate]. destruct sids; [|discriminate]. inversion H; subst. exact Hi.
  - destruct hs as [|h ht]; [discriminate|]. destruct sids as [|i it]; [discriminate|].
    destruct (aget (heap s) h) eqn:Hf; [discriminate|].
    eapply IH; [exact H|]. intros h2 v2 x. unfold getv. simpl.
    destruct (Nat.eq_dec h2 h) as [->|Hne].
    + rewrite aget_app_none by exact Hf. intros E. inversion E; subst. simpl. discriminate.
    + rewrite aget_app_other by exact Hne. apply Hi.
Qed.

Lemma fold_memo_fp cs : forall hp r, Inv_fp (mkSt hp r) -> Inv_fp (mkSt (fold_left memo_col cs hp) r).
Proof.
  induction cs as [|c cs IH]; intros hp r Hi; simpl; [exact Hi|].
  apply IH. unfold memo_col. destruct (aget hp c) as [[vc|tc]|] eqn:Hc; try exact Hi.
  destruct (vfp vc); [exact Hi|].
  apply (fp_update_vec (mkSt hp r)); [simpl; intros x E; inversion E; reflexivity|exact Hi].
Qed.

Theorem step_preserves_Inv_fp s o s' out : step s o = (s', out) -> Inv_fp s -> Inv_fp s'.
Proof.
  intros H Hi. destruct o as [h c0 rn sid'|ht cs chs sids tsid'|h us sid'|ht ws|ht ci c0 h' sid' tsid'|h n|h|h|h|hs];
    unfold step in H; cbv beta iota in H.
  - destruct (build_col s c0) as [[[l n] d]|]; [|inversion H; subst; exact Hi].
    destruct (alloc_cols s _ [h] [sid']) as [s1|] eqn:E; inversion H; subst; [|exact Hi].
    eapply alloc_cols_fp; eassumption.
  - destruct (build_all s cs) as [built|]; [|inversion H; subst; exact Hi].
    destruct (negb (all_same_len built)); [inversion H; subst; exact Hi|].
    destruct (alloc_cols s built chs sids) as [s1|] eqn:E; [|inversion H; subst; exact Hi].
    pose proof (alloc_cols_fp _ _ _ _ _ E Hi) as Hi1.
    destruct (aget (heap s1) ht) eqn:Hf; inversion H; subst; [exact Hi|].
    intros h2 v2 x. unfold getv. simpl. destruct (Nat.eq_dec h2 ht) as [->|Hne].
    + rewrite aget_app_none by exact Hf. discriminate.
    + rewrite aget_app_other by exact Hne. apply Hi1.
  - eapply set_vec_fp; eassumption.
  - destruct (gett s ht); [|inversion H; subst; exact Hi]. eapply set_cols_fp; eassumption.
  - destruct (gett s ht) as [t|]; [|inversion H; subst; exact Hi].
    destruct (build_col s c0) as [[[l n] d]|]; [|inversion H; subst; exact Hi].
    destruct (nth_error (cols t) ci) as [old|]; [|inversion H; subst; exact Hi].
    destruct (negb (Nat.eqb (List.length l) _)); [inversion H; subst; exact Hi|].
    destruct (alloc_cols s _ [h'] [sid']) as [s1|] eqn:E; [|inversion H; subst; exact Hi].
    pose proof (alloc_cols_fp _ _ _ _ _ E Hi) as Hi1.
    inversion H; subst. apply fp_update_tab. exact Hi1.
  - destruct (aget (heap s) h) as [[v|t]|] eqn:Hg; inversion H; subst; try exact Hi.
    + apply fp_update_vec; [|exact Hi]. simpl. intros x E. apply (Hi h v x); [unfold getv; rewrite Hg; reflexivity|exact E].
    + apply fp_update_tab. exact Hi.
  - destruct (aget (heap s) h) as [[v|t]|] eqn:Hg; inversion H; subst; try exact Hi.
    + apply fp_update_vec; [|exact Hi]. simpl. intros x E. inversion E; subst.
      destruct (vfp v) as [y|] eqn:Ey; [|reflexivity]. apply (Hi h v); [unfold getv; rewrite Hg; reflexivity|exact Ey].
    + apply (fp_update_tab (mkSt _ (reg s))). apply fold_memo_fp. destruct s; exact Hi.
  - destruct (aget (heap s) h); inversion H; subst; exact Hi.
  - destruct (getv s h) as [v|]; [|inversion H; subst; exact Hi].
    destruct (negb (check_writable (reg s) (sid v))); inversion H; subst; exact Hi.
  - destruct (forallb _ (heap s)); inversion H; subst; [|exact Hi].
    intros h2 v2 x. unfold getv. rewrite aget_collect. destruct (mem h2 hs); [discriminate|]. apply Hi.
Qed.

Theorem reachable_Inv_fp os : forall s, Inv_fp s -> Inv_fp (run s os).
Proof.
  induction os as [|o t IH]; intros s Hi; simpl; [exact Hi|].
  apply IH. destruct (step s o) as [s' out] eqn:E. simpl. eapply step_preserves_Inv_fp; eassumption.
Qed.

(* fingerprint() returns a function of CURRENT CONTENTS — whatever was cached, whenever *)
Theorem fingerprint_is_function_of_contents s h s' x :
  Inv_fp s -> step s (OFp h) = (s', OkFp x) -> fp_of s h = Some x.
Proof.
  intros Hi H. unfold step in H. unfold fp_of.
  destruct (aget (heap s) h) as [[v|t]|] eqn:Hg; inversion H; subst.
  - destruct (vfp v) as [y|] eqn:Ey; [|reflexivity].
    rewrite (Hi h v y); [reflexivity|unfold getv; rewrite Hg; reflexivity|exact Ey].
  - f_equal. f_equal. apply map_ext. intros c. unfold col_fp.
    destruct (getv s c) as [vc|] eqn:Hc; [|reflexivity].
    destruct (vfp vc) as [y|] eqn:Ey; [|reflexivity]. symmetry. apply (Hi c vc y); assumption.
Qed.

(* hence: equal contents, equal fingerprints — across different states and histories
   (in particular: equal to the fingerprint of a freshly built object with these contents) *)
Definition contents (s : state) (h : handle) : option (list (list sval)) :=
  match aget (heap s) h with
  | Some (OV v) => Some [vals v]
  | Some (OT t) => Some (map (fun c => match getv s c with Some v => vals v | None => [] end) (cols t))
  | None => None
  end.
Definition is_table (s : state) (h : handle) : bool := match aget (heap s) h with Some (OT _) => true | _ => false end.

Theorem same_contents_same_fingerprint s1 h1 s2 h2 :
  contents s1 h1 = contents s2 h2 -> is_table s1 h1 = is_table s2 h2 -> contents s1 h1 <> None ->
  fp_of s1 h1 = fp_of s2 h2.
Proof.
  unfold contents, is_table, fp_of.
  destruct (aget (heap s1) h1) as [[v1|t1]|], (aget (heap s2) h2) as [[v2|t2]|]; intros Hc Ht Hn;
    try discriminate; try congruence.
  f_equal. inversion Hc as [Hm]. clear Hc Hn Ht.
  assert (Hgen : forall l1 l2,
    map (fun c => match getv s1 c with Some v => vals v | None => [] end) l1 =
    map (fun c => match getv s2 c with Some v => vals v | None => [] end) l2 ->
    map (col_fp s1) l1 = map (col_fp s2) l2).
  { induction l1 as [|a l1 IH]; intros [|b l2] E; simpl in *; try discriminate; [reflexivity|].
    inversion E as [[Ea Et]]. f_equal; [|apply IH; exact Et].
    unfold col_fp. destruct (getv s1 a), (getv s2 b); simpl in *; rewrite ?Ea; try reflexivity.
    rewrite <- Ea. reflexivity. }
  rewrite (Hgen _ _ Hm). reflexivity.
Qed.

(* read-only operations never change what fingerprint() returns *)
Theorem readonly_keeps_fingerprint s o s' out h :
  Inv_own s -> step s o = (s', out) -> touched s o = [] -> collected o = [] ->
  aget (heap s) h <> None -> fp_of s' h = fp_of s h.
Proof.
  intros [Hlive _] H Ht Hc Hl. unfold fp_of.
  destruct (aget (heap s) h) as [o2|] eqn:Hg; [|contradiction].
  assert (Hf : forall h2 o3, aget (heap s) h2 = Some o3 -> option_map strip (aget (heap s') h2) = Some (strip o3)).
  { intros h2 o3 Hg3. eapply step_frame; [exact H|exact Hg3|rewrite Ht; intros []|rewrite Hc; intros []]. }
  pose proof (Hf _ _ Hg) as Hh. destruct (aget (heap s') h) as [o2'|]; [|discriminate]. simpl in Hh.
  destruct o2 as [v|t], o2' as [v'|t']; simpl in Hh; inversion Hh as [Hv]; try (rewrite Hv; reflexivity).
  f_equal. f_equal. rewrite Hv. apply map_ext_in. intros c Hin. unfold col_fp.
  destruct (Hlive h t c) as [vc Hvc]; [unfold gett; rewrite Hg; reflexivity|exact Hin|].
  rewrite Hvc. pose proof (Hf _ _ (getv_aget _ _ _ Hvc)) as Hcf. unfold getv.
  destruct (aget (heap s') c) as [[vc'|tc']|]; simpl in Hcf; inversion Hcf as [Hvv]. reflexivity.
Qed.

(* ---- sensitivity: a write that changes an element changes fingerprint() ------------- *)
From Serif Require Import Proofs.Fingerprint.

Lemma hash_conv_float x : hash_elem (conv_float x) = hash_elem x.
Proof. destruct x; reflexivity. Qed.

Lemma set_vec_ok_vals s h us sid' s' v :
  getv s h = Some v -> set_vec s h us sid' = (s', Ok) ->
  exists v' base, getv s' h = Some v' /\ vals v' = apply_updates base us /\
                  map hash_elem base = map hash_elem (vals v) /\ List.length base = List.length (vals v).
Proof.
  intros Hv H. unfold set_vec in H. rewrite Hv in H.
  destruct (negb (check_writable (reg s) (sid v))); [inversion H|].
  destruct (negb (forallb _ us)); [inversion H|].
  assert (Hc : map hash_elem (map conv_float (vals v)) = map hash_elem (vals v)).
  { rewrite map_map. apply map_ext. apply hash_conv_float. }
  destruct (dt v) as [d|].
  - destruct (if negb (Nat.eqb (List.length us) 0) then required_dtype d (map snd us) else Some d) as [rd|];
      [|inversion H].
    destruct (kind_eqb (dkind rd) (dkind d)).
    + inversion H; subst. eexists _, (vals v). rewrite getv_aset_same. simpl. auto.
    + destruct (kind_eqb (dkind d) KInt && kind_eqb (dkind rd) KFloat); [|inversion H].
      inversion H; subst. eexists _, (map conv_float (vals v)). rewrite getv_aset_same. simpl.
      rewrite map_length. auto.
  - inversion H; subst. eexists _, (vals v). rewrite getv_aset_same. simpl. auto.
Qed.

Lemma split_nth {A} (l : list A) i d : i < List.length l -> l = firstn i l ++ nth i l d :: skipn (S i) l.
Proof.
  revert i. induction l as [|x t IH]; intros [|i] Hi; simpl in *; try lia; [reflexivity|].
  f_equal. apply IH. lia.
Qed.

(* a single-element write between values whose hashes differ modulo 2^61-1 changes the
   vector's fingerprint (whether or not the write also promoted the vector) *)
Theorem write_changes_vector_fingerprint s h i b sid' s' v :
  getv s h = Some v -> step s (OSetV h [(i, b)] sid') = (s', Ok) ->
  ((hash_elem (nth i (vals v) SNone) - hash_elem b) mod FP_P <> 0)%Z ->
  fp_of s' h <> fp_of s h.
Proof.
  intros Hv H Hne. simpl in H.
  assert (Hi : i < List.length (vals v)).
  { unfold set_vec in H. rewrite Hv in H. destruct (negb (check_writable _ _)); [inversion H|].
    destruct (forallb _ [(i, b)]) eqn:Ef; [|inversion H]. simpl in Ef. rewrite andb_true_r in Ef.
    apply Nat.ltb_lt in Ef. exact Ef. }
  destruct (set_vec_ok_vals _ _ _ _ _ _ Hv H) as [v' [base [Hv' [Hvals [Hh Hl]]]]].
  unfold fp_of. rewrite (getv_aget _ _ _ Hv), (getv_aget _ _ _ Hv'). intros E. inversion E as [E1]. clear E.
  unfold fp_vals in E1. rewrite Hvals in E1. cbn [apply_updates] in E1.
  rewrite map_app in E1. cbn [map] in E1. rewrite <- firstn_map, <- skipn_map in E1. rewrite Hh in E1.
  revert E1. rewrite (split_nth (map hash_elem (vals v)) i (hash_elem SNone)) at 3 by (rewrite map_length; exact Hi).
  rewrite map_nth. intros E1. symmetry in E1. revert E1. apply fp_write_changes. exact Hne.
Qed.

(* ... and of the table that holds the vector as a column *)
Theorem write_changes_table_fingerprint s h i b sid' s' v ht t c1 c2 :
  getv s h = Some v -> gett s ht = Some t -> cols t = c1 ++ h :: c2 -> ~ In h c1 -> ~ In h c2 ->
  step s (OSetV h [(i, b)] sid') = (s', Ok) ->
  ((hash_elem (nth i (vals v) SNone) - hash_elem b) mod FP_P <> 0)%Z ->
  fp_of s' ht <> fp_of s ht.
Proof.
  intros Hv Ht Hc Hn1 Hn2 H Hne.
  pose proof (write_changes_vector_fingerprint _ _ _ _ _ _ _ Hv H Hne) as Hvec.
  simpl in H. destruct (set_vec_frame _ _ _ _ _ _ H) as [Hfr _].
  assert (Hht : ht <> h). { intros ->. apply getv_aget in Hv. apply gett_aget in Ht. congruence. }
  unfold fp_of in *. rewrite (Hfr ht Hht). rewrite (gett_aget _ _ _ Ht).
  rewrite (getv_aget _ _ _ Hv) in Hvec.
  destruct (set_vec_ok_vals _ _ _ _ _ _ Hv H) as [v' [base [Hv' _]]].
  rewrite (getv_aget _ _ _ Hv') in Hvec.
  rewrite Hc, !map_app. simpl.
  assert (Hsame : forall l, ~ In h l -> map (col_fp s') l = map (col_fp s) l).
  { intros l Hn. apply map_ext_in. intros c Hin. unfold col_fp, getv. rewrite Hfr; [reflexivity|].
    intros ->. contradiction. }
  rewrite (Hsame c1 Hn1), (Hsame c2 Hn2).
  intros E. inversion E as [E1]. revert E1. apply fp_table_column_changes.
  - unfold col_fp. rewrite Hv'. apply fp_hashes_range.
  - unfold col_fp. rewrite Hv. apply fp_hashes_range.
  - unfold col_fp. rewrite Hv, Hv'. intros E2. apply Hvec. rewrite E2. reflexivity.
Qed.
