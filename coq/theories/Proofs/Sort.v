(* Proofs/Sort.v — lemmas for C14. *)
From Coq Require Import List Bool Arith Lia Sorted Permutation.
From Serif Require Import Model.Sort Spec.Sort.
Import ListNotations.

(* ------------------------------------------------------------------ generic lists *)

Lemma SS_impl {A} (R R' : A -> A -> Prop) l :
  (forall x y, R x y -> R' x y) -> StronglySorted R l -> StronglySorted R' l.
Proof.
  intros H HS. induction HS as [|a l HS IH HF]; constructor; [exact IH|].
  eapply Forall_impl; [|exact HF]. intros y Hy. apply H. exact Hy.
Qed.

Lemma SS_app_single {A} (R : A -> A -> Prop) l x :
  StronglySorted R l -> Forall (fun y => R y x) l -> StronglySorted R (l ++ [x]).
Proof.
  intros HS. induction HS as [|a l HS IH HF]; intros HA; simpl.
  - constructor; constructor.
  - inversion HA as [|? ? Hax HAl]; subst. constructor; [apply IH; exact HAl|].
    apply Forall_app. split; [exact HF|]. constructor; [exact Hax|constructor].
Qed.

Lemma SS_rev {A} (R : A -> A -> Prop) l :
  StronglySorted R l -> StronglySorted (fun x y => R y x) (rev l).
Proof.
  intros HS. induction HS as [|a l HS IH HF]; simpl; [constructor|].
  apply SS_app_single; [exact IH|]. apply Forall_rev. exact HF.
Qed.

Lemma SS_nth {A} (R : A -> A -> Prop) l d : StronglySorted R l ->
  forall a b, a < b -> b < List.length l -> R (nth a l d) (nth b l d).
Proof.
  intros HS. induction HS as [|x l HS IH HF]; intros a b Hab Hb; simpl in Hb; [lia|].
  destruct b as [|b]; [lia|]. destruct a as [|a]; simpl.
  - rewrite Forall_forall in HF. apply HF. apply nth_In. lia.
  - apply IH; lia.
Qed.

Lemma SS_seq_of (R : nat -> nat -> Prop) n : forall s,
  (forall a b, s <= a -> a < b -> b < s + n -> R a b) -> StronglySorted R (seq s n).
Proof.
  induction n as [|n IH]; intros s H; simpl; constructor.
  - apply IH. intros a b Ha Hab Hb. apply H; lia.
  - apply Forall_forall. intros y Hy. apply in_seq in Hy. apply H; lia.
Qed.

Lemma SS_seq s n : StronglySorted lt (seq s n).
Proof. apply SS_seq_of. intros; lia. Qed.

Lemma sorted_perm_unique {A} (R : A -> A -> Prop) :
  (forall x y, R x y -> R y x -> False) ->
  forall l l', StronglySorted R l -> StronglySorted R l' -> Permutation l l' -> l = l'.
Proof.
  intros Hasym l. induction l as [|a t IH]; intros l' HS HS' HP.
  - apply Permutation_nil in HP. subst. reflexivity.
  - destruct l' as [|b t']; [apply Permutation_sym, Permutation_nil in HP; discriminate|].
    inversion HS as [|? ? HSt HFa]; subst. inversion HS' as [|? ? HSt' HFb]; subst.
    assert (Hab : a = b).
    { assert (Ha : In a (b :: t')) by (eapply Permutation_in; [exact HP|left; reflexivity]).
      assert (Hb : In b (a :: t))
        by (eapply Permutation_in; [apply Permutation_sym; exact HP|left; reflexivity]).
      destruct Ha as [Ha|Ha]; [symmetry; exact Ha|]. destruct Hb as [Hb|Hb]; [exact Hb|].
      rewrite Forall_forall in HFa, HFb. exfalso.
      eapply Hasym; [apply HFa; exact Hb|apply HFb; exact Ha]. }
    subst b. f_equal. apply IH; [exact HSt|exact HSt'|].
    eapply Permutation_cons_inv. exact HP.
Qed.

Lemma map_nth_seq {A} (l : list A) d : map (fun i => nth i l d) (seq 0 (List.length l)) = l.
Proof.
  induction l as [|x t IH]; simpl; [reflexivity|]. f_equal.
  rewrite <- seq_shift, map_map. exact IH.
Qed.

(* ------------------------------------------------------------------ the stable sort *)

Section IsortLex.
  Variable A : Type.
  Variable leb : A -> A -> bool.
  Variable R : A -> A -> Prop.
  Hypothesis leb_total : forall x y, leb x y = true \/ leb y x = true.
  Hypothesis leb_trans : forall x y z, leb x y = true -> leb y z = true -> leb x z = true.
  Hypothesis R_trans : forall x y z, R x y -> R y z -> R x z.

  Definition lexlt x y := leb y x = false.
  Definition lexeq x y := leb x y = true /\ leb y x = true.
  Definition lex x y := lexlt x y \/ (lexeq x y /\ R x y).

  Lemma lexlt_leb x y : lexlt x y -> leb x y = true.
  Proof. unfold lexlt; intros H. destruct (leb_total x y) as [H1|H1]; [exact H1|congruence]. Qed.

  Lemma lex_trans x y z : lex x y -> lex y z -> lex x z.
  Proof.
    unfold lex, lexlt, lexeq. intros [H1|[[H1a H1b] H1r]] [H2|[[H2a H2b] H2r]].
    - left. destruct (leb z x) eqn:E; [|reflexivity]. pose proof (lexlt_leb _ _ H1) as L1.
      assert (leb z y = true) by (eapply leb_trans; eauto). congruence.
    - left. destruct (leb z x) eqn:E; [|reflexivity].
      assert (leb y x = true) by (eapply leb_trans; eauto). congruence.
    - left. destruct (leb z x) eqn:E; [|reflexivity].
      assert (leb z y = true) by (eapply leb_trans; eauto). congruence.
    - right. repeat split; eauto.
  Qed.

  Lemma insert_perm x l : Permutation (x :: l) (insert leb x l).
  Proof.
    induction l as [|y t IH]; cbn [insert]; [reflexivity|].
    destruct (leb x y); [reflexivity|]. rewrite perm_swap. constructor. exact IH.
  Qed.

  Lemma isort_perm l : Permutation l (isort leb l).
  Proof.
    induction l as [|x t IH]; cbn [isort]; [constructor|].
    rewrite <- insert_perm. constructor. exact IH.
  Qed.

  Lemma insert_sorted x l :
    Forall (R x) l -> StronglySorted lex l -> StronglySorted lex (insert leb x l).
  Proof.
    induction l as [|y t IH]; intros HR HS; cbn [insert].
    - constructor; constructor.
    - inversion HR as [|? ? HRy HRt]; subst. inversion HS as [|? ? HSt HFy]; subst.
      destruct (leb x y) eqn:E.
      + constructor; [exact HS|].
        assert (Hxy : lex x y).
        { unfold lex, lexlt, lexeq. destruct (leb y x) eqn:E2; [right; auto|left; reflexivity]. }
        constructor; [exact Hxy|].
        eapply Forall_impl; [|exact HFy]. intros z Hz. eapply lex_trans; eauto.
      + constructor; [apply IH; assumption|].
        assert (Hyx : lex y x). { left. exact E. }
        eapply Permutation_Forall; [apply insert_perm|]. constructor; assumption.
  Qed.

  Theorem isort_lex l : StronglySorted R l -> StronglySorted lex (isort leb l).
  Proof.
    induction l as [|x t IH]; intros HS; cbn [isort]; [constructor|].
    inversion HS as [|? ? HSt HF]; subst.
    apply insert_sorted; [|apply IH; exact HSt].
    eapply Permutation_Forall; [apply isort_perm|exact HF].
  Qed.

  Lemma pysort_perm rv l : Permutation l (pysort leb rv l).
  Proof.
    unfold pysort. destruct rv; [|apply isort_perm].
    rewrite <- Permutation_rev. rewrite <- isort_perm. apply Permutation_rev.
  Qed.
End IsortLex.

Section PysortLex.
  Variable A : Type.
  Variable leb : A -> A -> bool.
  Variable R : A -> A -> Prop.
  Hypothesis leb_total : forall x y, leb x y = true \/ leb y x = true.
  Hypothesis leb_trans : forall x y z, leb x y = true -> leb y z = true -> leb x z = true.
  Hypothesis R_trans : forall x y z, R x y -> R y z -> R x z.

  (* x before y after one pass in direction [rv] over a list that was R-sorted *)
  Definition dlex (rv : bool) (x y : A) : Prop :=
    (if rv then leb x y = false else leb y x = false)
    \/ ((leb x y = true /\ leb y x = true) /\ R x y).

  (* the reverse=True pass: descending in the key, ties STILL in the previous order *)
  Lemma rsort_lex l : StronglySorted R l -> StronglySorted (dlex true) (rev (isort leb (rev l))).
  Proof.
    intros HS. apply SS_rev in HS.
    assert (Rf_trans : forall x y z, (fun a b => R b a) x y -> (fun a b => R b a) y z ->
                                     (fun a b => R b a) x z).
    { cbv beta. intros x y z H1 H2. eapply R_trans; eauto. }
    pose proof (isort_lex A leb (fun x y => R y x) leb_total leb_trans Rf_trans _ HS) as H.
    apply SS_rev in H.
    eapply SS_impl; [|exact H]. intros x y Hxy. cbv beta in Hxy.
    unfold lex, lexlt, lexeq in Hxy. unfold dlex.
    destruct Hxy as [H1|[[H1 H2] H3]]; [left; exact H1|right; repeat split; assumption].
  Qed.

  Lemma pysort_lex rv l : StronglySorted R l -> StronglySorted (dlex rv) (pysort leb rv l).
  Proof.
    intros HS. destruct rv; [apply rsort_lex; exact HS|]. unfold pysort.
    pose proof (isort_lex A leb R leb_total leb_trans R_trans _ HS) as H.
    eapply SS_impl; [|exact H]. intros x y Hxy. unfold lex, lexlt, lexeq in Hxy. unfold dlex.
    destruct Hxy as [H1|[[H1 H2] H3]]; [left; exact H1|right; repeat split; assumption].
  Qed.
End PysortLex.

(* sorting commutes with a map when the comparison only looks through the map *)
Section PysortMap.
  Variable A B : Type.
  Variable f : A -> B.
  Variable leb : B -> B -> bool.

  Lemma insert_map x l :
    insert leb (f x) (map f l) = map f (insert (fun a b => leb (f a) (f b)) x l).
  Proof.
    induction l as [|y t IH]; cbn [insert map]; [reflexivity|].
    destruct (leb (f x) (f y)); cbn [map]; [reflexivity|]. rewrite IH. reflexivity.
  Qed.

  Lemma isort_map l : isort leb (map f l) = map f (isort (fun a b => leb (f a) (f b)) l).
  Proof.
    induction l as [|x t IH]; cbn [isort map]; [reflexivity|]. rewrite IH. apply insert_map.
  Qed.

  Lemma pysort_map rv l : pysort leb rv (map f l) = map f (pysort (fun a b => leb (f a) (f b)) rv l).
  Proof.
    unfold pysort. destruct rv; [|apply isort_map].
    rewrite <- map_rev, isort_map, map_rev. reflexivity.
  Qed.
End PysortMap.

Lemma insert_ext {A} (leb leb' : A -> A -> bool) :
  (forall a b, leb a b = leb' a b) -> forall x l, insert leb x l = insert leb' x l.
Proof.
  intros H x l. induction l as [|y t IH]; cbn [insert]; [reflexivity|].
  rewrite H, IH. reflexivity.
Qed.

Lemma isort_ext {A} (leb leb' : A -> A -> bool) :
  (forall a b, leb a b = leb' a b) -> forall l, isort leb l = isort leb' l.
Proof.
  intros H l. induction l as [|x t IH]; cbn [isort]; [reflexivity|].
  rewrite IH. apply insert_ext. exact H.
Qed.

Lemma pysort_ext {A} (leb leb' : A -> A -> bool) :
  (forall a b, leb a b = leb' a b) -> forall rv l, pysort leb rv l = pysort leb' rv l.
Proof.
  intros H rv l. unfold pysort. destruct rv; [f_equal|]; apply isort_ext; exact H.
Qed.

(* ------------------------------------------------------------------ sort_by *)

Section SortProofs.
  Variable V : Type.
  Variable vleb : V -> V -> bool.
  Hypothesis vtotal : forall x y, vleb x y = true \/ vleb y x = true.
  Hypothesis vtrans : forall x y z, vleb x y = true -> vleb y z = true -> vleb x z = true.

  Lemma vlt_leb x y : vlt vleb x y -> vleb x y = true.
  Proof. unfold vlt; intros H. destruct (vtotal x y) as [H1|H1]; [exact H1|congruence]. Qed.

  Lemma vlt_trans x y z : vlt vleb x y -> vlt vleb y z -> vlt vleb x z.
  Proof.
    unfold vlt. intros H1 H2. destruct (vleb z x) eqn:E; [|reflexivity].
    pose proof (vlt_leb _ _ H1) as L1. rewrite (vtrans _ _ _ E L1) in H2. discriminate.
  Qed.

  Lemma vlt_eq_l x y z : veq vleb x y -> vlt vleb y z -> vlt vleb x z.
  Proof.
    unfold vlt. intros [H1 H1'] H2. destruct (vleb z x) eqn:E; [|reflexivity].
    rewrite (vtrans _ _ _ E H1) in H2. discriminate.
  Qed.

  Lemma vlt_eq_r x y z : vlt vleb x y -> veq vleb y z -> vlt vleb x z.
  Proof.
    unfold vlt. intros H1 [H2 H2']. destruct (vleb z x) eqn:E; [|reflexivity].
    rewrite (vtrans _ _ _ H2 E) in H1. discriminate.
  Qed.

  Lemma veq_sym x y : veq vleb x y -> veq vleb y x.
  Proof. intros [H1 H2]. split; assumption. Qed.

  Lemma veq_trans x y z : veq vleb x y -> veq vleb y z -> veq vleb x z.
  Proof. intros [H1 H2] [H3 H4]. split; eapply vtrans; eauto. Qed.

  Lemma vlt_asym x y : vlt vleb x y -> vlt vleb y x -> False.
  Proof. unfold vlt. intros H1 H2. destruct (vtotal x y); congruence. Qed.

  Lemma vlt_veq_excl x y : vlt vleb x y -> veq vleb x y -> False.
  Proof. unfold vlt. intros H1 [H2 H3]. congruence. Qed.

  Lemma vlt_veq_excl' x y : vlt vleb y x -> veq vleb x y -> False.
  Proof. unfold vlt. intros H1 [H2 H3]. congruence. Qed.

  Lemma cell_before_trans nl rv a b c :
    cell_before vleb nl rv a b -> cell_before vleb nl rv b c -> cell_before vleb nl rv a c.
  Proof.
    destruct a, b, c, rv; simpl; intros H1 H2; try contradiction; try congruence;
      solve [eauto using vlt_trans].
  Qed.

  Lemma cell_before_tie nl rv a b c :
    cell_before vleb nl rv a b -> cell_tie vleb b c -> cell_before vleb nl rv a c.
  Proof.
    destruct a, b, c, rv; simpl; intros H1 H2; try contradiction; try congruence.
    - eapply vlt_eq_l; [apply veq_sym; exact H2|exact H1].
    - eapply vlt_eq_r; eauto.
  Qed.

  Lemma cell_tie_before nl rv a b c :
    cell_tie vleb a b -> cell_before vleb nl rv b c -> cell_before vleb nl rv a c.
  Proof.
    destruct a, b, c, rv; simpl; intros H1 H2; try contradiction; try congruence.
    - eapply vlt_eq_r; [exact H2|apply veq_sym; exact H1].
    - eapply vlt_eq_l; eauto.
  Qed.

  Lemma cell_tie_trans a b c : cell_tie vleb a b -> cell_tie vleb b c -> cell_tie vleb a c.
  Proof.
    destruct a, b, c; simpl; intros H1 H2; try contradiction; try exact I.
    eapply veq_trans; eauto.
  Qed.

  Lemma cell_tie_sym a b : cell_tie vleb a b -> cell_tie vleb b a.
  Proof. destruct a, b; simpl; intros H; try contradiction; try exact I. apply veq_sym, H. Qed.

  Lemma cell_before_asym nl rv a b :
    cell_before vleb nl rv a b -> cell_before vleb nl rv b a -> False.
  Proof.
    destruct a, b, rv; simpl; intros H1 H2; try contradiction; try congruence;
      eapply vlt_asym; eauto.
  Qed.

  Lemma cell_before_tie_excl nl rv a b :
    cell_before vleb nl rv a b -> cell_tie vleb a b -> False.
  Proof.
    destruct a, b, rv; simpl; intros H1 H2; try contradiction.
    - eapply vlt_veq_excl'; eauto.
    - eapply vlt_veq_excl; eauto.
  Qed.

  Lemma row_before_trans nl ks (base : nat -> nat -> Prop) :
    (forall x y z, base x y -> base y z -> base x z) ->
    forall x y z, row_before vleb nl ks base x y -> row_before vleb nl ks base y z ->
                  row_before vleb nl ks base x z.
  Proof.
    intros Hb. induction ks as [|k t IH]; intros x y z; cbn [row_before]; [apply Hb|].
    intros [H1|[T1 R1]] [H2|[T2 R2]].
    - left. eapply cell_before_trans; eauto.
    - left. eapply cell_before_tie; eauto.
    - left. eapply cell_tie_before; eauto.
    - right. split; [eapply cell_tie_trans; eauto|eapply IH; eauto].
  Qed.

  Lemma row_before_asym nl ks (base : nat -> nat -> Prop) :
    (forall x y, base x y -> base y x -> False) ->
    forall x y, row_before vleb nl ks base x y -> row_before vleb nl ks base y x -> False.
  Proof.
    intros Hb. induction ks as [|k t IH]; intros x y; cbn [row_before]; [apply Hb|].
    intros [H1|[T1 R1]] [H2|[T2 R2]].
    - eapply cell_before_asym; eauto.
    - eapply cell_before_tie_excl; [exact H1|apply cell_tie_sym; exact T2].
    - eapply cell_before_tie_excl; [exact H2|apply cell_tie_sym; exact T1].
    - eapply IH; eauto.
  Qed.

  (* ---- the key function of one pass ---- *)

  Lemma key_lt_before nl rv a b :
    key_lt vleb (cell_key nl rv a) (cell_key nl rv b) = true ->
    if rv then cell_before vleb nl true b a else cell_before vleb nl false a b.
  Proof.
    destruct a as [x|], b as [y|], nl, rv; cbn; intros H; try discriminate; try reflexivity;
      apply negb_true_iff in H; exact H.
  Qed.

  Lemma key_eq_tie nl rv a b :
    key_lt vleb (cell_key nl rv a) (cell_key nl rv b) = false ->
    key_lt vleb (cell_key nl rv b) (cell_key nl rv a) = false -> cell_tie vleb a b.
  Proof.
    destruct a as [x|], b as [y|], nl, rv; cbn; intros H1 H2; try discriminate; try exact I;
      apply negb_false_iff in H1; apply negb_false_iff in H2; split; assumption.
  Qed.

  Lemma cell_key_total nl rv a b :
    key_leb vleb (cell_key nl rv a) (cell_key nl rv b) = true \/
    key_leb vleb (cell_key nl rv b) (cell_key nl rv a) = true.
  Proof.
    unfold key_leb. destruct a as [x|], b as [y|], nl, rv; cbn; auto;
      destruct (vtotal x y) as [H|H]; rewrite H; auto.
  Qed.

  Lemma cell_key_trans nl rv a b c :
    key_leb vleb (cell_key nl rv a) (cell_key nl rv b) = true ->
    key_leb vleb (cell_key nl rv b) (cell_key nl rv c) = true ->
    key_leb vleb (cell_key nl rv a) (cell_key nl rv c) = true.
  Proof.
    unfold key_leb.
    destruct a as [x|], b as [y|], c as [z|], nl, rv; cbn; intros H1 H2;
      try discriminate; try reflexivity;
      rewrite negb_involutive in *; eapply vtrans; eauto.
  Qed.

  Lemma sort_pass_perm nl k idx : Permutation idx (sort_pass vleb nl k idx).
  Proof. destruct k as [data rv]. unfold sort_pass. apply pysort_perm. Qed.

  Lemma sort_indices_perm nl ks n : Permutation (seq 0 n) (sort_indices vleb nl ks n).
  Proof.
    unfold sort_indices. induction ks as [|k t IH]; cbn [fold_right]; [reflexivity|].
    rewrite <- sort_pass_perm. exact IH.
  Qed.

  Lemma sort_pass_sorted nl k ks idx :
    StronglySorted (row_before vleb nl ks lt) idx ->
    StronglySorted (row_before vleb nl (k :: ks) lt) (sort_pass vleb nl k idx).
  Proof.
    destruct k as [data rv]. intros HS. unfold sort_pass.
    set (leb := fun i j => key_leb vleb (table_key nl rv data i) (table_key nl rv data j)).
    assert (Htot : forall x y, leb x y = true \/ leb y x = true)
      by (intros x y; apply cell_key_total).
    assert (Htr : forall x y z, leb x y = true -> leb y z = true -> leb x z = true)
      by (intros x y z; apply cell_key_trans).
    assert (HR : forall x y z, row_before vleb nl ks lt x y -> row_before vleb nl ks lt y z ->
                               row_before vleb nl ks lt x z)
      by (apply row_before_trans; intros; lia).
    pose proof (pysort_lex nat leb _ Htot Htr HR rv idx HS) as H.
    eapply SS_impl; [|exact H]. intros i j Hij. unfold dlex in Hij.
    cbn [row_before]. unfold kcell. cbn [fst snd].
    subst leb. cbv beta in Hij. unfold key_leb, table_key in Hij.
    destruct Hij as [Hlt|[[E1 E2] Hr]].
    - left. destruct rv.
      + apply negb_false_iff in Hlt. apply (key_lt_before nl true) in Hlt. exact Hlt.
      + apply negb_false_iff in Hlt. apply (key_lt_before nl false) in Hlt. exact Hlt.
    - right. split; [|exact Hr].
      apply negb_true_iff in E1. apply negb_true_iff in E2.
      eapply key_eq_tie; eauto.
  Qed.

  Theorem sort_indices_sorted nl ks n :
    StronglySorted (row_before vleb nl ks lt) (sort_indices vleb nl ks n).
  Proof.
    unfold sort_indices. induction ks as [|k t IH]; cbn [fold_right].
    - cbn [row_before]. apply SS_seq.
    - apply sort_pass_sorted. exact IH.
  Qed.

  (* the property determines the output *)
  Theorem sort_unique nl ks n p :
    Permutation (seq 0 n) p -> StronglySorted (row_before vleb nl ks lt) p ->
    p = sort_indices vleb nl ks n.
  Proof.
    intros HP HS. eapply sorted_perm_unique; [|exact HS|apply sort_indices_sorted|].
    - apply row_before_asym. intros; lia.
    - rewrite <- HP. apply sort_indices_perm.
  Qed.

  (* None placement for the leading key, whatever its direction *)
  Theorem none_placement nl k ks n a b :
    let p := sort_indices vleb nl (k :: ks) n in
    a < b -> b < n ->
    (nl = true -> kcell k (nth a p 0) = None -> kcell k (nth b p 0) = None) /\
    (nl = false -> kcell k (nth b p 0) = None -> kcell k (nth a p 0) = None).
  Proof.
    intros p Hab Hb.
    assert (Hlen : List.length p = n).
    { unfold p. rewrite <- (Permutation_length (sort_indices_perm nl (k :: ks) n)). apply seq_length. }
    pose proof (SS_nth _ p 0 (sort_indices_sorted nl (k :: ks) n) a b Hab) as H.
    rewrite Hlen in H. specialize (H Hb). fold p in H. cbn [row_before] in H.
    split; intros Hnl Hc.
    - rewrite Hc in H. destruct (kcell k (nth b p 0)) as [y|]; [|reflexivity].
      exfalso. destruct H as [H|[H _]]; simpl in H; [congruence|exact H].
    - rewrite Hc in H. destruct (kcell k (nth a p 0)) as [y|]; [|reflexivity].
      exfalso. destruct H as [H|[H _]]; simpl in H; [congruence|exact H].
  Qed.

  (* ---- idempotence ---- *)

  Lemma gather_nth (p : list nat) (d : list (cell V)) a :
    a < List.length p -> nth a (gather p d) None = nth (nth a p 0) d None.
  Proof.
    intros Ha. unfold gather.
    rewrite (nth_indep _ None (nth 0 d None)) by (rewrite map_length; exact Ha).
    exact (map_nth (fun i => nth i d None) p 0 a).
  Qed.

  Definition permute_keys (p : list nat) (ks : list (sortkey V)) : list (sortkey V) :=
    map (fun k => (gather p (fst k), snd k)) ks.

  Lemma row_before_permuted nl p ks (base base' : nat -> nat -> Prop) a b :
    a < List.length p -> b < List.length p ->
    (base (nth a p 0) (nth b p 0) -> base' a b) ->
    row_before vleb nl ks base (nth a p 0) (nth b p 0) ->
    row_before vleb nl (permute_keys p ks) base' a b.
  Proof.
    intros Ha Hb Hbase. induction ks as [|k t IH]; cbn [row_before permute_keys map]; [exact Hbase|].
    unfold kcell. cbn [fst snd]. rewrite !gather_nth by assumption.
    intros [H|[H1 H2]]; [left; exact H|right; split; [exact H1|apply IH; exact H2]].
  Qed.

  Theorem sort_idempotent nl ks n :
    let p := sort_indices vleb nl ks n in
    sort_indices vleb nl (permute_keys p ks) n = seq 0 n.
  Proof.
    intros p. symmetry. apply sort_unique; [reflexivity|].
    assert (Hlen : List.length p = n).
    { unfold p. rewrite <- (Permutation_length (sort_indices_perm nl ks n)). apply seq_length. }
    apply SS_seq_of. intros a b _ Hab Hb. simpl in Hb.
    apply (row_before_permuted nl p ks lt lt a b); try lia.
    apply SS_nth; [apply sort_indices_sorted|exact Hab|lia].
  Qed.

  (* ---- the table-level function ---- *)

  Lemma sort_indices_0 nl ks : sort_indices vleb nl ks 0 = [].
  Proof.
    pose proof (sort_indices_perm nl ks 0) as H. simpl in H.
    apply Permutation_nil in H. exact H.
  Qed.

  Lemma table_sort_by_ok t by_ rv nl out :
    table_sort_by vleb t by_ rv nl = Ok out ->
    exists ks, resolve_keys t by_ rv = Ok ks /\
               out = map (gather (sort_indices vleb nl ks (nrows t))) t.
  Proof.
    unfold table_sort_by. destruct (resolve_keys t by_ rv) as [ks|e]; [|discriminate].
    intros H. exists ks. split; [reflexivity|].
    destruct (Nat.eqb (nrows t) 0) eqn:E; inversion H; subst; [|reflexivity].
    apply Nat.eqb_eq in E. rewrite E, sort_indices_0. reflexivity.
  Qed.

  Theorem table_sort_permutation t by_ rv nl out :
    table_sort_by vleb t by_ rv nl = Ok out ->
    exists p, Permutation (seq 0 (nrows t)) p /\ out = map (gather p) t.
  Proof.
    intros H. apply table_sort_by_ok in H. destruct H as [ks [_ H]].
    eexists. split; [apply sort_indices_perm|exact H].
  Qed.

  Theorem table_sort_lex_stable t by_ rv nl out :
    table_sort_by vleb t by_ rv nl = Ok out ->
    exists ks p, resolve_keys t by_ rv = Ok ks /\ out = map (gather p) t /\
                 Permutation (seq 0 (nrows t)) p /\ sorted_rows vleb nl ks p.
  Proof.
    intros H. apply table_sort_by_ok in H. destruct H as [ks [Hk H]].
    exists ks. eexists. split; [exact Hk|]. split; [exact H|].
    split; [apply sort_indices_perm|apply sort_indices_sorted].
  Qed.

  Theorem table_sort_unique t by_ rv nl out ks p :
    table_sort_by vleb t by_ rv nl = Ok out -> resolve_keys t by_ rv = Ok ks ->
    Permutation (seq 0 (nrows t)) p -> sorted_rows vleb nl ks p ->
    out = map (gather p) t.
  Proof.
    intros H Hk HP HS. apply table_sort_by_ok in H. destruct H as [ks' [Hk' H]].
    rewrite Hk in Hk'. inversion Hk'; subst ks'.
    rewrite (sort_unique nl ks (nrows t) p HP HS). exact H.
  Qed.

  (* ---- Vector.sort_by is the one-column case ---- *)

  Lemma vector_key_cell_key rv nl (x : cell V) : vector_key rv nl x = cell_key nl rv x.
  Proof. destruct x, rv, nl; reflexivity. Qed.

  Theorem vector_sort_is_table_sort rv nl (data : list (cell V)) :
    vector_sort_by vleb rv nl data =
    gather (sort_indices vleb nl [(data, rv)] (List.length data)) data.
  Proof.
    unfold vector_sort_by, sort_indices, gather. cbn [fold_right sort_pass].
    rewrite <- (pysort_map nat (cell V) (fun i => nth i data None)
                 (fun a b => key_leb vleb (cell_key nl rv a) (cell_key nl rv b))).
    rewrite map_nth_seq. apply pysort_ext. intros a b. rewrite !vector_key_cell_key. reflexivity.
  Qed.
  (* ---- sorting the sorted table again (keys given by column name) changes nothing ---- *)

  Lemma gather_length (p : list nat) (c : list (cell V)) : List.length (gather p c) = List.length p.
  Proof. apply map_length. Qed.

  Lemma nrows_gathered p (t : table V) :
    List.length p = nrows t -> nrows (map (gather p) t) = nrows t.
  Proof.
    destruct t as [|c t']; cbn [map nrows]; [reflexivity|]. intros H. rewrite gather_length. exact H.
  Qed.

  Lemma resolve_permuted p (t : table V) n by_ : List.length p = n ->
    (forall spec, In spec by_ -> exists j, spec = KCol j) ->
    forall cols, resolve t n by_ = Ok cols ->
    resolve (map (gather p) t) n by_ = Ok (map (gather p) cols).
  Proof.
    intros Hp. induction by_ as [|spec rest IH]; intros Hall cols H.
    - cbn [resolve] in H. inversion H; subst. reflexivity.
    - destruct (Hall spec (or_introl eq_refl)) as [j ->]. cbn [resolve] in H |- *.
      destruct (nth_error t j) as [c|] eqn:E; [|discriminate].
      rewrite (map_nth_error (gather p) j t E).
      rewrite gather_length, Hp, Nat.eqb_refl. cbn [negb].
      destruct (negb (Nat.eqb (List.length c) n)); [discriminate|].
      destruct (resolve t n rest) as [r|e] eqn:Er; [|discriminate].
      inversion H; subst.
      rewrite (IH (fun s Hs => Hall s (or_intror Hs)) r eq_refl). reflexivity.
  Qed.

  Lemma combine_permuted p (cols : list (list (cell V))) : forall fl,
    combine (map (gather p) cols) fl = permute_keys p (combine cols fl).
  Proof.
    induction cols as [|c t IH]; intros fl; [reflexivity|].
    destruct fl as [|f fl]; [reflexivity|]. cbn [map combine permute_keys fst snd].
    f_equal. apply IH.
  Qed.

  Theorem table_sort_idempotent t by_ rv nl out :
    (forall spec, In spec by_ -> exists j, spec = KCol j) ->
    table_sort_by vleb t by_ rv nl = Ok out -> table_sort_by vleb out by_ rv nl = Ok out.
  Proof.
    intros Hall H. apply table_sort_by_ok in H. destruct H as [ks [Hk Hout]].
    assert (Hlen : List.length (sort_indices vleb nl ks (nrows t)) = nrows t).
    { rewrite <- (Permutation_length (sort_indices_perm nl ks (nrows t))). apply seq_length. }
    assert (Hn : nrows out = nrows t). { subst out. apply nrows_gathered. exact Hlen. }
    assert (Hk' : resolve_keys out by_ rv
                  = Ok (permute_keys (sort_indices vleb nl ks (nrows t)) ks)).
    { unfold resolve_keys in Hk |- *. destruct by_ as [|s r]; [discriminate|].
      destruct (rev_flags rv (List.length (s :: r))) as [fl|e]; [|discriminate].
      rewrite Hn.
      destruct (resolve t (nrows t) (s :: r)) as [cols|e] eqn:Er; [|discriminate].
      inversion Hk; subst ks. rewrite Hout.
      rewrite (resolve_permuted _ t (nrows t) (s :: r) Hlen Hall cols Er).
      rewrite combine_permuted. reflexivity. }
    assert (Hcols : Forall (fun c => List.length c = nrows t) out).
    { rewrite Hout. apply Forall_forall. intros c Hc. apply in_map_iff in Hc.
      destruct Hc as [c0 [Hc0 _]]. subst c. rewrite gather_length. exact Hlen. }
    rewrite Forall_forall in Hcols.
    unfold table_sort_by. rewrite Hk', Hn.
    destruct (Nat.eqb (nrows t) 0) eqn:E; f_equal.
    - apply Nat.eqb_eq in E. transitivity (map (fun c : list (cell V) => c) out); [|apply map_id].
      apply map_ext_in. intros c Hc. specialize (Hcols c Hc). rewrite E in Hcols.
      destruct c; [reflexivity|discriminate].
    - rewrite sort_idempotent.
      transitivity (map (fun c : list (cell V) => c) out); [|apply map_id].
      apply map_ext_in. intros c Hc. unfold gather. rewrite <- (Hcols c Hc). apply map_nth_seq.
  Qed.

  Theorem sort_by_reads_only t by_ rv nl :
    self_after (table_sort_by_call vleb t by_ rv nl) = t /\
    by_after (table_sort_by_call vleb t by_ rv nl) = by_ /\
    result (table_sort_by_call vleb t by_ rv nl) = table_sort_by vleb t by_ rv nl.
  Proof. repeat split. Qed.

  (* what the resolved keys are: the named column / the given vector, of the table's length *)
  Lemma resolve_spec (t : table V) n by_ : forall cols, resolve t n by_ = Ok cols ->
    Forall2 (fun spec col =>
               match spec with KCol j => nth_error t j = Some col | KVec d => col = d end
               /\ List.length col = n) by_ cols.
  Proof.
    induction by_ as [|spec rest IH]; intros cols H; cbn [resolve] in H.
    - inversion H; subst. constructor.
    - destruct spec as [j|d].
      + destruct (nth_error t j) as [c|] eqn:E; [|discriminate].
        destruct (Nat.eqb (List.length c) n) eqn:El; cbn [negb] in H; [|discriminate].
        destruct (resolve t n rest) as [r|e]; [|discriminate]. inversion H; subst.
        constructor; [|apply IH; reflexivity]. split; [exact E|apply Nat.eqb_eq; exact El].
      + destruct (Nat.eqb (List.length d) n) eqn:El; cbn [negb] in H; [|discriminate].
        destruct (resolve t n rest) as [r|e]; [|discriminate]. inversion H; subst.
        constructor; [|apply IH; reflexivity]. split; [reflexivity|apply Nat.eqb_eq; exact El].
  Qed.
End SortProofs.
