(* Proofs/HeapDerived.v — what the library builds itself owns its storage (C15, second sentence):
   under the fresh-storage rule of [step_d] a vector produced by any derivation step (copy, slice, mask,
   operation result, concatenation ...) shares storage with no other live object and is writable at once. *)
From Coq Require Import List Bool Arith ZArith Lia.
From Serif Require Import Base.PyVal Model.Heap Proofs.HeapBase Proofs.HeapReg.
Import ListNotations.

Lemma step_d_cases s o : step_d s o = step s o \/ step_d s o = (s, Stuck).
Proof. unfold step_d. destruct (fresh_ok s o); [left|right]; reflexivity. Qed.

Lemma aget_In {A} (l : list (nat * A)) k a : aget l k = Some a -> In (k, a) l.
Proof.
  induction l as [|[k' a'] t IH]; cbn [aget]; [discriminate|].
  destruct (Nat.eqb k k') eqn:E.
  - intros H. inversion H. subst. apply Nat.eqb_eq in E. subst. left. reflexivity.
  - intros H. right. apply IH. exact H.
Qed.

Lemma in_use_spec s h o : aget (heap s) h = Some o -> In (sid_of o) (sids_in_use s).
Proof.
  intros H. unfold sids_in_use. apply aget_In in H.
  change (sid_of o) with ((fun ho : handle * obj => match snd ho with OV v => sid v | OT t => tsid t end) (h, o)).
  apply in_map. exact H.
Qed.

(* a successful derivation step appends exactly one fresh vector object *)
Lemma newvec_shape s h c rn i s' :
  step s (ONewVec h c rn i) = (s', Ok) ->
  exists l n d, aget (heap s) h = None /\ heap s' = heap s ++ [(h, OV (mkVec l i n d None))].
Proof.
  cbn [step]. destruct (build_col s c) as [[[l n] d]|]; [|discriminate].
  cbn [alloc_cols]. destruct (aget (heap s) h) eqn:E; [discriminate|].
  intros H. inversion H. subst. cbn [heap].
  exists l, (match rn with Some x => x | None => n end), d. split; reflexivity.
Qed.

Theorem derived_vector_sole_owner s h c rn i s' :
  step_d s (ONewVec h c rn i) = (s', Ok) -> i <> EMPTY ->
  forall h' o', h' <> h -> aget (heap s') h' = Some o' -> sid_of o' <> i.
Proof.
  intros Hs Hi h' o' Hne Hg. unfold step_d in Hs.
  destruct (fresh_ok s (ONewVec h c rn i)) eqn:F; [|discriminate].
  destruct (newvec_shape _ _ _ _ _ _ Hs) as (l & n & d & Hnone & Hheap).
  rewrite Hheap in Hg. rewrite aget_app_other in Hg by exact Hne.
  unfold fresh_ok in F. cbn [new_sids forallb] in F. rewrite andb_true_r in F.
  apply orb_true_iff in F. destruct F as [F|F].
  - apply Nat.eqb_eq in F. contradiction.
  - apply negb_true_iff in F. apply mem_false in F.
    intros E. apply F. rewrite <- E. eapply in_use_spec. exact Hg.
Qed.

Theorem derived_vector_writable_at_once s h c rn i s' us sid' :
  Inv_reg s -> step_d s (ONewVec h c rn i) = (s', Ok) ->
  snd (step s' (OSetV h us sid')) <> ErrAlias.
Proof.
  intros Hinv Hs.
  assert (Hstep : step s (ONewVec h c rn i) = (s', Ok)).
  { destruct (step_d_cases s (ONewVec h c rn i)) as [E|E]; rewrite E in Hs; [exact Hs|discriminate]. }
  pose proof (step_preserves_Inv_reg _ _ _ _ Hstep Hinv) as Hinv'.
  destruct (newvec_shape _ _ _ _ _ _ Hstep) as (l & n & d & Hnone & Hheap).
  assert (Hget : getv s' h = Some (mkVec l i n d None)).
  { unfold getv. rewrite Hheap. rewrite (aget_app_none _ _ _ Hnone). reflexivity. }
  destruct (Nat.eq_dec i EMPTY) as [E|E].
  - eapply empty_storage_never_refused; [exact Hget|exact E].
  - eapply sole_owner_never_refused; [exact Hinv'|exact Hget|].
    intros h' o' Hne Hg. cbn [sid]. eapply derived_vector_sole_owner; eauto.
Qed.
