(* Proofs/HeapDerived.v — what the library builds itself owns its storage (C15, second sentence):
   under the fresh-storage rule of [step_d] a vector produced by any derivation step (copy, slice, mask,
   operation result, concatenation ...) shares storage with no other live object and is writable at once. *)
From Coq Require Import List Bool Arith ZArith Lia.
From Serif Require Import Base.PyVal Model.Heap Proofs.HeapBase Proofs.HeapReg.
Import ListNotations.

Lemma step_d_cases s o : step_d s o = step s o \/ step_d s o = (s, Stuck).
Proof. unfold step_d. destruct (fresh_ok s o); [left|right]; reflexivity. Qed.

Lemma aget_In {A} (l : list (nat * A)) k a : aget l k = Some a -> In (k, a) l.
Proof.
  induction l as [|[k' a'] t IH]; cbn [aget]; [discriminate|].
  destruct (Nat.eqb k k') eqn:E.
  - intros H. inversion H. subst. apply Nat.eqb_eq in E. subst. left. reflexivity.
  - intros H. right. apply IH. exact H.
Qed.

Lemma in_use_spec s h o : aget (heap s) h = Some o -> In (sid_of o) (sids_in_use s).
Proof.
  intros H. unfold sids_in_use. apply aget_In in H.
  change (sid_of o) with ((fun ho : handle * obj => match snd ho with OV v => sid v | OT t => tsid t end) (h, o)).
  apply in_map. exact H.
Qed.

(* a successful derivation step appends exactly one fresh vector object *)
Lemma newvec_shape s h c rn i s' :
  step s (ONewVec h c rn i) = (s', Ok) ->
  exists l n d, aget (heap s) h = None /\ heap s' = heap s ++ [(h, OV (mkVec l i n d None))].
Proof.
  cbn [step]. destruct (build_col s c) as [[[l n] d]|]; [|discriminate].
  cbn [alloc_cols]. destruct (aget (heap s) h) eqn:E; [discriminate|].
  intros H. inversion H. subst. cbn [heap].
  exists l, (match rn with Some x => x | None => n end), d. split; reflexivity.
Qed.

Theorem derived_vector_sole_owner s h c rn i s' :
  step_d s (ONewVec h c rn i) = (s', Ok) -> i <> EMPTY ->
  forall h' o', h' <> h -> aget (heap s') h' = Some o' -> sid_of o' <> i.
Proof.
  intros Hs Hi h' o' Hne Hg. unfold step_d in Hs.
  destruct (fresh_ok s (ONewVec h c rn i)) eqn:F; [|discriminate].
  destruct (newvec_shape _ _ _ _ _ _ Hs) as (l & n & d & Hnone & Hheap).
  rewrite Hheap in Hg. rewrite aget_app_other in Hg by exact Hne.
  unfold fresh_ok in F. apply andb_true_iff in F. destruct F as [F _].
  cbn [new_sids forallb] in F. rewrite andb_true_r in F.
  apply orb_true_iff in F. destruct F as [F|F].
  - apply Nat.eqb_eq in F. contradiction.
  - apply negb_true_iff in F. apply mem_false in F.
    intros E. apply F. rewrite <- E. eapply in_use_spec. exact Hg.
Qed.

Theorem derived_vector_writable_at_once s h c rn i s' us sid' :
  Inv_reg s -> step_d s (ONewVec h c rn i) = (s', Ok) ->
  snd (step s' (OSetV h us sid')) <> ErrAlias.
Proof.
  intros Hinv Hs.
  assert (Hstep : step s (ONewVec h c rn i) = (s', Ok)).
  { destruct (step_d_cases s (ONewVec h c rn i)) as [E|E]; rewrite E in Hs; [exact Hs|discriminate]. }
  pose proof (step_preserves_Inv_reg _ _ _ _ Hstep Hinv) as Hinv'.
  destruct (newvec_shape _ _ _ _ _ _ Hstep) as (l & n & d & Hnone & Hheap).
  assert (Hget : getv s' h = Some (mkVec l i n d None)).
  { unfold getv. rewrite Hheap. rewrite (aget_app_none _ _ _ Hnone). reflexivity. }
  destruct (Nat.eq_dec i EMPTY) as [E|E].
  - eapply empty_storage_never_refused; [exact Hget|exact E].
  - eapply sole_owner_never_refused; [exact Hinv'|exact Hget|].
    intros h' o' Hne Hg. cbn [sid]. eapply derived_vector_sole_owner; eauto.
Qed.

(* ---- the columns of every new table own their storage too ------------------------------------ *)
Lemma alloc_cols_inv built : forall s hs sids s1,
  alloc_cols s built hs sids = Some s1 ->
  forall h' o', aget (heap s1) h' = Some o' ->
    aget (heap s) h' = Some o' \/
    exists k i, nth_error hs k = Some h' /\ nth_error sids k = Some i /\ sid_of o' = i.
Proof.
  induction built as [|[[l n] d] bt IH]; intros s hs sids s1 H h' o' Hg.
  - destruct hs; destruct sids; cbn [alloc_cols] in H; try discriminate. inversion H. subst. left. exact Hg.
  - destruct hs as [|h ht]; [discriminate|]. destruct sids as [|i it]; [discriminate|].
    cbn [alloc_cols] in H. destruct (aget (heap s) h) eqn:Hn; [discriminate|].
    destruct (IH _ _ _ _ H h' o' Hg) as [Hold|(k & j & Hk & Hj & Hs)].
    + cbn [heap] in Hold. destruct (Nat.eq_dec h' h) as [->|Hne].
      * rewrite (aget_app_none _ _ _ Hn) in Hold. inversion Hold. subst o'.
        right. exists 0, i. repeat split; reflexivity.
      * rewrite aget_app_other in Hold by exact Hne. left. exact Hold.
    + right. exists (S k), j. repeat split; assumption.
Qed.

Lemma distinct_nz_head x t y : distinct_nz (x :: t) = true -> In y t -> x <> 0 -> x <> y.
Proof.
  cbn [distinct_nz]. intros H Hy Hx E. subst y. apply andb_true_iff in H. destruct H as [H _].
  apply orb_true_iff in H. destruct H as [H|H].
  - apply Nat.eqb_eq in H. contradiction.
  - apply negb_true_iff in H. apply mem_false in H. contradiction.
Qed.

Lemma distinct_nz_nth l : forall a b i j,
  distinct_nz l = true -> nth_error l a = Some i -> nth_error l b = Some j -> a <> b -> i <> 0 -> i <> j.
Proof.
  induction l as [|x t IH]; intros a b i j H Ha Hb Hab Hi.
  - destruct a; discriminate.
  - pose proof H as H0. cbn [distinct_nz] in H. apply andb_true_iff in H. destruct H as [_ Ht].
    destruct a as [|a], b as [|b]; cbn [nth_error] in Ha, Hb.
    + contradiction.
    + inversion Ha. subst x. eapply distinct_nz_head; [exact H0| |exact Hi]. eapply nth_error_In. exact Hb.
    + inversion Hb. subst x. intros E. subst j.
      assert (Hin : In i t) by (eapply nth_error_In; exact Ha).
      cbn [distinct_nz] in H0. apply andb_true_iff in H0. destruct H0 as [H0 _].
      apply orb_true_iff in H0. destruct H0 as [H0|H0].
      * apply Nat.eqb_eq in H0. contradiction.
      * apply negb_true_iff in H0. apply mem_false in H0. contradiction.
    + eapply IH; eauto.
Qed.

Theorem derived_table_column_sole_owner s ht cs chs sids tsid' s' k h i :
  step_d s (ONewTab ht cs chs sids tsid') = (s', Ok) ->
  nth_error chs k = Some h -> nth_error sids k = Some i -> i <> EMPTY ->
  forall h' o', h' <> h -> aget (heap s') h' = Some o' -> sid_of o' <> i.
Proof.
  intros Hs Hh Hi Hnz h' o' Hne Hg. unfold step_d in Hs.
  destruct (fresh_ok s (ONewTab ht cs chs sids tsid')) eqn:F; [|discriminate].
  unfold fresh_ok in F. apply andb_true_iff in F. destruct F as [Ffresh Fdist]. cbn [new_sids] in Ffresh, Fdist.
  cbn [step] in Hs.
  destruct (build_all s cs) as [built|]; [|discriminate].
  destruct (negb (all_same_len built)); [discriminate|].
  destruct (alloc_cols s built chs sids) as [s1|] eqn:E; [|discriminate].
  destruct (aget (heap s1) ht) eqn:Hf; [discriminate|]. inversion Hs. subst s'. clear Hs. cbn [heap] in Hg.
  assert (Hin_i : In i sids) by (eapply nth_error_In; exact Hi).
  destruct (Nat.eq_dec h' ht) as [->|Hht].
  - (* the table object itself *)
    rewrite (aget_app_none _ _ _ Hf) in Hg. inversion Hg. subst o'. cbn [sid_of tsid].
    intros Et. subst tsid'.
    eapply (distinct_nz_nth (i :: sids) 0 (S k) i i Fdist); cbn [nth_error]; try reflexivity; try exact Hi; auto.
  - rewrite aget_app_other in Hg by exact Hht.
    destruct (alloc_cols_inv _ _ _ _ _ E _ _ Hg) as [Hold|(k' & j & Hk' & Hj & Hsid)].
    + (* an object that existed before: its storage is in use, so [i] differs *)
      cbn [forallb] in Ffresh. apply andb_true_iff in Ffresh. destruct Ffresh as [_ Ffresh].
      rewrite forallb_forall in Ffresh. specialize (Ffresh i Hin_i).
      apply orb_true_iff in Ffresh. destruct Ffresh as [Fz|Fz].
      * apply Nat.eqb_eq in Fz. contradiction.
      * apply negb_true_iff in Fz. apply mem_false in Fz. intros Eq. apply Fz. rewrite <- Eq.
        eapply in_use_spec. exact Hold.
    + (* another new column of the same table *)
      rewrite Hsid. intros Eq.
      assert (Hkk : k' <> k) by (intros ->; rewrite Hh in Hk'; inversion Hk'; subst; contradiction).
      cbn [distinct_nz] in Fdist. apply andb_true_iff in Fdist. destruct Fdist as [_ Fdist].
      eapply (distinct_nz_nth sids k k' i j Fdist Hi Hj); auto.
Qed.
