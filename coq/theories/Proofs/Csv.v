(* Proofs/Csv.v — C19: the model of csv.py meets the record-level spec. *)
From Coq Require Import List Bool Arith Lia.
From Serif Require Import Base.PyVal Model.Dtype Spec.DtypeLattice Proofs.Dtype Model.Csv Spec.Csv.
Import ListNotations.

Lemma nth_error_combine_seq {A} (l : list A) : forall a j,
  nth_error (combine (seq a (List.length l)) l) j =
  match nth_error l j with Some x => Some (a + j, x) | None => None end.
Proof.
  induction l as [|x t IH]; intros a j; simpl.
  - destruct j; reflexivity.
  - destruct j as [|j]; simpl.
    + rewrite Nat.add_0_r. reflexivity.
    + rewrite IH. destruct (nth_error t j); [|reflexivity].
      f_equal. f_equal. lia.
Qed.

Lemma map_snd_combine_seq {A B} (f : A -> B) (l : list A) : forall a,
  map (fun jh => f (snd jh)) (combine (seq a (List.length l)) l) = map f l.
Proof.
  induction l as [|x t IH]; intros a; simpl; [reflexivity|].
  rewrite IH. reflexivity.
Qed.

Section Proofs.
Variable T : Type.
Variable conv : T -> cval.

(* the table read_csv builds, in one formula for all branches *)
Definition built (hh : bool) (recs : list (list T)) : table T :=
  let header := header_of hh recs in
  let rows := data_records hh recs in
  map (fun jh => vector_of (snd jh) (map (fun r => cell_at conv r (fst jh)) rows))
      (combine (seq 0 (List.length header)) header).

Lemma table_of_same_length (cols : list (column T)) n :
  (forall c, In c cols -> List.length (cdata c) = n) -> table_of cols = Done cols.
Proof.
  intros H. destruct cols as [|c t]; [reflexivity|].
  unfold table_of.
  assert (E : forallb (fun c' => Nat.eqb (List.length (cdata c')) (List.length (cdata c))) (c :: t) = true).
  { apply forallb_forall. intros c' Hin. apply Nat.eqb_eq.
    rewrite (H c' Hin), (H c (or_introl eq_refl)). reflexivity. }
  rewrite E. reflexivity.
Qed.

Lemma built_col_length hh recs c :
  In c (built hh recs) -> List.length (cdata c) = List.length (data_records hh recs).
Proof.
  unfold built. intros Hin. apply in_map_iff in Hin. destruct Hin as [[j h] [<- _]].
  simpl. apply map_length.
Qed.

Lemma read_records_built hh recs : read_records conv hh recs = Done (built hh recs).
Proof.
  assert (Hok : table_of (built hh recs) = Done (built hh recs)).
  { apply table_of_same_length with (n := List.length (data_records hh recs)).
    intros c. apply built_col_length. }
  destruct recs as [|first rest].
  - destruct hh; reflexivity.
  - unfold read_records.
    destruct hh.
    + (* has_header *)
      destruct rest as [|r1 rest'].
      * rewrite <- Hok. unfold built, header_of, data_records. cbn [tl map].
        f_equal. symmetry.
        apply (map_snd_combine_seq (fun h => vector_of h []) (map NText first)).
      * exact Hok.
    + exact Hok.
Qed.

Lemma built_names hh recs : names (built hh recs) = header_of hh recs.
Proof.
  unfold names, built. rewrite map_map. cbn [cname vector_of].
  rewrite (map_snd_combine_seq (fun h => h)). apply map_id.
Qed.

Lemma built_nth hh recs j h :
  nth_error (header_of hh recs) j = Some h ->
  nth_error (built hh recs) j =
  Some (vector_of h (map (fun r => cell_at conv r j) (data_records hh recs))).
Proof.
  intros Hh. unfold built. rewrite nth_error_map, nth_error_combine_seq, Hh. reflexivity.
Qed.

Lemma built_ncols hh recs : ncols (built hh recs) = List.length (header_of hh recs).
Proof. unfold ncols. rewrite <- (built_names hh recs). unfold names. rewrite map_length. reflexivity. Qed.

Lemma built_cell hh recs i j rec :
  j < List.length (header_of hh recs) ->
  nth_error (data_records hh recs) i = Some rec ->
  cell (built hh recs) i j = Some (cell_at conv rec j).
Proof.
  intros Hj Hi. destruct (nth_error (header_of hh recs) j) as [h|] eqn:Hh.
  - unfold cell. rewrite (built_nth _ _ _ _ Hh). cbn [cdata vector_of].
    rewrite nth_error_map, Hi. reflexivity.
  - apply nth_error_None in Hh. lia.
Qed.

Lemma built_nrows hh recs :
  header_of hh recs <> [] -> nrows (built hh recs) = List.length (data_records hh recs).
Proof.
  intros Hne. unfold nrows. destruct (built hh recs) as [|c t] eqn:E.
  - exfalso. apply Hne. rewrite <- built_names, E. reflexivity.
  - apply built_col_length. rewrite E. left. reflexivity.
Qed.

Lemma built_dtype hh recs c :
  In c (built hh recs) ->
  cdtype c = match data_records hh recs with
             | [] => None
             | _ :: _ => Some (infer_dtype (map pyv_of (cdata c)))
             end.
Proof.
  unfold built. intros Hin. apply in_map_iff in Hin. destruct Hin as [[j h] [<- _]].
  cbn [cdtype cdata vector_of fst snd].
  destruct (data_records hh recs); reflexivity.
Qed.

(* ---- statements about read_records itself ---- *)

Theorem read_total hh recs : exists t, read_records conv hh recs = Done t.
Proof. exists (built hh recs). apply read_records_built. Qed.

Lemma read_inv hh recs t : read_records conv hh recs = Done t -> t = built hh recs.
Proof. rewrite read_records_built. intros H. inversion H. reflexivity. Qed.

Theorem read_names hh recs t :
  read_records conv hh recs = Done t -> names t = header_of hh recs.
Proof. intros H. rewrite (read_inv _ _ _ H). apply built_names. Qed.

Theorem read_ncols hh recs t :
  read_records conv hh recs = Done t -> ncols t = List.length (header_of hh recs).
Proof. intros H. rewrite (read_inv _ _ _ H). apply built_ncols. Qed.

Theorem read_rectangular hh recs t :
  read_records conv hh recs = Done t ->
  forall c, In c t -> List.length (cdata c) = List.length (data_records hh recs).
Proof. intros H. rewrite (read_inv _ _ _ H). intros c. apply built_col_length. Qed.

Theorem read_nrows hh recs t :
  read_records conv hh recs = Done t -> header_of hh recs <> [] ->
  nrows t = List.length (data_records hh recs).
Proof. intros H. rewrite (read_inv _ _ _ H). apply built_nrows. Qed.

Theorem read_cell hh recs t :
  read_records conv hh recs = Done t ->
  forall i j rec, nth_error (data_records hh recs) i = Some rec -> j < ncols t ->
  (forall x, nth_error rec j = Some x -> cell t i j = Some (conv x)) /\
  (List.length rec <= j -> cell t i j = Some None).
Proof.
  intros H i j rec Hi Hj. rewrite (read_inv _ _ _ H) in *. rewrite built_ncols in Hj.
  rewrite (built_cell _ _ _ _ _ Hj Hi). unfold cell_at. split.
  - intros x Hx. rewrite Hx. reflexivity.
  - intros Hlen. apply nth_error_None in Hlen. rewrite Hlen. reflexivity.
Qed.

Theorem read_dtype hh recs t :
  read_records conv hh recs = Done t ->
  forall c, In c t ->
  cdtype c = match data_records hh recs with
             | [] => None
             | _ :: _ => Some (infer_spec (map pyv_of (cdata c)))
             end.
Proof.
  intros H c Hc. rewrite (read_inv _ _ _ H) in Hc. rewrite (built_dtype _ _ _ Hc).
  destruct (data_records hh recs); [reflexivity|]. rewrite infer_closed_form. reflexivity.
Qed.

Theorem read_empty hh : read_records conv hh [] = Done [].
Proof. destruct hh; reflexivity. Qed.

Theorem read_header_only first :
  read_records conv true [first] = Done (map (fun x => mkCol (NText x) [] None) first).
Proof.
  rewrite read_records_built. f_equal. unfold built, header_of, data_records. cbn [tl map].
  rewrite (map_snd_combine_seq (fun h => vector_of h []) (map NText first)).
  rewrite map_map. reflexivity.
Qed.

(* cells beyond the header's width are never looked at *)
Lemma cell_at_firstn r j n : j < n -> cell_at conv (firstn n r) j = cell_at conv r j.
Proof.
  intros Hj. unfold cell_at. f_equal.
  revert r j Hj. induction n as [|n IH]; intros r j Hj; [lia|].
  destruct r as [|x r]; [reflexivity|]. destruct j as [|j]; [reflexivity|].
  simpl. apply IH. lia.
Qed.

Lemma map_ext_combine_seq {A B} (f g : nat * A -> B) (l : list A) : forall a,
  (forall j h, a <= j < a + List.length l -> f (j, h) = g (j, h)) ->
  map f (combine (seq a (List.length l)) l) = map g (combine (seq a (List.length l)) l).
Proof.
  induction l as [|x t IH]; intros a H; simpl; [reflexivity|].
  f_equal.
  - apply H. simpl. lia.
  - apply IH. intros j h Hj. apply H. simpl. lia.
Qed.

Theorem read_ignores_excess hh first rest :
  read_records conv hh (first :: map (firstn (List.length first)) rest) =
  read_records conv hh (first :: rest).
Proof.
  rewrite !read_records_built. f_equal. unfold built.
  assert (Hh : forall r, header_of hh (first :: r) = header_of hh (first :: rest)) by reflexivity.
  rewrite (Hh (map (firstn (List.length first)) rest)).
  set (header := header_of hh (first :: rest)).
  assert (Hlen : List.length header = List.length first).
  { unfold header, header_of. destruct hh; rewrite map_length; [reflexivity|apply seq_length]. }
  apply map_ext_combine_seq. intros j h Hj. cbn [fst snd]. f_equal.
  unfold data_records. destruct hh; cbn [tl].
  - rewrite map_map. apply map_ext. intros r. apply cell_at_firstn. lia.
  - cbn [map]. f_equal.
    rewrite map_map. apply map_ext. intros r. apply cell_at_firstn. lia.
Qed.

End Proofs.
