(* Proofs/Repr.v — C20: the model of display.py meets the spec. *)
From Coq Require Import List Bool Arith ZArith Lia.
From Serif Require Import Base.PyVal Model.Repr Spec.Repr.
Import ListNotations.

(* ---------------------------------------------------------------- list helpers *)

Lemma firstn_seq k : forall a n, k <= n -> firstn k (seq a n) = seq a k.
Proof.
  induction k as [|k IH]; intros a n Hk; [reflexivity|].
  destruct n as [|n]; [lia|]. simpl. f_equal. apply IH. lia.
Qed.

Lemma skipn_seq k : forall a n, k <= n -> skipn k (seq a n) = seq (a + k) (n - k).
Proof.
  induction k as [|k IH]; intros a n Hk.
  - simpl. rewrite Nat.add_0_r, Nat.sub_0_r. reflexivity.
  - destruct n as [|n]; [lia|]. simpl. rewrite IH by lia. f_equal. lia.
Qed.

Lemma map_fst_combine_seq {A} (l : list A) : forall a,
  map fst (combine (seq a (List.length l)) l) = seq a (List.length l).
Proof.
  induction l as [|x t IH]; intros a; simpl; [reflexivity|]. rewrite IH. reflexivity.
Qed.

Lemma map_res_ok {A B} (f : A -> res B) (l : list A) :
  (forall x, In x l -> f x <> Exn) -> map_res f l <> Exn.
Proof.
  induction l as [|x t IH]; intros H; simpl; [discriminate|].
  destruct (f x) as [y|] eqn:E; [|exfalso; apply (H x); [left; reflexivity|exact E]].
  simpl. destruct (map_res f t) as [r|] eqn:E2; [discriminate|].
  exfalso. apply IH; [|reflexivity]. intros z Hz. apply H. right. exact Hz.
Qed.

Lemma map_res_ret {A B} (f : A -> res B) (l : list A) : forall r,
  map_res f l = Ret r ->
  List.length r = List.length l /\
  forall k x, nth_error l k = Some x -> exists y, nth_error r k = Some y /\ f x = Ret y.
Proof.
  induction l as [|x t IH]; intros r H; simpl in H.
  - inversion H. split; [reflexivity|]. intros k x Hk. destruct k; discriminate.
  - destruct (f x) as [y|] eqn:E; [|discriminate]. simpl in H.
    destruct (map_res f t) as [r'|] eqn:E2; [|discriminate]. simpl in H. inversion H; subst.
    destruct (IH r' eq_refl) as [Hl Hn]. split; [simpl; congruence|].
    intros k z Hk. destruct k as [|k]; simpl in *.
    + inversion Hk; subst. exists y. split; [reflexivity|exact E].
    + apply Hn. exact Hk.
Qed.

Lemma map_res_map {A B C} (f : A -> res B) (g : B -> C) (h : A -> C) (l : list A) : forall r,
  (forall x y, In x l -> f x = Ret y -> g y = h x) ->
  map_res f l = Ret r -> map g r = map h l.
Proof.
  induction l as [|x t IH]; intros r Hg H; simpl in H.
  - inversion H. reflexivity.
  - destruct (f x) as [y|] eqn:E; [|discriminate]. simpl in H.
    destruct (map_res f t) as [r'|] eqn:E2; [|discriminate]. simpl in H. inversion H; subst.
    simpl. f_equal.
    + apply Hg; [left; reflexivity|exact E].
    + apply IH; [|reflexivity]. intros z w Hz. apply Hg. right. exact Hz.
Qed.

Lemma In_firstn {A} n (l : list A) x : In x (firstn n l) -> In x l.
Proof. intros H. rewrite <- (firstn_skipn n l). apply in_or_app. left. exact H. Qed.
Lemma In_skipn {A} n (l : list A) x : In x (skipn n l) -> In x l.
Proof. intros H. rewrite <- (firstn_skipn n l). apply in_or_app. right. exact H. Qed.

(* ---------------------------------------------------------------- the preview *)

Definition prow (p : pitem) : option nat := match p with PEll => None | PVal i _ => Some i end.
Definition pval (p : pitem) : option cellv := match p with PEll => None | PVal _ v => Some v end.

Lemma rows_prow (vals : list cellv) :
  map prow (map (fun iv => PVal (fst iv) (snd iv)) (combine (seq 0 (List.length vals)) vals))
  = map Some (seq 0 (List.length vals)).
Proof.
  rewrite map_map. cbn [prow]. rewrite <- (map_fst_combine_seq vals 0) at 2.
  rewrite map_map. reflexivity.
Qed.

Lemma preview_rows h vals : map prow (preview h vals) = expected_rows h (List.length vals).
Proof.
  unfold preview, expected_rows.
  set (n := List.length vals).
  set (rows := map (fun iv => PVal (fst iv) (snd iv)) (combine (seq 0 n) vals)).
  assert (Hrows : map prow rows = map Some (seq 0 n)) by apply rows_prow.
  assert (Hlen : List.length rows = n).
  { unfold rows. rewrite map_length, combine_length, seq_length. fold n. lia. }
  destruct (h * 2 <? n) eqn:E; [|exact Hrows].
  apply Nat.ltb_lt in E.
  rewrite !map_app. cbn [map prow].
  rewrite <- firstn_map, Hrows, firstn_map, firstn_seq by lia.
  f_equal. f_equal.
  destruct (Nat.eqb_spec h 0) as [->|Hh]; [reflexivity|].
  unfold slice_last. destruct (Nat.eqb_spec h 0) as [?|_]; [contradiction|].
  rewrite Hlen, <- skipn_map, Hrows, skipn_map, skipn_seq by lia.
  simpl. f_equal. f_equal. lia.
Qed.

Lemma preview_vals h vals p v : In p (preview h vals) -> pval p = Some v -> In v vals.
Proof.
  unfold preview.
  set (rows := map (fun iv => PVal (fst iv) (snd iv)) (combine (seq 0 (List.length vals)) vals)).
  assert (Hrows : forall q w, In q rows -> pval q = Some w -> In w vals).
  { intros q w Hq Hw. unfold rows in Hq. apply in_map_iff in Hq. destruct Hq as [[i x] [<- Hin]].
    simpl in Hw. inversion Hw; subst. apply in_combine_r in Hin. exact Hin. }
  intros Hin Hv.
  destruct (h * 2 <? List.length vals).
  - apply in_app_or in Hin. destruct Hin as [Hin|Hin].
    + apply (Hrows p v); [|exact Hv]. eapply In_firstn. exact Hin.
    + apply in_app_or in Hin. destruct Hin as [Hin|Hin].
      * destruct Hin as [<-|[]]. discriminate.
      * destruct (Nat.eqb h 0); [destruct Hin|].
        unfold slice_last in Hin. destruct (Nat.eqb h 0); [apply (Hrows p v); assumption|].
        apply (Hrows p v); [|exact Hv]. eapply In_skipn. exact Hin.
  - apply (Hrows p v); assumption.
Qed.

(* ---------------------------------------------------------------- one column *)

(* what totality needs of a shown cell: it belongs to the column's dtype (C03) *)
Definition cell_ok (dt : option dtype) (s : vshape) : Prop := fits dt s.

Lemma fmt_value_total dt s : cell_ok dt s -> fmt_value dt s <> Exn.
Proof.
  intros Hf. unfold fmt_value. destruct dt as [d|]; [|destruct (is_str s); discriminate].
  unfold cell_ok, fits in Hf.
  destruct (dkind d) eqn:Ek; simpl in *;
    try (destruct (is_str s); discriminate); try discriminate.
  - (* float *) destruct s as [[| | |b]|[|]| | | |ne]; simpl in *; try contradiction; discriminate.
  - (* date *) destruct s; simpl in *; try contradiction. discriminate.
Qed.

Lemma fmt_item_total dt p :
  (forall s, pval p = Some (Some s) -> cell_ok dt s) -> fmt_item dt p <> Exn.
Proof.
  intros H. destruct p as [|i [s|]]; simpl; try discriminate.
  pose proof (fmt_value_total dt s (H s eq_refl)) as Ht.
  destruct (fmt_value dt s); [discriminate|contradiction].
Qed.

Lemma format_column_total dt h vals :
  (forall s, In (Some s) vals -> cell_ok dt s) -> format_column dt h vals <> Exn.
Proof.
  intros H. unfold format_column. apply map_res_ok. intros p Hp.
  apply fmt_item_total. intros s Hs. apply H. eapply preview_vals; eassumption.
Qed.

Lemma vec_cells_ok v :
  well_typed_vec v -> forall s, In (Some s) (vdata v) -> cell_ok (vdtype v) s.
Proof. intros Hw s Hs. apply Hw. exact Hs. Qed.

(* a formatted line shows the row of its preview entry: the marker's line comes from the marker
   only, whatever the data (a cell equal to '...' included) *)
Lemma fmt_item_row dt p y : fmt_item dt p = Ret y -> row_of y = prow p.
Proof.
  intros H. destruct p as [|i [s|]]; simpl in *.
  - inversion H. reflexivity.
  - destruct (fmt_value dt s); [|discriminate]. simpl in H. inversion H. reflexivity.
  - inversion H. reflexivity.
Qed.

Lemma format_column_rows dt h vals l :
  format_column dt h vals = Ret l -> map row_of l = expected_rows h (List.length vals).
Proof.
  intros H. rewrite <- preview_rows. unfold format_column in H.
  eapply map_res_map; [|exact H].
  intros p y _ Hy. eapply fmt_item_row. exact Hy.
Qed.

Lemma format_column_length dt h vals l :
  format_column dt h vals = Ret l ->
  List.length l = List.length (expected_rows h (List.length vals)).
Proof.
  intros H. unfold format_column in H. apply map_res_ret in H. destruct H as [Hl _].
  rewrite Hl, <- preview_rows, map_length. reflexivity.
Qed.

(* ---------------------------------------------------------------- names *)

Lemma needs_quote_total o : needs_quote o <> Exn.
Proof. destruct o as [[] d|[] d]; simpl; discriminate. Qed.

(* ---------------------------------------------------------------- vectors *)

Theorem vector_total glob v :
  well_typed_vec v -> repr_vector glob v <> Exn.
Proof.
  intros Hw. unfold repr_vector. destruct (vdata v) as [|c t] eqn:Ed; [discriminate|].
  assert (Hc : format_column (vdtype v) (half glob) (c :: t) <> Exn).
  { apply format_column_total. intros s Hs. rewrite <- Ed in Hs. apply vec_cells_ok; assumption. }
  destruct (format_column (vdtype v) (half glob) (c :: t)) as [body|]; [|contradiction]. simpl.
  destruct (vname v) as [o|]; simpl; [|discriminate].
  destruct (n_is_empty_str o); simpl; [discriminate|].
  pose proof (needs_quote_total o) as Hq. destruct (needs_quote o); [discriminate|contradiction].
Qed.

Lemma vector_inv glob v r :
  repr_vector glob v = Ret r ->
  (vdata v = [] /\ r = VREmpty) \/
  (vdata v <> [] /\ exists body hdr,
     format_column (vdtype v) (half glob) (vdata v) = Ret body /\
     r = VRLines hdr body (List.length (vdata v)) (tok_of (vdtype v)) /\
     (hdr = true <-> exists o, vname v = Some o /\ n_is_empty_str o = false)).
Proof.
  unfold repr_vector. intros H. destruct (vdata v) as [|c t] eqn:Ed.
  - left. inversion H. split; reflexivity.
  - right. split; [discriminate|].
    destruct (format_column (vdtype v) (half glob) (c :: t)) as [body|]; [|discriminate]. simpl in H.
    destruct (vname v) as [o|]; simpl in H.
    + destruct (n_is_empty_str o) eqn:Ee; simpl in H.
      * inversion H. exists body, false. repeat split; try discriminate.
        intros [o' [Ho' He']]. inversion Ho'; subst. congruence.
      * destruct (needs_quote o); [|discriminate]. simpl in H. inversion H.
        exists body, true. repeat split. intros _. exists o. split; [reflexivity|exact Ee].
    + inversion H. exists body, false. repeat split; try discriminate.
      intros [o' [Ho' _]]. discriminate.
Qed.

Theorem vector_footer glob v r :
  repr_vector glob v = Ret r ->
  match r with
  | VREmpty => vdata v = []
  | VRLines _ _ count dt => count = List.length (vdata v) /\ dt = tok_of (vdtype v)
  end.
Proof.
  intros H. apply vector_inv in H. destruct H as [[Hd ->]|[_ [body [hdr [_ [-> _]]]]]].
  - exact Hd.
  - split; reflexivity.
Qed.

Theorem vector_preview glob v hdr body count dt :
  repr_vector glob v = Ret (VRLines hdr body count dt) ->
  map row_of body = expected_rows (half glob) (List.length (vdata v)).
Proof.
  intros H. apply vector_inv in H. destruct H as [[_ Hr]|[_ [body' [hdr' [Hf [Hr _]]]]]]; [discriminate|].
  inversion Hr; subst. eapply format_column_rows; eassumption.
Qed.

Theorem vector_header glob v hdr body count dt :
  repr_vector glob v = Ret (VRLines hdr body count dt) ->
  (hdr = true <-> exists o, vname v = Some o /\ n_is_empty_str o = false).
Proof.
  intros H. apply vector_inv in H. destruct H as [[_ Hr]|[_ [body' [hdr' [_ [Hr Hh]]]]]]; [discriminate|].
  inversion Hr; subst. exact Hh.
Qed.

(* the row budget: rows shown never exceed the limit; data longer than the limit is
   truncated, data shorter than the limit is shown whole *)
Lemma half_spec (L : Z) :
  (Z.of_nat (half L * 2) <= Z.max L 0 < Z.of_nat (half L * 2) + 2)%Z.
Proof.
  unfold half.
  assert (H2 : (0 < 2)%Z) by lia.
  pose proof (Z.div_mod L 2 ltac:(lia)) as Hd. pose proof (Z.mod_pos_bound L 2 H2) as Hm.
  destruct (Z.max_spec (L / 2) 0) as [[Hlt ->]|[Hge ->]].
  - simpl. lia.
  - rewrite Nat2Z.inj_mul, Z2Nat.id by lia. simpl (Z.of_nat 2). lia.
Qed.

Theorem limit_semantics (L : Z) (n : nat) :
  ((Z.max L 0 < Z.of_nat n)%Z -> half L * 2 < n) /\
  ((Z.of_nat n < L)%Z -> n <= half L * 2) /\
  (Z.of_nat (half L * 2) <= Z.max L 0)%Z.
Proof.
  pose proof (half_spec L) as H. repeat split; intros; lia.
Qed.

(* ---------------------------------------------------------------- tables *)

Definition dflt_col : vec := mkVec None None [].

Lemma col_indices_expected n : col_indices n = expected_cols n.
Proof. reflexivity. Qed.

Lemma col_indices_lt n j : In j (col_indices n) -> j < n.
Proof.
  unfold col_indices, truncated_cols, MAX_HEAD_COLS.
  destruct (5 * 2 <? n) eqn:E.
  - apply Nat.ltb_lt in E. intros H. apply in_app_or in H. destruct H as [H|H]; apply in_seq in H; lia.
  - intros H. apply in_seq in H. lia.
Qed.

Lemma shown_cols_in cols j c : In (j, c) (shown_cols cols) -> In c cols /\ c = nth j cols dflt_col.
Proof.
  unfold shown_cols. intros H. apply in_map_iff in H. destruct H as [j' [Heq Hin]].
  inversion Heq; subst. split; [|reflexivity]. apply nth_In. apply col_indices_lt. exact Hin.
Qed.

Lemma dtype_mem_In d l : dtype_mem d l = true <-> In d l.
Proof.
  induction l as [|x t IH]; simpl; [split; [discriminate|tauto]|].
  rewrite orb_true_iff, IH, dtype_eqb_eq. split; intros [H|H]; auto.
Qed.

Lemma distinct_In x l : In x (distinct_dtypes l) <-> In x l.
Proof.
  induction l as [|y t IH]; simpl; [tauto|].
  destruct (dtype_mem y (distinct_dtypes t)) eqn:E.
  - rewrite IH. split; [auto|]. intros [->|H]; [|exact H].
    apply IH. apply dtype_mem_In. exact E.
  - simpl. rewrite IH. tauto.
Qed.

Lemma distinct_singleton l :
  List.length (distinct_dtypes l) = 1 -> forall x y, In x l -> In y l -> x = y.
Proof.
  intros H x y Hx Hy. apply distinct_In in Hx. apply distinct_In in Hy.
  destruct (distinct_dtypes l) as [|d [|e r]]; simpl in H; try discriminate.
  destruct Hx as [<-|[]]. destruct Hy as [<-|[]]. reflexivity.
Qed.

Definition fmt_shown (glob : Z) (t : tbl) :=
  map_res (fun jc : nat * vec => format_column (vdtype (snd jc)) (table_half glob t) (vdata (snd jc)))
          (shown_cols (tcols t)).
Definition dtypes_shown (t : tbl) : list dtype :=
  map (fun jc : nat * vec => tok_of (vdtype (snd jc))) (shown_cols (tcols t)).
Definition dtypes_all (t : tbl) : list dtype := map (fun c => tok_of (vdtype c)) (tcols t).

Lemma table_inv glob t r :
  repr_table glob t = Ret r ->
  (first_cell_has_shape (tcols t) = true /\ r = TRTensor) \/
  (tcols t = [] /\ r = TREmpty) \/
  (tcols t <> [] /\
   exists formatted disp_row,
     fmt_shown glob t = Ret formatted /\
     display_row (truncated_cols (t_ncols t)) (shown_cols (tcols t)) = Ret disp_row /\
     r = TRTable disp_row (types_row (truncated_cols (t_ncols t)) (dtypes_shown t))
                 (table_body (truncated_cols (t_ncols t)) formatted)
                 (t_nrows t) (t_ncols t)
                 (footer_types (truncated_cols (t_ncols t)) (show_types (dtypes_shown t)) (dtypes_all t))).
Proof.
  unfold repr_table. intros H.
  destruct (first_cell_has_shape (tcols t)) eqn:Es.
  - left. inversion H. split; reflexivity.
  - right. destruct (Nat.eqb_spec (List.length (tcols t)) 0) as [E0|E0].
    + left. inversion H. split; [|reflexivity]. destruct (tcols t); [reflexivity|discriminate].
    + right. split; [intros Hn; rewrite Hn in E0; apply E0; reflexivity|].
      fold (t_ncols t) in H.
      assert (Hh : match trepr_rows t with Some r0 => half r0 | None => half glob end = table_half glob t)
        by reflexivity.
      rewrite Hh in H. fold (fmt_shown glob t) in H.
      destruct (fmt_shown glob t) as [formatted|]; [|discriminate]. cbn [bind] in H.
      destruct (display_row (truncated_cols (t_ncols t)) (shown_cols (tcols t))) as [dr|]; [|discriminate].
      cbn [bind] in H.
      match type of H with (if ?c then _ else _) = _ => destruct c end; [|discriminate].
      inversion H. exists formatted, dr. repeat split.
Qed.

Lemma name_cell_total jd : name_cell jd <> Exn.
Proof.
  unfold name_cell. destruct (snd jd) as [o|]; simpl; [|discriminate].
  pose proof (needs_quote_total o) as H. destruct (needs_quote o); [discriminate|contradiction].
Qed.

Lemma display_row_total tr shown : display_row tr shown <> Exn.
Proof.
  unfold display_row. match goal with |- (if ?c then _ else _) <> _ => destruct c end; [|discriminate].
  match goal with |- bind ?m _ <> _ => assert (Hm : m <> Exn) by (apply map_res_ok; intros; apply name_cell_total);
    destruct m; [discriminate|contradiction] end.
Qed.

Lemma insert_at_forall {A} (P : A -> Prop) k x (l : list A) :
  P x -> Forall P l -> Forall P (insert_at k x l).
Proof.
  intros Hx Hl. unfold insert_at. apply Forall_app. split.
  - apply Forall_forall. intros y Hy. rewrite Forall_forall in Hl. apply Hl. eapply In_firstn. exact Hy.
  - constructor; [exact Hx|]. apply Forall_forall. intros y Hy. rewrite Forall_forall in Hl. apply Hl.
    eapply In_skipn. exact Hy.
Qed.

(* every formatted column has the same number of lines, given a rectangular table *)
Lemma fmt_shown_lengths glob t formatted :
  rectangular t -> fmt_shown glob t = Ret formatted ->
  Forall (fun l => List.length l = List.length (expected_rows (table_half glob t) (t_nrows t))) formatted.
Proof.
  intros Hr H. unfold fmt_shown in H. apply Forall_forall. intros l Hl.
  apply In_nth_error in Hl. destruct Hl as [k Hk].
  pose proof (map_res_ret _ _ _ H) as [Hlen Hn].
  assert (Hk' : k < List.length (shown_cols (tcols t))).
  { rewrite <- Hlen. apply nth_error_Some. congruence. }
  destruct (nth_error (shown_cols (tcols t)) k) as [[j c]|] eqn:Ejc; [|apply nth_error_None in Ejc; lia].
  destruct (Hn k (j, c) Ejc) as [y [Hy Hf]]. rewrite Hk in Hy. inversion Hy; subst y.
  cbn [snd] in Hf. apply format_column_length in Hf. rewrite Hf.
  apply nth_error_In in Ejc. apply shown_cols_in in Ejc. destruct Ejc as [Hin _].
  rewrite (Hr c Hin). reflexivity.
Qed.

Lemma table_body_lengths tr formatted m :
  formatted <> [] -> Forall (fun l => List.length l = m) formatted ->
  Forall (fun c => body_len c = m) (table_body tr formatted).
Proof.
  intros Hne H. unfold table_body.
  assert (Hb : Forall (fun c => body_len c = m) (map CItems formatted)).
  { apply Forall_forall. intros c Hc. apply in_map_iff in Hc. destruct Hc as [l [<- Hl]].
    rewrite Forall_forall in H. simpl. apply H. exact Hl. }
  destruct tr; [|exact Hb].
  apply insert_at_forall; [|exact Hb].
  destruct formatted as [|l0 r]; [contradiction|]. simpl.
  inversion H as [|? ? Hl0 Hr0]. exact Hl0.
Qed.

Lemma shown_cols_nonempty cols : cols <> [] -> shown_cols cols <> [].
Proof.
  intros Hne. unfold shown_cols, col_indices, truncated_cols, MAX_HEAD_COLS.
  destruct cols as [|c r]; [contradiction|]. simpl List.length.
  destruct (5 * 2 <? S (List.length r)); simpl; discriminate.
Qed.

Lemma fmt_shown_nonempty glob t formatted :
  tcols t <> [] -> fmt_shown glob t = Ret formatted -> formatted <> [].
Proof.
  intros Hne H. unfold fmt_shown in H. apply map_res_ret in H. destruct H as [Hlen _].
  pose proof (shown_cols_nonempty _ Hne) as Hs.
  destruct formatted; [|discriminate]. destruct (shown_cols (tcols t)); [contradiction|discriminate].
Qed.

Theorem table_total glob t :
  rectangular t ->
  (forall c, In c (tcols t) -> well_typed_vec c) ->
  repr_table glob t <> Exn.
Proof.
  intros Hr Hc. unfold repr_table.
  destruct (first_cell_has_shape (tcols t)); [discriminate|].
  destruct (Nat.eqb_spec (List.length (tcols t)) 0) as [E0|E0]; [discriminate|].
  assert (Hne : tcols t <> []) by (intros Hn; rewrite Hn in E0; apply E0; reflexivity).
  assert (Hh : match trepr_rows t with Some r0 => half r0 | None => half glob end = table_half glob t)
    by reflexivity.
  rewrite Hh. fold (fmt_shown glob t).
  assert (Hf : fmt_shown glob t <> Exn).
  { unfold fmt_shown. apply map_res_ok. intros [j c] Hin. cbn [snd].
    apply shown_cols_in in Hin. destruct Hin as [Hin _]. pose proof (Hc c Hin) as Hw.
    apply format_column_total. intros s Hs. apply vec_cells_ok; assumption. }
  destruct (fmt_shown glob t) as [formatted|] eqn:Ef; [|contradiction]. cbn [bind].
  pose proof (display_row_total (truncated_cols (List.length (tcols t))) (shown_cols (tcols t))) as Hd.
  destruct (display_row (truncated_cols (List.length (tcols t))) (shown_cols (tcols t))) as [dr|];
    [|contradiction].
  cbn [bind].
  pose proof (fmt_shown_lengths _ _ _ Hr Ef) as Hl.
  pose proof (table_body_lengths (truncated_cols (List.length (tcols t))) formatted _
                (fmt_shown_nonempty _ _ _ Hne Ef) Hl) as Hb.
  set (body := table_body (truncated_cols (List.length (tcols t))) formatted) in *.
  match goal with |- (if ?c then _ else _) <> _ => assert (Hchk : c = true) end.
  { apply forallb_forall. intros c Hin. apply Nat.leb_le.
    rewrite Forall_forall in Hb. rewrite (Hb c Hin).
    destruct body as [|c0 r]; [destruct Hin|]. rewrite (Hb c0 (or_introl eq_refl)). lia. }
  rewrite Hchk. discriminate.
Qed.

Lemma dtypes_shown_spec t :
  map Some (dtypes_shown t) = map (fun j => Some (tok_of (vdtype (col t j)))) (expected_cols (t_ncols t)).
Proof.
  unfold dtypes_shown, shown_cols. rewrite !map_map. reflexivity.
Qed.

Lemma types_row_spec t tr :
  types_row (truncated_cols (t_ncols t)) (dtypes_shown t) = Some tr -> tr = shown_types t.
Proof.
  unfold types_row, shown_types. destruct (show_types (dtypes_shown t)); [|discriminate].
  intros H. inversion H. rewrite dtypes_shown_spec. reflexivity.
Qed.

Theorem table_footer glob t r :
  repr_table glob t = Ret r ->
  match r with
  | TREmpty => tcols t = []
  | TRTensor => first_cell_has_shape (tcols t) = true
  | TRTable _ types _ frows fcols ftys =>
      frows = t_nrows t /\ fcols = t_ncols t /\
      (forall tr, types = Some tr -> tr = shown_types t) /\
      match ftys with
      | FMixed => types = Some (shown_types t)
      | FOne d => forall c, In c (tcols t) -> tok_of (vdtype c) = d
      | FList l => l = listed_types t
      end
  end.
Proof.
  intros H. apply table_inv in H.
  destruct H as [[Hs ->]|[[Hc ->]|[Hne [formatted [dr [_ [_ ->]]]]]]]; [exact Hs|exact Hc|].
  split; [reflexivity|]. split; [reflexivity|]. split; [apply types_row_spec|].
  unfold footer_types.
  destruct (show_types (dtypes_shown t)) eqn:Es.
  - unfold types_row. rewrite Es. unfold shown_types. rewrite dtypes_shown_spec. reflexivity.
  - destruct (Nat.eqb_spec (List.length (distinct_dtypes (dtypes_all t))) 1) as [E1|E1].
    + intros c Hc.
      assert (Hin : In (tok_of (vdtype c)) (dtypes_all t)).
      { unfold dtypes_all. apply in_map_iff. exists c. split; [reflexivity|exact Hc]. }
      apply (distinct_singleton _ E1); [exact Hin|].
      unfold dtypes_all. destruct (tcols t) as [|c0 r]; [contradiction|]. left. reflexivity.
    + unfold listed_types. fold (dtypes_all t). reflexivity.
Qed.

Theorem table_preview glob t disp types body fr fc ft :
  repr_table glob t = Ret (TRTable disp types body fr fc ft) ->
  rectangular t ->
  exists ls,
    body = (if cols_truncated (t_ncols t)
            then insert_at MAX_HEAD_COLS
                           (CDots (List.length (expected_rows (table_half glob t) (t_nrows t))))
                           (map CItems ls)
            else map CItems ls) /\
    List.length ls = List.length (expected_cols (t_ncols t)) /\
    Forall (fun l => map row_of l = expected_rows (table_half glob t) (t_nrows t)) ls.
Proof.
  intros H Hr. apply table_inv in H.
  destruct H as [[_ Hx]|[[_ Hx]|[Hne [formatted [dr [Hf [_ Hx]]]]]]]; try discriminate.
  inversion Hx; subst. exists formatted.
  pose proof (fmt_shown_lengths _ _ _ Hr Hf) as Hl.
  pose proof (fmt_shown_nonempty _ _ _ Hne Hf) as Hn.
  split; [|split].
  - unfold table_body. change (truncated_cols (t_ncols t)) with (cols_truncated (t_ncols t)).
    destruct (cols_truncated (t_ncols t)); [|reflexivity].
    destruct formatted as [|l0 r]; [contradiction|]. simpl.
    inversion Hl as [|? ? Hl0 _]. rewrite Hl0. reflexivity.
  - unfold fmt_shown in Hf. apply map_res_ret in Hf. destruct Hf as [Hlen _].
    rewrite Hlen. unfold shown_cols. rewrite map_length. reflexivity.
  - apply Forall_forall. intros l Hin.
    apply In_nth_error in Hin. destruct Hin as [k Hk].
    unfold fmt_shown in Hf. pose proof (map_res_ret _ _ _ Hf) as [Hlen Hnth].
    assert (Hk' : k < List.length (shown_cols (tcols t))).
    { rewrite <- Hlen. apply nth_error_Some. congruence. }
    destruct (nth_error (shown_cols (tcols t)) k) as [[j c]|] eqn:Ejc; [|apply nth_error_None in Ejc; lia].
    destruct (Hnth k (j, c) Ejc) as [y [Hy Hfc]]. rewrite Hk in Hy. inversion Hy; subst y.
    cbn [snd] in Hfc.
    apply nth_error_In in Ejc. apply shown_cols_in in Ejc. destruct Ejc as [Hin _].
    rewrite <- (Hr c Hin). eapply format_column_rows. exact Hfc.
Qed.

(* every cell of the row of names stands for its own column: no name, whatever its text
   ('...' included), is taken for the hidden-columns cell *)
Lemma display_cells_spec (shown : list (nat * vec)) r :
  map_res name_cell (map (fun jc => (fst jc, display_name (snd jc))) shown) = Ret r ->
  r = map (fun jc => HName (fst jc)) shown.
Proof.
  intros H.
  apply (map_res_map name_cell (fun y => y) (fun jd => HName (fst jd))) in H.
  - rewrite map_id in H. rewrite H, map_map. reflexivity.
  - intros [j d] y _ Hy. unfold name_cell in Hy. cbn [fst snd] in Hy.
    destruct d as [o|].
    + destruct (needs_quote o); [|discriminate]. simpl in Hy. inversion Hy. reflexivity.
    + simpl in Hy. inversion Hy. reflexivity.
Qed.

Theorem table_headers glob t disp types body fr fc ft :
  repr_table glob t = Ret (TRTable disp types body fr fc ft) ->
  match disp with
  | Some row => row = shown_names t
  | None => forall j, In j (expected_cols (t_ncols t)) -> ~ has_shown_name (col t j)
  end.
Proof.
  intros H. apply table_inv in H.
  destruct H as [[_ Hx]|[[_ Hx]|[Hne [formatted [dr [_ [Hdisp Hx]]]]]]]; try discriminate.
  inversion Hx; subst. clear Hx.
  unfold display_row in Hdisp.
  match type of Hdisp with (if ?c then _ else _) = _ => destruct c eqn:Eany end.
  - destruct (map_res name_cell
               (map (fun jc : nat * vec => (fst jc, display_name (snd jc))) (shown_cols (tcols t))))
      as [r|] eqn:Er; [|discriminate].
    cbn [bind] in Hdisp. inversion Hdisp; subst. clear Hdisp.
    apply display_cells_spec in Er. subst r.
    unfold shown_names, shown_cols. rewrite map_map. cbn [fst]. reflexivity.
  - inversion Hdisp; subst. clear Hdisp.
    intros j Hj [o [Ho He]].
    assert (Hfalse : existsb (fun jd : nat * option nobj => name_counts (snd jd))
              (map (fun jc : nat * vec => (fst jc, display_name (snd jc))) (shown_cols (tcols t))) = true).
    { apply existsb_exists. exists (j, display_name (col t j)). split.
      - apply in_map_iff. exists (j, col t j). split; [reflexivity|].
        unfold shown_cols. apply in_map_iff. exists j. split; [reflexivity|exact Hj].
      - cbn [snd]. unfold display_name. rewrite Ho. simpl.
        destruct o as [e d|e d]; simpl in *; rewrite He; reflexivity. }
    rewrite Hfalse in Eany. discriminate.
Qed.

(* ---------------------------------------------------------------- purity *)

Theorem repr_vector_pure st : fst (repr_vector_st st) = st.
Proof. reflexivity. Qed.
Theorem repr_table_pure st : fst (repr_table_st st) = st.
Proof. reflexivity. Qed.
