(* Proofs/Repr.v — C20: the model of display.py meets the spec. *)
From Coq Require Import List Bool Arith ZArith Lia.
From Serif Require Import Base.PyVal Model.Repr Spec.Repr.
Import ListNotations.

(* ---------------------------------------------------------------- list helpers *)

Lemma firstn_seq k : forall a n, k <= n -> firstn k (seq a n) = seq a k.
Proof.
  induction k as [|k IH]; intros a n Hk; [reflexivity|].
  destruct n as [|n]; [lia|]. simpl. f_equal. apply IH. lia.
Qed.

Lemma skipn_seq k : forall a n, k <= n -> skipn k (seq a n) = seq (a + k) (n - k).
Proof.
  induction k as [|k IH]; intros a n Hk.
  - simpl. rewrite Nat.add_0_r, Nat.sub_0_r. reflexivity.
  - destruct n as [|n]; [lia|]. simpl. rewrite IH by lia. f_equal. lia.
Qed.

Lemma map_fst_combine_seq {A} (l : list A) : forall a,
  map fst (combine (seq a (List.length l)) l) = seq a (List.length l).
Proof.
  induction l as [|x t IH]; intros a; simpl; [reflexivity|]. rewrite IH. reflexivity.
Qed.

Lemma map_res_ok {A B} (f : A -> res B) (l : list A) :
  (forall x, In x l -> f x <> Exn) -> map_res f l <> Exn.
Proof.
  induction l as [|x t IH]; intros H; simpl; [discriminate|].
  destruct (f x) as [y|] eqn:E; [|exfalso; apply (H x); [left; reflexivity|exact E]].
  simpl. destruct (map_res f t) as [r|] eqn:E2; [discriminate|].
  exfalso. apply IH; [|reflexivity]. intros z Hz. apply H. right. exact Hz.
Qed.

Lemma map_res_ret {A B} (f : A -> res B) (l : list A) : forall r,
  map_res f l = Ret r ->
  List.length r = List.length l /\
  forall k x, nth_error l k = Some x -> exists y, nth_error r k = Some y /\ f x = Ret y.
Proof.
  induction l as [|x t IH]; intros r H; simpl in H.
  - inversion H. split; [reflexivity|]. intros k x Hk. destruct k; discriminate.
  - destruct (f x) as [y|] eqn:E; [|discriminate]. simpl in H.
    destruct (map_res f t) as [r'|] eqn:E2; [|discriminate]. simpl in H. inversion H; subst.
    destruct (IH r' eq_refl) as [Hl Hn]. split; [simpl; congruence|].
    intros k z Hk. destruct k as [|k]; simpl in *.
    + inversion Hk; subst. exists y. split; [reflexivity|exact E].
    + apply Hn. exact Hk.
Qed.

Lemma map_res_map {A B C} (f : A -> res B) (g : B -> C) (h : A -> C) (l : list A) : forall r,
  (forall x y, In x l -> f x = Ret y -> g y = h x) ->
  map_res f l = Ret r -> map g r = map h l.
Proof.
  induction l as [|x t IH]; intros r Hg H; simpl in H.
  - inversion H. reflexivity.
  - destruct (f x) as [y|] eqn:E; [|discriminate]. simpl in H.
    destruct (map_res f t) as [r'|] eqn:E2; [|discriminate]. simpl in H. inversion H; subst.
    simpl. f_equal.
    + apply Hg; [left; reflexivity|exact E].
    + apply IH; [|reflexivity]. intros z w Hz. apply Hg. right. exact Hz.
Qed.

Lemma In_firstn {A} n (l : list A) x : In x (firstn n l) -> In x l.
Proof. intros H. rewrite <- (firstn_skipn n l). apply in_or_app. left. exact H. Qed.
Lemma In_skipn {A} n (l : list A) x : In x (skipn n l) -> In x l.
Proof. intros H. rewrite <- (firstn_skipn n l). apply in_or_app. right. exact H. Qed.

(* ---------------------------------------------------------------- the preview *)

Definition prow (p : pitem) : option nat := match p with PEll => None | PVal i _ => Some i end.
Definition pval (p : pitem) : option cellv := match p with PEll => None | PVal _ v => Some v end.

Lemma rows_prow (vals : list cellv) :
  map prow (map (fun iv => PVal (fst iv) (snd iv)) (combine (seq 0 (List.length vals)) vals))
  = map Some (seq 0 (List.length vals)).
Proof.
  rewrite map_map. cbn [prow]. rewrite <- (map_fst_combine_seq vals 0) at 2.
  rewrite map_map. reflexivity.
Qed.

Lemma preview_rows h vals : map prow (preview h vals) = expected_rows h (List.length vals).
Proof.
  unfold preview, expected_rows.
  set (n := List.length vals).
  set (rows := map (fun iv => PVal (fst iv) (snd iv)) (combine (seq 0 n) vals)).
  assert (Hrows : map prow rows = map Some (seq 0 n)) by apply rows_prow.
  assert (Hlen : List.length rows = n).
  { unfold rows. rewrite map_length, combine_length, seq_length. fold n. lia. }
  destruct (h * 2 <? n) eqn:E; [|exact Hrows].
  apply Nat.ltb_lt in E.
  rewrite !map_app. cbn [map prow].
  rewrite <- firstn_map, Hrows, firstn_map, firstn_seq by lia.
  f_equal. f_equal.
  destruct (Nat.eqb_spec h 0) as [->|Hh]; [reflexivity|].
  unfold slice_last. destruct (Nat.eqb_spec h 0) as [?|_]; [contradiction|].
  rewrite Hlen, <- skipn_map, Hrows, skipn_map, skipn_seq by lia.
  simpl. f_equal. f_equal. lia.
Qed.

Lemma preview_vals h vals p v : In p (preview h vals) -> pval p = Some v -> In v vals.
Proof.
  unfold preview.
  set (rows := map (fun iv => PVal (fst iv) (snd iv)) (combine (seq 0 (List.length vals)) vals)).
  assert (Hrows : forall q w, In q rows -> pval q = Some w -> In w vals).
  { intros q w Hq Hw. unfold rows in Hq. apply in_map_iff in Hq. destruct Hq as [[i x] [<- Hin]].
    simpl in Hw. inversion Hw; subst. apply in_combine_r in Hin. exact Hin. }
  intros Hin Hv.
  destruct (h * 2 <? List.length vals).
  - apply in_app_or in Hin. destruct Hin as [Hin|Hin].
    + apply (Hrows p v); [|exact Hv]. eapply In_firstn. exact Hin.
    + apply in_app_or in Hin. destruct Hin as [Hin|Hin].
      * destruct Hin as [<-|[]]. discriminate.
      * destruct (Nat.eqb h 0); [destruct Hin|].
        unfold slice_last in Hin. destruct (Nat.eqb h 0); [apply (Hrows p v); assumption|].
        apply (Hrows p v); [|exact Hv]. eapply In_skipn. exact Hin.
  - apply (Hrows p v); assumption.
Qed.

(* ---------------------------------------------------------------- one column *)

Lemma fmt_value_total dt s : fits dt s -> s <> VVector -> fmt_value dt s <> Exn.
Proof.
  intros Hf Hv. unfold fmt_value. destruct dt as [d|]; [|destruct (is_str s); discriminate].
  unfold fits in Hf.
  destruct (dkind d) eqn:Ek; simpl;
    try (destruct (is_str s); discriminate); try discriminate.
  - (* float *) destruct s as [[| | |b]| | | | |]; simpl in *; try contradiction; try discriminate;
      destruct b; discriminate.
  - (* date *) destruct s; simpl in *; try contradiction. discriminate.
Qed.

Lemma fmt_item_total dt p :
  (forall s, pval p = Some (Some s) -> fits dt s /\ s <> VVector) -> fmt_item dt p <> Exn.
Proof.
  intros H. destruct p as [|i [s|]]; simpl; try discriminate.
  destruct (H s eq_refl) as [Hf Hv].
  destruct s; simpl; try contradiction;
    try (pose proof (fmt_value_total dt _ Hf Hv) as Ht;
         match goal with |- bind ?x _ <> Exn => destruct x; [discriminate|contradiction] end).
  (* VStr dots *)
  destruct dots; simpl; [discriminate|].
  pose proof (fmt_value_total dt _ Hf Hv) as Ht.
  destruct (fmt_value dt (VStr false)); [discriminate|contradiction].
Qed.

Lemma format_column_total dt h vals :
  (forall s, In (Some s) vals -> fits dt s /\ s <> VVector) -> format_column dt h vals <> Exn.
Proof.
  intros H. unfold format_column. apply map_res_ok. intros p Hp.
  apply fmt_item_total. intros s Hs. apply H. eapply preview_vals; eassumption.
Qed.

Lemma fmt_item_row dt p y :
  (forall v, pval p = Some v -> v <> Some (VStr true)) ->
  fmt_item dt p = Ret y -> row_of y = prow p.
Proof.
  intros Hd H. destruct p as [|i [s|]]; simpl in *.
  - inversion H. reflexivity.
  - destruct (truth_eq_dots s) as [b|] eqn:E; [|discriminate]. simpl in H.
    destruct b.
    + exfalso. destruct s; simpl in E; try discriminate. inversion E; subst.
      apply (Hd (Some (VStr true)) eq_refl). reflexivity.
    + destruct (fmt_value dt s); [|discriminate]. simpl in H. inversion H. reflexivity.
  - inversion H. reflexivity.
Qed.

Lemma format_column_rows dt h vals l :
  format_column dt h vals = Ret l -> ~ In (Some (VStr true)) vals ->
  map row_of l = expected_rows h (List.length vals).
Proof.
  intros H Hd. rewrite <- preview_rows. unfold format_column in H.
  eapply map_res_map; [|exact H].
  intros p y Hp Hy. eapply fmt_item_row; [|exact Hy].
  intros v Hv Heq. subst v. apply Hd. eapply preview_vals; eassumption.
Qed.

Lemma format_column_length dt h vals l :
  format_column dt h vals = Ret l ->
  List.length l = List.length (expected_rows h (List.length vals)).
Proof.
  intros H. unfold format_column in H. apply map_res_ret in H. destruct H as [Hl _].
  rewrite Hl, <- preview_rows, map_length. reflexivity.
Qed.

(* ---------------------------------------------------------------- names *)

Lemma needs_quote_total o : needs_quote o <> Exn.
Proof. destruct o as [[] d|[] d]; simpl; discriminate. Qed.

(* ---------------------------------------------------------------- vectors *)

Theorem vector_total glob v :
  well_typed_vec v -> no_vector_elements v -> repr_vector glob v <> Exn.
Proof.
  intros Hw Hn. unfold repr_vector. destruct (vdata v) as [|c t] eqn:Ed; [discriminate|].
  assert (Hc : format_column (vdtype v) (half glob) (c :: t) <> Exn).
  { apply format_column_total. intros s Hs. rewrite <- Ed in Hs. split; [apply Hw; exact Hs|].
    intros ->. apply Hn. exact Hs. }
  destruct (format_column (vdtype v) (half glob) (c :: t)) as [body|]; [|contradiction]. simpl.
  destruct (vname v) as [o|]; simpl; [|discriminate].
  destruct (n_is_empty_str o); simpl; [discriminate|].
  pose proof (needs_quote_total o) as Hq. destruct (needs_quote o); [discriminate|contradiction].
Qed.

Lemma vector_inv glob v r :
  repr_vector glob v = Ret r ->
  (vdata v = [] /\ r = VREmpty) \/
  (vdata v <> [] /\ exists body hdr,
     format_column (vdtype v) (half glob) (vdata v) = Ret body /\
     r = VRLines hdr body (List.length (vdata v)) (tok_of (vdtype v)) /\
     (hdr = true <-> exists o, vname v = Some o /\ n_is_empty_str o = false)).
Proof.
  unfold repr_vector. intros H. destruct (vdata v) as [|c t] eqn:Ed.
  - left. inversion H. split; reflexivity.
  - right. split; [discriminate|].
    destruct (format_column (vdtype v) (half glob) (c :: t)) as [body|]; [|discriminate]. simpl in H.
    destruct (vname v) as [o|]; simpl in H.
    + destruct (n_is_empty_str o) eqn:Ee; simpl in H.
      * inversion H. exists body, false. repeat split; try discriminate.
        intros [o' [Ho' He']]. inversion Ho'; subst. congruence.
      * destruct (needs_quote o); [|discriminate]. simpl in H. inversion H.
        exists body, true. repeat split. intros _. exists o. split; [reflexivity|exact Ee].
    + inversion H. exists body, false. repeat split; try discriminate.
      intros [o' [Ho' _]]. discriminate.
Qed.

Theorem vector_footer glob v r :
  repr_vector glob v = Ret r ->
  match r with
  | VREmpty => vdata v = []
  | VRLines _ _ count dt => count = List.length (vdata v) /\ dt = tok_of (vdtype v)
  end.
Proof.
  intros H. apply vector_inv in H. destruct H as [[Hd ->]|[_ [body [hdr [_ [-> _]]]]]].
  - exact Hd.
  - split; reflexivity.
Qed.

Theorem vector_preview glob v hdr body count dt :
  repr_vector glob v = Ret (VRLines hdr body count dt) -> no_dots_elements v ->
  map row_of body = expected_rows (half glob) (List.length (vdata v)).
Proof.
  intros H Hd. apply vector_inv in H. destruct H as [[_ Hr]|[_ [body' [hdr' [Hf [Hr _]]]]]]; [discriminate|].
  inversion Hr; subst. eapply format_column_rows; eassumption.
Qed.

Theorem vector_header glob v hdr body count dt :
  repr_vector glob v = Ret (VRLines hdr body count dt) ->
  (hdr = true <-> exists o, vname v = Some o /\ n_is_empty_str o = false).
Proof.
  intros H. apply vector_inv in H. destruct H as [[_ Hr]|[_ [body' [hdr' [_ [Hr Hh]]]]]]; [discriminate|].
  inversion Hr; subst. exact Hh.
Qed.

(* the row budget: rows shown never exceed the limit; data longer than the limit is
   truncated, data shorter than the limit is shown whole *)
Lemma half_spec (L : Z) :
  (Z.of_nat (half L * 2) <= Z.max L 0 < Z.of_nat (half L * 2) + 2)%Z.
Proof.
  unfold half.
  assert (H2 : (0 < 2)%Z) by lia.
  pose proof (Z.div_mod L 2 ltac:(lia)) as Hd. pose proof (Z.mod_pos_bound L 2 H2) as Hm.
  destruct (Z.max_spec (L / 2) 0) as [[Hlt ->]|[Hge ->]].
  - simpl. lia.
  - rewrite Nat2Z.inj_mul, Z2Nat.id by lia. simpl (Z.of_nat 2). lia.
Qed.

Theorem limit_semantics (L : Z) (n : nat) :
  ((Z.max L 0 < Z.of_nat n)%Z -> half L * 2 < n) /\
  ((Z.of_nat n < L)%Z -> n <= half L * 2) /\
  (Z.of_nat (half L * 2) <= Z.max L 0)%Z.
Proof.
  pose proof (half_spec L) as H. repeat split; intros; lia.
Qed.
