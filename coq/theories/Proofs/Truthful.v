(* Proofs/Truthful.v — C03: the model of Model/Typed.v keeps every vector truthful
   (Spec/Truthful.v): inference, one preservation lemma per operation, write-back, and the
   invariant over all programs of the alphabet. *)
From Coq Require Import List Bool Arith ZArith Lia.
From Serif Require Import Base.PyVal Base.StErr Spec.PySlice Spec.DtypeLattice Model.Dtype Model.Index
  Model.SetItem Spec.Truthful Model.Typed Proofs.Dtype Proofs.PySlice Proofs.Index Proofs.SetItem.
Import ListNotations.

(* ---- belongs = the order of C04's lattice ---------------------------------------------------- *)

Lemma kind_belongs_kle k dk : kind_belongs k dk = true <-> kle k dk.
Proof.
  unfold kle, join. destruct k, dk; simpl; split; intros H; try reflexivity; try discriminate;
    try congruence; kcases.
Qed.

Lemma kind_belongs_refl k : kind_belongs k k = true.
Proof. apply kind_belongs_kle, kle_refl. Qed.

Lemma kind_belongs_object k : kind_belongs k KObject = true.
Proof. reflexivity. Qed.

Lemma belongs_kle vi d : belongs (Some vi) d = true <-> kle (base vi) (dkind d).
Proof. apply kind_belongs_kle. Qed.

(* an element belongs to a dtype exactly when promotion by it leaves the dtype alone *)
Lemma belongs_promote_fix x d : belongs x d = true <-> promote_with d x = d.
Proof.
  rewrite promote_closed. destruct x as [vi|]; destruct d as [k n]; cbn [belongs dkind nullable].
  - rewrite kind_belongs_kle. unfold kle. rewrite (join_comm k). split; intros H; [rewrite H; reflexivity|].
    inversion H as [H1]. rewrite H1. exact H1.
  - split; intros H; [subst n; reflexivity|]. inversion H. reflexivity.
Qed.

Lemma dle_refl d : dle d d.
Proof. split; [apply kle_refl|auto]. Qed.
Lemma dle_trans a b c : dle a b -> dle b c -> dle a c.
Proof. intros [H1 H2] [H3 H4]. split; [eapply kle_trans; eauto|auto]. Qed.

Lemma belongs_mono x d d' : dle d d' -> belongs x d = true -> belongs x d' = true.
Proof.
  intros [Hk Hn]. destruct x as [vi|]; cbn [belongs].
  - rewrite !kind_belongs_kle. intros H. eapply kle_trans; eauto.
  - exact Hn.
Qed.

Lemma belongs_promote_self d x : belongs x (promote_with d x) = true.
Proof.
  destruct x as [vi|].
  - apply belongs_kle. apply promote_value_fits.
  - rewrite promote_none. reflexivity.
Qed.

Lemma fold_promote_dle l : forall d, dle d (fold_left promote_with l d).
Proof.
  induction l as [|x t IH]; intros d; cbn [fold_left]; [apply dle_refl|].
  eapply dle_trans; [apply promote_widens|apply IH].
Qed.

Lemma fold_promote_covers l : forall d x, In x l -> belongs x (fold_left promote_with l d) = true.
Proof.
  induction l as [|y t IH]; intros d x Hin; [contradiction|]. cbn [fold_left].
  destruct Hin as [->|Hin]; [|apply IH; exact Hin].
  eapply belongs_mono; [apply fold_promote_dle|apply belongs_promote_self].
Qed.

Lemma belongs_same_kind x d n : belongs x d = true -> (x = None -> n = true) -> belongs x (mkD (dkind d) n) = true.
Proof. destruct x as [vi|]; cbn [belongs dkind nullable]; auto. Qed.

Lemma belongs_object_null x : belongs x (mkD KObject true) = true.
Proof. destruct x; reflexivity. Qed.

(* ---- truthful, as a statement about elements -------------------------------------------------- *)

Definition eb (d : dtype) (x : elt) : Prop := belongs (el_info x) d = true.

Lemma truthful_some l d nm : truthful (mkVec l (Some d) nm) <-> Forall (eb d) l.
Proof. unfold truthful, truthful_at, infos_of. cbn [vdt vals]. rewrite Forall_map. reflexivity. Qed.

Lemma truthful_none l nm : truthful (mkVec l None nm) <-> l = [].
Proof.
  unfold truthful, truthful_at, infos_of. cbn [vdt vals]. split; intros H; [|subst; reflexivity].
  destruct l; [reflexivity|discriminate].
Qed.

Lemma truthful_elems v d : truthful v -> vdt v = Some d -> Forall (eb d) (vals v).
Proof. destruct v as [l dt nm]. cbn [vdt vals]. intros H ->. apply truthful_some in H. exact H. Qed.

Lemma truthful_untyped v : truthful v -> vdt v = None -> vals v = [].
Proof. destruct v as [l dt nm]. cbn [vdt vals]. intros H ->. apply truthful_none in H. exact H. Qed.

Lemma truthfulb_spec v : truthfulb v = true <-> truthful v.
Proof.
  destruct v as [l [d|] nm]; unfold truthfulb; cbn [vdt vals].
  - rewrite truthful_some, forallb_forall, Forall_forall. unfold infos_of, eb. split.
    + intros H x Hx. apply H. apply in_map. exact Hx.
    + intros H y Hy. apply in_map_iff in Hy. destruct Hy as [x [<- Hx]]. apply H. exact Hx.
  - rewrite truthful_none. destruct l; split; intros H; try reflexivity; discriminate.
Qed.

Lemma eb_none_nullable d l : Forall (eb d) l -> existsb el_none l = true -> nullable d = true.
Proof.
  intros HF H. apply existsb_exists in H. destruct H as [x [Hin Hx]].
  rewrite Forall_forall in HF. specialize (HF x Hin). destruct x; [discriminate|exact HF].
Qed.

(* ---- inference is truthful -------------------------------------------------------------------- *)

Lemma infer_belongs l x : In x l -> belongs x (infer_dtype l) = true.
Proof.
  intros Hin. destruct x as [vi|].
  - apply belongs_kle. apply infer_covers. exact Hin.
  - cbn [belongs]. rewrite infer_closed_form. unfold infer_spec.
    destruct (lub_kinds (kinds l)); cbn [nullable]; [|reflexivity].
    apply has_none_in. exact Hin.
Qed.

Lemma infer_Forall l : Forall (eb (infer_dtype (infos_of l))) l.
Proof. apply Forall_forall. intros x Hx. apply infer_belongs. apply in_map. exact Hx. Qed.

Theorem mk_inferred_truthful l nm : truthful (mk_inferred l nm).
Proof. apply truthful_some. apply infer_Forall. Qed.

Lemma mk_vector_truthful_gen l dt nm :
  (forall d, dt = Some d -> Forall (eb d) l) -> truthful (mk_vector l dt nm).
Proof.
  intros H. unfold mk_vector. destruct dt as [d|].
  - apply truthful_some. apply H. reflexivity.
  - destruct l as [|x t]; [apply truthful_none; reflexivity|]. apply truthful_some. apply infer_Forall.
Qed.

(* any vector typed by inference — Vector(values) — is truthful *)
Theorem infer_truthful l nm : truthful (mk_vector l None nm).
Proof. apply mk_vector_truthful_gen. discriminate. Qed.

(* the same dtype over a selection of the vector's own elements (or any elements that belong) *)
Lemma copy_new_truthful v l nm : truthful (copy_new v l nm).
Proof.
  unfold copy_new. apply mk_vector_truthful_gen. intros d' E.
  destruct (vdt v) as [d|]; [|discriminate]. cbn [option_map] in E. inversion E; subst d'.
  apply Forall_forall. intros x Hx. unfold eb. apply fold_promote_covers. unfold infos_of. apply in_map. exact Hx.
Qed.

Lemma sub_Forall d (l l' : list elt) : Forall (eb d) l -> (forall x, In x l' -> In x l) -> Forall (eb d) l'.
Proof. rewrite !Forall_forall. auto. Qed.

Lemma sub_truthful v l nm : truthful v -> (forall x, In x l -> In x (vals v)) -> truthful (mkVec l (vdt v) nm).
Proof.
  intros Hv Hs. destruct (vdt v) as [d|] eqn:E.
  - apply truthful_some. eapply sub_Forall; [apply truthful_elems; eauto|exact Hs].
  - apply truthful_none. pose proof (truthful_untyped v Hv E) as Hn. rewrite Hn in Hs.
    destruct l as [|x t]; [reflexivity|]. destruct (Hs x (or_introl eq_refl)).
Qed.

Lemma sub_truthful_mk v l nm : truthful v -> (forall x, In x l -> In x (vals v)) -> truthful (mk_vector l (vdt v) nm).
Proof.
  intros Hv Hs. apply mk_vector_truthful_gen. intros d E.
  eapply sub_Forall; [apply truthful_elems; eauto|exact Hs].
Qed.

Theorem copy_truthful v : truthful v -> truthful (copy v).
Proof. intros H. apply sub_truthful_mk; auto. Qed.

Lemma gather_In {A} (l : list A) idx : forall r, gather l idx = Some r -> forall x, In x r -> In x l.
Proof.
  induction idx as [|i t IH]; intros r H x Hx; cbn [gather] in H.
  - inversion H; subst. contradiction.
  - destruct (nth_error l i) as [y|] eqn:E; [|discriminate]. destruct (gather l t) as [r'|] eqn:E2; [|discriminate].
    inversion H; subst r. destruct Hx as [<-|Hx]; [eapply nth_error_In; eauto|eapply IH; eauto].
Qed.

(* slices, masks, index lists and index vectors keep the dtype: __getitem__ *)
Theorem getitem_truthful v k r : truthful v -> getitem v k = Ok (GVec r) -> truthful r.
Proof.
  intros Hv. rewrite getitem_closed. destruct (sel k (length (vals v))) as [[p|ps]|e]; cbn [rbind apply_sel]; try discriminate.
  - destruct (nth_error (vals v) p); discriminate.
  - destruct (gather (vals v) ps) as [l|] eqn:E; [|discriminate]. intros H. inversion H; subst r.
    apply sub_truthful; [exact Hv|]. eapply gather_In; eauto.
Qed.

(* sort_by (and any rearrangement of own elements) keeps the dtype *)
Theorem take_truthful v idx r : truthful v -> take v idx = Ok r -> truthful r.
Proof.
  unfold take. intros Hv. destruct (gather (vals v) idx) as [l|] eqn:E; [|discriminate].
  intros H. inversion H; subst r. apply sub_truthful_mk; [exact Hv|]. eapply gather_In; eauto.
Qed.

(* ---- unary operators, comparisons, isna, fallback tuples --------------------------------------- *)

Theorem unary_truthful v res : truthful v -> truthful (unary v res).
Proof.
  intros Hv. unfold unary. destruct res as [|x t].
  - apply (sub_truthful v [] (vname v) Hv). intros x [].
  - apply truthful_some. apply infer_Forall.
Qed.

Lemma bool_elt_eb b n : eb (mkD KBool n) (bool_elt b).
Proof. reflexivity. Qed.

Theorem invert_truthful v res : truthful v -> truthful (invert v res).
Proof.
  intros Hv. unfold invert. destruct (vdt v) as [d|] eqn:E; [|apply unary_truthful; exact Hv].
  destruct (kind_eqb (dkind d) KBool) eqn:Ek; [|apply unary_truthful; exact Hv].
  apply kind_eqb_eq in Ek. apply truthful_some. apply Forall_forall. intros y Hy.
  apply in_map_iff in Hy. destruct Hy as [x [<- _]]. destruct d as [k n]. cbn [dkind] in Ek. subst k.
  apply bool_elt_eb.
Qed.

Theorem bools_truthful bs : truthful (bools bs).
Proof.
  apply truthful_some. apply Forall_forall. intros y Hy. apply in_map_iff in Hy.
  destruct Hy as [b [<- _]]. apply bool_elt_eb.
Qed.

Theorem isna_truthful v : truthful (isna v).
Proof. apply bools_truthful. Qed.

Theorem fallback_truthful n : truthful (fallback n).
Proof.
  apply truthful_some. apply Forall_forall. intros y Hy. apply repeat_spec in Hy. subst y. reflexivity.
Qed.

Theorem dropna_truthful v : truthful v -> truthful (dropna v).
Proof.
  intros Hv. unfold dropna. apply mk_vector_truthful_gen. intros d' E.
  destruct (vdt v) as [d|] eqn:Ed; [|discriminate]. cbn [option_map] in E. inversion E; subst d'. clear E.
  pose proof (truthful_elems v d Hv Ed) as HF. rewrite Forall_forall in HF.
  apply Forall_forall. intros x Hx. apply filter_In in Hx. destruct Hx as [Hin Hnn].
  unfold eb. apply belongs_same_kind; [apply HF; exact Hin|].
  intros Hnone. destruct x; [discriminate|discriminate].
Qed.

(* ---- concatenation --------------------------------------------------------------------------- *)

Theorem concat_truthful v extra : truthful v -> truthful (concat v extra).
Proof.
  intros Hv. unfold concat. apply mk_vector_truthful_gen. intros d' E.
  destruct (vdt v) as [d|] eqn:Ed; [|discriminate]. cbn [option_map] in E. inversion E; subst d'. clear E.
  apply Forall_app. split.
  - eapply Forall_impl; [|apply (truthful_elems v d Hv Ed)]. intros x Hx. unfold eb in *.
    eapply belongs_mono; [apply fold_promote_dle|exact Hx].
  - apply Forall_forall. intros x Hx. unfold eb. apply fold_promote_covers. unfold infos_of. apply in_map. exact Hx.
Qed.

(* v << anything: a truthful left operand gives a truthful result, whatever is appended *)
Theorem lshift_truthful v o r : truthful v -> lshift v o = Ok r -> truthful r.
Proof.
  intros Hv. destruct o as [w|cs|l|x]; cbn [lshift].
  - destruct (vdt v) as [d|], (vdt w) as [dw|];
      try (intros H; inversion H; subst r; apply concat_truthful; exact Hv).
    destruct (negb (nullable d) && negb (nullable dw) && negb (kind_eqb (dkind d) (dkind dw))); [discriminate|].
    intros H; inversion H; subst r; apply concat_truthful; exact Hv.
  - intros H; inversion H; subst r; apply concat_truthful; exact Hv.
  - intros H; inversion H; subst r; apply concat_truthful; exact Hv.
  - intros H; inversion H; subst r; apply concat_truthful; exact Hv.
Qed.

(* ---- column stacking -------------------------------------------------------------------------- *)

Definition operand_truthful (o : operand) : Prop :=
  match o with OVec w => truthful w | OTab cs => Forall truthful cs | _ => True end.
Definition rresult_truthful (r : rresult) : Prop :=
  match r with RTable cs => Forall truthful cs | RVec v => truthful v end.

Lemma map_copy_truthful cs : Forall truthful cs -> Forall truthful (map copy cs).
Proof. intros H. apply Forall_map. eapply Forall_impl; [|exact H]. apply copy_truthful. Qed.

Lemma vov_truthful cs dt : Forall truthful cs -> (same_lengths cs = false -> dt = None) ->
  rresult_truthful (vector_of_vectors cs dt).
Proof.
  intros Hc Hd. unfold vector_of_vectors. destruct (same_lengths cs); cbn [rresult_truthful].
  - apply map_copy_truthful. exact Hc.
  - rewrite (Hd eq_refl). apply infer_truthful.
Qed.

(* v >> other: the columns of the resulting table (or, for ragged operands, the vector of vectors,
   typed by inference) are truthful *)
Theorem rshift_truthful v o r :
  truthful v -> operand_truthful o -> rshift v o = Ok r -> rresult_truthful r.
Proof.
  intros Hv Ho H. unfold rshift in H. destruct (vdt v) as [d|]; [|discriminate].
  destruct o as [w|cs|l|x]; cbn [operand_truthful] in Ho.
  - assert (HR : rresult_truthful (vector_of_vectors [v; w] None)).
    { apply vov_truthful; [repeat constructor; assumption|reflexivity]. }
    destruct (nullable d); [inversion H; subst r; exact HR|].
    destruct (vdt w) as [dw|]; [|discriminate].
    destruct (negb (nullable dw) && negb (kind_eqb (dkind d) (dkind dw))); [discriminate|].
    inversion H; subst r; exact HR.
  - destruct (negb (nullable d)); [discriminate|]. inversion H; subst r.
    apply vov_truthful; [constructor; assumption|reflexivity].
  - inversion H; subst r. apply vov_truthful; [|reflexivity].
    repeat constructor; [exact Hv|apply infer_truthful].
  - discriminate.
Qed.

(* ---- cast -------------------------------------------------------------------------------------- *)

Lemma vec_class_is_vec dt : is_vec_class (vec_class dt) = true.
Proof. destruct dt as [[k n]|]; [destruct k|]; reflexivity. Qed.

(* cast(target): the declared dtype (target, "some result is None") is honoured by the results —
   by the interceptors for date / datetime, by `target_type(x)` otherwise; a callable target, and a
   vector some of whose elements are Vectors (cast recursively), is typed by inference *)
Theorem cast_truthful t res v : truthful (cast t res v).
Proof.
  unfold cast. destruct (target_kind t) as [k|] eqn:Et; [|apply truthful_some; apply infer_Forall].
  destruct (existsb is_vec_elt (map (cast_elem t) (vals v))) eqn:Ev; [apply truthful_some; apply infer_Forall|].
  apply truthful_some. apply Forall_forall. intros y Hy. unfold eb.
  destruct y as [[wi q]|] eqn:Ey.
  - assert (Hnv : is_vec_class (base wi) = false).
    { destruct (is_vec_class (base wi)) eqn:E; [|reflexivity].
      assert (existsb is_vec_elt (map (cast_elem t) (vals v)) = true)
        by (apply existsb_exists; exists (Some (wi, q)); split; [exact Hy|exact E]). congruence. }
    apply in_map_iff in Hy. destruct Hy as [x [Hx Hin]]. destruct x as [[vi p]|]; cbn [cast_elem] in Hx; [|discriminate].
    inversion Hx; subst wi q. cbn [el_info option_map fst belongs dkind].
    unfold cast_class in *. destruct (is_vec_class (base vi)) eqn:Ei.
    + cbn [base] in Hnv. rewrite vec_class_is_vec in Hnv. discriminate.
    + destruct t; cbn [target_kind] in Et; inversion Et; subst k.
      * destruct (kind_eqb (base vi) KDateTime); [reflexivity|].
        destruct (kind_eqb (base vi) KDate) eqn:E2; [apply kind_eqb_eq in E2; rewrite E2; reflexivity|reflexivity].
      * destruct (kind_eqb (base vi) KDateTime) eqn:E2; [apply kind_eqb_eq in E2; rewrite E2; reflexivity|reflexivity].
      * apply kind_belongs_refl.
  - cbn [el_info option_map belongs nullable]. apply existsb_exists. exists None. split; [exact Hy|reflexivity].
Qed.

(* ---- to_object, new ---------------------------------------------------------------------------- *)

Theorem to_object_truthful v : truthful (to_object v).
Proof.
  apply truthful_some. apply Forall_forall. intros x Hx. unfold eb.
  destruct x as [[vi p]|]; [reflexivity|].
  cbn [el_info option_map belongs nullable]. apply existsb_exists. exists None. auto.
Qed.

Theorem new_truthful x n ts r : vector_new x n ts = Ok r -> truthful r.
Proof.
  unfold vector_new. destruct n as [|n].
  - destruct ts; [discriminate|]. intros H; inversion H; subst r. apply truthful_some. constructor.
  - intros H; inversion H; subst r. clear H. apply truthful_some. apply Forall_forall. intros y Hy.
    apply (repeat_spec (S n)) in Hy. subst y. unfold eb.
    destruct x as [[vi p]|]; cbn [el_info option_map fst el_none negb andb].
    + destruct ts; cbn; apply kind_belongs_refl.
    + rewrite andb_false_r. reflexivity.
Qed.

(* ---- row views, table construction, transposition ----------------------------------------------- *)

Lemma row_vals_elems cs r : forall l, row_vals cs r = Some l ->
  forall x, In x l -> exists c, In c cs /\ In x (vals c).
Proof.
  induction cs as [|c t IH]; intros l H x Hx; cbn [row_vals fold_right] in H.
  - inversion H; subst. contradiction.
  - fold (row_vals t r) in H. destruct (nth_error (vals c) r) as [y|] eqn:E; [|discriminate].
    destruct (row_vals t r) as [l'|] eqn:E2; [|discriminate]. inversion H; subst l.
    destruct Hx as [<-|Hx].
    + exists c. split; [left; reflexivity|eapply nth_error_In; eauto].
    + destruct (IH l' eq_refl x Hx) as [c' [Hc Hin]]. exists c'. split; [right; exact Hc|exact Hin].
Qed.

Lemma row_dtype_covers cs c x : In c cs -> truthful c -> In x (vals c) -> eb (row_dtype cs) x.
Proof.
  intros Hc Hv Hx. unfold row_dtype. destruct cs as [|c0 t]; [contradiction|].
  set (ds := map col_dtype (c0 :: t)).
  destruct (forallb (fun d => kind_eqb (dkind d) (dkind (col_dtype c0))) ds) eqn:E; [|apply belongs_object_null].
  destruct (vdt c) as [d|] eqn:Ed.
  - pose proof (truthful_elems c d Hv Ed) as HF. rewrite Forall_forall in HF. specialize (HF x Hx).
    assert (Hcd : col_dtype c = d) by (unfold col_dtype; rewrite Ed; reflexivity).
    assert (Hin : In d ds) by (rewrite <- Hcd; apply in_map; exact Hc).
    rewrite forallb_forall in E. specialize (E d Hin). apply kind_eqb_eq in E. rewrite <- E.
    unfold eb in *. apply belongs_same_kind; [exact HF|]. intros Hn. rewrite Hn in HF. cbn [belongs] in HF.
    apply existsb_exists. exists d. auto.
  - rewrite (truthful_untyped c Hv Ed) in Hx. contradiction.
Qed.

(* a row view of a table with truthful columns is truthful *)
Theorem row_truthful cs r v : Forall truthful cs -> row_view cs r = Ok v -> truthful v.
Proof.
  intros Hc. unfold row_view. destruct (row_vals cs r) as [l|] eqn:E; [|discriminate].
  intros H; inversion H; subst v. apply truthful_some. apply Forall_forall. intros x Hx.
  destruct (row_vals_elems cs r l E x Hx) as [c [Hin Hxc]].
  eapply row_dtype_covers; eauto. rewrite Forall_forall in Hc. apply Hc. exact Hin.
Qed.

Theorem table_of_truthful cs r : Forall truthful cs -> table_of cs = Ok r -> Forall truthful r.
Proof.
  intros Hc. unfold table_of. destruct cs as [|c t]; [intros H; inversion H; constructor|].
  destruct (same_lengths (c :: t)); [|discriminate]. intros H; inversion H. apply (map_copy_truthful (c :: t)). exact Hc.
Qed.

Lemma map_res_Forall {A B} (f : A -> res B) (P : B -> Prop) :
  (forall x y, f x = Ok y -> P y) -> forall l r, map_res f l = Ok r -> Forall P r.
Proof.
  intros Hf. induction l as [|x t IH]; intros r H; cbn [map_res] in H.
  - inversion H. constructor.
  - destruct (f x) as [y|] eqn:E; [|discriminate]. destruct (map_res f t) as [r'|]; [|discriminate].
    inversion H. constructor; [eapply Hf; eauto|apply IH; reflexivity].
Qed.

Theorem table_T_truthful cs r : table_T cs = Ok r -> Forall truthful r.
Proof.
  unfold table_T. apply map_res_Forall. intros i y H.
  destruct (row_vals cs i); [|discriminate]. inversion H. apply infer_truthful.
Qed.

(* ---- validate_scalar vs belongs ----------------------------------------------------------------- *)

(* validate_scalar accepts only what belongs ... *)
Theorem validate_belongs x d : validate_scalar x d = true -> belongs x d = true.
Proof.
  destruct x as [[b e]|]; cbn [validate_scalar belongs base exact]; [|auto].
  destruct d as [k n]. cbn [dkind].
  destruct (e && kind_eqb b k || kind_eqb k KObject) eqn:E.
  - intros _. apply orb_true_iff in E. destruct E as [E|E].
    + apply andb_true_iff in E. destruct E as [_ E]. apply kind_eqb_eq in E. subst. apply kind_belongs_refl.
    + apply kind_eqb_eq in E. subst. reflexivity.
  - destruct e; cbn [negb]; [|discriminate]. destruct k, b; try discriminate; reflexivity.
Qed.

(* ... and, for instances of the classes themselves (not of subclasses), everything that belongs *)
Theorem belongs_validate_exact x d :
  (forall vi, x = Some vi -> exact vi = true) -> belongs x d = true -> validate_scalar x d = true.
Proof.
  destruct x as [[b e]|]; cbn [validate_scalar belongs base exact]; [|auto].
  intros He. pose proof (He _ eq_refl) as He1. cbn [exact] in He1. subst e. destruct d as [k n]. cbn [dkind andb negb].
  intros H. destruct (kind_eqb b k || kind_eqb k KObject) eqn:E; [reflexivity|].
  apply orb_false_iff in E. destruct E as [E1 E2].
  destruct k, b; cbn in *; try discriminate; try reflexivity; congruence.
Qed.

(* ---- operations that convert: _promote, __setitem__, fillna -------------------------------------- *)

Lemma set_nth_In {A} (l : list A) : forall p x y, In y (set_nth l p x) -> y = x \/ In y l.
Proof.
  induction l as [|h t IH]; intros [|p] x y H; cbn [set_nth] in H; try contradiction.
  - destruct H as [<-|H]; [left; reflexivity|right; right; exact H].
  - destruct H as [<-|H]; [right; left; reflexivity|]. destruct (IH p x y H); [left; assumption|right; right; assumption].
Qed.

Lemma py_assign_In {A} ups : forall (l : list A) y, In y (py_assign l ups) -> In y l \/ In y (map snd ups).
Proof.
  unfold py_assign. induction ups as [|[p x] t IH]; intros l y H; cbn [fold_left fst snd map] in *; [left; exact H|].
  destruct (IH _ _ H) as [H1|H1].
  - destruct (set_nth_In _ _ _ _ H1) as [->|H2]; [right; left; reflexivity|left; exact H2].
  - right. right. exact H1.
Qed.

Lemma norm_index_of_nat n i : i < n -> norm_index n (Z.of_nat i) = Some i.
Proof.
  intros H. unfold norm_index.
  destruct (Z.of_nat i <? 0)%Z eqn:E1; [apply Z.ltb_lt in E1; lia|].
  rewrite E1. destruct (Z.of_nat n <=? Z.of_nat i)%Z eqn:E2; [apply Z.leb_le in E2; lia|].
  cbn [orb]. rewrite Nat2Z.id. reflexivity.
Qed.

Lemma of_to_state v : of_state (to_state v) = v.
Proof. destruct v; reflexivity. Qed.

Definition value_self (x : value) : elt := match x with VScalar y => y | VSeq self _ _ _ => self end.

Section WithConv.
Variable conv : kind -> elt -> option elt.
(* int(x), float(x), complex(x), datetime.combine(x, ...) return an instance of exactly that class *)
Definition conv_ok : Prop := forall k x y, conv k x = Some y -> exists p, y = Some (mkV k true, p).
Hypothesis Hconv : conv_ok.

Lemma convert_all_belongs k l : forall r dn, convert_all conv k l = Some r ->
  (existsb el_none l = true -> dn = true) -> Forall (eb (mkD k dn)) r.
Proof.
  induction l as [|x t IH]; intros r dn H Hn; cbn [convert_all] in H; [inversion H; constructor|].
  destruct (match x with None => Some None | Some _ => conv k x end) as [y|] eqn:E; [|discriminate].
  destruct (convert_all conv k t) as [r'|] eqn:E2; [|discriminate]. inversion H; subst r. constructor.
  - destruct x as [a|].
    + destruct (Hconv _ _ _ E) as [p ->]. unfold eb. cbn. apply kind_belongs_refl.
    + inversion E; subst y. unfold eb. cbn. apply Hn. reflexivity.
  - apply IH; [reflexivity|]. intros H2. apply Hn. cbn [existsb]. rewrite H2. apply orb_true_r.
Qed.

Lemma state_truthful s : truthful (of_state s) <->
  match s_dt s with Some d => Forall (eb d) (s_vals s) | None => s_vals s = [] end.
Proof. unfold of_state. destruct (s_dt s); [apply truthful_some|apply truthful_none]. Qed.

(* _promote(kind): converts the elements and renames the dtype together — or changes nothing *)
Theorem promote_state_truthful t s s' r : truthful (of_state s) -> promote conv t s = (s', r) -> truthful (of_state s').
Proof.
  intros Hs H. destruct r as [u|e]; [|apply promote_err in H; subst; exact Hs].
  apply promote_ok in H. destruct H as [d [Hd [[_ ->]|[_ [_ [l [Hl ->]]]]]]]; [exact Hs|].
  apply state_truthful. cbn [s_dt s_vals]. apply state_truthful in Hs. rewrite Hd in Hs.
  eapply convert_all_belongs; [exact Hl|]. apply eb_none_nullable. exact Hs.
Qed.

Theorem promote_truthful k v v' r : truthful v -> t_promote conv k v = (v', r) -> truthful v'.
Proof.
  unfold t_promote. destruct (promote conv k (to_state v)) as [s rr] eqn:E. intros Hv H. inversion H; subst.
  eapply promote_state_truthful; [|exact E]. rewrite of_to_state. exact Hv.
Qed.

Lemma setitem_dt_none k v s s' u : setitem conv k v s = (s', Ok u) -> s_dt s = None -> s_dt s' = None.
Proof.
  unfold setitem. unfold bind at 1. unfold get at 1.
  destruct (s_shared s && negb (is_nil (s_vals s))); [discriminate|].
  unfold bind at 1. unfold lift.
  destruct (build_updates (length (s_vals s)) k v) as [ups|e']; [|discriminate].
  intros H Hd. unfold bind at 1 in H. unfold type_phase in H. rewrite Hd in H.
  assert (Hr : (match ups with [] => ret tt | _ :: _ => ret tt end : M vstate unit) s = (s, Ok tt))
    by (destruct ups; reflexivity).
  replace (match ups with [] => ret tt | _ :: _ => ret tt end s) with (s, @Ok unit tt) in H by (destruct ups; reflexivity).
  unfold commit, bind, get, put, make_nullable in H. rewrite Hd in H. inversion H. reflexivity.
Qed.

Lemma setitem_ok_detail k v s s' u d : setitem conv k v s = (s', Ok u) -> s_dt s = Some d ->
  exists ups base,
    (base = s_vals s \/
     convert_all conv (dkind (fold_left promote_with (infos (map snd ups)) d)) (s_vals s) = Some base) /\
    s_vals s' = py_assign base ups /\
    s_dt s' = Some (fold_left promote_with (infos (map snd ups)) d).
Proof.
  intros H Hd. pose proof H as H0. unfold setitem in H. unfold bind at 1 in H. unfold get at 1 in H.
  destruct (s_shared s && negb (is_nil (s_vals s))); [discriminate|].
  unfold bind at 1 in H. unfold lift in H.
  destruct (build_updates (length (s_vals s)) k v) as [ups|e'] eqn:Hu; [|discriminate].
  pose proof (setitem_dtype conv k v s s' u d ups H0 Hd Hu) as HF.
  unfold bind at 1 in H. destruct (type_phase conv s ups s) as [s1 [u1|e1]] eqn:E; [|discriminate].
  unfold commit, bind, get, put in H. inversion H; subst s'. clear H. cbn [s_vals] in *.
  exists ups, (s_vals s1). split; [|split; [reflexivity|exact HF]].
  set (F := fold_left promote_with (infos (map snd ups)) d) in *.
  unfold type_phase in E. rewrite Hd in E. destruct ups as [|u0 t]; [inversion E; subst; left; reflexivity|].
  destruct (kind_eqb (dkind d) KObject); [inversion E; subst; left; reflexivity|].
  unfold bind, lift in E. destruct (fold_required d (map snd (u0 :: t))) as [req|] eqn:Er; [|discriminate].
  apply fold_required_ok in Er. fold F in Er. subst req.
  destruct (kind_eqb (dkind F) (dkind d)); [inversion E; subst; left; reflexivity|].
  apply promote_ok in E. destruct E as [d' [_ [[_ ->]|[_ [_ [l [Hl ->]]]]]]]; [left; reflexivity|].
  right. exact Hl.
Qed.

(* v[k] = x : whatever the key and the value, and whether it succeeds or raises, a truthful vector
   stays truthful (promotion converts the old elements, None makes the dtype nullable) *)
Theorem setitem_state_truthful k x s s' r :
  truthful (of_state s) -> setitem conv k x s = (s', r) -> truthful (of_state s').
Proof.
  intros Hs H. destruct r as [u|e]; [|apply setitem_atomic in H; subst; exact Hs].
  apply state_truthful. apply state_truthful in Hs. destruct (s_dt s) as [d|] eqn:Hd.
  - destruct (setitem_ok_detail _ _ _ _ _ _ H Hd) as [ups [bs [Hb [Hv HF]]]].
    rewrite HF, Hv. set (F := fold_left promote_with (infos (map snd ups)) d) in *.
    assert (HB : Forall (eb F) bs).
    { destruct Hb as [->|Hc].
      - eapply Forall_impl; [|exact Hs]. intros y Hy. unfold eb in *.
        eapply belongs_mono; [apply fold_promote_dle|exact Hy].
      - assert (HFd : F = mkD (dkind F) (nullable F)) by (destruct F; reflexivity). rewrite HFd.
        eapply convert_all_belongs; [exact Hc|]. intros Hn.
        pose proof (eb_none_nullable d _ Hs Hn) as Hnd.
        pose proof (fold_promote_dle (infos (map snd ups)) d) as [_ Hm]. apply Hm. exact Hnd. }
    apply Forall_forall. intros y Hy. destruct (py_assign_In _ _ _ Hy) as [H1|H1].
    + rewrite Forall_forall in HB. apply HB. exact H1.
    + unfold eb. apply fold_promote_covers. unfold infos. apply in_map. exact H1.
  - rewrite (setitem_dt_none _ _ _ _ _ H Hd).
    destruct (setitem_ok _ _ _ _ _ _ H) as [ups [bs [_ [_ [_ [Hl _]]]]]].
    rewrite Hs in Hl. destruct (s_vals s'); [reflexivity|discriminate].
Qed.

Theorem setitem_truthful k x v v' r : truthful v -> t_setitem conv k x v = (v', r) -> truthful v'.
Proof.
  unfold t_setitem. destruct (setitem conv k x (to_state v)) as [s rr] eqn:E. intros Hv H. inversion H; subst.
  eapply setitem_state_truthful; [|exact E]. rewrite of_to_state. exact Hv.
Qed.

(* WRITE-BACK: storing an element of a truthful vector back into its own position is accepted and
   changes nothing — not the dtype, not the values *)
Theorem writeback v i x val : truthful v -> nth_error (vals v) i = Some x -> value_self val = x ->
  t_setitem conv (SKInt (Z.of_nat i)) val v = (v, Ok tt).
Proof.
  intros Hv Hx Hval. destruct v as [l dt nm]. cbn [vals] in Hx.
  assert (Hi : i < length l) by (apply nth_error_Some; congruence).
  unfold t_setitem, setitem, to_state. unfold bind at 1. unfold get at 1. cbn [s_shared s_vals andb].
  cbn [vals vdt vname]. unfold bind at 1. unfold lift. unfold build_updates. rewrite (norm_index_of_nat _ _ Hi).
  replace (match val with VScalar x0 => x0 | VSeq self _ _ _ => self end) with x by (destruct val; exact (eq_sym Hval)).
  destruct dt as [d|]; [|apply truthful_none in Hv; subst l; destruct i; discriminate].
  apply truthful_some in Hv. rewrite Forall_forall in Hv. pose proof (Hv x (nth_error_In _ _ Hx)) as Hb.
  unfold eb in Hb. pose proof (proj1 (belongs_promote_fix _ _) Hb) as Hp.
  assert (Hmn : negb (nullable d) && existsb el_none [x] = false).
  { destruct x as [a|]; cbn [existsb el_none orb]; [apply andb_false_r|]. cbn [el_info option_map belongs] in Hb.
    rewrite Hb. reflexivity. }
  assert (Hassign : py_assign l [(i, x)] = l) by (unfold py_assign; cbn [fold_left fst snd]; apply set_nth_same; exact Hx).
  unfold bind at 1. unfold type_phase. cbn [s_dt map snd].
  destruct (kind_eqb (dkind d) KObject) eqn:Eo.
  - unfold ret, commit, bind, get, put, make_nullable. cbn [s_dt s_vals s_name map snd]. rewrite Hmn, Hassign. reflexivity.
  - unfold bind, lift. cbn [fold_required]. rewrite Hp, Eo, kind_eqb_refl.
    unfold ret, commit, bind, get, put, make_nullable. cbn [s_dt s_vals s_name map snd]. rewrite Hmn, Hassign. reflexivity.
Qed.

(* ... and conversely: if every element can be written back without the dtype moving, the vector
   was truthful ("equivalently" in the property text) *)
Theorem writeback_converse v d : vdt v = Some d ->
  (forall i x, nth_error (vals v) i = Some x ->
     exists v', t_setitem conv (SKInt (Z.of_nat i)) (VScalar x) v = (v', Ok tt) /\ vdt v' = Some d) ->
  truthful v.
Proof.
  intros Hd H. destruct v as [l dt nm]. cbn [vdt vals] in *. subst dt. apply truthful_some.
  apply Forall_forall. intros x Hin. destruct (In_nth_error _ _ Hin) as [i Hi].
  destruct (H i x Hi) as [v' [Hs Hd']]. unfold t_setitem in Hs.
  destruct (setitem conv (SKInt (Z.of_nat i)) (VScalar x) (to_state (mkVec l (Some d) nm))) as [s r] eqn:E.
  inversion Hs; subst v' r. clear Hs.
  assert (Hlt : i < length l) by (apply nth_error_Some; congruence).
  assert (Hu : build_updates (length (s_vals (to_state (mkVec l (Some d) nm)))) (SKInt (Z.of_nat i)) (VScalar x) = Ok [(i, x)]).
  { cbn [to_state s_vals vals build_updates]. rewrite (norm_index_of_nat _ _ Hlt). reflexivity. }
  pose proof (setitem_dtype conv _ _ _ _ _ d _ E eq_refl Hu) as HF. cbn [map snd infos fold_left] in HF.
  unfold of_state in Hd'. cbn [vdt] in Hd'. rewrite HF in Hd'. injection Hd' as Hfix.
  unfold eb. apply belongs_promote_fix. exact Hfix.
Qed.

(* ---- fillna ---------------------------------------------------------------------------------- *)

Lemma fill_standard_truthful value v :
  truthful v -> (forall d, vdt v = Some d -> value = None \/ eb d value) ->
  truthful (mk_vector (fill value (vals v))
              (option_map (fun d => mkD (dkind d) (existsb el_none (fill value (vals v)))) (vdt v)) (vname v)).
Proof.
  intros Hv Hval. apply mk_vector_truthful_gen. intros d' E.
  destruct (vdt v) as [d|] eqn:Ed; [|discriminate]. cbn [option_map] in E. inversion E; subst d'. clear E.
  pose proof (truthful_elems v d Hv Ed) as HF. rewrite Forall_forall in HF.
  apply Forall_forall. intros y Hy. unfold eb.
  destruct y as [a|].
  - unfold fill in Hy. apply in_map_iff in Hy. destruct Hy as [x [Hx Hin]].
    apply belongs_same_kind; [|discriminate]. destruct x as [b|].
    + inversion Hx; subst b. apply HF. exact Hin.
    + destruct (Hval d eq_refl) as [Hn|He]; [congruence|]. rewrite <- Hx. exact He.
  - cbn [el_info option_map belongs nullable]. apply existsb_exists. exists None. split; [exact Hy|reflexivity].
Qed.

(* fillna: on the ordinary path the fill value is one validate_scalar accepts (so it belongs), and the
   nullable flag is recomputed from the result; on the promotion path the vector is promoted to the
   value's kind first *)
Theorem fillna_truthful value v r : truthful v -> fillna conv value v = Ok r -> truthful r.
Proof.
  intros Hv. unfold fillna. cbv zeta.
  match goal with |- context [Ok (mk_vector ?a ?b ?c)] => set (std := Ok (mk_vector a b c)) end.
  assert (Hstd : (forall d, vdt v = Some d -> value = None \/ eb d value) -> std = Ok r -> truthful r).
  { intros Hc H. inversion H. apply fill_standard_truthful; assumption. }
  clearbody std.
  destruct (vdt v) as [d|] eqn:Ed; [|apply Hstd; discriminate].
  destruct value as [a|]; [|apply Hstd; intros; left; reflexivity].
  destruct (validate_scalar (el_info (Some a)) d) eqn:Ev.
  - apply Hstd. intros d' E. right. inversion E; subst d'. unfold eb. apply validate_belongs. exact Ev.
  - clear Hstd std. destruct a as [vi p]. cbn [el_info option_map fst].
    set (req := infer_dtype [Some vi]). assert (Hreq : dkind req = base vi) by reflexivity.
    destruct (promote conv (dkind req) (to_state (copy v))) as [s' [u|e]] eqn:Ep.
    + intros H. change (infer_dtype [Some vi]) with req in H. rewrite Ep in H. injection H as <-. apply mk_vector_truthful_gen. intros d' E. inversion E; subst d'. clear E.
      assert (Hs : truthful (of_state s')).
      { eapply promote_state_truthful; [|exact Ep]. rewrite of_to_state. apply copy_truthful. exact Hv. }
      assert (Hk : exists d2, s_dt s' = Some d2 /\ dkind d2 = dkind req).
      { apply promote_ok in Ep. destruct Ep as [d2 [Hd2 [[Hk ->]|[_ [_ [l [_ ->]]]]]]].
        - exists d2. split; [exact Hd2|exact Hk].
        - eexists. split; [reflexivity|reflexivity]. }
      destruct Hk as [d2 [Hd2 Hk2]]. apply state_truthful in Hs. rewrite Hd2 in Hs. rewrite Forall_forall in Hs.
      apply Forall_forall. intros y Hy. unfold fill in Hy. apply in_map_iff in Hy. destruct Hy as [x [Hx Hin]].
      unfold eb. destruct x as [b|].
      * subst y. specialize (Hs _ Hin). unfold eb in Hs.
        pose proof (belongs_same_kind _ d2 false Hs) as Hg. rewrite Hk2 in Hg. apply Hg. discriminate.
      * subst y. cbn [el_info option_map fst belongs dkind]. exact (kind_belongs_refl (base vi)).
    + intros H. change (infer_dtype [Some vi]) with req in H. rewrite Ep in H. destruct e; discriminate.
Qed.

(* ---- programs --------------------------------------------------------------------------------- *)

Lemma Forall_set_nth {A} (P : A -> Prop) l : forall p x, Forall P l -> P x -> Forall P (set_nth l p x).
Proof.
  induction l as [|h t IH]; intros [|p] x Hl Hx; cbn [set_nth]; try exact Hl.
  - inversion Hl; subst. constructor; assumption.
  - inversion Hl; subst. constructor; [assumption|apply IH; assumption].
Qed.

Lemma Forall_nth_error {A} (P : A -> Prop) l i x : Forall P l -> nth_error l i = Some x -> P x.
Proof. intros H E. rewrite Forall_forall in H. apply H. eapply nth_error_In; eauto. Qed.

Lemma get_all_Forall (P : tvec -> Prop) h js : forall cs, Forall P h -> get_all h js = Some cs -> Forall P cs.
Proof.
  induction js as [|j t IH]; intros cs Hh H; cbn [get_all fold_right] in H.
  - inversion H. constructor.
  - fold (get_all h t) in H. destruct (nth_error h j) as [v|] eqn:E; [|discriminate].
    destruct (get_all h t) as [cs'|] eqn:E2; [|discriminate]. inversion H; subst cs.
    constructor; [eapply Forall_nth_error; eauto|apply IH; auto].
Qed.

Lemma push_ok h v : Forall truthful h -> truthful v -> Forall truthful (fst (push h v)).
Proof. intros Hh Hv. cbn. apply Forall_app. split; [exact Hh|constructor; [exact Hv|constructor]]. Qed.
Lemma pushes_ok h vs : Forall truthful h -> Forall truthful vs -> Forall truthful (fst (pushes h vs)).
Proof. intros Hh Hv. cbn. apply Forall_app. split; assumption. Qed.
Lemma push_res_ok h r : Forall truthful h -> (forall v, r = Ok v -> truthful v) -> Forall truthful (fst (push_res h r)).
Proof. intros Hh Hr. destruct r as [v|e]; cbn [push_res]; [apply push_ok; auto|exact Hh]. Qed.

Lemma resolve_truthful h o w : Forall truthful h -> resolve h o = Some w -> operand_truthful w.
Proof.
  intros Hh H. destruct o as [j|js|l|x]; cbn [resolve] in H.
  - destruct (nth_error h j) as [w'|] eqn:Ej; [|discriminate]. inversion H. cbn. eapply Forall_nth_error; eauto.
  - destruct (get_all h js) as [cs|] eqn:Eg; [|discriminate].
    destruct (table_of cs) as [cs'|e] eqn:Et; [|discriminate]. inversion H. cbn.
    eapply table_of_truthful; [|exact Et]. eapply get_all_Forall; eauto.
  - inversion H. exact I.
  - inversion H. exact I.
Qed.

(* one operation of the alphabet, applied to a heap of truthful vectors, leaves a heap of truthful
   vectors (results are appended, __setitem__ / _promote mutate in place) *)
Theorem step_truthful h o : Forall truthful h -> Forall truthful (fst (step conv h o)).
Proof.
  intros Hh.
  destruct o; cbn [step]; unfold with1;
    try (destruct (nth_error h i) as [v|] eqn:Ei; [|exact Hh];
         pose proof (Forall_nth_error _ _ _ _ Hh Ei) as Hv).
  - apply push_ok; [exact Hh|apply infer_truthful].
  - apply push_ok; [exact Hh|apply mk_inferred_truthful].
  - apply push_ok; [exact Hh|apply fallback_truthful].
  - apply push_res_ok; [exact Hh|]. intros v Hv. eapply new_truthful; exact Hv.
  - apply push_ok; [exact Hh|apply unary_truthful; exact Hv].
  - apply push_ok; [exact Hh|apply invert_truthful; exact Hv].
  - destruct (t_setitem conv k x v) as [v' r] eqn:E. cbn [fst].
    apply Forall_set_nth; [exact Hh|eapply setitem_truthful; eauto].
  - destruct (t_promote conv k v) as [v' r] eqn:E. cbn [fst].
    apply Forall_set_nth; [exact Hh|eapply promote_truthful; eauto].
  - destruct (resolve h o) as [w|]; [|exact Hh]. apply push_res_ok; [exact Hh|].
    intros r Hr. eapply lshift_truthful; eauto.
  - destruct (resolve h o) as [w|] eqn:Er; [|exact Hh].
    assert (Hw : operand_truthful w) by (eapply resolve_truthful; eauto).
    destruct (rshift v w) as [[cs|r]|e] eqn:E; [| |exact Hh].
    + apply pushes_ok; [exact Hh|]. change (rresult_truthful (RTable cs)). eapply rshift_truthful; eauto.
    + apply push_ok; [exact Hh|]. change (rresult_truthful (RVec r)). eapply rshift_truthful; eauto.
  - apply push_ok; [exact Hh|]. apply cast_truthful.
  - apply push_res_ok; [exact Hh|]. intros r Hr. eapply fillna_truthful; eauto.
  - apply push_ok; [exact Hh|apply dropna_truthful; exact Hv].
  - apply push_ok; [exact Hh|apply isna_truthful].
  - apply push_ok; [exact Hh|apply bools_truthful].
  - destruct (getitem v k) as [[x|r]|e] eqn:E; try exact Hh.
    apply push_ok; [exact Hh|apply copy_new_truthful].
  - apply push_res_ok; [exact Hh|]. intros r Hr. eapply take_truthful; eauto.
  - apply push_ok; [exact Hh|]. destruct new as [l|]; [apply copy_new_truthful|apply copy_truthful; exact Hv].
  - apply push_ok; [exact Hh|]. apply to_object_truthful.
  - apply push_ok; [exact Hh|apply copy_truthful; exact Hv].
  - destruct (get_all h js) as [cs|] eqn:Eg; [|exact Hh].
    destruct (table_of cs) as [r|e] eqn:E; [|exact Hh].
    apply pushes_ok; [exact Hh|]. eapply table_of_truthful; [|exact E]. eapply get_all_Forall; eauto.
  - destruct (get_all h js) as [cs|] eqn:Eg; [|exact Hh].
    destruct (table_of cs) as [cs'|e] eqn:Et; [|exact Hh].
    apply push_res_ok; [exact Hh|]. intros v Hv. eapply row_truthful; [|exact Hv].
    eapply table_of_truthful; [|exact Et]. eapply get_all_Forall; eauto.
  - destruct (get_all h js) as [cs|] eqn:Eg; [|exact Hh].
    destruct (table_of cs) as [cs'|e] eqn:Et; cbn [rbind]; [|exact Hh].
    destruct (table_T cs') as [r|e] eqn:E; [|exact Hh].
    apply pushes_ok; [exact Hh|]. eapply table_T_truthful; eauto.
Qed.

Lemma run_from_truthful ops : forall h, Forall truthful h ->
  Forall truthful (fold_left (fun h o => fst (step conv h o)) ops h).
Proof.
  induction ops as [|o t IH]; intros h Hh; cbn [fold_left]; [exact Hh|].
  apply IH. apply step_truthful. exact Hh.
Qed.

(* THE INVARIANT OVER PROGRAMS: every vector reachable by ANY composition of the operations of the
   alphabet, starting from vectors built by inference, is truthful *)
Theorem reachable_truthful ops : Forall truthful (run conv ops).
Proof. apply run_from_truthful. constructor. Qed.

End WithConv.

Definition e_int (n : Z) : elt := Some (mkV KInt true, n).
Definition e_str (n : Z) : elt := Some (mkV KStr true, n).
Definition e_float (n : Z) : elt := Some (mkV KFloat true, n).

(* validate_scalar is STRICTER than belongs: it refuses instances of subclasses (class F(float)) *)
Theorem validate_stricter : exists x d, belongs x d = true /\ validate_scalar x d = false.
Proof. exists (Some (mkV KFloat false)), (mkD KFloat false). split; reflexivity. Qed.

(* what holds exactly: validate_scalar implies belongs; for instances of the class itself they coincide *)
Theorem belongs_iff_validate x d :
  (validate_scalar x d = true -> belongs x d = true) /\
  ((forall vi, x = Some vi -> exact vi = true) -> (belongs x d = true <-> validate_scalar x d = true)).
Proof.
  split; [apply validate_belongs|]. intros He. split; [apply belongs_validate_exact; exact He|apply validate_belongs].
Qed.

(* the columns of join / aggregate / window / sort / CSV results are each one `Vector(values, name=...)` *)
Theorem result_columns_truthful (cols : list (list elt * option nat)) :
  Forall truthful (map (fun c => mk_vector (fst c) None (snd c)) cols).
Proof. apply Forall_map. apply Forall_forall. intros c _. apply infer_truthful. Qed.
