(* Proofs/HeapReg.v — C15: the registry's live view IS the sharing relation, in every
   reachable state of every history, whatever identities the allocator hands out. *)
From Coq Require Import List Bool Arith Lia ZArith.
From Serif Require Import Base.PyVal Model.Dtype Model.Heap Proofs.HeapBase.
Import ListNotations.

Record Inv_reg (s : state) : Prop := {
  (* every live object is registered under its current storage *)
  reg_own : forall h o, aget (heap s) h = Some o -> In h (rget (reg s) (sid_of o));
  (* whatever is registered is live and registered under its CURRENT storage only *)
  reg_only : forall h id, In h (rget (reg s) id) -> exists o, aget (heap s) h = Some o /\ sid_of o = id;
  reg_nodup : forall id, NoDup (rget (reg s) id)
}.

Lemma Inv_reg_init : Inv_reg init.
Proof. split; simpl; intros; try discriminate; try contradiction. constructor. Qed.

(* L1: an update that keeps the object's storage identity *)
Lemma reg_update_same_sid s h o o' :
  aget (heap s) h = Some o -> sid_of o' = sid_of o -> Inv_reg s ->
  Inv_reg (mkSt (aset (heap s) h o') (reg s)).
Proof.
  intros Hg Hs [Ho Hn Hd]. split; simpl.
  - intros h2 o2. destruct (Nat.eq_dec h2 h) as [->|Hne].
    + rewrite aget_aset_same. intros E. inversion E; subst. rewrite Hs. apply Ho. exact Hg.
    + rewrite aget_aset_other by exact Hne. apply Ho.
  - intros h2 id Hin. destruct (Hn h2 id Hin) as [o2 [Hg2 Hs2]].
    destruct (Nat.eq_dec h2 h) as [->|Hne].
    + exists o'. rewrite aget_aset_same. split; [reflexivity|]. rewrite Hs. congruence.
    + exists o2. rewrite aget_aset_other by exact Hne. auto.
  - exact Hd.
Qed.

(* L2: the object moves to new storage: unregister old, register new *)
Lemma reg_update_new_sid s h o o' :
  aget (heap s) h = Some o -> Inv_reg s ->
  Inv_reg (mkSt (aset (heap s) h o') (register (unregister (reg s) h (sid_of o)) h (sid_of o'))).
Proof.
  intros Hg [Ho Hn Hd]. split; simpl.
  - intros h2 o2. destruct (Nat.eq_dec h2 h) as [->|Hne].
    + rewrite aget_aset_same. intros E. inversion E; subst. apply in_register. right. auto.
    + rewrite aget_aset_other by exact Hne. intros Hg2. apply in_register. left.
      apply in_unregister. split; [apply Ho; exact Hg2|]. intros [E _]. contradiction.
  - intros h2 id Hin. apply in_register in Hin. destruct Hin as [Hin|[-> ->]].
    + apply in_unregister in Hin. destruct Hin as [Hin Hnot].
      destruct (Hn h2 id Hin) as [o2 [Hg2 Hs2]].
      destruct (Nat.eq_dec h2 h) as [->|Hne].
      * exfalso. apply Hnot. split; [reflexivity|]. congruence.
      * exists o2. rewrite aget_aset_other by exact Hne. auto.
    + exists o'. rewrite aget_aset_same. auto.
  - intros id. apply nodup_register, nodup_unregister, Hd.
Qed.

(* L3: allocation of a fresh object *)
Lemma reg_alloc s h o :
  aget (heap s) h = None -> Inv_reg s ->
  Inv_reg (mkSt (heap s ++ [(h, o)]) (register (reg s) h (sid_of o))).
Proof.
  intros Hf [Ho Hn Hd]. split; simpl.
  - intros h2 o2. destruct (Nat.eq_dec h2 h) as [->|Hne].
    + rewrite aget_app_none by exact Hf. intros E. inversion E; subst. apply in_register. right. auto.
    + rewrite aget_app_other by exact Hne. intros Hg2. apply in_register. left. apply Ho. exact Hg2.
  - intros h2 id Hin. apply in_register in Hin. destruct Hin as [Hin|[-> ->]].
    + destruct (Hn h2 id Hin) as [o2 [Hg2 Hs2]].
      assert (h2 <> h) by (intros ->; congruence).
      exists o2. rewrite aget_app_other by assumption. auto.
    + exists o. rewrite aget_app_none by exact Hf. auto.
  - intros id. apply nodup_register, Hd.
Qed.

(* L4: garbage collection *)
Lemma aget_map_snd {A B} (f : nat -> A -> B) (l : list (nat * A)) k :
  aget (map (fun e => (fst e, f (fst e) (snd e))) l) k = option_map (f k) (aget l k).
Proof.
  induction l as [|[k' a] t IH]; simpl; [reflexivity|].
  destruct (Nat.eqb_spec k k'); [subst; reflexivity|exact IH].
Qed.

Lemma rget_collect s hs id :
  rget (reg (collect s hs)) id = filter (fun x => negb (mem x hs)) (rget (reg s) id).
Proof.
  unfold collect, rget. simpl.
  rewrite (aget_map_snd (fun _ l => filter (fun x => negb (mem x hs)) l)).
  destruct (aget (reg s) id); reflexivity.
Qed.

Lemma aget_collect s hs h :
  aget (heap (collect s hs)) h = if mem h hs then None else aget (heap s) h.
Proof.
  unfold collect. simpl. rewrite (aget_filter_keys (heap s) (fun k => negb (mem k hs))).
  destruct (mem h hs); reflexivity.
Qed.

Lemma reg_collect s hs : Inv_reg s -> Inv_reg (collect s hs).
Proof.
  intros [Ho Hn Hd]. split.
  - intros h o. rewrite aget_collect. destruct (mem h hs) eqn:E; [discriminate|].
    intros Hg. rewrite rget_collect. apply filter_In. split; [apply Ho; exact Hg|]. rewrite E. reflexivity.
  - intros h id. rewrite rget_collect. intros Hin. apply filter_In in Hin. destruct Hin as [Hin E].
    apply negb_true_iff in E. destruct (Hn h id Hin) as [o [Hg Hs]].
    exists o. rewrite aget_collect, E. auto.
  - intros id. rewrite rget_collect. apply NoDup_filter, Hd.
Qed.

(* ---- the operations ---------------------------------------------------------- *)

Lemma getv_aget s h v : getv s h = Some v -> aget (heap s) h = Some (OV v).
Proof. unfold getv. destruct (aget (heap s) h) as [[x|x]|]; intros E; inversion E; reflexivity. Qed.
Lemma gett_aget s h t : gett s h = Some t -> aget (heap s) h = Some (OT t).
Proof. unfold gett. destruct (aget (heap s) h) as [[x|x]|]; intros E; inversion E; reflexivity. Qed.

Lemma set_vec_reg s h us sid' s' out :
  set_vec s h us sid' = (s', out) -> Inv_reg s -> Inv_reg s'.
Proof.
  unfold set_vec. intros H Hi.
  destruct (getv s h) as [v|] eqn:Hv; [|inversion H; subst; exact Hi].
  apply getv_aget in Hv.
  destruct (negb (check_writable (reg s) (sid v))); [inversion H; subst; exact Hi|].
  destruct (negb (forallb _ us)); [inversion H; subst; exact Hi|].
  assert (Hstep : forall (nv' : list sval) (d'' : option dtype),
            Inv_reg (mkSt (aset (heap s) h (OV (mkVec nv' sid' (nm v) d'' None)))
                          (register (unregister (reg s) h (sid v)) h sid'))).
  { intros. apply (reg_update_new_sid s h (OV v) (OV (mkVec nv' sid' (nm v) d'' None))); assumption. }
  destruct (dt v) as [d|].
  - destruct (if negb (Nat.eqb (List.length us) 0) then required_dtype d (map snd us) else Some d) as [rd|];
      [|inversion H; subst; exact Hi].
    destruct (kind_eqb (dkind rd) (dkind d)).
    + inversion H; subst. apply Hstep.
    + destruct (kind_eqb (dkind d) KInt && kind_eqb (dkind rd) KFloat).
      * inversion H; subst. apply Hstep.
      * inversion H; subst; exact Hi.
  - inversion H; subst. apply Hstep.
Qed.

Lemma set_cols_reg ws : forall s chs s' out,
  set_cols s chs ws = (s', out) -> Inv_reg s -> Inv_reg s'.
Proof.
  induction ws as [|[[ci us] sid'] t IH]; intros s chs s' out H Hi; simpl in H.
  - inversion H; subst. exact Hi.
  - destruct (nth_error chs ci) as [ch|]; [|inversion H; subst; exact Hi].
    destruct (set_vec s ch us sid') as [s1 o1] eqn:E.
    pose proof (set_vec_reg _ _ _ _ _ _ E Hi) as Hi1.
    destruct o1; try (inversion H; subst; exact Hi1).
    eapply IH; eassumption.
Qed.

Lemma alloc_cols_reg built : forall s hs sids s',
  alloc_cols s built hs sids = Some s' -> Inv_reg s -> Inv_reg s'.
Proof.
  induction built as [|[[l n] d] bt IH]; intros s hs sids s' H Hi; simpl in H.
  - destruct hs; [|discriminate]. destruct sids; [|discriminate]. inversion H; subst. exact Hi.
  - destruct hs as [|h ht]; [discriminate|]. destruct sids as [|i it]; [discriminate|].
    destruct (aget (heap s) h) eqn:Hf; [discriminate|].
    eapply IH; [exact H|].
    apply (reg_alloc s h (OV (mkVec l i n d None))); assumption.
Qed.

Theorem step_preserves_Inv_reg s o s' out :
  step s o = (s', out) -> Inv_reg s -> Inv_reg s'.
Proof.
  intros H Hi. destruct o; unfold step in H; cbv beta iota in H.
  - (* ONewVec *)
    destruct (build_col s c) as [[[l n] d]|]; [|inversion H; subst; exact Hi].
    destruct (alloc_cols s _ [h] [sid']) as [s1|] eqn:E; inversion H; subst; [|exact Hi].
    eapply alloc_cols_reg; eassumption.
  - (* ONewTab *)
    destruct (build_all s cs) as [built|]; [|inversion H; subst; exact Hi].
    destruct (negb (all_same_len built)); [inversion H; subst; exact Hi|].
    destruct (alloc_cols s built chs sids) as [s1|] eqn:E; [|inversion H; subst; exact Hi].
    pose proof (alloc_cols_reg _ _ _ _ _ E Hi) as Hi1.
    destruct (aget (heap s1) ht) eqn:Hf; inversion H; subst; [exact Hi|].
    apply (reg_alloc s1 ht (OT (mkTab chs tsid' None None))); assumption.
  - (* OSetV *) eapply set_vec_reg; eassumption.
  - (* OSetT *)
    destruct (gett s ht); [|inversion H; subst; exact Hi]. eapply set_cols_reg; eassumption.
  - (* OSetAttr *)
    destruct (gett s ht) as [t|] eqn:Ht; [|inversion H; subst; exact Hi].
    destruct (build_col s c) as [[[l n] d]|]; [|inversion H; subst; exact Hi].
    destruct (nth_error (cols t) ci) as [old|]; [|inversion H; subst; exact Hi].
    destruct (negb (Nat.eqb (List.length l) _)); [inversion H; subst; exact Hi|].
    destruct (alloc_cols s _ [h'] [sid']) as [s1|] eqn:E; [|inversion H; subst; exact Hi].
    pose proof (alloc_cols_reg _ _ _ _ _ E Hi) as Hi1.
    inversion H; subst.
    (* the table still lives in s1 *)
    assert (Hg1 : aget (heap s1) ht = Some (OT t)).
    { simpl in E. destruct (aget (heap s) h') eqn:Hf; [discriminate|]. inversion E; subst. simpl.
      apply gett_aget in Ht. rewrite aget_app_other; [exact Ht|]. intros ->. congruence. }
    apply (reg_update_new_sid s1 ht (OT t) (OT (mkTab _ tsid' (tnm t) (tfp t)))); assumption.
  - (* ORename *)
    destruct (aget (heap s) h) as [[v|t]|] eqn:Hg; inversion H; subst; try exact Hi.
    + eapply (reg_update_same_sid s h (OV v)); [exact Hg|reflexivity|exact Hi].
    + eapply (reg_update_same_sid s h (OT t)); [exact Hg|reflexivity|exact Hi].
  - (* OFp *)
    destruct (aget (heap s) h) as [[v|t]|] eqn:Hg; inversion H; subst; try exact Hi.
    + eapply (reg_update_same_sid s h (OV v)); [exact Hg|reflexivity|exact Hi].
    + (* memoising the columns keeps every sid; then the table memo *)
      assert (Hm : forall cs hp, Inv_reg (mkSt hp (reg s)) ->
                 aget hp h = Some (OT t) ->
                 Inv_reg (mkSt (fold_left memo_col cs hp) (reg s)) /\ aget (fold_left memo_col cs hp) h = Some (OT t)).
      { induction cs as [|c cs IH]; intros hp Hhp Hgt; simpl; [auto|].
        apply IH.
        - unfold memo_col. destruct (aget hp c) as [[vc|tc]|] eqn:Hc; try exact Hhp.
          destruct (vfp vc); [exact Hhp|].
          apply (reg_update_same_sid (mkSt hp (reg s)) c (OV vc)); [exact Hc|reflexivity|exact Hhp].
        - unfold memo_col. destruct (aget hp c) as [[vc|tc]|] eqn:Hc; try exact Hgt.
          destruct (vfp vc); [exact Hgt|].
          rewrite aget_aset_other; [exact Hgt|]. intros ->. congruence. }
      destruct (Hm (cols t) (heap s)) as [Hi2 Hg2]; [destruct s; exact Hi|exact Hg|].
      eapply (reg_update_same_sid (mkSt _ (reg s)) h (OT t)); [exact Hg2|reflexivity|exact Hi2].
  - (* ORead *)
    destruct (aget (heap s) h); inversion H; subst; exact Hi.
  - (* OFailWrite *)
    destruct (getv s h) as [v|]; [|inversion H; subst; exact Hi].
    destruct (negb (check_writable (reg s) (sid v))); inversion H; subst; exact Hi.
  - (* OCollect *)
    destruct (forallb _ (heap s)); inversion H; subst; [|exact Hi]. apply reg_collect. exact Hi.
Qed.

Fixpoint run (s : state) (os : list op) : state :=
  match os with [] => s | o :: t => run (fst (step s o)) t end.

Theorem reachable_Inv_reg os : forall s, Inv_reg s -> Inv_reg (run s os).
Proof.
  induction os as [|o t IH]; intros s Hi; simpl; [exact Hi|].
  apply IH. destruct (step s o) as [s' out] eqn:E. simpl. eapply step_preserves_Inv_reg; eassumption.
Qed.

(* ---- what the invariant buys: refusals are exact -------------------------------- *)

(* a write is refused with AliasError only while ANOTHER live object really has the same
   (non-empty) storage *)
Theorem refusal_sound s h us sid' s' :
  Inv_reg s -> step s (OSetV h us sid') = (s', ErrAlias) ->
  exists v h' o', getv s h = Some v /\ h' <> h /\ aget (heap s) h' = Some o' /\
                  sid_of o' = sid v /\ sid v <> EMPTY.
Proof.
  intros [Ho Hn Hd] H. simpl in H. unfold set_vec in H.
  destruct (getv s h) as [v|] eqn:Hv; [|inversion H].
  destruct (check_writable (reg s) (sid v)) eqn:Hc; simpl in H.
  - exfalso.
    destruct (negb (forallb _ us)); [inversion H|].
    destruct (dt v) as [d|]; [|inversion H].
    destruct (if negb (Nat.eqb (List.length us) 0) then required_dtype d (map snd us) else Some d); [|inversion H].
    destruct (kind_eqb _ _); [inversion H|].
    destruct (_ && _); inversion H.
  - unfold check_writable in Hc. apply orb_false_iff in Hc. destruct Hc as [He Hl].
    apply Nat.eqb_neq in He. apply Nat.leb_gt in Hl.
    destruct (two_distinct _ h (Hd (sid v)) Hl) as [x [Hin Hx]].
    destruct (Hn x _ Hin) as [o' [Hg Hs]].
    exists v, x, o'. auto.
Qed.

(* a vector that shares its storage with no other live object is always writable *)
Theorem sole_owner_never_refused s h v us sid' :
  Inv_reg s -> getv s h = Some v ->
  (forall h' o', h' <> h -> aget (heap s) h' = Some o' -> sid_of o' <> sid v) ->
  snd (step s (OSetV h us sid')) <> ErrAlias.
Proof.
  intros Hi Hv Hsole E.
  destruct (step s (OSetV h us sid')) as [s' out] eqn:Hs. simpl in E. subst out.
  destruct (refusal_sound _ _ _ _ _ Hi Hs) as [v2 [h' [o' [Hv2 [Hne [Hg [Hsid _]]]]]]].
  rewrite Hv in Hv2. inversion Hv2; subst. eapply Hsole; eassumption.
Qed.

(* the empty tuple is never refused *)
Theorem empty_storage_never_refused s h v us sid' :
  getv s h = Some v -> sid v = EMPTY -> snd (step s (OSetV h us sid')) <> ErrAlias.
Proof.
  intros Hv He. simpl. unfold set_vec. rewrite Hv. unfold check_writable. rewrite He. simpl.
  destruct (negb (forallb _ us)); [discriminate|].
  destruct (dt v) as [d|]; [|discriminate].
  destruct (if negb (Nat.eqb (List.length us) 0) then required_dtype d (map snd us) else Some d); [|discriminate].
  destruct (kind_eqb _ _); [discriminate|]. destruct (_ && _); discriminate.
Qed.

(* exact characterisation of the model's refusals *)
Theorem refusal_iff s h v us sid' :
  Inv_reg s -> getv s h = Some v ->
  (snd (step s (OSetV h us sid')) = ErrAlias <->
   sid v <> EMPTY /\ exists h' o', h' <> h /\ aget (heap s) h' = Some o' /\ sid_of o' = sid v).
Proof.
  intros Hi Hv. split.
  - intros E. destruct (step s (OSetV h us sid')) as [s' out] eqn:Hs. simpl in E. subst.
    destruct (refusal_sound _ _ _ _ _ Hi Hs) as [v2 [h' [o' [Hv2 [Hne [Hg [Hsid Hemp]]]]]]].
    rewrite Hv in Hv2. inversion Hv2; subst. split; [exact Hemp|]. exists h', o'. auto.
  - intros [Hemp [h' [o' [Hne [Hg Hsid]]]]]. simpl. unfold set_vec. rewrite Hv.
    destruct Hi as [Ho Hn Hd].
    assert (H1 : In h (rget (reg s) (sid v))) by (apply (Ho h (OV v)), getv_aget, Hv).
    assert (H2 : In h' (rget (reg s) (sid v))) by (rewrite <- Hsid; apply Ho; exact Hg).
    assert (Hlen : 1 < List.length (rget (reg s) (sid v))).
    { destruct (le_lt_dec (List.length (rget (reg s) (sid v))) 1) as [Hle|Hgt]; [|exact Hgt].
      exfalso. destruct (rget (reg s) (sid v)) as [|a [|b t]]; simpl in *; try lia; try contradiction. }
    unfold check_writable. apply Nat.eqb_neq in Hemp. rewrite Hemp.
    apply Nat.leb_gt in Hlen. rewrite Hlen. reflexivity.
Qed.
