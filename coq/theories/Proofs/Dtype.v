(* Proofs/Dtype.v — C04: the model of typing.py refines the lattice spec. *)
From Coq Require Import List Bool Arith Lia Permutation.
From Serif Require Import Base.PyVal Model.Dtype Spec.DtypeLattice.
Import ListNotations.

Ltac kcases :=
  repeat (match goal with
  | |- context[Nat.eqb ?x ?y] => destruct (Nat.eqb_spec x y); subst
  | H : context[Nat.eqb ?x ?y] |- _ => destruct (Nat.eqb_spec x y); subst
  end; simpl in *); try reflexivity; try congruence.

Lemma join_idem a : join a a = a.
Proof. unfold join. rewrite kind_eqb_refl. reflexivity. Qed.

Lemma join_comm a b : join a b = join b a.
Proof. destruct a, b; unfold join; simpl; try reflexivity. kcases. Qed.

Lemma join_assoc a b c : join (join a b) c = join a (join b c).
Proof.
  destruct a, b, c; unfold join; simpl; try reflexivity; kcases.
Qed.

Lemma join_object_r a : join a KObject = KObject.
Proof. destruct a; reflexivity. Qed.
Lemma join_object_l a : join KObject a = KObject.
Proof. destruct a; reflexivity. Qed.

Lemma kle_refl a : kle a a. Proof. apply join_idem. Qed.
Lemma kle_trans a b c : kle a b -> kle b c -> kle a c.
Proof. unfold kle. intros H1 H2. rewrite <- H2, <- join_assoc, H1. reflexivity. Qed.
Lemma kle_antisym a b : kle a b -> kle b a -> a = b.
Proof. unfold kle. intros H1 H2. rewrite <- H2, join_comm. exact H1. Qed.
Lemma kle_join_l a b : kle a (join a b).
Proof. unfold kle. rewrite <- join_assoc, join_idem. reflexivity. Qed.
Lemma kle_join_r a b : kle b (join a b).
Proof. rewrite join_comm. apply kle_join_l. Qed.
Lemma join_least a b u : kle a u -> kle b u -> kle (join a b) u.
Proof. unfold kle. intros H1 H2. rewrite join_assoc, H2. exact H1. Qed.

(* ---- promote_with is the lattice join on kinds ---- *)

Lemma promote_kind d vi : dkind (promote_with d (Some vi)) = join (dkind d) (base vi).
Proof.
  destruct d as [k n], vi as [b e]. unfold promote_with, join. simpl.
  rewrite (kind_eqb_sym b k).
  destruct k, b; simpl; try reflexivity; kcases.
Qed.

Lemma promote_nullable_some d vi : nullable (promote_with d (Some vi)) = nullable d.
Proof.
  destruct d as [k n], vi as [b e]. unfold promote_with. simpl.
  destruct k, b; simpl; try reflexivity; kcases.
Qed.

Lemma promote_none d : promote_with d None = mkD (dkind d) true.
Proof. destruct d as [k []]; reflexivity. Qed.

Lemma promote_closed d v :
  promote_with d v =
  match v with None => mkD (dkind d) true
             | Some vi => mkD (join (dkind d) (base vi)) (nullable d) end.
Proof.
  destruct v as [vi|]; [|apply promote_none].
  pose proof (promote_kind d vi) as Hk. pose proof (promote_nullable_some d vi) as Hn.
  destruct (promote_with d (Some vi)) as [k n]. simpl in *. congruence.
Qed.

Lemma promote_widens d v : dle d (promote_with d v).
Proof.
  rewrite promote_closed. destruct v as [vi|]; unfold dle; simpl.
  - split; [apply kle_join_l|auto].
  - split; [apply kle_refl|auto].
Qed.

Lemma promote_never_narrows d v : kle (dkind d) (dkind (promote_with d v)).
Proof. apply promote_widens. Qed.

Lemma promote_keeps_nullable d v : nullable d = true -> nullable (promote_with d v) = true.
Proof. apply promote_widens. Qed.

Lemma promote_idempotent d v : promote_with (promote_with d v) v = promote_with d v.
Proof.
  rewrite !promote_closed. destruct v as [vi|]; simpl; [|reflexivity].
  rewrite join_assoc, join_idem. reflexivity.
Qed.

Lemma promote_commute d a b :
  promote_with (promote_with d a) b = promote_with (promote_with d b) a.
Proof.
  rewrite !promote_closed. destruct a as [va|], b as [vb|]; simpl; try reflexivity.
  rewrite !join_assoc, (join_comm (base va)). reflexivity.
Qed.

Lemma promote_value_fits d vi : kle (base vi) (dkind (promote_with d (Some vi))).
Proof. rewrite promote_kind. apply kle_join_r. Qed.

(* ---- closed form of infer_dtype ---- *)
Local Arguments promote_with : simpl never.
Local Arguments join : simpl never.

Lemma fold_infer_some l : forall d s,
  fold_left infer_step l (Some d, s) =
  (Some (mkD (fold_left join (kinds l) (dkind d)) (nullable d)), s || has_none l).
Proof.
  induction l as [|v t IH]; intros d s; simpl.
  - rewrite orb_false_r. destruct d; reflexivity.
  - destruct v as [vi|]; simpl.
    + rewrite IH. rewrite promote_closed. simpl. reflexivity.
    + rewrite IH. rewrite orb_true_r. reflexivity.
Qed.

Lemma fold_infer_none l : forall s,
  fold_left infer_step l (None, s) =
  match kinds l with
  | [] => (None, s || has_none l)
  | k :: t => (Some (mkD (fold_left join t k) false), s || has_none l)
  end.
Proof.
  induction l as [|v t IH]; intros s; simpl.
  - rewrite orb_false_r. reflexivity.
  - destruct v as [vi|]; simpl.
    + rewrite fold_infer_some. simpl. reflexivity.
    + rewrite IH. rewrite orb_true_r. destruct (kinds t); reflexivity.
Qed.

Theorem infer_closed_form l : infer_dtype l = infer_spec l.
Proof.
  unfold infer_dtype, infer_spec, lub_kinds. rewrite fold_infer_none. simpl.
  destruct (kinds l) as [|k t]; simpl; [reflexivity|].
  destruct (has_none l); reflexivity.
Qed.

(* ---- the lub of a list depends only on its support ---- *)

Lemma fold_join_upper t : forall k x, In x (k :: t) -> kle x (fold_left join t k).
Proof.
  induction t as [|y t IH]; intros k x Hin; simpl in *.
  - destruct Hin as [->|[]]. apply kle_refl.
  - destruct Hin as [->|[->|Hin]].
    + eapply kle_trans; [apply kle_join_l|]. apply IH. left. reflexivity.
    + eapply kle_trans; [apply kle_join_r|]. apply IH. left. reflexivity.
    + apply IH. right. exact Hin.
Qed.

Lemma fold_join_least t : forall k u, (forall x, In x (k :: t) -> kle x u) -> kle (fold_left join t k) u.
Proof.
  induction t as [|y t IH]; intros k u Hu; simpl in *.
  - apply Hu. left. reflexivity.
  - apply IH. intros x [<-|Hin].
    + apply join_least; apply Hu; auto.
    + apply Hu. auto.
Qed.

Lemma lub_support ks ks' :
  (forall k, In k ks <-> In k ks') -> lub_kinds ks = lub_kinds ks'.
Proof.
  intros Hs. destruct ks as [|k t], ks' as [|k' t']; simpl.
  - reflexivity.
  - exfalso. apply (proj2 (Hs k')). left. reflexivity.
  - exfalso. apply (proj1 (Hs k)). left. reflexivity.
  - f_equal. apply kle_antisym; apply fold_join_least; intros x Hx; apply fold_join_upper.
    + apply Hs. exact Hx.
    + apply Hs. exact Hx.
Qed.

Lemma in_kinds k l : In k (kinds l) <-> exists vi, In (Some vi) l /\ base vi = k.
Proof.
  unfold kinds. rewrite in_flat_map. split.
  - intros [[vi|] [Hin Hk]]; simpl in Hk; [|contradiction].
    destruct Hk as [<-|[]]. eauto.
  - intros [vi [Hin <-]]. exists (Some vi). split; [exact Hin|left; reflexivity].
Qed.

Lemma has_none_in l : has_none l = true <-> In None l.
Proof.
  unfold has_none. rewrite existsb_exists. split.
  - intros [[vi|] [Hin H]]; [discriminate|exact Hin].
  - intros Hin. exists None. auto.
Qed.

(* The inferred dtype depends only on WHICH classes occur and WHETHER None occurs. *)
Theorem infer_depends_on_support l l' :
  (forall k, In k (kinds l) <-> In k (kinds l')) ->
  (In None l <-> In None l') ->
  infer_dtype l = infer_dtype l'.
Proof.
  intros Hk Hn. rewrite !infer_closed_form. unfold infer_spec.
  rewrite (lub_support _ _ Hk).
  assert (has_none l = has_none l') as ->.
  { destruct (has_none l) eqn:E, (has_none l') eqn:E'; try reflexivity.
    - apply has_none_in, Hn, has_none_in in E. congruence.
    - apply has_none_in, Hn, has_none_in in E'. congruence. }
  reflexivity.
Qed.

Corollary infer_same_elements l l' :
  (forall v, In v l <-> In v l') -> infer_dtype l = infer_dtype l'.
Proof.
  intros H. apply infer_depends_on_support.
  - intros k. rewrite !in_kinds. split; intros [vi [Hin E]]; exists vi; (split; [apply H; exact Hin|exact E]).
  - apply H.
Qed.

Corollary infer_perm l l' : Permutation l l' -> infer_dtype l = infer_dtype l'.
Proof.
  intros HP. apply infer_same_elements. intros v. split; apply Permutation_in; [exact HP|].
  apply Permutation_sym. exact HP.
Qed.

Corollary infer_repeat l : l <> [] -> infer_dtype (l ++ l) = infer_dtype l.
Proof.
  intros _. apply infer_same_elements. intros v. rewrite in_app_iff. tauto.
Qed.

Corollary infer_none_position l1 l2 :
  infer_dtype (None :: l1 ++ l2) = infer_dtype (l1 ++ None :: l2).
Proof. apply infer_perm. apply Permutation_middle. Qed.

Lemma infer_nullable_iff l : l <> [] -> kinds l <> [] ->
  (nullable (infer_dtype l) = true <-> In None l).
Proof.
  intros _ Hk. rewrite infer_closed_form. unfold infer_spec, lub_kinds.
  destruct (kinds l); [contradiction|]. simpl. apply has_none_in.
Qed.

(* Every value of the sequence fits the inferred dtype (truthfulness of inference). *)
Lemma infer_covers l vi : In (Some vi) l -> kle (base vi) (dkind (infer_dtype l)).
Proof.
  intros Hin. rewrite infer_closed_form. unfold infer_spec, lub_kinds.
  assert (Hk : In (base vi) (kinds l)) by (apply in_kinds; eauto).
  destruct (kinds l) as [|k t]; [contradiction|]. simpl.
  apply fold_join_upper. exact Hk.
Qed.

Lemma infer_single_kind l k :
  kinds l <> [] -> (forall x, In x (kinds l) -> x = k) -> dkind (infer_dtype l) = k.
Proof.
  intros Hne Hall. rewrite infer_closed_form. unfold infer_spec, lub_kinds.
  destruct (kinds l) as [|k0 t]; [contradiction|]. simpl.
  apply kle_antisym.
  - apply fold_join_least. intros x Hx. rewrite (Hall x Hx). apply kle_refl.
  - rewrite <- (Hall k0) at 1 by (left; reflexivity). apply fold_join_upper. left. reflexivity.
Qed.
