(* Proofs/HeapFrame.v — C01: every operation changes only the object it is aimed at.
   [strip] forgets the fingerprint memo (not part of an object's observable view). *)
From Coq Require Import List Bool Arith Lia ZArith.
From Serif Require Import Base.PyVal Model.Dtype Model.Heap Proofs.HeapBase Proofs.HeapReg.
Import ListNotations.

Definition strip (o : obj) : obj :=
  match o with
  | OV v => OV (mkVec (vals v) (sid v) (nm v) (dt v) None)
  | OT t => OT (mkTab (cols t) (tsid t) (tnm t) None)
  end.

(* the handles whose own fields an operation may change *)
Definition touched (s : state) (o : op) : list handle :=
  match o with
  | OSetV h _ _ => [h]
  | OSetT ht _ => match gett s ht with Some t => cols t | None => [] end
  | OSetAttr ht _ _ _ _ _ => [ht]
  | ORename h _ => [h]
  | _ => []
  end.
Definition collected (o : op) : list handle := match o with OCollect hs => hs | _ => [] end.

Lemma set_vec_frame s h us sid' s' out :
  set_vec s h us sid' = (s', out) ->
  (forall h2, h2 <> h -> aget (heap s') h2 = aget (heap s) h2) /\ (out <> Ok -> s' = s).
Proof.
  unfold set_vec. intros H.
  destruct (getv s h) as [v|]; [|inversion H; subst; split; [reflexivity|reflexivity]].
  destruct (negb (check_writable (reg s) (sid v))); [inversion H; subst; split; reflexivity|].
  destruct (negb (forallb _ us)); [inversion H; subst; split; reflexivity|].
  destruct (dt v) as [d|].
  - destruct (if negb (Nat.eqb (List.length us) 0) then required_dtype d (map snd us) else Some d) as [rd|];
      [|inversion H; subst; split; reflexivity].
    destruct (kind_eqb (dkind rd) (dkind d)).
    + inversion H; subst. simpl. split; [intros; apply aget_aset_other; assumption|congruence].
    + destruct (kind_eqb (dkind d) KInt && kind_eqb (dkind rd) KFloat).
      * inversion H; subst. simpl. split; [intros; apply aget_aset_other; assumption|congruence].
      * inversion H; subst. split; reflexivity.
  - inversion H; subst. simpl. split; [intros; apply aget_aset_other; assumption|congruence].
Qed.

Lemma set_cols_frame ws : forall s chs s' out,
  set_cols s chs ws = (s', out) ->
  forall h2, ~ In h2 chs -> aget (heap s') h2 = aget (heap s) h2.
Proof.
  induction ws as [|[[ci us] sid'] t IH]; intros s chs s' out H h2 Hn; simpl in H.
  - inversion H; subst. reflexivity.
  - destruct (nth_error chs ci) as [ch|] eqn:Hc; [|inversion H; subst; reflexivity].
    assert (Hne : h2 <> ch) by (intros ->; apply Hn; eapply nth_error_In; exact Hc).
    destruct (set_vec s ch us sid') as [s1 o1] eqn:E.
    destruct (set_vec_frame _ _ _ _ _ _ E) as [Hf _].
    destruct o1; try (inversion H; subst; apply Hf; exact Hne).
    rewrite (IH _ _ _ _ H h2 Hn). apply Hf. exact Hne.
Qed.

Lemma alloc_cols_frame built : forall s hs sids s',
  alloc_cols s built hs sids = Some s' ->
  forall h2 o2, aget (heap s) h2 = Some o2 -> aget (heap s') h2 = Some o2.
Proof.
  induction built as [|[[l n] d] bt IH]; intros s hs sids s' H h2 o2 Hg; simpl in H.
  - destruct hs; [|discriminate]. destruct sids; [|discriminate]. inversion H; subst. exact Hg.
  - destruct hs as [|h ht]; [discriminate|]. destruct sids as [|i it]; [discriminate|].
    destruct (aget (heap s) h) eqn:Hf; [discriminate|].
    eapply IH; [exact H|]. simpl. rewrite aget_app_other; [exact Hg|]. intros ->. congruence.
Qed.

Lemma fold_memo_strip cs : forall hp h2,
  option_map strip (aget (fold_left memo_col cs hp) h2) = option_map strip (aget hp h2).
Proof.
  induction cs as [|c cs IH]; intros hp h2; simpl; [reflexivity|].
  rewrite IH. unfold memo_col.
  destruct (aget hp c) as [[vc|tc]|] eqn:Hc; try reflexivity.
  destruct (vfp vc); [reflexivity|].
  destruct (Nat.eq_dec h2 c) as [->|Hne].
  - rewrite aget_aset_same, Hc. reflexivity.
  - rewrite aget_aset_other by exact Hne. reflexivity.
Qed.

(* THE FRAME THEOREM: an object that is neither aimed at nor collected keeps its view;
   this covers every producer (copy, slice, mask, selection, stacking, join, sort, aggregate,
   window, arithmetic, transpose: ONewVec / ONewTab), fingerprint(), repr/iteration, failed
   writes, and writes to OTHER objects. *)
Theorem step_frame s o s' out h2 o2 :
  step s o = (s', out) ->
  aget (heap s) h2 = Some o2 -> ~ In h2 (touched s o) -> ~ In h2 (collected o) ->
  option_map strip (aget (heap s') h2) = Some (strip o2).
Proof.
  intros H Hg Ht Hc. destruct o; unfold step in H; cbv beta iota in H; simpl in Ht, Hc.
  - destruct (build_col s c) as [[[l n] d]|]; [|inversion H; subst; rewrite Hg; reflexivity].
    destruct (alloc_cols s _ [h] [sid']) as [s1|] eqn:E; inversion H; subst; [|rewrite Hg; reflexivity].
    rewrite (alloc_cols_frame _ _ _ _ _ E _ _ Hg). reflexivity.
  - destruct (build_all s cs) as [built|]; [|inversion H; subst; rewrite Hg; reflexivity].
    destruct (negb (all_same_len built)); [inversion H; subst; rewrite Hg; reflexivity|].
    destruct (alloc_cols s built chs sids) as [s1|] eqn:E; [|inversion H; subst; rewrite Hg; reflexivity].
    pose proof (alloc_cols_frame _ _ _ _ _ E _ _ Hg) as Hg1.
    destruct (aget (heap s1) ht) eqn:Hf; inversion H; subst; [rewrite Hg; reflexivity|].
    simpl. rewrite aget_app_other; [rewrite Hg1; reflexivity|]. intros ->. congruence.
  - destruct (set_vec_frame _ _ _ _ _ _ H) as [Hf _]. rewrite Hf, Hg; [reflexivity|intros ->; apply Ht; left; reflexivity].
  - destruct (gett s ht) as [t|]; [|inversion H; subst; rewrite Hg; reflexivity].
    rewrite (set_cols_frame _ _ _ _ _ H h2 Ht), Hg. reflexivity.
  - destruct (gett s ht) as [t|] eqn:Hgt; [|inversion H; subst; rewrite Hg; reflexivity].
    destruct (build_col s c) as [[[l n] d]|]; [|inversion H; subst; rewrite Hg; reflexivity].
    destruct (nth_error (cols t) ci) as [old|]; [|inversion H; subst; rewrite Hg; reflexivity].
    destruct (negb (Nat.eqb (List.length l) _)); [inversion H; subst; rewrite Hg; reflexivity|].
    destruct (alloc_cols s _ [h'] [sid']) as [s1|] eqn:E; [|inversion H; subst; rewrite Hg; reflexivity].
    inversion H; subst. simpl. rewrite aget_aset_other by (intros ->; apply Ht; left; reflexivity).
    rewrite (alloc_cols_frame _ _ _ _ _ E _ _ Hg). reflexivity.
  - destruct (aget (heap s) h) as [[v|t]|] eqn:Hh; inversion H; subst; simpl;
      try (rewrite Hg; reflexivity); rewrite aget_aset_other by (intros ->; apply Ht; left; reflexivity); rewrite Hg; reflexivity.
  - destruct (aget (heap s) h) as [[v|t]|] eqn:Hh; inversion H; subst; simpl; try (rewrite Hg; reflexivity).
    + destruct (Nat.eq_dec h2 h) as [->|Hne].
      * rewrite aget_aset_same. rewrite Hh in Hg. inversion Hg; subst. reflexivity.
      * rewrite aget_aset_other by exact Hne. rewrite Hg. reflexivity.
    + destruct (Nat.eq_dec h2 h) as [->|Hne].
      * rewrite aget_aset_same. rewrite Hh in Hg. inversion Hg; subst. reflexivity.
      * rewrite aget_aset_other by exact Hne. rewrite fold_memo_strip, Hg. reflexivity.
  - destruct (aget (heap s) h); inversion H; subst; rewrite Hg; reflexivity.
  - destruct (getv s h) as [v|]; [|inversion H; subst; rewrite Hg; reflexivity].
    destruct (negb (check_writable (reg s) (sid v))); inversion H; subst; rewrite Hg; reflexivity.
  - destruct (forallb _ (heap s)); inversion H; subst; [|rewrite Hg; reflexivity].
    rewrite aget_collect. apply mem_false in Hc. rewrite Hc, Hg. reflexivity.
Qed.

(* a write that is refused, or fails for any other reason, changes nothing at all
   (vector-level writes, attribute assignment, construction; a multi-column table write that
   fails in column j keeps the columns before j written — see DESIGN.md, reading note of C08) *)
Theorem failed_op_changes_nothing s o s' out :
  step s o = (s', out) -> (forall ht ws, o <> OSetT ht ws) ->
  out <> Ok -> (forall x, out <> OkFp x) -> s' = s.
Proof.
  intros H Hnt Hok Hfp. destruct o; unfold step in H; cbv beta iota in H.
  - destruct (build_col s c) as [[[l n] d]|]; [|inversion H; subst; reflexivity].
    destruct (alloc_cols s _ [h] [sid']); inversion H; subst; [congruence|reflexivity].
  - destruct (build_all s cs) as [built|]; [|inversion H; subst; reflexivity].
    destruct (negb (all_same_len built)); [inversion H; subst; reflexivity|].
    destruct (alloc_cols s built chs sids) as [s1|]; [|inversion H; subst; reflexivity].
    destruct (aget (heap s1) ht); inversion H; subst; [reflexivity|congruence].
  - destruct (set_vec_frame _ _ _ _ _ _ H) as [_ Hf]. apply Hf. exact Hok.
  - exfalso. eapply Hnt. reflexivity.
  - destruct (gett s ht) as [t|]; [|inversion H; subst; reflexivity].
    destruct (build_col s c) as [[[l n] d]|]; [|inversion H; subst; reflexivity].
    destruct (nth_error (cols t) ci) as [old|]; [|inversion H; subst; reflexivity].
    destruct (negb (Nat.eqb (List.length l) _)); [inversion H; subst; reflexivity|].
    destruct (alloc_cols s _ [h'] [sid']); inversion H; subst; [congruence|reflexivity].
  - destruct (aget (heap s) h) as [[v|t]|]; inversion H; subst; try congruence; reflexivity.
  - destruct (aget (heap s) h) as [[v|t]|]; inversion H; subst; try reflexivity; exfalso; eapply Hfp; reflexivity.
  - destruct (aget (heap s) h); inversion H; subst; reflexivity.
  - destruct (getv s h) as [v|]; [|inversion H; subst; reflexivity].
    destruct (negb (check_writable (reg s) (sid v))); inversion H; subst; reflexivity.
  - destruct (forallb _ (heap s)); inversion H; subst; [congruence|reflexivity].
Qed.

Corollary alias_refusal_changes_nothing s h us sid' s' :
  step s (OSetV h us sid') = (s', ErrAlias) -> s' = s.
Proof.
  intros H. eapply failed_op_changes_nothing; [exact H| | |]; intros; discriminate.
Qed.

(* ---- ownership: a vector is a column of at most one table, and tables only ever hold
        vectors they allocated themselves --------------------------------------------- *)
Record Inv_own (s : state) : Prop := {
  cols_live : forall ht t c, gett s ht = Some t -> In c (cols t) -> exists v, getv s c = Some v;
  own_unique : forall h1 h2 t1 t2 c, gett s h1 = Some t1 -> gett s h2 = Some t2 ->
                                   In c (cols t1) -> In c (cols t2) -> h1 = h2
}.

Lemma Inv_own_init : Inv_own init.
Proof. split; unfold gett; simpl; intros; discriminate. Qed.

Lemma gett_aset_v s h v r ht : gett (mkSt (aset (heap s) h (OV v)) r) ht = if Nat.eqb ht h then None else gett s ht.
Proof.
  unfold gett. simpl. destruct (Nat.eqb_spec ht h) as [->|Hne].
  - rewrite aget_aset_same. reflexivity.
  - rewrite aget_aset_other by exact Hne. reflexivity.
Qed.

Lemma gett_aset_other s h o r ht : ht <> h -> gett (mkSt (aset (heap s) h o) r) ht = gett s ht.
Proof. intros Hne. unfold gett. simpl. rewrite aget_aset_other by exact Hne. reflexivity. Qed.
Lemma getv_aset_other s h o r c : c <> h -> getv (mkSt (aset (heap s) h o) r) c = getv s c.
Proof. intros Hne. unfold getv. simpl. rewrite aget_aset_other by exact Hne. reflexivity. Qed.
Lemma getv_aset_same s h v r : getv (mkSt (aset (heap s) h (OV v)) r) h = Some v.
Proof. unfold getv. simpl. rewrite aget_aset_same. reflexivity. Qed.
Lemma gett_aset_same_t s h t r : gett (mkSt (aset (heap s) h (OT t)) r) h = Some t.
Proof. unfold gett. simpl. rewrite aget_aset_same. reflexivity. Qed.

(* replacing a VECTOR by a vector keeps the ownership structure *)
Lemma own_update_vec s h v v' r :
  getv s h = Some v -> Inv_own s -> Inv_own (mkSt (aset (heap s) h (OV v')) r).
Proof.
  intros Hv [Hl Hu]. apply getv_aget in Hv.
  assert (Ht : forall ht t, gett (mkSt (aset (heap s) h (OV v')) r) ht = Some t -> gett s ht = Some t).
  { intros ht t. rewrite gett_aset_v. destruct (Nat.eqb ht h); [discriminate|auto]. }
  split.
  - intros ht t c Hg Hin. apply Ht in Hg. destruct (Hl ht t c Hg Hin) as [vc Hvc].
    destruct (Nat.eq_dec c h) as [->|Hne].
    + exists v'. apply getv_aset_same.
    + exists vc. rewrite getv_aset_other by exact Hne. exact Hvc.
  - intros h1 h2 t1 t2 c H1 H2. apply Ht in H1. apply Ht in H2. eapply Hu; eassumption.
Qed.

Lemma set_vec_own s h us sid' s' out :
  set_vec s h us sid' = (s', out) -> Inv_own s -> Inv_own s'.
Proof.
  unfold set_vec. intros H Hi.
  destruct (getv s h) as [v|] eqn:Hv; [|inversion H; subst; exact Hi].
  destruct (negb (check_writable (reg s) (sid v))); [inversion H; subst; exact Hi|].
  destruct (negb (forallb _ us)); [inversion H; subst; exact Hi|].
  destruct (dt v) as [d|].
  - destruct (if negb (Nat.eqb (List.length us) 0) then required_dtype d (map snd us) else Some d) as [rd|];
      [|inversion H; subst; exact Hi].
    destruct (kind_eqb (dkind rd) (dkind d)).
    + inversion H; subst. eapply own_update_vec; eassumption.
    + destruct (kind_eqb (dkind d) KInt && kind_eqb (dkind rd) KFloat).
      * inversion H; subst. eapply own_update_vec; eassumption.
      * inversion H; subst; exact Hi.
  - inversion H; subst. eapply own_update_vec; eassumption.
Qed.

Lemma set_cols_own ws : forall s chs s' out,
  set_cols s chs ws = (s', out) -> Inv_own s -> Inv_own s'.
Proof.
  induction ws as [|[[ci us] sid'] t IH]; intros s chs s' out H Hi; simpl in H.
  - inversion H; subst. exact Hi.
  - destruct (nth_error chs ci) as [ch|]; [|inversion H; subst; exact Hi].
    destruct (set_vec s ch us sid') as [s1 o1] eqn:E.
    pose proof (set_vec_own _ _ _ _ _ _ E Hi) as Hi1.
    destruct o1; try (inversion H; subst; exact Hi1). eapply IH; eassumption.
Qed.

(* allocation of fresh vectors *)
Lemma own_alloc_vec s h v r :
  aget (heap s) h = None -> Inv_own s -> Inv_own (mkSt (heap s ++ [(h, OV v)]) r).
Proof.
  intros Hf [Hl Hu].
  assert (Ht : forall ht t, gett (mkSt (heap s ++ [(h, OV v)]) r) ht = Some t -> gett s ht = Some t).
  { intros ht t. unfold gett. simpl. destruct (Nat.eq_dec ht h) as [->|Hne].
    - rewrite aget_app_none by exact Hf. discriminate.
    - rewrite aget_app_other by exact Hne. auto. }
  split.
  - intros ht t c Hg Hin. apply Ht in Hg. destruct (Hl ht t c Hg Hin) as [vc Hvc].
    exists vc. unfold getv in *. simpl.
    assert (c <> h). { intros ->. rewrite Hf in Hvc. discriminate. }
    rewrite aget_app_other by assumption. exact Hvc.
  - intros h1 h2 t1 t2 c H1 H2. apply Ht in H1. apply Ht in H2. eapply Hu; eassumption.
Qed.

Lemma alloc_cols_own built : forall s hs sids s',
  alloc_cols s built hs sids = Some s' -> Inv_own s ->
  Inv_own s' /\ (forall h, In h hs -> aget (heap s) h = None /\ exists v, getv s' h = Some v) /\
  (forall ht t, gett s' ht = Some t -> gett s ht = Some t) /\
  (forall ht t, gett s ht = Some t -> gett s' ht = Some t) /\
  (forall h, aget (heap s') h = None -> aget (heap s) h = None).
Proof.
  induction built as [|[[l n] d] bt IH]; intros s hs sids s' H Hi; simpl in H.
  - destruct hs; [|discriminate]. destruct sids; [|discriminate]. inversion H; subst.
    split; [exact Hi|]. split; [intros h []|]. split; [auto|]. split; auto.
  - destruct hs as [|h ht]; [discriminate|]. destruct sids as [|i it]; [discriminate|].
    destruct (aget (heap s) h) eqn:Hf; [discriminate|].
    set (s1 := mkSt (heap s ++ [(h, OV (mkVec l i n d None))]) (register (reg s) h i)) in *.
    assert (Hi1 : Inv_own s1) by (apply own_alloc_vec; assumption).
    destruct (IH _ _ _ _ H Hi1) as [Hi' [Hhs [Ht1 [Ht2 Hn]]]].
    assert (Hfr : forall x, aget (heap s1) x = None -> aget (heap s) x = None).
    { intros x. unfold s1. simpl. destruct (Nat.eq_dec x h) as [->|Hne].
      - rewrite aget_app_none by exact Hf. discriminate.
      - rewrite aget_app_other by exact Hne. auto. }
    split; [exact Hi'|]. split; [|split; [|split]].
    + intros x [<-|Hin].
      * split; [exact Hf|].
        assert (Hg1 : aget (heap s1) h = Some (OV (mkVec l i n d None))) by (unfold s1; simpl; apply aget_app_none; exact Hf).
        pose proof (alloc_cols_frame _ _ _ _ _ H _ _ Hg1) as Hg'. unfold getv. rewrite Hg'. eauto.
      * destruct (Hhs x Hin) as [Hx1 Hx2]. split; [apply Hfr; exact Hx1|exact Hx2].
    + intros ht0 t Hg. apply Ht1 in Hg. unfold gett, s1 in Hg. simpl in Hg. unfold gett.
      destruct (Nat.eq_dec ht0 h) as [->|Hne].
      * rewrite aget_app_none in Hg by exact Hf. discriminate.
      * rewrite aget_app_other in Hg by exact Hne. exact Hg.
    + intros ht0 t Hg. apply Ht2. unfold gett, s1. simpl. unfold gett in Hg.
      assert (ht0 <> h). { intros ->. rewrite Hf in Hg. discriminate. }
      rewrite aget_app_other by assumption. exact Hg.
    + intros x Hx. apply Hfr, Hn, Hx.
Qed.

Lemma In_firstn' {A} (l : list A) : forall n c, In c (firstn n l) -> In c l.
Proof.
  induction l as [|x t IH]; intros [|n] c H; simpl in *; try contradiction.
  destruct H as [->|H]; [left; reflexivity|right; eapply IH; exact H].
Qed.
Lemma In_skipn' {A} (l : list A) : forall n c, In c (skipn n l) -> In c l.
Proof.
  induction l as [|x t IH]; intros [|n] c H; simpl in *; try contradiction; auto.
  right. eapply IH. exact H.
Qed.
Lemma In_replace_nth {A} (l : list A) ci x c :
  In c (firstn ci l ++ x :: skipn (S ci) l) -> c = x \/ In c l.
Proof.
  rewrite in_app_iff. simpl. intros [H|[H|H]].
  - right. eapply In_firstn'. exact H.
  - left. auto.
  - right. eapply (In_skipn' l (S ci)). exact H.
Qed.

Theorem step_preserves_Inv_own s o s' out :
  step s o = (s', out) -> Inv_own s -> Inv_own s'.
Proof.
  intros H Hi. destruct o as [h c0 rn sid'|ht cs chs sids tsid'|h us sid'|ht ws|ht ci c0 h' sid' tsid'|h n|h|h|h|hs];
    unfold step in H; cbv beta iota in H.
  - (* ONewVec *)
    destruct (build_col s c0) as [[[l n] d]|]; [|inversion H; subst; exact Hi].
    destruct (alloc_cols s _ [h] [sid']) as [s1|] eqn:E; inversion H; subst; [|exact Hi].
    apply (alloc_cols_own _ _ _ _ _ E Hi).
  - (* ONewTab *)
    destruct (build_all s cs) as [built|]; [|inversion H; subst; exact Hi].
    destruct (negb (all_same_len built)); [inversion H; subst; exact Hi|].
    destruct (alloc_cols s built chs sids) as [s1|] eqn:E; [|inversion H; subst; exact Hi].
    destruct (alloc_cols_own _ _ _ _ _ E Hi) as [[Hl1 Hu1] [Hhs [Ht1 [Ht2 Hn]]]].
    destruct (aget (heap s1) ht) eqn:Hf; inversion H; subst; [exact Hi|].
    assert (Hgt : forall x t, gett (mkSt (heap s1 ++ [(ht, OT (mkTab chs tsid' None None))]) (register (reg s1) ht tsid')) x = Some t ->
                  (x = ht /\ t = mkTab chs tsid' None None) \/ (x <> ht /\ gett s1 x = Some t)).
    { intros x t. unfold gett. simpl. destruct (Nat.eq_dec x ht) as [->|Hne].
      - rewrite aget_app_none by exact Hf. intros E1. inversion E1. left. auto.
      - rewrite aget_app_other by exact Hne. auto. }
    assert (Hgv : forall c v, getv s1 c = Some v ->
                  getv (mkSt (heap s1 ++ [(ht, OT (mkTab chs tsid' None None))]) (register (reg s1) ht tsid')) c = Some v).
    { intros c v. unfold getv. simpl. intros Hc.
      assert (c <> ht). { intros ->. rewrite Hf in Hc. discriminate. }
      rewrite aget_app_other by assumption. exact Hc. }
    split.
    + intros x t c Hg Hin. destruct (Hgt x t Hg) as [[-> ->]|[Hne Hg1]].
      * simpl in Hin. destruct (Hhs c Hin) as [_ [v Hv]]. exists v. apply Hgv. exact Hv.
      * destruct (Hl1 x t c Hg1 Hin) as [v Hv]. exists v. apply Hgv. exact Hv.
    + intros h1 h2 t1 t2 c H1 H2 Hin1 Hin2.
      destruct (Hgt h1 t1 H1) as [[-> ->]|[Hne1 Hg1]]; destruct (Hgt h2 t2 H2) as [[-> ->]|[Hne2 Hg2]]; auto.
      * exfalso. simpl in Hin1. destruct (Hhs c Hin1) as [Hfresh _].
        destruct Hi as [Hl Hu]. destruct (Hl h2 t2 c (Ht1 _ _ Hg2) Hin2) as [v Hv].
        apply getv_aget in Hv. congruence.
      * exfalso. simpl in Hin2. destruct (Hhs c Hin2) as [Hfresh _].
        destruct Hi as [Hl Hu]. destruct (Hl h1 t1 c (Ht1 _ _ Hg1) Hin1) as [v Hv].
        apply getv_aget in Hv. congruence.
      * eapply Hu1; eassumption.
  - eapply set_vec_own; eassumption.
  - destruct (gett s ht); [|inversion H; subst; exact Hi]. eapply set_cols_own; eassumption.
  - (* OSetAttr *)
    destruct (gett s ht) as [t|] eqn:Hgt0; [|inversion H; subst; exact Hi].
    destruct (build_col s c0) as [[[l n] d]|]; [|inversion H; subst; exact Hi].
    destruct (nth_error (cols t) ci) as [old|]; [|inversion H; subst; exact Hi].
    destruct (negb (Nat.eqb (List.length l) _)); [inversion H; subst; exact Hi|].
    destruct (alloc_cols s _ [h'] [sid']) as [s1|] eqn:E; [|inversion H; subst; exact Hi].
    destruct (alloc_cols_own _ _ _ _ _ E Hi) as [[Hl1 Hu1] [Hhs [Ht1 [Ht2 Hn]]]].
    destruct (Hhs h' (or_introl eq_refl)) as [Hfresh [vnew Hvnew]].
    inversion H; subst. clear H.
    set (t' := mkTab (firstn ci (cols t) ++ h' :: skipn (S ci) (cols t)) tsid' (tnm t) (tfp t)).
    pose proof (Ht2 _ _ Hgt0) as Hgt1.
    assert (Hgt : forall x tx, gett (mkSt (aset (heap s1) ht (OT t')) (register (unregister (reg s1) ht (tsid t)) ht tsid')) x = Some tx ->
                  (x = ht /\ tx = t') \/ (x <> ht /\ gett s1 x = Some tx)).
    { intros x tx. destruct (Nat.eq_dec x ht) as [->|Hne].
      - rewrite gett_aset_same_t. intros E1. inversion E1. left. auto.
      - rewrite gett_aset_other by exact Hne. auto. }
    assert (Hgv : forall c v, getv s1 c = Some v ->
                  getv (mkSt (aset (heap s1) ht (OT t')) (register (unregister (reg s1) ht (tsid t)) ht tsid')) c = Some v).
    { intros c v Hc. rewrite getv_aset_other; [exact Hc|]. intros ->.
      apply getv_aget in Hc. apply gett_aget in Hgt1. congruence. }
    split.
    + intros x tx c Hg Hin. destruct (Hgt x tx Hg) as [[-> ->]|[Hne Hg1]].
      * unfold t' in Hin. simpl in Hin. apply In_replace_nth in Hin. destruct Hin as [->|Hin].
        -- exists vnew. apply Hgv. exact Hvnew.
        -- destruct (Hl1 ht t c Hgt1 Hin) as [v Hv]. exists v. apply Hgv. exact Hv.
      * destruct (Hl1 x tx c Hg1 Hin) as [v Hv]. exists v. apply Hgv. exact Hv.
    + intros h1 h2 t1 t2 c H1 H2 Hin1 Hin2.
      assert (Hnew_not_old : forall x tx, gett s1 x = Some tx -> ~ In h' (cols tx)).
      { intros x tx Hx Hin. destruct Hi as [Hl Hu]. destruct (Hl x tx h' (Ht1 _ _ Hx) Hin) as [v Hv].
        apply getv_aget in Hv. congruence. }
      destruct (Hgt h1 t1 H1) as [[-> ->]|[Hne1 Hg1]]; destruct (Hgt h2 t2 H2) as [[-> ->]|[Hne2 Hg2]]; auto.
      * unfold t' in Hin1. simpl in Hin1. apply In_replace_nth in Hin1. destruct Hin1 as [->|Hin1].
        -- exfalso. eapply Hnew_not_old; eassumption.
        -- eapply Hu1; eassumption.
      * unfold t' in Hin2. simpl in Hin2. apply In_replace_nth in Hin2. destruct Hin2 as [->|Hin2].
        -- exfalso. eapply Hnew_not_old; eassumption.
        -- eapply Hu1; eassumption.
      * eapply Hu1; eassumption.
  - (* ORename *)
    destruct (aget (heap s) h) as [[v|t]|] eqn:Hg; inversion H; subst; try exact Hi.
    + eapply own_update_vec; [|exact Hi]. unfold getv. rewrite Hg. reflexivity.
    + (* renaming a table keeps its columns *)
      destruct Hi as [Hl Hu].
      assert (Hgt : forall x tx, gett (mkSt (aset (heap s) h (OT (mkTab (cols t) (tsid t) n (tfp t)))) (reg s)) x = Some tx ->
                    exists tx0, gett s x = Some tx0 /\ cols tx0 = cols tx).
      { intros x tx. destruct (Nat.eq_dec x h) as [->|Hne].
        - rewrite gett_aset_same_t. intros E1. inversion E1; subst. exists t. unfold gett. rewrite Hg. auto.
        - rewrite gett_aset_other by exact Hne. eauto. }
      split.
      * intros x tx c Hx Hin. destruct (Hgt x tx Hx) as [tx0 [Hx0 Hc]]. rewrite <- Hc in Hin.
        destruct (Hl x tx0 c Hx0 Hin) as [v Hv]. exists v. rewrite getv_aset_other; [exact Hv|].
        intros ->. apply getv_aget in Hv. congruence.
      * intros h1 h2 t1 t2 c H1 H2 Hin1 Hin2.
        destruct (Hgt h1 t1 H1) as [ta [Ha Hca]]. destruct (Hgt h2 t2 H2) as [tb [Hb Hcb]].
        rewrite <- Hca in Hin1. rewrite <- Hcb in Hin2. eapply Hu; eassumption.
  - (* OFp *)
    destruct (aget (heap s) h) as [[v|t]|] eqn:Hg; inversion H; subst; try exact Hi.
    + eapply own_update_vec; [|exact Hi]. unfold getv. rewrite Hg. reflexivity.
    + assert (Hm : forall cs hp, Inv_own (mkSt hp (reg s)) -> aget hp h = Some (OT t) ->
                 Inv_own (mkSt (fold_left memo_col cs hp) (reg s)) /\ aget (fold_left memo_col cs hp) h = Some (OT t)).
      { induction cs as [|c cs IH]; intros hp Hhp Hgt; simpl; [auto|].
        apply IH.
        - unfold memo_col. destruct (aget hp c) as [[vc|tc]|] eqn:Hc; try exact Hhp.
          destruct (vfp vc); [exact Hhp|].
          apply (own_update_vec (mkSt hp (reg s)) c vc); [unfold getv; simpl; rewrite Hc; reflexivity|exact Hhp].
        - unfold memo_col. destruct (aget hp c) as [[vc|tc]|] eqn:Hc; try exact Hgt.
          destruct (vfp vc); [exact Hgt|].
          rewrite aget_aset_other; [exact Hgt|]. intros ->. congruence. }
      destruct (Hm (cols t) (heap s)) as [[Hl Hu] Hg2]; [destruct s; exact Hi|exact Hg|].
      set (hp := fold_left memo_col (cols t) (heap s)) in *.
      assert (Hgt : forall x tx, gett (mkSt (aset hp h (OT (mkTab (cols t) (tsid t) (tnm t) (Some (fp_hashes (map (fun h0 => match getv s h0 with Some v => match vfp v with Some x => x | None => fp_vals (vals v) end | None => 0%Z end) (cols t))))))) (reg s)) x = Some tx ->
                    exists tx0, gett (mkSt hp (reg s)) x = Some tx0 /\ cols tx0 = cols tx).
      { intros x tx. destruct (Nat.eq_dec x h) as [->|Hne].
        - rewrite (gett_aset_same_t (mkSt hp (reg s))). intros E1. inversion E1; subst. exists t. unfold gett. simpl. rewrite Hg2. auto.
        - rewrite (gett_aset_other (mkSt hp (reg s))) by exact Hne. eauto. }
      split.
      * intros x tx c Hx Hin. destruct (Hgt x tx Hx) as [tx0 [Hx0 Hc]]. rewrite <- Hc in Hin.
        destruct (Hl x tx0 c Hx0 Hin) as [v Hv]. exists v. rewrite (getv_aset_other (mkSt hp (reg s))); [exact Hv|].
        intros ->. apply getv_aget in Hv. simpl in Hv. congruence.
      * intros h1 h2 t1 t2 c H1 H2 Hin1 Hin2.
        destruct (Hgt h1 t1 H1) as [ta [Ha Hca]]. destruct (Hgt h2 t2 H2) as [tb [Hb Hcb]].
        rewrite <- Hca in Hin1. rewrite <- Hcb in Hin2. eapply Hu; eassumption.
  - destruct (aget (heap s) h); inversion H; subst; exact Hi.
  - destruct (getv s h) as [v|]; [|inversion H; subst; exact Hi].
    destruct (negb (check_writable (reg s) (sid v))); inversion H; subst; exact Hi.
  - (* OCollect *)
    destruct (forallb _ (heap s)) eqn:Hall; inversion H; subst; [|exact Hi].
    destruct Hi as [Hl Hu].
    assert (Hgt : forall x tx, gett (collect s hs) x = Some tx -> gett s x = Some tx /\ mem x hs = false).
    { intros x tx. unfold gett. rewrite aget_collect. destruct (mem x hs); [discriminate|auto]. }
    split.
    + intros x tx c Hx Hin. destruct (Hgt x tx Hx) as [Hx0 Hmx].
      destruct (Hl x tx c Hx0 Hin) as [v Hv]. exists v. unfold getv. rewrite aget_collect.
      (* the model's guard: a surviving table has no collected column *)
      rewrite forallb_forall in Hall.
      assert (Hin_heap : In (x, OT tx) (heap s)).
      { apply gett_aget in Hx0. clear -Hx0. induction (heap s) as [|[k a] tl IH]; simpl in *; [discriminate|].
        destruct (Nat.eqb_spec x k); [inversion Hx0; subst; left; reflexivity|right; auto]. }
      specialize (Hall _ Hin_heap). simpl in Hall. rewrite Hmx in Hall. simpl in Hall.
      apply negb_true_iff in Hall.
      assert (Hmc : mem c hs = false).
      { destruct (mem c hs) eqn:Emc; [|reflexivity]. exfalso.
        assert (existsb (fun c0 => mem c0 hs) (cols tx) = true) by (apply existsb_exists; exists c; auto).
        congruence. }
      rewrite Hmc. apply getv_aget in Hv. rewrite Hv. reflexivity.
    + intros h1 h2 t1 t2 c H1 H2. apply Hgt in H1. apply Hgt in H2. destruct H1, H2. eapply Hu; eassumption.
Qed.

Theorem reachable_Inv_own os : forall s, Inv_own s -> Inv_own (run s os).
Proof.
  induction os as [|o t IH]; intros s Hi; simpl; [exact Hi|].
  apply IH. destruct (step s o) as [s' out] eqn:E. simpl. eapply step_preserves_Inv_own; eassumption.
Qed.

(* C01, as the property states it: a write through a vector handle h changes the contents
   seen through h and through the ONE table (if any) that holds h as a column; every other
   vector, and every table not holding h, shows exactly its previous contents, names, dtypes. *)
Definition deep_view (s : state) (h : handle) : option (obj * list (option obj)) :=
  match aget (heap s) h with
  | Some (OT t) => Some (strip (OT t), map (fun c => option_map strip (aget (heap s) c)) (cols t))
  | Some o => Some (strip o, [])
  | None => None
  end.

Theorem write_stays_local s h us sid' s' out h2 :
  Inv_own s -> step s (OSetV h us sid') = (s', out) ->
  h2 <> h -> (forall t, gett s h2 = Some t -> ~ In h (cols t)) ->
  deep_view s' h2 = deep_view s h2.
Proof.
  intros Hi H Hne Hnot. unfold deep_view.
  destruct (aget (heap s) h2) as [o2|] eqn:Hg.
  - assert (Hh2 : ~ In h2 (touched s (OSetV h us sid'))) by (simpl; intros [E|[]]; congruence).
    pose proof (step_frame _ _ _ _ _ _ H Hg Hh2 (fun x => x)) as Hf.
    simpl in H. destruct (set_vec_frame _ _ _ _ _ _ H) as [Hfr _].
    rewrite (Hfr h2 Hne), Hg.
    destruct o2 as [v2|t2]; [reflexivity|].
    f_equal. f_equal. apply map_ext_in. intros c Hin.
    rewrite Hfr; [reflexivity|]. intros ->. eapply (Hnot t2); [unfold gett; rewrite Hg; reflexivity|exact Hin].
  - simpl in H. destruct (set_vec_frame _ _ _ _ _ _ H) as [Hfr _]. rewrite (Hfr h2 Hne), Hg. reflexivity.
Qed.

Theorem at_most_one_table_sees_a_write s h t1 t2 h1 h2 :
  Inv_own s -> gett s h1 = Some t1 -> gett s h2 = Some t2 -> In h (cols t1) -> In h (cols t2) -> h1 = h2.
Proof. intros [_ Hu]. apply Hu. Qed.
