(* Proofs/HeapRect.v — C02: every table of every reachable state is rectangular. *)
From Coq Require Import List Bool Arith Lia ZArith.
From Serif Require Import Base.PyVal Model.Dtype Model.Heap Proofs.HeapBase Proofs.HeapReg Proofs.HeapFrame.
Import ListNotations.

Definition Inv_rect (s : state) : Prop :=
  forall ht t c1 c2 v1 v2, gett s ht = Some t -> In c1 (cols t) -> In c2 (cols t) ->
    getv s c1 = Some v1 -> getv s c2 = Some v2 -> List.length (vals v1) = List.length (vals v2).

Lemma Inv_rect_init : Inv_rect init.
Proof. intros ht t c1 c2 v1 v2 H. unfold gett in H. simpl in H. discriminate. Qed.

Lemma rect_transfer s s' :
  Inv_rect s ->
  (forall ht t', gett s' ht = Some t' -> exists t, gett s ht = Some t /\ cols t = cols t') ->
  (forall ht t c v', gett s ht = Some t -> In c (cols t) -> getv s' c = Some v' ->
                     exists v, getv s c = Some v /\ List.length (vals v') = List.length (vals v)) ->
  Inv_rect s'.
Proof.
  intros Hi Ht Hc ht t' c1 c2 v1' v2' Hg Hin1 Hin2 Hv1 Hv2.
  destruct (Ht ht t' Hg) as [t [Hgt Hcols]]. rewrite <- Hcols in Hin1, Hin2.
  destruct (Hc ht t c1 v1' Hgt Hin1 Hv1) as [v1 [Hv1s Hl1]].
  destruct (Hc ht t c2 v2' Hgt Hin2 Hv2) as [v2 [Hv2s Hl2]].
  rewrite Hl1, Hl2. apply (Hi ht t c1 c2 v1 v2); assumption.
Qed.

Lemma apply_updates_length us : forall l,
  forallb (fun u => Nat.ltb (fst u) (List.length l)) us = true ->
  List.length (apply_updates l us) = List.length l.
Proof.
  induction us as [|[i v] t IH]; intros l H; cbn [apply_updates forallb fst] in *; [reflexivity|].
  apply andb_true_iff in H. destruct H as [Hi Ht]. apply Nat.ltb_lt in Hi.
  assert (Hl : List.length (firstn i l ++ v :: skipn (S i) l) = List.length l).
  { rewrite app_length. cbn [List.length]. rewrite firstn_length, skipn_length. lia. }
  rewrite IH; [exact Hl|]. rewrite Hl. exact Ht.
Qed.

Lemma set_vec_len s h us sid' s' out :
  set_vec s h us sid' = (s', out) ->
  (forall ht, gett s' ht = gett s ht) /\
  (forall c v', getv s' c = Some v' -> exists v, getv s c = Some v /\ List.length (vals v') = List.length (vals v)).
Proof.
  unfold set_vec. intros H.
  assert (Hid : (forall ht, gett s ht = gett s ht) /\
                (forall c v', getv s c = Some v' -> exists v, getv s c = Some v /\ List.length (vals v') = List.length (vals v)))
    by (split; [reflexivity|intros c v' E; exists v'; auto]).
  destruct (getv s h) as [v|] eqn:Hv; [|inversion H; subst; exact Hid].
  destruct (negb (check_writable (reg s) (sid v))); [inversion H; subst; exact Hid|].
  destruct (forallb (fun u => Nat.ltb (fst u) (List.length (vals v))) us) eqn:Hb; simpl in H;
    [|inversion H; subst; exact Hid].
  assert (Hgen : forall base d'' , List.length base = List.length (vals v) ->
     let s2 := mkSt (aset (heap s) h (OV (mkVec (apply_updates base us) sid' (nm v) d'' None)))
                    (register (unregister (reg s) h (sid v)) h sid') in
     (forall ht, gett s2 ht = gett s ht) /\
     (forall c v', getv s2 c = Some v' -> exists v0, getv s c = Some v0 /\ List.length (vals v') = List.length (vals v0))).
  { intros base d'' Hl s2. split.
    - intros ht. unfold s2. rewrite gett_aset_v. destruct (Nat.eqb_spec ht h) as [->|Hne]; [|reflexivity].
      unfold gett. rewrite (getv_aget _ _ _ Hv). reflexivity.
    - intros c v'. unfold s2. destruct (Nat.eq_dec c h) as [->|Hne].
      + rewrite getv_aset_same. intros E. inversion E; subst. exists v. split; [exact Hv|]. simpl.
        rewrite apply_updates_length; [exact Hl|]. rewrite Hl. exact Hb.
      + rewrite getv_aset_other by exact Hne. intros E. exists v'. auto. }
  destruct (dt v) as [d|].
  - destruct (if negb (Nat.eqb (List.length us) 0) then required_dtype d (map snd us) else Some d) as [rd|];
      [|inversion H; subst; exact Hid].
    destruct (kind_eqb (dkind rd) (dkind d)).
    + inversion H; subst. apply Hgen. reflexivity.
    + destruct (kind_eqb (dkind d) KInt && kind_eqb (dkind rd) KFloat).
      * inversion H; subst. apply Hgen. apply map_length.
      * inversion H; subst; exact Hid.
  - inversion H; subst. apply Hgen. reflexivity.
Qed.

Lemma set_vec_rect s h us sid' s' out : set_vec s h us sid' = (s', out) -> Inv_rect s -> Inv_rect s'.
Proof.
  intros H Hi. destruct (set_vec_len _ _ _ _ _ _ H) as [Ht Hc].
  eapply rect_transfer; [exact Hi| |].
  - intros ht t' Hg. exists t'. rewrite <- Ht. auto.
  - intros ht t c v' _ _ Hv'. apply Hc. exact Hv'.
Qed.

Lemma set_cols_rect ws : forall s chs s' out, set_cols s chs ws = (s', out) -> Inv_rect s -> Inv_rect s'.
Proof.
  induction ws as [|[[ci us] sid'] t IH]; intros s chs s' out H Hi; simpl in H.
  - inversion H; subst. exact Hi.
  - destruct (nth_error chs ci) as [ch|]; [|inversion H; subst; exact Hi].
    destruct (set_vec s ch us sid') as [s1 o1] eqn:E.
    pose proof (set_vec_rect _ _ _ _ _ _ E Hi) as Hi1.
    destruct o1; try (inversion H; subst; exact Hi1). eapply IH; eassumption.
Qed.

(* the vectors allocated for a list of built columns carry exactly those contents *)
Lemma alloc_cols_vals built : forall s hs sids s',
  alloc_cols s built hs sids = Some s' ->
  forall c v, In c hs -> getv s' c = Some v -> exists b, In b built /\ vals v = fst (fst b).
Proof.
  induction built as [|[[l n] d] bt IH]; intros s hs sids s' H c v Hin Hv; simpl in H.
  - destruct hs; [contradiction|discriminate].
  - destruct hs as [|h ht]; [discriminate|]. destruct sids as [|i it]; [discriminate|].
    destruct (aget (heap s) h) eqn:Hf; [discriminate|].
    set (s1 := mkSt (heap s ++ [(h, OV (mkVec l i n d None))]) (register (reg s) h i)) in *.
    destruct (Nat.eq_dec c h) as [->|Hne].
    + assert (Hg1 : aget (heap s1) h = Some (OV (mkVec l i n d None))) by (unfold s1; simpl; apply aget_app_none; exact Hf).
      pose proof (alloc_cols_frame _ _ _ _ _ H _ _ Hg1) as Hg'. unfold getv in Hv. rewrite Hg' in Hv.
      inversion Hv; subst. exists (l, n, d). split; [left; reflexivity|reflexivity].
    + destruct Hin as [->|Hin]; [contradiction|].
      destruct (IH _ _ _ _ H c v Hin Hv) as [b [Hb Hvb]]. exists b. split; [right; exact Hb|exact Hvb].
Qed.

Lemma all_same_len_spec built b1 b2 :
  all_same_len built = true -> In b1 built -> In b2 built ->
  List.length (fst (fst b1)) = List.length (fst (fst b2)).
Proof.
  unfold all_same_len. destruct built as [|[[l n] d] t]; [intros _ []|].
  intros H H1 H2. rewrite forallb_forall in H.
  assert (Hx : forall b, In b ((l, n, d) :: t) -> List.length (fst (fst b)) = List.length l).
  { intros b [<-|Hb]; [reflexivity|]. apply Nat.eqb_eq. apply H. exact Hb. }
  rewrite (Hx b1 H1), (Hx b2 H2). reflexivity.
Qed.

Theorem step_preserves_Inv_rect s o s' out :
  step s o = (s', out) -> Inv_own s -> Inv_rect s -> Inv_rect s'.
Proof.
  intros H Ho Hi.
  destruct o as [h c0 rn sid'|ht cs chs sids tsid'|h us sid'|ht ws|ht ci c0 h' sid' tsid'|h n|h|h|h|hs];
    unfold step in H; cbv beta iota in H.
  - (* ONewVec *)
    destruct (build_col s c0) as [[[l n] d]|]; [|inversion H; subst; exact Hi].
    destruct (alloc_cols s _ [h] [sid']) as [s1|] eqn:E; inversion H; subst; [|exact Hi].
    destruct (alloc_cols_own _ _ _ _ _ E Ho) as [_ [_ [Ht1 [_ _]]]].
    eapply rect_transfer; [exact Hi| |].
    + intros ht t' Hg. exists t'. auto.
    + intros ht t c v' Hg Hin Hv'. destruct Ho as [Hl _]. destruct (Hl ht t c Hg Hin) as [v Hv].
      exists v. split; [exact Hv|].
      pose proof (alloc_cols_frame _ _ _ _ _ E _ _ (getv_aget _ _ _ Hv)) as Hf.
      unfold getv in Hv'. rewrite Hf in Hv'. inversion Hv'. reflexivity.
  - (* ONewTab *)
    destruct (build_all s cs) as [built|]; [|inversion H; subst; exact Hi].
    destruct (all_same_len built) eqn:Hsame; cbn [negb] in H; [|inversion H; subst; exact Hi].
    destruct (alloc_cols s built chs sids) as [s1|] eqn:E; [|inversion H; subst; exact Hi].
    destruct (alloc_cols_own _ _ _ _ _ E Ho) as [_ [Hhs [Ht1 [_ _]]]].
    destruct (aget (heap s1) ht) eqn:Hf; inversion H; subst; [exact Hi|].
    assert (Hi1 : Inv_rect s1).
    { eapply rect_transfer; [exact Hi| |].
      - intros x t' Hg. exists t'. auto.
      - intros x t c v' Hg Hin Hv'. destruct Ho as [Hl _]. destruct (Hl x t c Hg Hin) as [v Hv].
        exists v. split; [exact Hv|].
        pose proof (alloc_cols_frame _ _ _ _ _ E _ _ (getv_aget _ _ _ Hv)) as Hfr.
        unfold getv in Hv'. rewrite Hfr in Hv'. inversion Hv'. reflexivity. }
    intros x t c1 c2 v1 v2. unfold gett, getv. simpl.
    assert (Hgv : forall c, c <> ht -> aget (heap s1 ++ [(ht, OT (mkTab chs tsid' None None))]) c = aget (heap s1) c)
      by (intros; apply aget_app_other; assumption).
    destruct (Nat.eq_dec x ht) as [->|Hne].
    + rewrite aget_app_none by exact Hf. intros Et. inversion Et; subst. simpl. intros Hin1 Hin2 Hv1 Hv2.
      assert (Hc1 : c1 <> ht). { intros ->. rewrite aget_app_none in Hv1 by exact Hf. discriminate. }
      assert (Hc2 : c2 <> ht). { intros ->. rewrite aget_app_none in Hv2 by exact Hf. discriminate. }
      rewrite Hgv in Hv1, Hv2 by assumption.
      destruct (alloc_cols_vals _ _ _ _ _ E c1 v1 Hin1 Hv1) as [b1 [Hb1 Hl1]].
      destruct (alloc_cols_vals _ _ _ _ _ E c2 v2 Hin2 Hv2) as [b2 [Hb2 Hl2]].
      rewrite Hl1, Hl2. eapply all_same_len_spec; eassumption.
    + rewrite aget_app_other by exact Hne. intros Hg Hin1 Hin2 Hv1 Hv2.
      assert (Hc : forall c v, match aget (heap s1 ++ [(ht, OT (mkTab chs tsid' None None))]) c with
                               | Some (OV v0) => Some v0 | _ => None end = Some v -> getv s1 c = Some v).
      { intros c v. unfold getv. destruct (Nat.eq_dec c ht) as [->|Hc].
        - rewrite aget_app_none by exact Hf. discriminate.
        - rewrite Hgv by exact Hc. auto. }
      eapply (Hi1 x t c1 c2); [exact Hg|exact Hin1|exact Hin2|apply Hc; exact Hv1|apply Hc; exact Hv2].
  - eapply set_vec_rect; eassumption.
  - destruct (gett s ht); [|inversion H; subst; exact Hi]. eapply set_cols_rect; eassumption.
  - (* OSetAttr *)
    destruct (gett s ht) as [t|] eqn:Hgt0; [|inversion H; subst; exact Hi].
    destruct (build_col s c0) as [[[l n] d]|]; [|inversion H; subst; exact Hi].
    destruct (nth_error (cols t) ci) as [old|] eqn:Hold; [|inversion H; subst; exact Hi].
    destruct (Nat.eqb (List.length l) _) eqn:Hlen; cbn [negb] in H; [|inversion H; subst; exact Hi].
    destruct (alloc_cols s _ [h'] [sid']) as [s1|] eqn:E; [|inversion H; subst; exact Hi].
    destruct (alloc_cols_own _ _ _ _ _ E Ho) as [_ [Hhs [Ht1 [Ht2 _]]]].
    inversion H; subst. clear H.
    apply Nat.eqb_eq in Hlen.
    pose proof Ho as [Hlive _].
    assert (Hold_in : In old (cols t)) by (eapply nth_error_In; exact Hold).
    destruct (Hlive ht t old Hgt0 Hold_in) as [vold Hvold]. rewrite Hvold in Hlen.
    assert (Hfr : forall c v, getv s c = Some v -> getv s1 c = Some v).
    { intros c v Hv. unfold getv. rewrite (alloc_cols_frame _ _ _ _ _ E _ _ (getv_aget _ _ _ Hv)). reflexivity. }
    destruct (Hhs h' (or_introl eq_refl)) as [Hfresh [vnew Hvnew]].
    assert (Hnewlen : List.length (vals vnew) = List.length (vals vold)).
    { destruct (alloc_cols_vals _ _ _ _ _ E h' vnew (or_introl eq_refl) Hvnew) as [b [[<-|[]] Hb]].
      simpl in Hb. rewrite Hb. exact Hlen. }
    pose proof (Ht2 _ _ Hgt0) as Hgt1.
    intros x tx c1 c2 v1 v2 Hg Hin1 Hin2 Hv1 Hv2.
    assert (Hcv : forall c v, c <> ht ->
              getv (mkSt (aset (heap s1) ht (OT (mkTab (firstn ci (cols t) ++ h' :: skipn (S ci) (cols t)) tsid' (tnm t) (tfp t))))
                         (register (unregister (reg s1) ht (tsid t)) ht tsid')) c = Some v -> getv s1 c = Some v).
    { intros c v Hc. rewrite getv_aset_other by exact Hc. auto. }
    assert (Hnt : forall c v, getv (mkSt (aset (heap s1) ht (OT (mkTab (firstn ci (cols t) ++ h' :: skipn (S ci) (cols t)) tsid' (tnm t) (tfp t))))
                         (register (unregister (reg s1) ht (tsid t)) ht tsid')) c = Some v -> c <> ht).
    { intros c v Hv ->. unfold getv in Hv. simpl in Hv. rewrite aget_aset_same in Hv. discriminate. }
    pose proof (Hcv _ _ (Hnt _ _ Hv1) Hv1) as Hv1s. pose proof (Hcv _ _ (Hnt _ _ Hv2) Hv2) as Hv2s.
    (* every column of any table of s1 that is live in s has its old length; h' has vold's length *)
    assert (Hcol_len : forall c v, getv s1 c = Some v -> (c = h' \/ In c (cols t)) ->
                       List.length (vals v) = List.length (vals vold)).
    { intros c v Hv [->|Hin].
      - rewrite Hvnew in Hv. inversion Hv; subst. exact Hnewlen.
      - destruct (Hlive ht t c Hgt0 Hin) as [vc Hvc]. rewrite (Hfr _ _ Hvc) in Hv. inversion Hv; subst.
        eapply Hi; [exact Hgt0|exact Hin|exact Hold_in|exact Hvc|exact Hvold]. }
    destruct (Nat.eq_dec x ht) as [->|Hne].
    + rewrite gett_aset_same_t in Hg. inversion Hg; subst. simpl in Hin1, Hin2.
      apply In_replace_nth in Hin1. apply In_replace_nth in Hin2.
      rewrite (Hcol_len c1 v1 Hv1s Hin1), (Hcol_len c2 v2 Hv2s Hin2). reflexivity.
    + rewrite gett_aset_other in Hg by exact Hne.
      pose proof (Ht1 _ _ Hg) as Hg0.
      destruct (Hlive x tx c1 Hg0 Hin1) as [w1 Hw1]. destruct (Hlive x tx c2 Hg0 Hin2) as [w2 Hw2].
      rewrite (Hfr _ _ Hw1) in Hv1s. rewrite (Hfr _ _ Hw2) in Hv2s. inversion Hv1s; inversion Hv2s; subst.
      apply (Hi x tx c1 c2 v1 v2); assumption.
  - (* ORename *)
    destruct (aget (heap s) h) as [[v|t]|] eqn:Hg; inversion H; subst; try exact Hi.
    + eapply rect_transfer; [exact Hi| |].
      * intros x t' Hx. rewrite gett_aset_v in Hx. destruct (Nat.eqb x h); [discriminate|]. exists t'. auto.
      * intros x t c v' _ _ Hv'. destruct (Nat.eq_dec c h) as [->|Hne].
        -- rewrite getv_aset_same in Hv'. inversion Hv'; subst. exists v. unfold getv. rewrite Hg. auto.
        -- rewrite getv_aset_other in Hv' by exact Hne. exists v'. auto.
    + eapply rect_transfer; [exact Hi| |].
      * intros x t' Hx. destruct (Nat.eq_dec x h) as [->|Hne].
        -- rewrite gett_aset_same_t in Hx. inversion Hx; subst. exists t. unfold gett. rewrite Hg. auto.
        -- rewrite gett_aset_other in Hx by exact Hne. exists t'. auto.
      * intros x t0 c v' _ _ Hv'. exists v'. split; [|reflexivity].
        destruct (Nat.eq_dec c h) as [->|Hne].
        -- unfold getv in Hv'. simpl in Hv'. rewrite aget_aset_same in Hv'. discriminate.
        -- rewrite getv_aset_other in Hv' by exact Hne. exact Hv'.
  - (* OFp *)
    assert (Hfrm : forall h2 o2, aget (heap s) h2 = Some o2 -> option_map strip (aget (heap s') h2) = Some (strip o2)).
    { intros h2 o2 Hg2. eapply (step_frame s (OFp h)); [unfold step; exact H|exact Hg2|intros []|intros []]. }
    assert (Hnew : forall h2, aget (heap s) h2 = None -> aget (heap s') h2 = None).
    { intros h2 Hn. destruct (aget (heap s) h) as [[v|t]|] eqn:Hg; inversion H; subst; try exact Hn.
      - simpl. rewrite aget_aset_other; [exact Hn|]. intros ->. congruence.
      - simpl. rewrite aget_aset_other; [|intros ->; congruence].
        assert (Hm : forall cs hp, aget hp h2 = None -> aget (fold_left memo_col cs hp) h2 = None).
        { induction cs as [|c cs IH]; intros hp Hp; simpl; [exact Hp|]. apply IH. unfold memo_col.
          destruct (aget hp c) as [[vc|tc]|] eqn:Hc; try exact Hp. destruct (vfp vc); [exact Hp|].
          rewrite aget_aset_other; [exact Hp|]. intros ->. congruence. }
        apply Hm. exact Hn. }
    eapply rect_transfer; [exact Hi| |].
    + intros x t' Hx. unfold gett in Hx. destruct (aget (heap s) x) as [o2|] eqn:Hg2.
      * pose proof (Hfrm _ _ Hg2) as Hs. destruct (aget (heap s') x) as [[v'|t'']|]; try discriminate.
        inversion Hx; subst. destruct o2 as [v2|t2]; simpl in Hs; inversion Hs. exists t2. unfold gett. rewrite Hg2. auto.
      * rewrite (Hnew _ Hg2) in Hx. discriminate.
    + intros x t c v' _ _ Hv'. unfold getv in Hv'. destruct (aget (heap s) c) as [o2|] eqn:Hg2.
      * pose proof (Hfrm _ _ Hg2) as Hs. destruct (aget (heap s') c) as [[v''|t'']|]; try discriminate.
        inversion Hv'; subst. destruct o2 as [v2|t2]; simpl in Hs; inversion Hs. exists v2. unfold getv. rewrite Hg2.
        split; [reflexivity|]. congruence.
      * rewrite (Hnew _ Hg2) in Hv'. discriminate.
  - destruct (aget (heap s) h); inversion H; subst; exact Hi.
  - destruct (getv s h) as [v|]; [|inversion H; subst; exact Hi].
    destruct (negb (check_writable (reg s) (sid v))); inversion H; subst; exact Hi.
  - destruct (forallb _ (heap s)); inversion H; subst; [|exact Hi].
    eapply rect_transfer; [exact Hi| |].
    + intros x t' Hx. unfold gett in Hx. rewrite aget_collect in Hx. destruct (mem x hs); [discriminate|]. exists t'. auto.
    + intros x t c v' _ _ Hv'. unfold getv in Hv'. rewrite aget_collect in Hv'. destruct (mem c hs); [discriminate|].
      exists v'. auto.
Qed.

Theorem reachable_rect os : forall s, Inv_own s -> Inv_rect s -> Inv_rect (run s os).
Proof.
  induction os as [|o t IH]; intros s Ho Hi; simpl; [exact Hi|].
  destruct (step s o) as [s' out] eqn:E. simpl. apply IH.
  - eapply step_preserves_Inv_own; eassumption.
  - eapply step_preserves_Inv_rect; eassumption.
Qed.

(* ragged input is rejected, never stored *)
Theorem ragged_rejected s ht cs chs sids tsid' built :
  build_all s cs = Some built -> all_same_len built = false ->
  step s (ONewTab ht cs chs sids tsid') = (s, ErrOther).
Proof. intros Hb Hs. unfold step. rewrite Hb, Hs. reflexivity. Qed.

Theorem wrong_length_column_rejected s ht ci c h' sid' tsid' t l n d old vold :
  gett s ht = Some t -> build_col s c = Some (l, n, d) -> nth_error (cols t) ci = Some old ->
  getv s old = Some vold -> List.length l <> List.length (vals vold) ->
  step s (OSetAttr ht ci c h' sid' tsid') = (s, ErrOther).
Proof.
  intros Ht Hb Ho Hv Hl. unfold step. rewrite Ht, Hb, Ho, Hv.
  apply Nat.eqb_neq in Hl. rewrite Hl. reflexivity.
Qed.

(* ---- structural operations preserve cells ---------------------------------------- *)

(* the k-th allocated vector carries the k-th built column *)
Lemma alloc_cols_nth built : forall s hs sids s',
  alloc_cols s built hs sids = Some s' ->
  forall k h b, nth_error hs k = Some h -> nth_error built k = Some b ->
  exists v, getv s' h = Some v /\ vals v = fst (fst b) /\ nm v = snd (fst b) /\ dt v = snd b.
Proof.
  induction built as [|[[l n] d] bt IH]; intros s hs sids s' H k h b Hh Hb; simpl in H.
  - destruct k; discriminate.
  - destruct hs as [|h0 ht]; [discriminate|]. destruct sids as [|i it]; [discriminate|].
    destruct (aget (heap s) h0) eqn:Hf; [discriminate|].
    set (s1 := mkSt (heap s ++ [(h0, OV (mkVec l i n d None))]) (register (reg s) h0 i)) in *.
    destruct k as [|k]; simpl in Hh, Hb.
    + inversion Hh; inversion Hb; subst.
      assert (Hg1 : aget (heap s1) h = Some (OV (mkVec l i n d None))) by (unfold s1; simpl; apply aget_app_none; exact Hf).
      pose proof (alloc_cols_frame _ _ _ _ _ H _ _ Hg1) as Hg'. unfold getv. rewrite Hg'.
      eexists. split; [reflexivity|]. simpl. auto.
    + eapply IH; eassumption.
Qed.

Lemma build_all_nth cs : forall s built k c,
  build_all s cs = Some built -> nth_error cs k = Some c ->
  exists b, nth_error built k = Some b /\ build_col s c = Some b.
Proof.
  induction cs as [|c0 t IH]; intros s built k c Hb Hc; [destruct k; discriminate|].
  simpl in Hb. destruct (build_col s c0) as [b0|] eqn:E0; [|discriminate].
  destruct (build_all s t) as [bt|] eqn:Et; [|discriminate]. inversion Hb; subst.
  destruct k as [|k]; simpl in *.
  - inversion Hc; subst. exists b0. auto.
  - eapply IH; eassumption.
Qed.

(* What the k-th column of a freshly produced table holds, for each way of specifying it:
   a copy keeps the cells (>> leaves existing columns untouched), a row selection applies the
   SAME index list to every column it is used for, << appends the new rows at the end. *)
Theorem new_table_cells s ht cs chs sids tsid' s' k c h :
  step s (ONewTab ht cs chs sids tsid') = (s', Ok) ->
  nth_error cs k = Some c -> nth_error chs k = Some h ->
  exists v, getv s' h = Some v /\
    match c with
    | CFrom src None => exists vs, getv s src = Some vs /\ vals v = vals vs /\ nm v = nm vs
    | CFrom src (Some idx) => exists vs, getv s src = Some vs /\ vals v = select (vals vs) idx SNone /\ nm v = nm vs
    | CFromAs src n => exists vs, getv s src = Some vs /\ vals v = vals vs /\ nm v = n
    | CCat src extra => exists vs, getv s src = Some vs /\ vals v = vals vs ++ extra
    | CLit l n => vals v = l /\ nm v = n
    | CRes l n => vals v = l /\ nm v = n
    end.
Proof.
  intros H Hc Hh. unfold step in H.
  destruct (build_all s cs) as [built|] eqn:Hb; [|inversion H].
  destruct (negb (all_same_len built)); [inversion H|].
  destruct (alloc_cols s built chs sids) as [s1|] eqn:E; [|inversion H].
  destruct (aget (heap s1) ht) eqn:Hf; inversion H; subst. clear H.
  destruct (build_all_nth _ _ _ _ _ Hb Hc) as [b [Hnb Hbc]].
  destruct (alloc_cols_nth _ _ _ _ _ E _ _ _ Hh Hnb) as [v [Hv [Hvals [Hnm _]]]].
  exists v. split.
  - unfold getv in *. simpl. rewrite aget_app_other; [exact Hv|]. intros ->.
    rewrite Hf in Hv. discriminate.
  - destruct c as [src [idx|]|src n0|src extra|l n|l n]; simpl in Hbc.
    + destruct (getv s src) as [vs|]; [|discriminate].
      destruct (forallb _ idx); [|discriminate]. inversion Hbc; subst. exists vs. simpl in *. auto.
    + destruct (getv s src) as [vs|]; [|discriminate]. inversion Hbc; subst. exists vs. simpl in *. auto.
    + destruct (getv s src) as [vs|]; [|discriminate]. inversion Hbc; subst. exists vs. simpl in *. auto.
    + destruct (getv s src) as [vs|]; [|discriminate]. inversion Hbc; subst. exists vs. simpl in *. auto.
    + inversion Hbc; subst. simpl in *. auto.
    + inversion Hbc; subst. simpl in *. auto.
Qed.

(* ---- transposing twice gives back the original cells ------------------------------ *)
Section Transpose.
Context {A : Type} (d : A).

Definition transpose (m : list (list A)) (nrows : nat) : list (list A) :=
  map (fun i => map (fun col => nth i col d) m) (seq 0 nrows).

Lemma transpose_length m n : List.length (transpose m n) = n.
Proof. unfold transpose. rewrite map_length, seq_length. reflexivity. Qed.

Lemma transpose_nth m n i j :
  i < n -> j < List.length m -> nth j (nth i (transpose m n) []) d = nth i (nth j m []) d.
Proof.
  intros Hi Hj. unfold transpose.
  rewrite (nth_indep _ [] (map (fun col => nth 0 col d) m)) by (rewrite map_length, seq_length; exact Hi).
  rewrite (map_nth (fun i0 => map (fun col => nth i0 col d) m) (seq 0 n) 0 i).
  rewrite seq_nth by exact Hi. simpl.
  rewrite (nth_indep _ d (nth i [] d)) by (rewrite map_length; exact Hj).
  rewrite (map_nth (fun col => nth i col d) m [] j). reflexivity.
Qed.

Lemma transpose_row_length m n i : i < n -> List.length (nth i (transpose m n) []) = List.length m.
Proof.
  intros Hi. unfold transpose.
  rewrite (nth_indep _ [] (map (fun col => nth 0 col d) m)) by (rewrite map_length, seq_length; exact Hi).
  rewrite (map_nth (fun i0 => map (fun col => nth i0 col d) m) (seq 0 n) 0 i).
  rewrite map_length. reflexivity.
Qed.

(* for a rectangular m with ncols columns of nrows rows: T (T m) = m *)
Theorem transpose_involutive m nrows :
  Forall (fun col => List.length col = nrows) m ->
  transpose (transpose m nrows) (List.length m) = m.
Proof.
  intros Hrect. apply (nth_ext _ _ [] []).
  - apply transpose_length.
  - rewrite transpose_length. intros j Hj.
    assert (Hcol : List.length (nth j m []) = nrows).
    { rewrite Forall_forall in Hrect. apply Hrect. apply nth_In. exact Hj. }
    apply (nth_ext _ _ d d).
    + rewrite transpose_row_length by exact Hj. rewrite transpose_length. symmetry. exact Hcol.
    + rewrite transpose_row_length by exact Hj. rewrite transpose_length. intros i Hi.
      rewrite transpose_nth; [|exact Hj|rewrite transpose_length; exact Hi].
      apply transpose_nth; [exact Hi|exact Hj].
Qed.
End Transpose.
